import PymoodeProofs.C01
import PymoodeProofs.C03
import PymoodeProofs.C04
import PymoodeProofs.C09
import PymoodeProofs.C10
import PymoodeProofs.C11
import PymoodeProofs.C12
import PymoodeProofs.C16
