import PymoodeProofs.C11
