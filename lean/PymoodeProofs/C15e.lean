/-
C15, continued: the cut of RankAndCrowding keeps exactly what one-at-a-time pruning keeps — **for pcd** (the definition
`pcdFallback`, and through `C13.pcdKernelF_refines` the compiled kernel), under the hypotheses that make the compiled kernel
defined (`AllMaxOnce`) and a removal budget of `n_remove` non-extreme points.
-/
import PymoodeProofs.C15d
import PymoodeProofs.C15c

set_option linter.unusedSectionVars false
set_option linter.unusedVariables false
set_option linter.unusedSimpArgs false

namespace Pymoode
namespace C15
open C13

variable {α : Type} [Field α] [LinearOrder α] [IsStrictOrderedRing α] [Inhabited α]

/-- the loop invariant of pcd holds along the explicit live set; one member leaves per removal, never an extreme -/
theorem pcd_pruneLive_inv (f : List (List α)) (M : Nat) (hmax : AllMaxOnce f M) :
    ∀ (k : Nat) (live : List Nat) (dF : List (Ext α)), LiveOK f M live → PInv f M live dF →
      k ≤ (nonEx f M live).length →
      LiveOK f M (pruneLive (recomputeF f M) k live dF).1 ∧
      PInv f M (pruneLive (recomputeF f M) k live dF).1 (pruneLive (recomputeF f M) k live dF).2 ∧
      (pruneLive (recomputeF f M) k live dF).1.length = live.length - k ∧
      (nonEx f M (pruneLive (recomputeF f M) k live dF).1).length = (nonEx f M live).length - k
  | 0, live, dF, hl, hinv, _ => ⟨hl, hinv, by simp [pruneLive], by simp [pruneLive]⟩
  | k + 1, live, dF, hl, hinv, hb => by
    have hpos : 0 < (nonEx f M live).length := by omega
    obtain ⟨j, hj⟩ := List.exists_mem_of_length_pos hpos
    unfold nonEx at hj
    rw [List.mem_filter] at hj
    have hjne : j ∉ extremesFirst f M := by
      intro h; have := (contains_iff _ j).mpr h; rw [this] at hj; simp at hj
    obtain ⟨r, hr, hrl, hrne, hinv'⟩ := pinv_step f M hmax live dF hl hinv j hj.1 hjne
    unfold pruneLive
    rw [hr]
    simp only []
    have hnd := live_nodup hl
    have hlen : (live.filter (· != r)).length = live.length - 1 := by
      rw [← List.Nodup.erase_eq_filter hnd, List.length_erase_of_mem hrl]
    have hne' := nonEx_filter_length f M live hnd r hrl hrne
    obtain ⟨h1, h2, h3, h4⟩ := pcd_pruneLive_inv f M hmax k _ _ (liveOK_filter f M live hl r hrne) hinv' (by omega)
    have hlpos : 0 < live.length := List.length_pos_of_mem hrl
    exact ⟨h1, h2, by rw [h3, hlen]; omega, by rw [h4, hne']; omega⟩

/-- **C15 (pcd definition): the members the cut keeps are exactly those one-at-a-time pruning keeps** -/
theorem pcd_truncation_is_greedy (f : List (List α)) (M : Nat) (c : α) (k : Nat) (hne : f ≠ []) (hc : 0 < c)
    (hmax : AllMaxOnce f M) (hk1 : 1 ≤ k) (hk2 : k + M ≤ f.length)
    (hbud : k ≤ (nonEx f M (List.range f.length)).length)
    (s : List Nat) (hsperm : s.Perm (List.range f.length))
    (hs : SortedDesc (fun i => (pcdFallback f M c (k : Int)).getD i Ext.top) s)
    (hstrict : ∀ a b, a < f.length → b < f.length → a ≠ b →
      (pcdFallback f M c (k : Int)).getD a Ext.top ≠ (pcdFallback f M c (k : Int)).getD b Ext.top ∨
      ((pcdFallback f M c (k : Int)).getD a Ext.top = Ext.top ∧ (pcdFallback f M c (k : Int)).getD b Ext.top = Ext.top)) :
    let d0 := pcdScratch (normalizeCols f M) (List.range f.length) M (extremesFirst f M) f.length (f.map fun _ => Ext.top)
    (∃ r, dropLast (pruneLive (recomputeF f M) (k - 1) (List.range f.length) d0).2
        (pruneLive (recomputeF f M) (k - 1) (List.range f.length) d0).1 = some r ∧
      ((pcdFallback f M c (k : Int)).getD r Ext.top ≠ Ext.top →
        ∀ i, i ∈ s.take (f.length - k) ↔ i ∈ (pruneLive (recomputeF f M) k (List.range f.length) d0).1)) := by
  intro d0
  set n := f.length with hn
  have hcl : clampRemove (k : Int) n M = (k : Int) := by
    unfold clampRemove
    rw [if_pos (by omega), if_neg (by omega)]
  have hinit : PInv f M (List.range n) d0 :=
    ⟨⟨_, rfl⟩, fun kk hkk hkl => absurd (List.mem_range.mpr hkk) hkl⟩
  obtain ⟨hl, hinv, hlen, hnex⟩ := pcd_pruneLive_inv f M hmax (k - 1) (List.range n) d0 (liveOK_range f M hne) hinit (by omega)
  set live := (pruneLive (recomputeF f M) (k - 1) (List.range n) d0).1 with hlive
  set dF := (pruneLive (recomputeF f M) (k - 1) (List.range n) d0).2 with hdF
  have hfb : pcdFallback f M c (k : Int) = dF.map (Ext.mapFin (· / c)) := by
    unfold pcdFallback
    simp only []
    rw [hcl, hdF, pruneLive_snd]
    congr 2
    omega
  rw [List.length_range] at hlen
  -- a non-extreme point is still alive: the loop can take one more step
  have hpos : 0 < (nonEx f M live).length := by omega
  obtain ⟨j, hj⟩ := List.exists_mem_of_length_pos hpos
  unfold nonEx at hj
  rw [List.mem_filter] at hj
  have hjne : j ∉ extremesFirst f M := by
    intro h; have := (contains_iff _ j).mpr h; rw [this] at hj; simp at hj
  obtain ⟨r, hr, hrl, hrne, _⟩ := pinv_step f M hmax live dF hl hinv j hj.1 hjne
  refine ⟨r, hr, fun hrfin => ?_⟩
  obtain ⟨_, hrmin⟩ := dropLast_spec dF live r hr
  have hnext : (pruneLive (recomputeF f M) k (List.range n) d0).1 = live.filter (· != r) := by
    have := pruneLive_succ (recomputeF f M) (k - 1) (List.range n) d0
    rw [show k - 1 + 1 = k by omega] at this
    rw [this, ← hlive, ← hdF, hr]
  rw [hnext]
  set d := dF.map (Ext.mapFin (· / c)) with hd
  rw [hfb] at hrfin hs hstrict
  have hle_map : ∀ a b, extLe (dF.getD a Ext.top) (dF.getD b Ext.top) = true →
      extLe (d.getD a Ext.top) (d.getD b Ext.top) = true := by
    intro a b h
    rw [hd, getD_map_mapFin, getD_map_mapFin]
    unfold extLe at h ⊢
    rw [lt_mapFin c hc]
    exact h
  have hnd := live_nodup hl
  have hstrict' : ∀ a b, a < n → b < n → a ≠ b → extLe (d.getD a Ext.top) (d.getD b Ext.top) = true →
      d.getD a Ext.top ≠ Ext.top → Ext.lt (d.getD a Ext.top) (d.getD b Ext.top) = true := by
    intro a b ha hb hab hle hfin
    exact ext_lt_of_le_ne _ _ hle hfin (hstrict a b ha hb hab)
  have key := truncation_is_greedy_step (fun i => d.getD i Ext.top) n s live r hsperm hs hnd hl.lt hrl
    (by
      intro kk hkk hkl i hil
      have hle := hle_map kk i (hinv.stale kk hkk hkl i hil)
      have hkfin : d.getD kk Ext.top ≠ Ext.top := by
        intro htop
        have h1 := hle_map kk r (hinv.stale kk hkk hkl r hrl)
        rw [htop] at h1
        cases hdr : d.getD r Ext.top with
        | top => exact hrfin hdr
        | fin a => rw [hdr] at h1; simp [extLe, Ext.lt] at h1
      have hne' : kk ≠ i := fun e => hkl (e ▸ hil)
      exact hstrict' kk i hkk (hl.lt i hil) hne' hle hkfin)
    (by
      intro i hil hir
      exact hstrict' r i (hl.lt r hrl) (hl.lt i hil) (Ne.symm hir) (hle_map r i (hrmin i hil)) hrfin)
  intro i
  rw [show n - k = live.length - 1 by omega, key i, List.mem_filter]
  simp

/-- the same for the values the **compiled** pcd kernel returns (through `C13.pcdKernelF_refines`) -/
theorem pcdKernel_truncation_is_greedy (f : List (List α)) (M : Nat) (c : α) (k : Nat) (hne : f ≠ []) (hc : 0 < c)
    (hmax : AllMaxOnce f M) (hk1 : 1 ≤ k) (hk2 : k + M ≤ f.length)
    (hbud : k ≤ (nonEx f M (List.range f.length)).length)
    (s : List Nat) (hsperm : s.Perm (List.range f.length))
    (hs : SortedDesc (fun i => (pcdKernelF f M c (k : Int)).1.getD i Ext.top) s)
    (hstrict : ∀ a b, a < f.length → b < f.length → a ≠ b →
      (pcdKernelF f M c (k : Int)).1.getD a Ext.top ≠ (pcdKernelF f M c (k : Int)).1.getD b Ext.top ∨
      ((pcdKernelF f M c (k : Int)).1.getD a Ext.top = Ext.top ∧ (pcdKernelF f M c (k : Int)).1.getD b Ext.top = Ext.top)) :
    let d0 := pcdScratch (normalizeCols f M) (List.range f.length) M (extremesFirst f M) f.length (f.map fun _ => Ext.top)
    (∃ r, dropLast (pruneLive (recomputeF f M) (k - 1) (List.range f.length) d0).2
        (pruneLive (recomputeF f M) (k - 1) (List.range f.length) d0).1 = some r ∧
      ((pcdKernelF f M c (k : Int)).1.getD r Ext.top ≠ Ext.top →
        ∀ i, i ∈ s.take (f.length - k) ↔ i ∈ (pruneLive (recomputeF f M) k (List.range f.length) d0).1)) := by
  have hb : Budget f M (k : Int) := by
    unfold Budget
    have hcl : clampRemove (k : Int) f.length M = (k : Int) := by
      unfold clampRemove
      rw [if_pos (by omega), if_neg (by omega)]
    rw [hcl]
    omega
  rw [pcdKernelF_refines f M c (k : Int) hne hc hmax hb] at hs hstrict ⊢
  exact pcd_truncation_is_greedy f M c k hne hc hmax hk1 hk2 hbud s hsperm hs hstrict

end C15
end Pymoode
