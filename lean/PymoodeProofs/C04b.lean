/-
C03-C08, C16: the executable contract of the non-dominated-sorting oracle that the driver evaluates on every recorded
sorting result (`isFrontsb`) is exactly the contract the theorems assume (`IsFronts`).
-/
import PymoodeProofs.C04
namespace Pymoode
namespace C04

theorem frontOKb_iff (dom : Nat → Nat → Bool) (m : Nat) (fronts : List (List Nat)) (k : Nat) :
    frontOKb dom m fronts k = true ↔ FrontOK dom m fronts k := by
  unfold frontOKb FrontOK
  simp only [List.all_eq_true, List.mem_range, beq_iff_eq]
  constructor
  · intro h i hi
    have := h i hi
    constructor
    · intro hmem
      have e : decide (i ∈ fronts.getD k []) = true := by simpa using hmem
      rw [e] at this
      have h2 := this.symm
      simp only [Bool.and_eq_true, Bool.not_eq_eq_eq_not, Bool.not_true, List.all_eq_true, List.mem_range,
        Bool.or_eq_true] at h2
      refine ⟨by simpa using h2.1, fun j hj hd => ?_⟩
      rcases h2.2 j hj with h3 | h3
      · rw [hd] at h3; simp at h3
      · simpa using h3
    · intro ⟨h1, h2⟩
      have e : (!(earlier fronts k).contains i && (List.range m).all fun j => !dom j i || (earlier fronts k).contains j) = true := by
        simp only [Bool.and_eq_true, Bool.not_eq_eq_eq_not, Bool.not_true, List.all_eq_true, List.mem_range,
          Bool.or_eq_true]
        refine ⟨by simpa using h1, fun j hj => ?_⟩
        by_cases hd : dom j i = true
        · right; simpa using h2 j hj hd
        · left; simpa using hd
      rw [e] at this
      simpa using this
  · intro h i hi
    have := h i hi
    by_cases hmem : i ∈ fronts.getD k []
    · obtain ⟨h1, h2⟩ := this.mp hmem
      have e1 : decide (i ∈ fronts.getD k []) = true := by simpa using hmem
      rw [e1]
      symm
      simp only [Bool.and_eq_true, Bool.not_eq_eq_eq_not, Bool.not_true, List.all_eq_true, List.mem_range,
        Bool.or_eq_true]
      refine ⟨by simpa using h1, fun j hj => ?_⟩
      by_cases hd : dom j i = true
      · right; simpa using h2 j hj hd
      · left; simpa using hd
    · have e1 : decide (i ∈ fronts.getD k []) = false := by simpa using hmem
      rw [e1]
      symm
      apply Bool.eq_false_iff.mpr
      intro hne'
      simp only [Bool.and_eq_true, Bool.not_eq_eq_eq_not, Bool.not_true, List.all_eq_true, List.mem_range,
        Bool.or_eq_true] at hne'
      apply hmem
      apply this.mpr
      refine ⟨by simpa using hne'.1, fun j hj hd => ?_⟩
      rcases hne'.2 j hj with h3 | h3
      · rw [hd] at h3; simp at h3
      · simpa using h3

/-- **the executable contract the driver evaluates on every recorded sorting result is the contract the theorems
assume** -/
theorem isFrontsb_iff (dom : Nat → Nat → Bool) (m nStop : Nat) (fronts : List (List Nat)) :
    isFrontsb dom m nStop fronts = true ↔ IsFronts dom m nStop fronts := by
  unfold isFrontsb
  simp only [Bool.and_eq_true, List.all_eq_true, decide_eq_true_eq, Bool.or_eq_true, beq_iff_eq, List.mem_range,
    frontOKb_iff, Bool.not_eq_eq_eq_not, Bool.not_true, List.isEmpty_eq_false_iff]
  constructor
  · rintro ⟨⟨⟨⟨h1, h2⟩, h3⟩, h4⟩, h5⟩
    exact ⟨h1, h2, h3, h4, h5⟩
  · intro h
    exact ⟨⟨⟨⟨h.valid, h.nodup⟩, h.nonempty⟩, h.peel⟩, h.stop⟩

/-- non-vacuity: a three-point population in which point 0 dominates point 1 -/
example : IsFronts (fun a b => a == 0 && b == 1) 3 3 [[0, 2], [1]] :=
  (isFrontsb_iff _ 3 3 _).mp (by decide)

end C04
end Pymoode
