/-
C13 / C14, continued (part 2 of the pcd refinement): the sorted live columns `S m live`, their ends
(first arg-min at the head, and — when the maximum is attained once — first arg-max at the end), the
monotone normalisation, and what each piece of the functional kernel computes on a padded column.
-/
import PymoodeProofs.C13d

set_option linter.unusedSectionVars false
set_option linter.unusedVariables false

namespace Pymoode
namespace C13

variable {α : Type} [Field α] [LinearOrder α] [IsStrictOrderedRing α] [Inhabited α]

/-- the comparison `argsortStable` sorts by, on keys `v` -/
def leBy (v : Nat → α) (a b : Nat) : Bool := !decide (v b < v a)

theorem leBy_iff (v : Nat → α) (a b : Nat) : leBy v a b = true ↔ v a ≤ v b := by
  simp [leBy]

theorem leBy_trans (v : Nat → α) (a b c : Nat) (h1 : leBy v a b = true) (h2 : leBy v b c = true) :
    leBy v a c = true := by
  rw [leBy_iff] at *; exact le_trans h1 h2

theorem leBy_total (v : Nat → α) (a b : Nat) : (leBy v a b || leBy v b a) = true := by
  simp only [Bool.or_eq_true, leBy_iff]; exact le_total _ _

/-- the live points sorted by key, ties by index -/
def sortedLive (v : Nat → α) (live : List Nat) : List Nat := live.mergeSort (leBy v)

theorem argsortStable_eq (col : List α) :
    argsortStable col = sortedLive (fun i => col.getD i default) (List.range col.length) := rfl

theorem sortedLive_perm (v : Nat → α) (live : List Nat) : (sortedLive v live).Perm live :=
  List.mergeSort_perm _ _

theorem sortedLive_mem (v : Nat → α) (live : List Nat) (i : Nat) : i ∈ sortedLive v live ↔ i ∈ live :=
  (sortedLive_perm v live).mem_iff

theorem sortedLive_length (v : Nat → α) (live : List Nat) : (sortedLive v live).length = live.length :=
  (sortedLive_perm v live).length_eq

theorem sortedLive_nodup (v : Nat → α) (live : List Nat) (h : live.Pairwise (· < ·)) : (sortedLive v live).Nodup :=
  (sortedLive_perm v live).nodup_iff.mpr (h.imp (fun h => Nat.ne_of_lt h))

theorem sortedLive_lex (v : Nat → α) (live : List Nat) (h : live.Pairwise (· < ·)) :
    (sortedLive v live).Pairwise (LexLt (leBy v)) :=
  mergeSort_lex _ (leBy_trans v) (leBy_total v) live h

theorem sortedLive_filter (v : Nat → α) (live : List Nat) (h : live.Pairwise (· < ·)) (p : Nat → Bool) :
    (sortedLive v live).filter p = sortedLive v (live.filter p) :=
  mergeSort_filter _ (leBy_trans v) (leBy_total v) live h p

theorem sortedLive_congr (v w : Nat → α) (live : List Nat)
    (h : ∀ a ∈ live, ∀ b ∈ live, (v a < v b ↔ w a < w b)) : sortedLive v live = sortedLive w live := by
  apply mergeSort_congr
  intro a ha b hb
  simp only [leBy]
  rw [decide_eq_decide.mpr (h b hb a ha)]

/-- head of a sorted live column: the first holder of the minimum -/
theorem sortedLive_head (v : Nat → α) (live : List Nat) (h : live.Pairwise (· < ·)) (a : Nat) (ha : a ∈ live)
    (hmin : ∀ b ∈ live, v a ≤ v b) (hfirst : ∀ b ∈ live, b < a → v a < v b) :
    (sortedLive v live).head? = some a := by
  apply lex_head _ _ (sortedLive_lex v live h) a ((sortedLive_mem v live a).mpr ha)
  intro b hb hne
  have hb' := (sortedLive_mem v live b).mp hb
  refine ⟨(leBy_iff v a b).mpr (hmin b hb'), fun hba => ?_⟩
  rw [leBy_iff] at hba
  by_contra hnlt
  have : b < a := by omega
  exact absurd (hfirst b hb' this) (not_lt.mpr hba)

/-- end of a sorted live column: the holder of the maximum, when it is attained once -/
theorem sortedLive_last (v : Nat → α) (live : List Nat) (h : live.Pairwise (· < ·)) (a : Nat) (ha : a ∈ live)
    (hmax : ∀ b ∈ live, b ≠ a → v b < v a) : (sortedLive v live).getLast? = some a := by
  apply lex_last _ _ (sortedLive_lex v live h) a ((sortedLive_mem v live a).mpr ha)
  intro b hb hne
  have hb' := (sortedLive_mem v live b).mp hb
  have hlt := hmax b hb' hne
  refine ⟨(leBy_iff v b a).mpr (le_of_lt hlt), fun hab => ?_⟩
  rw [leBy_iff] at hab
  exact absurd hlt (not_lt.mpr hab)

/-- `X[i, m]` read through the column -/
theorem column_getD (x : List (List α)) (m i : Nat) : (column x m).getD i default = xAt x i m := by
  unfold column xAt
  rw [List.getD_eq_getElem?_getD, List.getD_eq_getElem?_getD, List.getElem?_map]
  cases h : x[i]? <;> simp [h]


/-! ### ends of the sorted live columns of a front -/

/-- key of objective `m`: the raw objective value -/
def vf (f : List (List α)) (m : Nat) : Nat → α := fun i => (column f m).getD i default

theorem column_length (f : List (List α)) (m : Nat) : (column f m).length = f.length := by
  simp [column]

/-- the first arg-min of objective `m` heads the sorted live column -/
theorem S_head (f : List (List α)) (m : Nat) (live : List Nat) (h : live.Pairwise (· < ·))
    (hlt : ∀ i ∈ live, i < f.length) (hne : f ≠ []) (ha : argminFirst (column f m) ∈ live) :
    (sortedLive (vf f m) live).head? = some (argminFirst (column f m)) := by
  have hcne : column f m ≠ [] := by
    intro hc; apply hne; have := column_length f m; rw [hc] at this; exact List.length_eq_zero_iff.mp this.symm
  obtain ⟨h1, h2, h3⟩ := argminFirst_firstMin (column f m) hcne
  rw [column_length] at h1 h2
  apply sortedLive_head _ _ h _ ha
  · intro b hb; exact h2 b (hlt b hb)
  · intro b hb hba; exact h3 b hba

/-- when the maximum of objective `m` is attained once, its holder ends the sorted live column -/
theorem S_last (f : List (List α)) (m : Nat) (live : List Nat) (h : live.Pairwise (· < ·))
    (hlt : ∀ i ∈ live, i < f.length) (hne : f ≠ []) (ha : argmaxFirst (column f m) ∈ live)
    (honce : MaxOnce (column f m)) :
    (sortedLive (vf f m) live).getLast? = some (argmaxFirst (column f m)) := by
  have hcne : column f m ≠ [] := by
    intro hc; apply hne; have := column_length f m; rw [hc] at this; exact List.length_eq_zero_iff.mp this.symm
  obtain ⟨h1, h2, h3⟩ := argmaxFirst_firstMax (column f m) hcne
  apply sortedLive_last _ _ h _ ha
  intro b hb hne'
  by_contra hnlt
  have hle : vf f m (argmaxFirst (column f m)) ≤ vf f m b := not_lt.mp hnlt
  have hbl : b < (column f m).length := by rw [column_length]; exact hlt b hb
  apply hne'
  exact honce b _ hbl h1 (fun k hk => le_trans (h2 k hk) hle) h2

/-! ### the normalisation is strictly monotone in every objective -/

theorem normalize_length (f : List (List α)) (M : Nat) : (normalizeCols f M).length = f.length := by
  simp [normalizeCols]

theorem normalize_xAt (f : List (List α)) (M i m : Nat) (hi : i < f.length) (hm : m < M) :
    ∃ lo d : α, 0 < d ∧ ∀ j, j < f.length → xAt (normalizeCols f M) j m = (xAt f j m - lo) / d := by
  have hne : f ≠ [] := by intro h; rw [h] at hi; simp at hi
  have hcne : column f m ≠ [] := by
    intro hc; apply hne; have := column_length f m; rw [hc] at this; exact List.length_eq_zero_iff.mp this.symm
  obtain ⟨a1, a2, a3⟩ := argminFirst_firstMin (column f m) hcne
  obtain ⟨b1, b2, b3⟩ := argmaxFirst_firstMax (column f m) hcne
  set lo := (column f m).getD (argminFirst (column f m)) default with hlo
  set hi' := (column f m).getD (argmaxFirst (column f m)) default with hhi
  have hle : lo ≤ hi' := a2 _ b1
  refine ⟨lo, if lo < hi' then hi' - lo else (if hi' < lo then hi' - lo else 1), ?_, ?_⟩
  · split
    · linarith
    · rw [if_neg (not_lt.mpr hle)]; exact one_pos
  · intro j hj
    unfold xAt normalizeCols
    simp only [List.getD_eq_getElem?_getD, List.getElem?_map, List.getElem?_range hm,
      List.getElem?_eq_getElem hj, Option.map_some, Option.getD_some]
    simp only [← List.getD_eq_getElem?_getD, ← hlo, ← hhi]

theorem normalize_lt_iff (f : List (List α)) (M m : Nat) (hm : m < M) (a b : Nat) (ha : a < f.length)
    (hb : b < f.length) :
    xAt (normalizeCols f M) a m < xAt (normalizeCols f M) b m ↔ xAt f a m < xAt f b m := by
  obtain ⟨lo, d, hd, h⟩ := normalize_xAt f M a m ha hm
  rw [h a ha, h b hb, div_lt_div_iff_of_pos_right hd, sub_lt_sub_iff_right]


/-! ### what the functional kernel computes on padded columns -/

theorem getD_mem (s : List Nat) (j : Nat) (hj : j < s.length) : s.getD j 0 ∈ s := by
  rw [getD_of_lt s j hj]; exact List.getElem_mem hj

theorem prevOf_mem (s : List Nat) (i : Nat) (hi : i ∈ s) : prevOf s i ∈ s := by
  have hp := List.idxOf_lt_length_iff.mpr hi
  exact getD_mem s _ (by omega)

theorem nextOf_mem (s : List Nat) (i : Nat) (h : s.idxOf i + 1 < s.length) : nextOf s i ∈ s :=
  getD_mem s _ h

/-- `c_calc_pcd_iter`, one point and one objective, on a padded column in which the point is interior -/
theorem cell_eval (x : List (List α)) (nObjS : α) (s : List Nat) (n m i : Nat) (cur : Ext α × Bool)
    (hs : s.Nodup) (hlen : s.length ≤ n) (hlt : ∀ j ∈ s, j < n) (hx : x.length = n) (hi : i ∈ s)
    (hint : Interior s i) :
    pcdCell x nObjS (padLast s n) m i cur =
      (Ext.fin ((xAt x (nextOf s i) m - xAt x (prevOf s i) m) / nObjS), cur.2) := by
  have hp := List.idxOf_lt_length_iff.mpr hi
  obtain ⟨h0, h1⟩ := hint
  have hL := padLast_length s n hlen
  have hc : (padLast s n).getD (s.idxOf i) 0 = i := by
    rw [padLast_getD_lt s n _ hp, getD_of_lt s _ hp]; exact List.getElem_idxOf hp
  have huniq : ∀ q, q < (padLast s n).length → q ≠ s.idxOf i → ¬ (padLast s n).getD q 0 = i := by
    intro q hq hne heq
    rw [hL] at hq
    rcases Nat.lt_or_ge q s.length with hql | hql
    · rw [padLast_getD_lt s n q hql, getD_of_lt s q hql] at heq
      apply hne
      rw [← heq]; exact (idxOf_getElem_nodup s hs q hql).symm
    · rw [padLast_getD_ge s n q hql hq, getLastD_eq s (by omega), getD_of_lt s _ (by omega)] at heq
      have := idxOf_getElem_nodup s hs (s.length - 1) (by omega)
      rw [heq] at this
      omega
  have key := foldl_range_unique (β := Ext α × Bool) (fun q => (padLast s n).getD q 0 = i)
    (fun acc q =>
      (Ext.fin ((xAt x ((padLast s n).getD (q + 1) 0) m - xAt x ((padLast s n).getD (q - 1) 0) m) / nObjS),
        acc.2 && decide (0 < q ∧ q + 1 < (padLast s n).length ∧ (padLast s n).getD (q - 1) 0 < x.length ∧
          (padLast s n).getD (q + 1) 0 < x.length)))
    cur (s.idxOf i) hc (padLast s n).length (by rw [hL]; omega) huniq
  unfold pcdCell
  refine Eq.trans key ?_
  have e1 : (padLast s n).getD (s.idxOf i + 1) 0 = nextOf s i := padLast_getD_lt s n _ h1
  have e2 : (padLast s n).getD (s.idxOf i - 1) 0 = prevOf s i := padLast_getD_lt s n _ (by omega)
  rw [e1, e2, hL, hx]
  have hn := hlt _ (nextOf_mem s i h1)
  have hpv := hlt _ (prevOf_mem s i hi)
  have : decide (0 < s.idxOf i ∧ s.idxOf i + 1 < n ∧ prevOf s i < n ∧ nextOf s i < n) = true := by
    simp only [decide_eq_true_eq]; exact ⟨h0, by omega, hpv, hn⟩
  rw [this, Bool.and_true]

theorem foldl_set_prefix {β : Type} (g : Nat → β) (row : List β) : ∀ (j : Nat), j ≤ row.length →
    (List.range j).foldl (fun acc m => acc.set m (g m)) row = (List.range j).map g ++ row.drop j
  | 0, _ => by simp
  | j + 1, hj => by
    rw [List.range_succ, List.foldl_append, foldl_set_prefix g row j (by omega)]
    simp only [List.foldl_cons, List.foldl_nil, List.map_append, List.map_cons, List.map_nil]
    have hl : ((List.range j).map g).length = j := by simp
    rw [List.set_append_right _ _ (by omega), hl, Nat.sub_self]
    rw [List.drop_eq_getElem_cons (by omega : j < row.length)]
    simp only [List.set_cons_zero, List.append_assoc, List.singleton_append]

/-- `c_calc_pcd_iter` for one point: the whole row of gaps -/
theorem row_eval (x : List (List α)) (nObjS : α) (S : Nat → List Nat) (n M i : Nat) (row : List (Ext α)) (ok : Bool)
    (hrow : row.length = M) (hx : x.length = n)
    (hS : ∀ m, m < M → (S m).Nodup ∧ (S m).length ≤ n ∧ (∀ j ∈ S m, j < n) ∧ i ∈ S m ∧ Interior (S m) i) :
    pcdRow x nObjS ((List.range M).map fun m => padLast (S m) n) i (row, ok) =
      ((List.range M).map fun m => Ext.fin ((xAt x (nextOf (S m) i) m - xAt x (prevOf (S m) i) m) / nObjS), ok) := by
  unfold pcdRow
  simp only [List.length_map, List.length_range]
  -- every step writes the evaluated cell and keeps the flag
  have hstep : ∀ (acc : List (Ext α) × Bool), ∀ m ∈ List.range M,
      (fun (acc : List (Ext α) × Bool) m =>
        let r := pcdCell x nObjS (((List.range M).map fun m => padLast (S m) n).getD m []) m i (acc.1.getD m Ext.top, acc.2)
        (acc.1.set m r.1, r.2)) acc m =
      (acc.1.set m (Ext.fin ((xAt x (nextOf (S m) i) m - xAt x (prevOf (S m) i) m) / nObjS)), acc.2) := by
    intro acc m hm
    have hm' : m < M := List.mem_range.mp hm
    obtain ⟨a1, a2, a3, a4, a5⟩ := hS m hm'
    have hcol : ((List.range M).map fun m => padLast (S m) n).getD m [] = padLast (S m) n := by
      rw [List.getD_eq_getElem?_getD, List.getElem?_map, List.getElem?_range hm']; rfl
    simp only [hcol, cell_eval x nObjS (S m) n m i _ a1 a2 a3 hx a4 a5]
  rw [List.foldl_ext _ _ _ hstep]
  -- the flag is carried unchanged; the row is overwritten position by position
  have hsplit : ∀ (l : List Nat) (acc : List (Ext α) × Bool),
      l.foldl (fun (acc : List (Ext α) × Bool) m =>
        (acc.1.set m (Ext.fin ((xAt x (nextOf (S m) i) m - xAt x (prevOf (S m) i) m) / nObjS)), acc.2)) acc =
      (l.foldl (fun r m => r.set m (Ext.fin ((xAt x (nextOf (S m) i) m - xAt x (prevOf (S m) i) m) / nObjS))) acc.1, acc.2) := by
    intro l
    induction l with
    | nil => intro acc; rfl
    | cons a t ih => intro acc; simp only [List.foldl_cons]; rw [ih]
  rw [hsplit]
  simp only
  rw [foldl_set_prefix _ row M (by omega), List.drop_eq_nil_of_le (by omega), List.append_nil]


/-- a fold of point updates: the touched positions hold the new values, the others are unchanged -/
theorem foldl_set_getD {β : Type} (g : Nat → β) (dflt : β) : ∀ (items : List Nat) (d : List β),
    (items.foldl (fun d i => d.set i (g i)) d).length = d.length ∧
    ∀ j, (items.foldl (fun d i => d.set i (g i)) d).getD j dflt =
      if j ∈ items ∧ j < d.length then g j else d.getD j dflt
  | [], d => by simp
  | a :: t, d => by
    simp only [List.foldl_cons]
    obtain ⟨h1, h2⟩ := foldl_set_getD g dflt t (d.set a (g a))
    refine ⟨by rw [h1, List.length_set], fun j => ?_⟩
    rw [h2 j, List.length_set]
    by_cases hjt : j ∈ t
    · by_cases hjl : j < d.length
      · simp [hjt, hjl]
      · simp only [hjt, hjl, and_false, ↓reduceIte, List.mem_cons, or_true]
        rw [List.getD_eq_getElem?_getD, List.getD_eq_getElem?_getD, List.getElem?_set]
        by_cases haj : a = j
        · subst haj; simp [hjl]
        · simp [haj]
    · simp only [hjt, false_and, ↓reduceIte, List.mem_cons, or_false]
      rw [List.getD_eq_getElem?_getD, List.getElem?_set]
      by_cases haj : a = j
      · subst haj
        by_cases hjl : a < d.length
        · simp [hjl]
        · simp [hjl, List.getD_eq_getElem?_getD]
      · have : ¬ j = a := fun h => haj h.symm
        simp [haj, this, List.getD_eq_getElem?_getD]

/-- the row of gaps of point `i` in the columns `S` -/
def rowOf (x : List (List α)) (nObjS : α) (S : Nat → List Nat) (M i : Nat) : List (Ext α) :=
  (List.range M).map fun m => Ext.fin ((xAt x (nextOf (S m) i) m - xAt x (prevOf (S m) i) m) / nObjS)

/-- `c_calc_pcd_iter`: every item gets its row of gaps, the flag survives -/
theorem iter_eval (x : List (List α)) (nObjS : α) (S : Nat → List Nat) (n M : Nat) (ok : Bool) (hx : x.length = n) :
    ∀ (items : List Nat) (dmat : List (List (Ext α))),
    (∀ i, i < dmat.length → (dmat.getD i []).length = M) →
    (∀ i ∈ items, i < dmat.length ∧ ∀ m, m < M →
      (S m).Nodup ∧ (S m).length ≤ n ∧ (∀ j ∈ S m, j < n) ∧ i ∈ S m ∧ Interior (S m) i) →
    pcdIter x nObjS ((List.range M).map fun m => padLast (S m) n) items (dmat, ok) =
      (items.foldl (fun dm i => dm.set i (rowOf x nObjS S M i)) dmat, ok)
  | [], dmat, _, _ => rfl
  | a :: t, dmat, hrows, hitems => by
    unfold pcdIter
    simp only [List.foldl_cons]
    obtain ⟨ha, hS⟩ := hitems a (by simp)
    have hrow := row_eval x nObjS S n M a (dmat.getD a []) ok (hrows a ha) hx hS
    rw [hrow]
    have := iter_eval x nObjS S n M ok hx t (dmat.set a (rowOf x nObjS S M a))
      (by
        intro i hi
        rw [List.length_set] at hi
        rw [List.getD_eq_getElem?_getD, List.getElem?_set]
        by_cases hai : a = i
        · subst hai; simp [ha, rowOf]
        · simp only [hai, ↓reduceIte]
          rw [← List.getD_eq_getElem?_getD]; exact hrows i hi)
      (by
        intro i hi
        rw [List.length_set]
        exact hitems i (List.mem_cons_of_mem _ hi))
    unfold pcdIter at this
    exact this

theorem mem_insertSorted (x j : Nat) : ∀ (l : List Nat), j ∈ insertSorted x l ↔ j = x ∨ j ∈ l
  | [] => by simp [insertSorted]
  | y :: ys => by
    unfold insertSorted
    split
    · simp
    · split
      · rename_i h1 h2; subst h2; simp
      · simp only [List.mem_cons, mem_insertSorted x j ys]
        tauto

theorem padLast_getD_mem (s : List Nat) (n q : Nat) (hs : s ≠ []) (hn : s.length ≤ n) (hq : q < n) :
    (padLast s n).getD q 0 ∈ s := by
  have hpos : 0 < s.length := List.length_pos_iff.mpr hs
  rcases Nat.lt_or_ge q s.length with h | h
  · rw [padLast_getD_lt s n q h]; exact getD_mem s q h
  · rw [padLast_getD_ge s n q h hq, getLastD_eq s hpos]; exact getD_mem s _ (by omega)

/-- `c_get_calc_items` on one padded column in which `k` is interior -/
theorem scan_col (s : List Nat) (n k : Nat) (acc : List Nat × Bool) (hs : s.Nodup) (hlen : s.length ≤ n)
    (hk : k ∈ s) (hint : Interior s k) :
    pcdScanCol k (padLast s n).length 0 (padLast s n) acc =
      (padLast (s.filter (· != k)) n,
        (insertSorted (prevOf s k) (insertSorted (nextOf s k) acc.1), acc.2)) := by
  have hp := List.idxOf_lt_length_iff.mpr hk
  obtain ⟨h0, h1⟩ := hint
  have hL := padLast_length s n hlen
  have hshift : shiftAt (padLast s n) (s.idxOf k) = padLast (s.filter (· != k)) n := by
    rw [shiftAt_padLast s n _ h1 hlen, filter_ne_eq_eraseIdx s hs k hk]
  have hlen' : (s.filter (· != k)).length = s.length - 1 := by
    rw [filter_ne_eq_eraseIdx s hs k hk]; exact List.length_eraseIdx_of_lt hp
  have hne' : s.filter (· != k) ≠ [] := by
    intro h; rw [h] at hlen'; simp at hlen'; omega
  have key := scan_find k (s.idxOf k) (padLast s n) acc (by rw [hL]; omega)
    (by rw [padLast_getD_lt s n _ hp, getD_of_lt s _ hp]; exact List.getElem_idxOf hp)
    (by
      intro q hq heq
      rw [padLast_getD_lt s n q (by omega), getD_of_lt s q (by omega)] at heq
      have := idxOf_getElem_nodup s hs q (by omega)
      rw [heq] at this; omega)
    (by
      intro q hq1 hq2 heq
      rw [hshift] at heq
      rw [hL] at hq2
      have hm := padLast_getD_mem (s.filter (· != k)) n q hne' (by rw [hlen']; omega) hq2
      rw [heq] at hm
      simp at hm)
    (s.idxOf k) 0 (padLast s n).length (by omega) (by omega)
  rw [key, hshift]
  have e1 : (padLast s n).getD (s.idxOf k + 1) 0 = nextOf s k := padLast_getD_lt s n _ h1
  have e2 : (padLast s n).getD (s.idxOf k - 1) 0 = prevOf s k := padLast_getD_lt s n _ (by omega)
  rw [e1, e2, hL]
  have : decide (0 < s.idxOf k ∧ s.idxOf k + 1 < n) = true := by
    simp only [decide_eq_true_eq]; exact ⟨h0, by omega⟩
  rw [this, Bool.and_true]

/-- `c_get_calc_items`: all columns -/
theorem getCalcItems_eval (S : Nat → List Nat) (n k : Nat) : ∀ (ms : List Nat) (cs : List (List Nat)) (its : List Nat) (ok : Bool),
    (∀ m ∈ ms, (S m).Nodup ∧ (S m).length ≤ n ∧ k ∈ S m ∧ Interior (S m) k) →
    ∃ its', (ms.map fun m => padLast (S m) n).foldl (fun acc col =>
        let r := pcdScanCol k col.length 0 col acc.2
        (acc.1 ++ [r.1], r.2)) (cs, (its, ok)) =
      (cs ++ ms.map (fun m => padLast ((S m).filter (· != k)) n), (its', ok)) ∧
      ∀ j, j ∈ its' ↔ j ∈ its ∨ ∃ m ∈ ms, j = prevOf (S m) k ∨ j = nextOf (S m) k
  | [], cs, its, ok, _ => ⟨its, by simp, by simp⟩
  | a :: t, cs, its, ok, h => by
    obtain ⟨a1, a2, a3, a4⟩ := h a (by simp)
    simp only [List.map_cons, List.foldl_cons]
    rw [scan_col (S a) n k (its, ok) a1 a2 a3 a4]
    obtain ⟨its', e, hmem⟩ := getCalcItems_eval S n k t (cs ++ [padLast ((S a).filter (· != k)) n])
      (insertSorted (prevOf (S a) k) (insertSorted (nextOf (S a) k) its)) ok
      (fun m hm => h m (List.mem_cons_of_mem _ hm))
    refine ⟨its', ?_, ?_⟩
    · rw [e]; simp [List.append_assoc]
    · intro j
      rw [hmem j, mem_insertSorted, mem_insertSorted]
      simp only [List.mem_cons, exists_eq_or_imp]
      constructor
      · rintro ((h1 | h1 | h1) | h1)
        · exact Or.inr (Or.inl (Or.inl h1))
        · exact Or.inr (Or.inl (Or.inr h1))
        · exact Or.inl h1
        · exact Or.inr (Or.inr h1)
      · rintro (h1 | (h1 | h1) | h1)
        · exact Or.inl (Or.inr (Or.inr h1))
        · exact Or.inl (Or.inl h1)
        · exact Or.inl (Or.inr (Or.inl h1))
        · exact Or.inr h1

end C13
end Pymoode
