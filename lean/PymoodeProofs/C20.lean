/-
C20  Spacing indicator equals the RMS deviation of neighbour distances.
`sqrt` is an abstract function with exactly the hypotheses used.
-/
import PymoodeModel.Spacing
import Mathlib.Algebra.Order.Field.Basic
import Mathlib.Algebra.BigOperators.Group.List.Basic
import Mathlib.Data.List.Perm.Basic
import Mathlib.Data.List.Sort
import Mathlib.Tactic.Linarith
import Mathlib.Tactic.Ring
import Mathlib.Tactic.FieldSimp
import Mathlib.Tactic.Positivity
import Mathlib.Data.Rat.Defs
import Mathlib.Tactic.NormNum

set_option linter.unusedSectionVars false
set_option linter.unusedVariables false

namespace Pymoode
namespace C20

variable {α : Type} [Field α] [LinearOrder α] [IsStrictOrderedRing α]

theorem foldl_add (l : List α) (a : α) : l.foldl (· + ·) a = a + l.sum := by
  induction l generalizing a with
  | nil => simp
  | cons x xs ih => simp [List.foldl_cons, ih, add_assoc]

theorem sumL_eq (l : List α) : sumL l = l.sum := by
  unfold sumL; rw [foldl_add]; simp

theorem absDiff_eq (a b : α) : absDiff a b = |a - b| := by
  unfold absDiff
  split
  · rename_i h
    rw [abs_of_neg (by linarith)]; ring
  · rename_i h
    rw [abs_of_nonneg (by linarith [not_lt.mp h])]

theorem spacingSq_eq (cnt : α) (d : List α) :
    spacingSq cnt d = (d.map fun x => (x - d.sum / cnt) * (x - d.sum / cnt)).sum / cnt := by
  simp only [spacingSq, sumL_eq]

/-- the squared spacing is a mean of squares: non-negative (for `cnt > 0`) -/
theorem spacingSq_nonneg (cnt : α) (hc : 0 < cnt) (d : List α) : 0 ≤ spacingSq cnt d := by
  rw [spacingSq_eq]
  apply div_nonneg _ (le_of_lt hc)
  apply List.sum_nonneg
  intro x hx
  simp only [List.mem_map] at hx
  obtain ⟨y, _, rfl⟩ := hx
  exact mul_self_nonneg _

/-- **non-negative** -/
theorem spacing_nonneg (sqrt : α → α) (hs : ∀ x, 0 ≤ x → 0 ≤ sqrt x) (cnt : α) (hc : 0 < cnt) (d : List α) :
    0 ≤ spacing sqrt cnt d :=
  hs _ (spacingSq_nonneg cnt hc d)

/-- **zero for equally spaced points**: all nearest-neighbour distances equal ⇒ spacing 0 -/
theorem spacingSq_zero_of_equal (c : α) (n : Nat) (hn : 0 < n) :
    spacingSq (n : α) (List.replicate n c) = 0 := by
  have hn' : (n : α) ≠ 0 := by exact_mod_cast (Nat.pos_iff_ne_zero.mp hn)
  rw [spacingSq_eq]
  have hsum : (List.replicate n c).sum = n * c := by
    simp [List.sum_replicate, nsmul_eq_mul]
  have hm : (List.replicate n c).sum / (n : α) = c := by
    rw [hsum]; field_simp
  rw [hm]
  simp

theorem spacing_zero_of_equal (sqrt : α → α) (h0 : sqrt 0 = 0) (c : α) (n : Nat) (hn : 0 < n) :
    spacing sqrt (n : α) (List.replicate n c) = 0 := by
  unfold spacing; rw [spacingSq_zero_of_equal c n hn, h0]

/-- **reordering**: the value depends only on the multiset of neighbour distances -/
theorem spacingSq_perm (cnt : α) (d d' : List α) (h : d.Perm d') : spacingSq cnt d = spacingSq cnt d' := by
  rw [spacingSq_eq, spacingSq_eq, h.sum_eq]
  congr 1
  exact (h.map _).sum_eq

/-- **translation**: the three metrics only see coordinate differences -/
theorem absDiff_translate (a b t : α) : absDiff (a + t) (b + t) = absDiff a b := by
  rw [absDiff_eq, absDiff_eq]; congr 1; ring

theorem zipWith_absDiff_translate : ∀ (a b t : List α), a.length = t.length → b.length = t.length →
    List.zipWith absDiff (List.zipWith (· + ·) a t) (List.zipWith (· + ·) b t) = List.zipWith absDiff a b
  | [], _, _, _, _ => by simp
  | _ :: _, [], t, _, h => by
      have : t = [] := by cases t <;> simp_all
      subst this; simp
  | x :: a, y :: b, [], h, _ => by simp at h
  | x :: a, y :: b, s :: t, h1, h2 => by
      simp only [List.zipWith_cons_cons, List.cons.injEq]
      exact ⟨absDiff_translate x y s, zipWith_absDiff_translate a b t (by simpa using h1) (by simpa using h2)⟩

theorem cityblock_translate (a b t : List α) (h1 : a.length = t.length) (h2 : b.length = t.length) :
    cityblock (List.zipWith (· + ·) a t) (List.zipWith (· + ·) b t) = cityblock a b := by
  unfold cityblock; rw [zipWith_absDiff_translate a b t h1 h2]

theorem chebyshev_translate (a b t : List α) (h1 : a.length = t.length) (h2 : b.length = t.length) :
    chebyshev (List.zipWith (· + ·) a t) (List.zipWith (· + ·) b t) = chebyshev a b := by
  unfold chebyshev; rw [zipWith_absDiff_translate a b t h1 h2]

theorem sqEuclid_translate : ∀ (a b t : List α), a.length = t.length → b.length = t.length →
    sqEuclid (List.zipWith (· + ·) a t) (List.zipWith (· + ·) b t) = sqEuclid a b := by
  intro a b t h1 h2
  unfold sqEuclid
  congr 1
  induction a generalizing b t with
  | nil => simp
  | cons x a ih =>
    cases b with
    | nil => cases t <;> simp
    | cons y b =>
      cases t with
      | nil => simp at h1
      | cons s t =>
        simp only [List.zipWith_cons_cons, List.cons.injEq]
        exact ⟨by ring, ih b t (by simpa using h1) (by simpa using h2)⟩

/-- **uniform scaling** by `c ≥ 0`: coordinate differences, hence all three distances, scale by `c` -/
theorem absDiff_scale (c a b : α) (hc : 0 ≤ c) : absDiff (c * a) (c * b) = c * absDiff a b := by
  rw [absDiff_eq, absDiff_eq, ← mul_sub, abs_mul, abs_of_nonneg hc]

theorem cityblock_scale (c : α) (hc : 0 ≤ c) : ∀ (a b : List α),
    cityblock (a.map (c * ·)) (b.map (c * ·)) = c * cityblock a b := by
  intro a b
  unfold cityblock
  rw [foldl_add, foldl_add]
  simp only [zero_add]
  induction a generalizing b with
  | nil => simp
  | cons x a ih =>
    cases b with
    | nil => simp
    | cons y b =>
      simp only [List.map_cons, List.zipWith_cons_cons, List.sum_cons, ih b, absDiff_scale c x y hc]
      ring

/-- neighbour distances scaled by `c` ⇒ squared spacing scaled by `c²`, spacing by `c` -/
theorem spacingSq_scale (cnt c : α) (d : List α) :
    spacingSq cnt (d.map (c * ·)) = c * c * spacingSq cnt d := by
  rw [spacingSq_eq, spacingSq_eq]
  have h1 : (d.map (c * ·)).sum = c * d.sum := by
    induction d with
    | nil => simp
    | cons x d ih => simp [List.sum_cons, ih]; ring
  rw [h1]
  have h2 : ∀ (l : List α) (m : α), (List.map (fun x => (x - c * m) * (x - c * m)) (l.map (c * ·))).sum =
      c * c * (List.map (fun x => (x - m) * (x - m)) l).sum := by
    intro l m
    induction l with
    | nil => simp
    | cons x l ih => simp only [List.map_cons, List.sum_cons, ih]; ring
  have : c * d.sum / cnt = c * (d.sum / cnt) := by ring
  rw [this, h2]
  ring

theorem spacing_scale (sqrt : α → α) (hsq : ∀ c x, 0 ≤ c → 0 ≤ x → sqrt (c * c * x) = c * sqrt x)
    (cnt : α) (hcnt : 0 < cnt) (c : α) (hc : 0 ≤ c) (d : List α) :
    spacing sqrt cnt (d.map (c * ·)) = c * spacing sqrt cnt d := by
  unfold spacing
  rw [spacingSq_scale, hsq c _ hc (spacingSq_nonneg cnt hcnt d)]

/-- the second-smallest entry of a row is an entry of the row (`np.partition(D, 1)[:, 1]`),
and it is no smaller than the row's minimum -/
theorem secondSmallest_mem (l : List α) (v : α) (h : secondSmallest l = some v) : v ∈ l := by
  unfold secondSmallest at h
  have := List.mem_of_getElem? h
  exact (List.mergeSort_perm l leB).subset this

/-- zero-to-one normalisation: the value is the spacing of the rescaled objectives *by definition*
of the indicator (`Indicator.do` rescales, then `_do`); each coordinate is the affine map
`x ↦ (x − ideal)/(nadir − ideal)` whenever `ideal ≠ nadir` -/
theorem normCoord_eq (ideal nadir x : α) (h : ideal ≠ nadir) :
    normCoord ideal nadir x = (x - ideal) / (nadir - ideal) := by
  unfold normCoord
  rcases lt_or_gt_of_ne h with h1 | h1
  · simp [h1]
  · simp [h1, not_lt.mpr (le_of_lt h1)]

theorem normCoord_ideal (ideal nadir : α) : normCoord ideal nadir ideal = 0 := by
  unfold normCoord; split_ifs <;> simp

theorem normCoord_nadir (ideal nadir : α) (h : ideal < nadir) : normCoord ideal nadir nadir = 1 := by
  unfold normCoord
  rw [if_pos h]
  exact div_self (by linarith)

example : spacingSq (3:ℚ) [1, 1, 1] = 0 := by
  have := spacingSq_zero_of_equal (1:ℚ) 3 (by norm_num)
  simpa using this

end C20
end Pymoode

namespace Pymoode
namespace C20

variable {α : Type} [Field α] [LinearOrder α] [IsStrictOrderedRing α]

theorem leB_iff (a b : α) : leB a b = true ↔ a ≤ b := by
  simp [leB]

theorem sort_pairwise_le (l : List α) : (l.mergeSort leB).Pairwise (· ≤ ·) := by
  have := List.pairwise_mergeSort (le := leB (α := α))
    (fun a b c h1 h2 => (leB_iff a c).mpr (le_trans ((leB_iff a b).mp h1) ((leB_iff b c).mp h2)))
    (fun a b => by
      rcases le_total a b with h | h
      · simp [(leB_iff a b).mpr h]
      · simp [(leB_iff b a).mpr h]) l
  exact this.imp (fun h => (leB_iff _ _).mp h)

/-- **`np.partition(D, 1)[:, 1]` is the distance to the nearest *other* point, duplicates
included**: if entry `i` of a row is a minimum of the row (the zero self-distance on the diagonal),
the second smallest entry of the row is the smallest of the remaining entries -/
theorem secondSmallest_eq_min_other (l : List α) (i : Nat) (hi : i < l.length)
    (hmin : ∀ x ∈ l, l[i] ≤ x) :
    secondSmallest l = ((l.eraseIdx i).mergeSort leB)[0]? := by
  have hperm : l.Perm (l[i] :: l.eraseIdx i) := (List.getElem_cons_eraseIdx_perm hi).symm
  have hsorted2 : (l[i] :: (l.eraseIdx i).mergeSort leB).Pairwise (· ≤ ·) := by
    rw [List.pairwise_cons]
    refine ⟨fun x hx => ?_, sort_pairwise_le _⟩
    have : x ∈ l.eraseIdx i := (List.mergeSort_perm _ _).subset hx
    exact hmin x (List.mem_of_mem_eraseIdx this)
  have hperm2 : (l.mergeSort leB).Perm (l[i] :: (l.eraseIdx i).mergeSort leB) :=
    (List.mergeSort_perm l leB).trans (hperm.trans (List.Perm.cons _ (List.mergeSort_perm _ _).symm))
  have heq : l.mergeSort leB = l[i] :: (l.eraseIdx i).mergeSort leB :=
    List.Perm.eq_of_pairwise (le := (· ≤ ·)) (fun a b _ _ h1 h2 => le_antisymm h1 h2)
      (sort_pairwise_le l) hsorted2 hperm2
  unfold secondSmallest
  rw [heq]
  exact List.getElem?_cons_succ

/-- non-vacuity: a row with a duplicate point (two zero entries) meets the hypothesis -/
example : ∀ x ∈ [(3:ℚ), 0, 5, 0], ([(3:ℚ), 0, 5, 0])[1] ≤ x := by
  intro x hx
  simp at hx
  rcases hx with rfl | rfl | rfl | rfl <;> norm_num

end C20
end Pymoode
