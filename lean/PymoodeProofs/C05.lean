/-
C05  GDE3 applies the one-to-one rule before truncation.
-/
import PymoodeModel.Algo
import Mathlib.Algebra.Order.Field.Basic
import Mathlib.Data.List.Basic
import Mathlib.Data.List.Nodup
import Mathlib.Tactic.Linarith

set_option linter.unusedSectionVars false
set_option linter.unusedVariables false

namespace Pymoode
namespace C05

variable {α : Type} [Field α] [LinearOrder α] [IsStrictOrderedRing α]

/-- constraint-domination: smaller total violation, or equal violation and Pareto-dominance -/
def CDom (a b : IndM α) : Prop := a.cv < b.cv ∨ (a.cv = b.cv ∧ dominates a.f b.f = true)

theorem getRelation_range (cva cvb : α) (a b : List α) :
    getRelation cva cvb a b = 1 ∨ getRelation cva cvb a b = -1 ∨ getRelation cva cvb a b = 0 := by
  unfold getRelation
  split_ifs <;> simp

theorem getRelation_one_iff (p o : IndM α) : getRelation p.cv o.cv p.f o.f = 1 ↔ CDom p o := by
  unfold getRelation CDom dominates
  rcases lt_trichotomy p.cv o.cv with h | h | h
  · simp [h]
  · have h1 : ¬ p.cv < o.cv := by rw [h]; exact lt_irrefl _
    have h2 : ¬ o.cv < p.cv := by rw [h]; exact lt_irrefl _
    simp only [h1, h2, ↓reduceIte, false_or, h, true_and]
    cases anyLt p.f o.f <;> cases anyLt o.f p.f <;> simp
  · have h1 : ¬ p.cv < o.cv := not_lt.mpr (le_of_lt h)
    have h3 : p.cv ≠ o.cv := ne_of_gt h
    simp [h1, h, h3]

theorem getRelation_neg_one_iff (p o : IndM α) : getRelation p.cv o.cv p.f o.f = -1 ↔ CDom o p := by
  unfold getRelation CDom dominates
  rcases lt_trichotomy p.cv o.cv with h | h | h
  · have h1 : ¬ o.cv < p.cv := not_lt.mpr (le_of_lt h)
    have h3 : o.cv ≠ p.cv := ne_of_gt h
    simp [h, h1, h3]
  · have h1 : ¬ p.cv < o.cv := by rw [h]; exact lt_irrefl _
    have h2 : ¬ o.cv < p.cv := by rw [h]; exact lt_irrefl _
    simp only [h1, h2, ↓reduceIte, false_or, h, true_and]
    cases anyLt p.f o.f <;> cases anyLt o.f p.f <;> simp
  · have h1 : ¬ p.cv < o.cv := not_lt.mpr (le_of_lt h)
    simp [h1, h]

/-- **candidates of one slot**: exactly the winner, or both when neither constraint-dominates
the other (exact ties included) -/
theorem gde3Slot_spec (p o : IndM α) :
    (CDom p o ∧ gde3Slot p o = [p]) ∨ (CDom o p ∧ gde3Slot p o = [o]) ∨
    (¬CDom p o ∧ ¬CDom o p ∧ gde3Slot p o = [p, o]) := by
  rcases getRelation_range p.cv o.cv p.f o.f with h | h | h
  · left
    refine ⟨(getRelation_one_iff p o).mp h, ?_⟩
    simp [gde3Slot, h]
  · right; left
    refine ⟨(getRelation_neg_one_iff p o).mp h, ?_⟩
    simp [gde3Slot, h]
  · right; right
    refine ⟨fun hc => ?_, fun hc => ?_, ?_⟩
    · have := (getRelation_one_iff p o).mpr hc; omega
    · have := (getRelation_neg_one_iff p o).mpr hc; omega
    · simp [gde3Slot, h]

/-- the candidate list is the concatenation of the slots' candidates, in slot order -/
theorem gde3Candidates_cons (p o : IndM α) (ps os : List (IndM α)) :
    gde3Candidates (p :: ps) (o :: os) = gde3Slot p o ++ gde3Candidates ps os := rfl

theorem mem_gde3Candidates : ∀ (ps os : List (IndM α)) (x : IndM α), x ∈ gde3Candidates ps os →
    ∃ k, ∃ (hp : k < ps.length) (ho : k < os.length), x ∈ gde3Slot ps[k] os[k]
  | [], _, x, h => by simp [gde3Candidates] at h
  | _ :: _, [], x, h => by simp [gde3Candidates] at h
  | p :: ps, o :: os, x, h => by
      rw [gde3Candidates_cons, List.mem_append] at h
      rcases h with h | h
      · exact ⟨0, by simp, by simp, by simpa using h⟩
      · obtain ⟨k, hp, ho, hx⟩ := mem_gde3Candidates ps os x h
        exact ⟨k + 1, by simpa using hp, by simpa using ho, by simpa using hx⟩

/-- at least one candidate per slot, so the truncation can always fill `pop_size` places -/
theorem gde3Candidates_length_ge : ∀ (ps os : List (IndM α)), ps.length = os.length →
    ps.length ≤ (gde3Candidates ps os).length
  | [], [], _ => by simp [gde3Candidates]
  | p :: ps, o :: os, h => by
      rw [gde3Candidates_cons, List.length_append]
      have := gde3Candidates_length_ge ps os (by simpa using h)
      have h1 : 1 ≤ (gde3Slot p o).length := by
        rcases gde3Slot_spec p o with ⟨_, e⟩ | ⟨_, e⟩ | ⟨_, _, e⟩ <;> simp [e]
      simp only [List.length_cons]; omega
  | [], _ :: _, h => by simp at h
  | _ :: _, [], h => by simp at h

/-- **an offspring constraint-dominated by the parent of its slot is not a candidate**, hence
(survivors ⊆ candidates, C03) never enters the next population. Identities are distinct. -/
theorem dominated_offspring_not_candidate (ps os : List (IndM α)) (k : Nat)
    (hp : k < ps.length) (ho : k < os.length) (hd : CDom ps[k] os[k])
    (hids : ((ps ++ os).map (·.id)).Nodup) :
    ∀ x ∈ gde3Candidates ps os, x.id ≠ os[k].id := by
  intro x hx heq
  obtain ⟨k', hp', ho', hx'⟩ := mem_gde3Candidates ps os x hx
  have hinj := List.nodup_iff_injective_getElem.mp hids
  have hlen : ((ps ++ os).map (·.id)).length = ps.length + os.length := by simp
  -- x is parent k' or offspring k'
  have hx'' : x = ps[k'] ∨ x = os[k'] := by
    rcases gde3Slot_spec ps[k'] os[k'] with ⟨_, e⟩ | ⟨_, e⟩ | ⟨_, _, e⟩ <;> rw [e] at hx' <;> simp at hx' <;> tauto
  rcases hx'' with rfl | rfl
  · -- a parent with the identity of an offspring: impossible
    have : (⟨k', by rw [hlen]; omega⟩ : Fin ((ps ++ os).map (·.id)).length) =
        ⟨ps.length + k, by rw [hlen]; omega⟩ := hinj (by
      simp only [List.getElem_map, List.getElem_append_left hp']
      rw [List.getElem_append_right (by omega)]
      simpa using heq)
    simp only [Fin.mk.injEq] at this
    omega
  · have : (⟨ps.length + k', by rw [hlen]; omega⟩ : Fin ((ps ++ os).map (·.id)).length) =
        ⟨ps.length + k, by rw [hlen]; omega⟩ := hinj (by
      simp only [List.getElem_map]
      rw [List.getElem_append_right (by omega), List.getElem_append_right (by omega)]
      simpa using heq)
    simp only [Fin.mk.injEq] at this
    have hk : k' = k := by omega
    subst hk
    rcases gde3Slot_spec ps[k'] os[k'] with ⟨_, e⟩ | ⟨h2, _⟩ | ⟨h2, _, _⟩
    · rw [e] at hx'
      simp only [List.mem_singleton] at hx'
      have : (⟨ps.length + k', by rw [hlen]; omega⟩ : Fin ((ps ++ os).map (·.id)).length) =
          ⟨k', by rw [hlen]; omega⟩ := hinj (by
        simp only [List.getElem_map, List.getElem_append_left hp']
        rw [List.getElem_append_right (by omega)]
        simp [hx'])
      simp only [Fin.mk.injEq] at this
      omega
    · -- both constraint-dominate each other: impossible
      exact absurd hd (by
        intro hd'
        unfold CDom dominates at hd' h2
        rcases hd' with a | ⟨a, b⟩ <;> rcases h2 with c | ⟨c, d⟩
        · exact lt_asymm a c
        · rw [c] at a; exact lt_irrefl _ a
        · rw [a] at c; exact lt_irrefl _ c
        · simp only [Bool.and_eq_true, Bool.not_eq_eq_eq_not, Bool.not_true] at b d
          rw [b.1] at d; simp at d)
    · exact h2 hd

/-- **a parent constraint-dominated by its own offspring is not a candidate** -/
theorem dominated_parent_not_candidate (ps os : List (IndM α)) (k : Nat)
    (hp : k < ps.length) (ho : k < os.length) (hd : CDom os[k] ps[k])
    (hids : ((ps ++ os).map (·.id)).Nodup) :
    ∀ x ∈ gde3Candidates ps os, x.id ≠ ps[k].id := by
  intro x hx heq
  obtain ⟨k', hp', ho', hx'⟩ := mem_gde3Candidates ps os x hx
  have hinj := List.nodup_iff_injective_getElem.mp hids
  have hlen : ((ps ++ os).map (·.id)).length = ps.length + os.length := by simp
  have hx'' : x = ps[k'] ∨ x = os[k'] := by
    rcases gde3Slot_spec ps[k'] os[k'] with ⟨_, e⟩ | ⟨_, e⟩ | ⟨_, _, e⟩ <;> rw [e] at hx' <;> simp at hx' <;> tauto
  rcases hx'' with rfl | rfl
  · have : (⟨k', by rw [hlen]; omega⟩ : Fin ((ps ++ os).map (·.id)).length) =
        ⟨k, by rw [hlen]; omega⟩ := hinj (by
      simp only [List.getElem_map, List.getElem_append_left hp', List.getElem_append_left hp]
      exact heq)
    simp only [Fin.mk.injEq] at this
    subst this
    rcases gde3Slot_spec ps[k'] os[k'] with ⟨h2, _⟩ | ⟨_, e⟩ | ⟨_, h2, _⟩
    · exact absurd hd (by
        intro hd'
        unfold CDom dominates at hd' h2
        rcases hd' with a | ⟨a, b⟩ <;> rcases h2 with c | ⟨c, d⟩
        · exact lt_asymm a c
        · rw [c] at a; exact lt_irrefl _ a
        · rw [a] at c; exact lt_irrefl _ c
        · simp only [Bool.and_eq_true, Bool.not_eq_eq_eq_not, Bool.not_true] at b d
          rw [b.1] at d; simp at d)
    · rw [e] at hx'
      simp only [List.mem_singleton] at hx'
      have : (⟨k', by rw [hlen]; omega⟩ : Fin ((ps ++ os).map (·.id)).length) =
          ⟨ps.length + k', by rw [hlen]; omega⟩ := hinj (by
        simp only [List.getElem_map, List.getElem_append_left hp']
        rw [List.getElem_append_right (by omega)]
        simp [hx'])
      simp only [Fin.mk.injEq] at this
      omega
    · exact h2 hd
  · have : (⟨ps.length + k', by rw [hlen]; omega⟩ : Fin ((ps ++ os).map (·.id)).length) =
        ⟨k, by rw [hlen]; omega⟩ := hinj (by
      simp only [List.getElem_map, List.getElem_append_left hp]
      rw [List.getElem_append_right (by omega)]
      simpa using heq)
    simp only [Fin.mk.injEq] at this
    omega

end C05
end Pymoode
