/-
C15, continued: one-at-a-time pruning for the mnn / 2nn definition (= pure-Python engine).

Monotonicity: removing a point never decreases the crowding of a remaining one (the order
statistics of a row of the distance matrix can only grow when an entry is replaced by +inf).
Consequence (`stale_le_live`): throughout the removal loop every removed point keeps a value that is
≤ the current value of every live point, so the final descending sort puts the removed points — and
the current minimum — last: truncating by `n_remove` drops exactly the points greedy one-at-a-time
pruning removes (when no two of the compared values are equal).
-/
import PymoodeProofs.C13b

set_option linter.unusedSectionVars false
set_option linter.unusedVariables false

namespace Pymoode
namespace C15

/-! ### order statistics are monotone (generic, for a Bool-valued total preorder) -/

section OrderStat
variable {β : Type} (le : β → β → Bool)

theorem countP_take_add_drop (p : β → Bool) (s : List β) (k : Nat) :
    s.countP p = (s.take k).countP p + (s.drop k).countP p := by
  conv_lhs => rw [← List.take_append_drop k s]
  exact List.countP_append

/-- in a sorted list, `s[k] ≤ x` iff more than `k` entries are `≤ x` -/
theorem sorted_get_le_iff (trans : ∀ a b c, le a b = true → le b c = true → le a c = true)
    (total : ∀ a b, (le a b || le b a) = true)
    (s : List β) (hs : s.Pairwise (fun a b => le a b = true)) (k : Nat) (hk : k < s.length) (x : β) :
    le s[k] x = true ↔ k < s.countP (fun e => le e x) := by
  have refl : ∀ a, le a a = true := fun a => by simpa using total a a
  constructor
  · intro h
    have hall : ∀ e ∈ s.take (k + 1), le e x = true := by
      intro e he
      obtain ⟨i, hi, rfl⟩ := List.mem_iff_getElem.mp he
      simp only [List.length_take] at hi
      simp only [List.getElem_take]
      have hik : i ≤ k := by omega
      rcases Nat.lt_or_ge i k with h1 | h1
      · exact trans _ _ _ ((List.pairwise_iff_getElem.mp hs) i k (by omega) hk h1) h
      · have : i = k := by omega
        subst this; exact h
    rw [countP_take_add_drop _ s (k + 1), List.countP_eq_length.mpr hall]
    simp only [List.length_take]
    omega
  · intro h
    by_contra hn
    have hn' : le s[k] x = false := by simpa using hn
    have hnone : ∀ e ∈ s.drop k, ¬ (le e x = true) := by
      intro e he hex
      obtain ⟨i, hi, rfl⟩ := List.mem_iff_getElem.mp he
      simp only [List.length_drop] at hi
      simp only [List.getElem_drop] at hex
      rcases Nat.eq_zero_or_pos i with h0 | h0
      · subst h0
        simp only [Nat.add_zero] at hex
        rw [hex] at hn'; simp at hn'
      · have := (List.pairwise_iff_getElem.mp hs) k (k + i) hk (by omega) (by omega)
        have := trans _ _ _ this hex
        rw [this] at hn'; simp at hn'
    rw [countP_take_add_drop _ s k, List.countP_eq_zero.mpr hnone] at h
    have := List.countP_le_length (p := fun e => le e x) (l := s.take k)
    simp only [List.length_take] at this
    omega

/-- pointwise smaller rows have pointwise smaller counts of "large" entries -/
theorem countP_mono_of_forall₂ (trans : ∀ a b c, le a b = true → le b c = true → le a c = true)
    (a b : List β) (h : List.Forall₂ (fun x y => le x y = true) a b) (y : β) :
    b.countP (fun e => le e y) ≤ a.countP (fun e => le e y) := by
  induction h with
  | nil => simp
  | @cons x z xs zs hxy _ ih =>
    simp only [List.countP_cons]
    have : (if le z y = true then 1 else 0) ≤ (if le x y = true then 1 else 0) := by
      by_cases hz : le z y = true
      · have := trans _ _ _ hxy hz
        simp [hz, this]
      · simp [hz]
    omega

/-- **order statistics are monotone**: `a ≤ b` pointwise ⇒ `sort a ≤ sort b` pointwise -/
theorem sort_mono (trans : ∀ a b c, le a b = true → le b c = true → le a c = true)
    (total : ∀ a b, (le a b || le b a) = true)
    (a b : List β) (h : List.Forall₂ (fun x y => le x y = true) a b) (k : Nat)
    (hka : k < (a.mergeSort le).length) (hkb : k < (b.mergeSort le).length) :
    le (a.mergeSort le)[k] (b.mergeSort le)[k] = true := by
  have refl : ∀ a, le a a = true := fun a => by simpa using total a a
  have hsa := List.pairwise_mergeSort (le := le) (fun a b c => trans a b c) (fun a b => total a b) a
  have hsb := List.pairwise_mergeSort (le := le) (fun a b c => trans a b c) (fun a b => total a b) b
  set y := (b.mergeSort le)[k]
  rw [sorted_get_le_iff le trans total _ hsa k hka y]
  have h1 : k < (b.mergeSort le).countP (fun e => le e y) :=
    (sorted_get_le_iff le trans total _ hsb k hkb y).mp (refl y)
  have h2 : (b.mergeSort le).countP (fun e => le e y) = b.countP (fun e => le e y) :=
    (List.mergeSort_perm b le).countP_eq _
  have h3 : (a.mergeSort le).countP (fun e => le e y) = a.countP (fun e => le e y) :=
    (List.mergeSort_perm a le).countP_eq _
  have h4 := countP_mono_of_forall₂ le trans a b h y
  omega

end OrderStat

/-! ### the crowding of a live point never decreases when another point is removed -/

variable {α : Type} [Field α] [LinearOrder α] [IsStrictOrderedRing α] [Inhabited α]

theorem extLe_trans (a b c : Ext α) (h1 : extLe a b = true) (h2 : extLe b c = true) : extLe a c = true := by
  cases a <;> cases b <;> cases c <;> simp_all [extLe, Ext.lt]
  exact le_trans h1 h2

theorem extLe_total (a b : Ext α) : (extLe a b || extLe b a) = true := by
  cases a <;> cases b <;> simp [extLe, Ext.lt]
  exact le_total _ _

theorem extLe_top (a : Ext α) : extLe a Ext.top = true := by
  cases a <;> simp [extLe, Ext.lt]

theorem extLe_refl (a : Ext α) : extLe a a = true := by
  simpa using extLe_total a a

open C13 in
/-- a product of (pointwise) larger well-formed factors is larger -/
theorem foldl_prod_mono : ∀ (l l' : List (Ext α)) (acc acc' : Ext α),
    List.Forall₂ (fun x y => extLe x y = true) l l' → (∀ e ∈ l, WF e) → WF acc → extLe acc acc' = true →
    extLe (l.foldl (fun acc x => match acc, x with
        | Ext.fin a, Ext.fin b => Ext.fin (a * b)
        | _, _ => Ext.top) acc)
      (l'.foldl (fun acc x => match acc, x with
        | Ext.fin a, Ext.fin b => Ext.fin (a * b)
        | _, _ => Ext.top) acc') = true
  | [], [], acc, acc', _, _, _, h => by simpa using h
  | x :: l, y :: l', acc, acc', hf, hwf, hacc, h => by
      cases hf with
      | cons hxy hrest =>
        simp only [List.foldl_cons]
        have hx := hwf x (by simp)
        apply foldl_prod_mono l l' _ _ hrest (fun e he => hwf e (by simp [he]))
        · cases acc with
          | top => cases x <;> simp [WF]
          | fin a =>
            cases x with
            | top => simp [WF]
            | fin b =>
              simp only [WF] at hacc hx ⊢
              exact mul_nonneg hacc hx
        · cases acc with
          | top =>
            -- acc = top forces acc' = top
            cases acc' with
            | top => cases x <;> cases y <;> simp [extLe, Ext.lt]
            | fin a' => simp [extLe, Ext.lt] at h
          | fin a =>
            cases x with
            | top =>
              cases y with
              | top => cases acc' <;> simp [extLe, Ext.lt]
              | fin y' => simp [extLe, Ext.lt] at hxy
            | fin b =>
              cases acc' with
              | top => cases y <;> simp [extLe, Ext.lt]
              | fin a' =>
                cases y with
                | top => simp [extLe, Ext.lt]
                | fin y' =>
                  simp only [extLe, Ext.lt, Bool.not_eq_eq_eq_not, Bool.not_true, decide_eq_false_iff_not,
                    not_lt, WF] at h hxy hacc hx ⊢
                  exact mul_le_mul h hxy hx (le_trans hacc h)
  | [], _ :: _, _, _, hf, _, _, _ => by cases hf
  | _ :: _, [], _, _, hf, _, _, _ => by cases hf

open C13 in
/-- **monotonicity of the nearest-neighbour product**: rows with pointwise larger entries (a
removed point's entry becomes `+inf`) give a larger product of the `M` nearest distances -/
theorem nnProduct_mono (row row' : List (Ext α)) (mNb : Nat)
    (h : List.Forall₂ (fun x y => extLe x y = true) row row') (hwf : ∀ e ∈ row, WF e) :
    extLe (nnProduct row mNb) (nnProduct row' mNb) = true := by
  have hlen : row.length = row'.length := h.length_eq
  unfold nnProduct
  simp only
  have hl1 : (((row.mergeSort extLe).drop 1).take mNb).length = (((row'.mergeSort extLe).drop 1).take mNb).length := by
    simp [List.length_take, List.length_drop, hlen]
  by_cases hshort : (((row.mergeSort extLe).drop 1).take mNb).length < mNb
  · rw [if_pos hshort, if_pos (by rw [← hl1]; exact hshort)]
    exact extLe_refl _
  · rw [if_neg hshort, if_neg (by rw [← hl1]; exact hshort)]
    apply foldl_prod_mono
    · -- element-wise comparison of the order statistics 1..M
      rw [List.forall₂_iff_get]
      refine ⟨hl1, ?_⟩
      intro i h1 h2
      simp only [List.get_eq_getElem, List.getElem_take, List.getElem_drop]
      apply sort_mono extLe extLe_trans extLe_total row row' h
    · intro e he
      have h1 := List.mem_of_mem_take he
      have h2 := List.mem_of_mem_drop h1
      exact hwf e ((List.mergeSort_perm row extLe).subset h2)
    · simp [WF]
    · exact extLe_refl _

end C15
end Pymoode

namespace Pymoode
namespace C15
open C13

variable {α : Type} [Field α] [LinearOrder α] [IsStrictOrderedRing α] [Inhabited α]

/-- crowding of point `i` within the live set, from scratch (the value `mnnScratch` writes) -/
def cMnn (x : List (List α)) (mNb n : Nat) (live : List Nat) (i : Nat) : Ext α :=
  nnProduct ((List.range n).map fun j =>
    if live.contains j then Ext.fin (sqDist (x.getD i []) (x.getD j [])) else Ext.top) mNb

theorem mnnScratch_get (x : List (List α)) (live : List Nat) (mNb : Nat) (ex : List Nat) (n : Nat)
    (old : List (Ext α)) (i : Nat) (hi : i < n) :
    (mnnScratch x live mNb ex n old).getD i Ext.top =
      if ex.contains i then Ext.top else if live.contains i then cMnn x mNb n live i else old.getD i Ext.top := by
  simp only [mnnScratch, cMnn, List.getD_eq_getElem?_getD, List.getElem?_map, List.getElem?_range hi,
    Option.map_some, Option.getD_some]

theorem mnnScratch_length (x : List (List α)) (live : List Nat) (mNb : Nat) (ex : List Nat) (n : Nat)
    (old : List (Ext α)) : (mnnScratch x live mNb ex n old).length = n := by
  simp [mnnScratch]

/-- **removing points never decreases the crowding of a remaining point** -/
theorem cMnn_mono (x : List (List α)) (mNb n : Nat) (live live' : List Nat) (i : Nat)
    (hsub : ∀ j, live'.contains j = true → live.contains j = true) :
    extLe (cMnn x mNb n live i) (cMnn x mNb n live' i) = true := by
  unfold cMnn
  apply nnProduct_mono
  · rw [List.forall₂_iff_get]
    refine ⟨by simp, ?_⟩
    intro j h1 h2
    simp only [List.get_eq_getElem, List.getElem_map, List.getElem_range]
    by_cases hj : live'.contains j = true
    · simp only [hj, hsub j hj, ↓reduceIte]
      exact extLe_refl _
    · simp only [hj, Bool.false_eq_true, ↓reduceIte]
      exact extLe_top _
  · intro e he
    simp only [List.mem_map, List.mem_range] at he
    obtain ⟨j, _, rfl⟩ := he
    split
    · simp only [WF]; exact sqDist_nonneg _ _
    · simp [WF]

/-- `dropLast` returns a live point of minimal value -/
theorem dropLast_spec (d : List (Ext α)) : ∀ (live : List Nat) (r : Nat), dropLast d live = some r →
    r ∈ live ∧ ∀ i ∈ live, extLe (d.getD r Ext.top) (d.getD i Ext.top) = true := by
  intro live
  unfold dropLast
  -- generalise the fold
  have key : ∀ (l : List Nat) (best : Option Nat),
      (∀ b, best = some b → True) →
      ∀ r, l.foldl (fun best i => match best with
          | none => some i
          | some b => if Ext.lt (d.getD b Ext.top) (d.getD i Ext.top) then some b else some i) best = some r →
        (r ∈ l ∨ best = some r) ∧ (∀ i ∈ l, extLe (d.getD r Ext.top) (d.getD i Ext.top) = true) ∧
        (∀ b, best = some b → extLe (d.getD r Ext.top) (d.getD b Ext.top) = true) := by
    intro l
    induction l with
    | nil =>
      intro best _ r h
      simp only [List.foldl_nil] at h
      exact ⟨Or.inr h, by simp, fun b hb => by rw [h] at hb; cases hb; exact extLe_refl _⟩
    | cons a l ih =>
      intro best _ r h
      simp only [List.foldl_cons] at h
      cases best with
      | none =>
        obtain ⟨h1, h2, h3⟩ := ih (some a) (fun _ _ => trivial) r h
        refine ⟨?_, ?_, by simp⟩
        · rcases h1 with h1 | h1
          · exact Or.inl (by simp [h1])
          · cases h1; exact Or.inl (by simp)
        · intro i hi
          simp only [List.mem_cons] at hi
          rcases hi with rfl | hi
          · exact h3 _ rfl
          · exact h2 i hi
      | some b =>
        by_cases hlt : Ext.lt (d.getD b Ext.top) (d.getD a Ext.top) = true
        · simp only [hlt, ↓reduceIte] at h
          obtain ⟨h1, h2, h3⟩ := ih (some b) (fun _ _ => trivial) r h
          have hrb := h3 b rfl
          refine ⟨?_, ?_, ?_⟩
          · rcases h1 with h1 | h1
            · exact Or.inl (by simp [h1])
            · exact Or.inr h1
          · intro i hi
            simp only [List.mem_cons] at hi
            rcases hi with rfl | hi
            · -- d[r] ≤ d[b] < d[a]
              have hba : extLe (d.getD b Ext.top) (d.getD i Ext.top) = true := by
                cases hb' : d.getD b Ext.top <;> cases ha' : d.getD i Ext.top <;>
                  simp_all [extLe, Ext.lt]
                exact le_of_lt hlt
              exact extLe_trans _ _ _ hrb hba
            · exact h2 i hi
          · intro b' hb'; cases hb'; exact hrb
        · have hlt' : Ext.lt (d.getD b Ext.top) (d.getD a Ext.top) = false := by simpa using hlt
          simp only [hlt', Bool.false_eq_true, ↓reduceIte] at h
          obtain ⟨h1, h2, h3⟩ := ih (some a) (fun _ _ => trivial) r h
          have hra := h3 a rfl
          refine ⟨?_, ?_, ?_⟩
          · rcases h1 with h1 | h1
            · exact Or.inl (by simp [h1])
            · cases h1; exact Or.inl (by simp)
          · intro i hi
            simp only [List.mem_cons] at hi
            rcases hi with rfl | hi
            · exact hra
            · exact h2 i hi
          · intro b' hb'
            cases hb'
            -- d[a] ≤ d[b] since ¬ d[b] < d[a]
            have hab : extLe (d.getD a Ext.top) (d.getD b Ext.top) = true := by
              simp only [extLe, hlt', Bool.not_false]
            exact extLe_trans _ _ _ hra hab
  intro r h
  obtain ⟨h1, h2, _⟩ := key live none (fun _ _ => trivial) r h
  refine ⟨?_, h2⟩
  rcases h1 with h1 | h1
  · exact h1
  · cases h1

/-- invariant of the removal loop -/
structure LoopInv (x : List (List α)) (mNb : Nat) (ex : List Nat) (n : Nat) (live : List Nat)
    (d : List (Ext α)) : Prop where
  len : d.length = n
  live_lt : ∀ i ∈ live, i < n
  fresh : ∀ i, i < n → live.contains i = true →
    d.getD i Ext.top = if ex.contains i then Ext.top else cMnn x mNb n live i
  ext_top : ∀ i, i < n → ex.contains i = true → d.getD i Ext.top = Ext.top
  stale : ∀ k, k < n → live.contains k = false → ∀ i, i < n → live.contains i = true →
    extLe (d.getD k Ext.top) (d.getD i Ext.top) = true

theorem loopInv_step (x : List (List α)) (mNb : Nat) (ex : List Nat) (n : Nat) (live : List Nat)
    (d : List (Ext α)) (h : LoopInv x mNb ex n live d) (r : Nat) (hr : dropLast d live = some r) :
    LoopInv x mNb ex n (live.filter (· != r)) (mnnScratch x (live.filter (· != r)) mNb ex n d) := by
  obtain ⟨hrl, hmin⟩ := dropLast_spec d live r hr
  have hrn : r < n := h.live_lt r hrl
  set live' := live.filter (· != r) with hl'
  have hsub : ∀ j, live'.contains j = true → live.contains j = true := by
    intro j hj
    simp only [hl', List.contains_eq_mem, List.mem_filter, decide_eq_true_eq] at hj ⊢
    exact hj.1
  have hnew : ∀ i, i < n → (mnnScratch x live' mNb ex n d).getD i Ext.top =
      if ex.contains i then Ext.top else if live'.contains i then cMnn x mNb n live' i else d.getD i Ext.top :=
    fun i hi => mnnScratch_get x live' mNb ex n d i hi
  -- a live point's value can only grow
  have hgrow : ∀ i, i < n → live'.contains i = true →
      extLe (d.getD i Ext.top) ((mnnScratch x live' mNb ex n d).getD i Ext.top) = true := by
    intro i hi hil
    rw [hnew i hi, h.fresh i hi (hsub i hil)]
    by_cases hex : ex.contains i = true
    · rw [if_pos hex, if_pos hex]; exact extLe_refl _
    · rw [if_neg hex, if_neg hex, if_pos hil]
      exact cMnn_mono x mNb n live live' i hsub
  -- a point outside the new live set keeps its value
  have hkeep : ∀ k, k < n → live'.contains k = false →
      (mnnScratch x live' mNb ex n d).getD k Ext.top = d.getD k Ext.top := by
    intro k hk hkl
    rw [hnew k hk]
    by_cases hex : ex.contains k = true
    · rw [if_pos hex, h.ext_top k hk hex]
    · rw [if_neg hex, if_neg (by rw [hkl]; simp)]
  refine ⟨mnnScratch_length _ _ _ _ _ _, ?_, ?_, ?_, ?_⟩
  · intro i hi
    exact h.live_lt i (List.mem_of_mem_filter hi)
  · intro i hi hil
    rw [hnew i hi]
    simp only [hil, ↓reduceIte]
  · intro i hi hex
    rw [hnew i hi, if_pos hex]
  · intro k hk hkl i hi hil
    rw [hkeep k hk hkl]
    refine extLe_trans _ _ _ ?_ (hgrow i hi hil)
    have hil0 : live.contains i = true := hsub i hil
    by_cases hkr : k = r
    · subst hkr
      exact hmin i (by simpa using hil0)
    · -- k was already removed before
      have hk0 : live.contains k = false := by
        by_contra hc
        have hc' : live.contains k = true := by simpa using hc
        have : live'.contains k = true := by
          simp only [hl', List.contains_eq_mem, List.mem_filter, decide_eq_true_eq] at hc' ⊢
          exact ⟨hc', by simpa using hkr⟩
        rw [this] at hkl; simp at hkl
      exact h.stale k hk hk0 i hi hil0

/-- **throughout one-at-a-time pruning (mnn / 2nn definition) every removed point keeps a value
no larger than the current value of every remaining point** -/
theorem pruneLoop_inv (x : List (List α)) (mNb : Nat) (ex : List Nat) (n : Nat) :
    ∀ (k : Nat) (live : List Nat) (d : List (Ext α)), LoopInv x mNb ex n live d →
      ∃ live', (∀ j, live'.contains j = true → live.contains j = true) ∧
        LoopInv x mNb ex n live' (pruneLoop (fun lv old => mnnScratch x lv mNb ex n old) k live d)
  | 0, live, d, h => ⟨live, fun _ hj => hj, by simpa [pruneLoop] using h⟩
  | k + 1, live, d, h => by
      simp only [pruneLoop]
      cases hr : dropLast d live with
      | none => exact ⟨live, fun _ hj => hj, h⟩
      | some r =>
        obtain ⟨live', hs, hinv⟩ := pruneLoop_inv x mNb ex n k _ _ (loopInv_step x mNb ex n live d h r hr)
        refine ⟨live', ?_, hinv⟩
        intro j hj
        have := hs j hj
        simp only [List.contains_eq_mem, List.mem_filter, decide_eq_true_eq] at this ⊢
        exact this.1

/-- the loop starts in the invariant -/
theorem loopInv_init (x : List (List α)) (mNb : Nat) (ex : List Nat) (n : Nat) (old : List (Ext α)) :
    LoopInv x mNb ex n (List.range n) (mnnScratch x (List.range n) mNb ex n old) := by
  refine ⟨mnnScratch_length _ _ _ _ _ _, fun i hi => by simpa using hi, ?_, ?_, ?_⟩
  · intro i hi hil
    rw [mnnScratch_get x _ mNb ex n old i hi]
    simp only [hil, ↓reduceIte]
  · intro i hi hex
    rw [mnnScratch_get x _ mNb ex n old i hi, if_pos hex]
  · intro k hk hkl
    have : (List.range n).contains k = true := by simpa using hk
    rw [this] at hkl; simp at hkl

/-- **mnn / 2nn as a whole** (`calc_mnn` of the pure-Python engine): in the returned array every
pruned point has a value ≤ that of every point still alive — so the final descending sort of
RankAndCrowding places the pruned points (and the current minimum) last -/
theorem mnnFallback_stale_le_live (f : List (List α)) (nObj : Nat) (nRemove : Int) (twonn : Bool)
    (hbig : (if twonn then 2 else nObj) < f.length) :
    ∃ live : List Nat, (∀ i ∈ live, i < f.length) ∧
      ∀ k, k < f.length → live.contains k = false → ∀ i, i < f.length → live.contains i = true →
        extLe ((mnnFallback f nObj nRemove twonn).getD k Ext.top)
              ((mnnFallback f nObj nRemove twonn).getD i Ext.top) = true := by
  unfold mnnFallback
  simp only
  rw [if_neg (by omega)]
  obtain ⟨live', _, hinv⟩ := pruneLoop_inv (normalizeCols f nObj) (if twonn then 2 else nObj)
    (extremesFirst f nObj) f.length ((clampRemove nRemove f.length nObj - 1).toNat) _ _
    (loopInv_init (normalizeCols f nObj) (if twonn then 2 else nObj) (extremesFirst f nObj) f.length
      (f.map fun _ => Ext.top))
  exact ⟨live', hinv.live_lt, hinv.stale⟩

end C15
end Pymoode

namespace Pymoode
namespace C15

variable {α : Type} [Field α] [LinearOrder α] [IsStrictOrderedRing α] [Inhabited α]

/-- **the truncation drops every pruned point first.** `s`: the split front in descending crowding
order (any order satisfying the argsort contract); `removed k`: `k` was pruned inside the metric;
if every pruned point's value is strictly below every live point's value (no ties), the kept part
`s.take (n − #removed − extra)` contains live points only. Together with `dropped_smallest` (the
remaining `extra` drops are the live points of smallest current value — what greedy pruning removes
next) the dropped set is exactly that of one-at-a-time pruning. -/
theorem truncation_drops_removed (v : Nat → Ext α) (s : List Nat) (removed : Nat → Bool) (hs : SortedDesc v s)
    (hstrict : ∀ k ∈ s, ∀ i ∈ s, removed k = true → removed i = false → Ext.lt (v k) (v i) = true)
    (m : Nat) (hm : m + s.countP removed ≤ s.length) :
    ∀ k ∈ s.take m, removed k = false := by
  intro k hk
  by_contra hrem
  have hrem' : removed k = true := by simpa using hrem
  have hsplit := countP_take_add_drop removed s m
  have h1 : 1 ≤ (s.take m).countP removed := List.countP_pos_iff.mpr ⟨k, hk, hrem'⟩
  have hlen : (s.drop m).length = s.length - m := by simp
  have hlt : (s.drop m).countP removed < (s.drop m).length := by omega
  -- so some live point sits after position m
  have : ∃ i ∈ s.drop m, removed i = false := by
    by_contra hnone
    have hall : ∀ i ∈ s.drop m, removed i = true := by
      intro i hi
      by_contra hc
      exact hnone ⟨i, hi, by simpa using hc⟩
    have := List.countP_eq_length.mpr hall
    omega
  obtain ⟨i, hi, hil⟩ := this
  have hpw : (s.take m ++ s.drop m).Pairwise fun a b => Ext.lt (v a) (v b) = false := by
    rw [List.take_append_drop]; exact hs
  have h2 := (List.pairwise_append.mp hpw).2.2 k hk i hi
  have h3 := hstrict k (List.mem_of_mem_take hk) i (List.mem_of_mem_drop hi) hrem' hil
  rw [h3] at h2
  simp at h2

end C15
end Pymoode
