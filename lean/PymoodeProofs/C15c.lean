/-
C15, continued: one-at-a-time pruning with the **pcd** metric. Removing a non-extreme point never decreases the
crowding of the remaining points (their neighbours can only move away), so in the array `calc_pcd` returns every
pruned point keeps a value ≤ every live point's value — `RankAndCrowding`'s descending sort then drops the pruned
points first (`C15.truncation_drops_removed`). Proved for the definition (`pcdFallback`) under the hypotheses
`AllMaxOnce` / `Budget` of the refinement theorem, and — through `C13.pcdKernelF_refines` — for the compiled kernel.
-/
import PymoodeProofs.C13g

set_option linter.unusedSectionVars false
set_option linter.unusedVariables false

namespace Pymoode
namespace C15
open C13

variable {α : Type} [Field α] [LinearOrder α] [IsStrictOrderedRing α] [Inhabited α]

/-- erasing the predecessor of `i`: the new predecessor is the predecessor of the erased point, the successor stays -/
theorem neighbours_erase_prev (s : List Nat) (hs : s.Nodup) (r i : Nat) (hr : r ∈ s) (hi : i ∈ s)
    (hrint : Interior s r) (hiint : Interior s i) (hadj : prevOf s i = r) :
    prevOf (s.filter (· != r)) i = prevOf s r ∧ nextOf (s.filter (· != r)) i = nextOf s i := by
  rw [filter_ne_eq_eraseIdx s hs r hr]
  have hpr := List.idxOf_lt_length_iff.mpr hr
  have hpi := List.idxOf_lt_length_iff.mpr hi
  have hvi : s[s.idxOf i] = i := List.getElem_idxOf hpi
  obtain ⟨hr0, hr1⟩ := hrint
  obtain ⟨hi0, hi1⟩ := hiint
  -- position of r is one before the position of i
  have hpos : s.idxOf r = s.idxOf i - 1 := by
    unfold prevOf at hadj
    rw [getD_of_lt s _ (by omega)] at hadj
    have := idxOf_getElem_nodup s hs (s.idxOf i - 1) (by omega)
    rw [hadj] at this; exact this
  unfold prevOf nextOf
  generalize hp : s.idxOf r = p at *
  generalize hq : s.idxOf i = q at *
  have hlen : (s.eraseIdx p).length = s.length - 1 := List.length_eraseIdx_of_lt hpr
  have hnd' : (s.eraseIdx p).Nodup := hs.sublist (List.eraseIdx_sublist s p)
  have hq' : p < (s.eraseIdx p).length := by omega
  have e : (s.eraseIdx p)[p]'hq' = i := by
    rw [List.getElem_eraseIdx]
    simp only [Nat.lt_irrefl, ↓reduceDIte]
    have : p + 1 = q := by omega
    simp [this, hvi]
  have hidx : (s.eraseIdx p).idxOf i = p := by
    rw [← e]; exact idxOf_getElem_nodup _ hnd' p hq'
  rw [hidx]
  constructor
  · rw [getD_of_lt _ _ (by omega : p - 1 < (s.eraseIdx p).length), getD_of_lt s _ (by omega : p - 1 < s.length),
      List.getElem_eraseIdx]
    have : p - 1 < p := by omega
    simp [this]
  · rw [getD_of_lt _ _ (by omega : p + 1 < (s.eraseIdx p).length), getD_of_lt s _ (by omega : q + 1 < s.length),
      List.getElem_eraseIdx]
    have : ¬ p + 1 < p := by omega
    simp only [this, ↓reduceDIte]
    have : p + 1 + 1 = q + 1 := by omega
    simp [this]

/-- erasing the successor of `i`: the new successor is the successor of the erased point, the predecessor stays -/
theorem neighbours_erase_next (s : List Nat) (hs : s.Nodup) (r i : Nat) (hr : r ∈ s) (hi : i ∈ s)
    (hrint : Interior s r) (hiint : Interior s i) (hadj : nextOf s i = r) :
    prevOf (s.filter (· != r)) i = prevOf s i ∧ nextOf (s.filter (· != r)) i = nextOf s r := by
  rw [filter_ne_eq_eraseIdx s hs r hr]
  have hpr := List.idxOf_lt_length_iff.mpr hr
  have hpi := List.idxOf_lt_length_iff.mpr hi
  have hvi : s[s.idxOf i] = i := List.getElem_idxOf hpi
  obtain ⟨hr0, hr1⟩ := hrint
  obtain ⟨hi0, hi1⟩ := hiint
  have hpos : s.idxOf r = s.idxOf i + 1 := by
    unfold nextOf at hadj
    rw [getD_of_lt s _ hi1] at hadj
    have := idxOf_getElem_nodup s hs (s.idxOf i + 1) hi1
    rw [hadj] at this; exact this
  unfold prevOf nextOf
  generalize hp : s.idxOf r = p at *
  generalize hq : s.idxOf i = q at *
  have hlen : (s.eraseIdx p).length = s.length - 1 := List.length_eraseIdx_of_lt hpr
  have hnd' : (s.eraseIdx p).Nodup := hs.sublist (List.eraseIdx_sublist s p)
  have hq' : q < (s.eraseIdx p).length := by omega
  have e : (s.eraseIdx p)[q]'hq' = i := by
    rw [List.getElem_eraseIdx]
    have : q < p := by omega
    simp [this, hvi]
  have hidx : (s.eraseIdx p).idxOf i = q := by
    rw [← e]; exact idxOf_getElem_nodup _ hnd' q hq'
  rw [hidx]
  constructor
  · rw [getD_of_lt _ _ (by omega : q - 1 < (s.eraseIdx p).length), getD_of_lt s _ (by omega : q - 1 < s.length),
      List.getElem_eraseIdx]
    have : q - 1 < p := by omega
    simp [this]
  · rw [getD_of_lt _ _ (by omega : q + 1 < (s.eraseIdx p).length), getD_of_lt s _ (by omega : p + 1 < s.length),
      List.getElem_eraseIdx]
    have : ¬ q + 1 < p := by omega
    simp only [this, ↓reduceDIte]
    have : q + 1 + 1 = p + 1 := by omega
    simp [this]


/-- normalised values are non-decreasing along a sorted live column -/
theorem scol_sorted (f : List (List α)) (M m : Nat) (hm : m < M) (live : List Nat) (hl : LiveOK f M live)
    (a b : Nat) (hab : a < b) (hb : b < (Scol f m live).length) :
    xAt (normalizeCols f M) ((Scol f m live).getD a 0) m ≤ xAt (normalizeCols f M) ((Scol f m live).getD b 0) m := by
  have hlex := sortedLive_lex (vf f m) live hl.pw
  have ha : a < (Scol f m live).length := by omega
  rw [getD_of_lt _ _ ha, getD_of_lt _ _ hb]
  have h1 := (List.pairwise_iff_getElem.mp hlex) a b ha hb hab
  have hle : vf f m (Scol f m live)[a] ≤ vf f m (Scol f m live)[b] := (leBy_iff _ _ _).mp h1.1
  rw [vf_eq_xAt, vf_eq_xAt] at hle
  have hma : (Scol f m live)[a] < f.length := hl.lt _ ((sortedLive_mem _ _ _).mp (List.getElem_mem ha))
  have hmb : (Scol f m live)[b] < f.length := hl.lt _ ((sortedLive_mem _ _ _).mp (List.getElem_mem hb))
  by_contra hnot
  have hlt := (normalize_lt_iff f M m hm _ _ hmb hma).mp (not_le.mp hnot)
  exact absurd hle (not_le.mpr hlt)

theorem prev_le_self (f : List (List α)) (M m : Nat) (hm : m < M) (live : List Nat) (hl : LiveOK f M live)
    (i : Nat) (hi : i ∈ Scol f m live) (hint : Interior (Scol f m live) i) :
    xAt (normalizeCols f M) (prevOf (Scol f m live) i) m ≤ xAt (normalizeCols f M) i m ∧
    xAt (normalizeCols f M) i m ≤ xAt (normalizeCols f M) (nextOf (Scol f m live) i) m := by
  have hp := List.idxOf_lt_length_iff.mpr hi
  obtain ⟨h0, h1⟩ := hint
  have e : (Scol f m live).getD ((Scol f m live).idxOf i) 0 = i := by
    rw [getD_of_lt _ _ hp]; exact List.getElem_idxOf hp
  constructor
  · have := scol_sorted f M m hm live hl ((Scol f m live).idxOf i - 1) ((Scol f m live).idxOf i) (by omega) hp
    rw [e] at this; exact this
  · have := scol_sorted f M m hm live hl ((Scol f m live).idxOf i) ((Scol f m live).idxOf i + 1) (by omega) h1
    rw [e] at this; exact this

/-- **removing a non-extreme point never shrinks a remaining point's gap** in any objective -/
theorem gapF_mono (f : List (List α)) (M : Nat) (live : List Nat) (hl : LiveOK f M live) (hmax : AllMaxOnce f M)
    (r : Nat) (hr : r ∈ live) (hrne : r ∉ extremesFirst f M) (i : Nat) (hi : i ∈ live) (hir : i ≠ r)
    (hine : i ∉ extremesFirst f M) (m : Nat) (hm : m < M) :
    gapF f M live i m ≤ gapF f M (live.filter (· != r)) i m := by
  obtain ⟨hnd, _, _, himem, hiint⟩ := col_facts f M live hl hmax i hi hine m hm
  obtain ⟨_, _, _, hrmem, hrint⟩ := col_facts f M live hl hmax r hr hrne m hm
  have hS : Scol f m (live.filter (· != r)) = (Scol f m live).filter (· != r) :=
    (sortedLive_filter (vf f m) live hl.pw _).symm
  obtain ⟨hr1, hr2⟩ := prev_le_self f M m hm live hl r hrmem hrint
  unfold gapF
  simp only []
  by_cases h1 : prevOf (Scol f m live) i = r
  · obtain ⟨e1, e2⟩ := neighbours_erase_prev _ hnd r i hrmem himem hrint hiint h1
    rw [hS, e1, e2, h1]
    linarith
  · by_cases h2 : nextOf (Scol f m live) i = r
    · obtain ⟨e1, e2⟩ := neighbours_erase_next _ hnd r i hrmem himem hrint hiint h2
      rw [hS, e1, e2, h2]
      linarith
    · obtain ⟨e1, e2, _⟩ := neighbours_erase _ hnd r i hrmem himem hir hiint h1 h2
      rw [hS, e1, e2]

theorem fold_fin_mono (a b : Nat → α) : ∀ (l : List Nat) (v w : α), (∀ m ∈ l, a m ≤ b m) → v ≤ w →
    extLe (l.foldl (fun acc m => Ext.add acc (Ext.fin (a m))) (Ext.fin v))
      (l.foldl (fun acc m => Ext.add acc (Ext.fin (b m))) (Ext.fin w)) = true
  | [], v, w, _, hvw => by simp [extLe, Ext.lt, hvw]
  | m :: t, v, w, h, hvw => by
    simp only [List.foldl_cons, Ext.add]
    exact fold_fin_mono a b t _ _ (fun k hk => h k (List.mem_cons_of_mem _ hk))
      (add_le_add hvw (h m (by simp)))

/-- the crowding sum of a remaining point can only grow -/
theorem sumF_mono (f : List (List α)) (M : Nat) (live : List Nat) (hl : LiveOK f M live) (hmax : AllMaxOnce f M)
    (r : Nat) (hr : r ∈ live) (hrne : r ∉ extremesFirst f M) (i : Nat) (hi : i ∈ live) (hir : i ≠ r)
    (hine : i ∉ extremesFirst f M) :
    extLe (sumF f M live i) (sumF f M (live.filter (· != r)) i) = true := by
  unfold sumF
  apply fold_fin_mono
  · intro m hm
    exact gapF_mono f M live hl hmax r hr hrne i hi hir hine m (List.mem_range.mp hm)
  · exact le_refl _


/-- invariant of the definition's removal loop: the array is a from-scratch recomputation on the live set, and
every removed point's (stale) value is ≤ every live point's value -/
structure PInv (f : List (List α)) (M : Nat) (live : List Nat) (dF : List (Ext α)) : Prop where
  scratch : ∃ old, dF = pcdScratch (normalizeCols f M) live M (extremesFirst f M) f.length old
  stale : ∀ k, k < f.length → k ∉ live → ∀ i ∈ live, extLe (dF.getD k Ext.top) (dF.getD i Ext.top) = true

theorem dropLast_isSome (d : List (Ext α)) : ∀ (live : List Nat), live ≠ [] → ∃ r, dropLast d live = some r := by
  intro live hne
  unfold dropLast
  cases live with
  | nil => exact absurd rfl hne
  | cons a t =>
    simp only [List.foldl_cons]
    have : ∀ (l : List Nat) (b : Nat), ∃ r, l.foldl (fun best i => match best with
        | none => some i
        | some b => if Ext.lt (d.getD b Ext.top) (d.getD i Ext.top) then some b else some i) (some b) = some r := by
      intro l
      induction l with
      | nil => intro b; exact ⟨b, rfl⟩
      | cons y ys ih =>
        intro b
        simp only [List.foldl_cons]
        split <;> exact ih _
    exact this t a

theorem pinv_step (f : List (List α)) (M : Nat) (hmax : AllMaxOnce f M) (live : List Nat) (dF : List (Ext α))
    (hl : LiveOK f M live) (hinv : PInv f M live dF) (j : Nat) (hj : j ∈ live) (hjne : j ∉ extremesFirst f M) :
    ∃ r, dropLast dF live = some r ∧ r ∈ live ∧ r ∉ extremesFirst f M ∧
      PInv f M (live.filter (· != r)) (recomputeF f M (live.filter (· != r)) dF) := by
  set ex := extremesFirst f M with hex
  set n := f.length with hn
  obtain ⟨old, hold⟩ := hinv.scratch
  have hdF : ∀ i, i < n → dF.getD i Ext.top =
      if ex.contains i then Ext.top else if i ∈ live then sumF f M live i else old.getD i Ext.top := by
    intro i hi; rw [hold]; exact scratch_get f M live hl hmax old i hi
  obtain ⟨r, hr⟩ := dropLast_isSome dF live (List.ne_nil_of_mem hj)
  obtain ⟨hrl, hrmin⟩ := dropLast_spec dF live r hr
  have cfalse : ∀ i, i ∉ ex → ex.contains i = false := by
    intro i h
    cases hcc : ex.contains i
    · rfl
    · exact absurd ((contains_iff ex i).mp hcc) h
  have hrne : r ∉ ex := by
    intro hre
    have h1 := hrmin j hj
    rw [hdF r (hl.lt r hrl), hdF j (hl.lt j hj), (contains_iff ex r).mpr hre, cfalse j hjne] at h1
    simp only [↓reduceIte, Bool.false_eq_true, hj] at h1
    obtain ⟨w, hw⟩ := fold_fin_isFin (fun m => gapF f M live j m) (List.range M) 0
    unfold sumF at h1
    rw [hw] at h1
    simp [extLe, Ext.lt] at h1
  refine ⟨r, hr, hrl, hrne, ⟨dF, rfl⟩, ?_⟩
  have hl' := liveOK_filter f M live hl r hrne
  intro k hk hkl i hil'
  have hil : i ∈ live := (List.mem_filter.mp hil').1
  have hir : i ≠ r := by simpa using (List.mem_filter.mp hil').2
  have hin : i < n := hl.lt i hil
  unfold recomputeF
  rw [scratch_get f M _ hl' hmax dF k hk, scratch_get f M _ hl' hmax dF i hin]
  have hkex : k ∉ ex := fun h => hkl (hl'.ex_in k h)
  rw [cfalse k hkex, if_neg hkl]
  simp only [Bool.false_eq_true, ↓reduceIte]
  by_cases hie : i ∈ ex
  · rw [(contains_iff ex i).mpr hie]; exact extLe_top _
  · rw [cfalse i hie, if_pos hil']
    simp only [Bool.false_eq_true, ↓reduceIte]
    -- dF[k] ≤ dF[i] = sumF live i ≤ sumF live' i
    have h1 : extLe (dF.getD k Ext.top) (dF.getD i Ext.top) = true := by
      by_cases hkr : k = r
      · subst hkr; exact hrmin i hil
      · have hkl0 : k ∉ live := by
          intro h
          apply hkl
          rw [List.mem_filter]; exact ⟨h, by simpa using hkr⟩
        exact hinv.stale k hk hkl0 i hil
    have h2 : dF.getD i Ext.top = sumF f M live i := by
      rw [hdF i hin, cfalse i hie, if_pos hil]; simp
    rw [h2] at h1
    exact extLe_trans _ _ _ h1 (sumF_mono f M live hl hmax r hrl hrne i hil hir hie)

theorem pinv_loop (f : List (List α)) (M : Nat) (hmax : AllMaxOnce f M) :
    ∀ (fuel : Nat) (live : List Nat) (dF : List (Ext α)), LiveOK f M live → PInv f M live dF →
      fuel ≤ (nonEx f M live).length →
      ∃ live', LiveOK f M live' ∧ PInv f M live' (pruneLoop (recomputeF f M) fuel live dF)
  | 0, live, dF, hl, hinv, _ => ⟨live, hl, hinv⟩
  | fuel + 1, live, dF, hl, hinv, hb => by
    have hpos : 0 < (nonEx f M live).length := by omega
    obtain ⟨j, hj⟩ := List.exists_mem_of_length_pos hpos
    unfold nonEx at hj
    rw [List.mem_filter] at hj
    have hjne : j ∉ extremesFirst f M := by
      intro h; have := (contains_iff _ j).mpr h; rw [this] at hj; simp at hj
    obtain ⟨r, hr, hrl, hrne, hinv'⟩ := pinv_step f M hmax live dF hl hinv j hj.1 hjne
    have hprune : pruneLoop (recomputeF f M) (fuel + 1) live dF =
        pruneLoop (recomputeF f M) fuel (live.filter (· != r)) (recomputeF f M (live.filter (· != r)) dF) := by
      rw [pruneLoop, hr]
    rw [hprune]
    apply pinv_loop f M hmax fuel _ _ (liveOK_filter f M live hl r hrne) hinv'
    rw [nonEx_filter_length f M live (live_nodup hl) r hrl hrne]
    omega

/-- **pcd as a whole** (`calc_pcd`, the definition = the pure-Python engine): in the returned array every pruned
point has a value ≤ that of every point still alive -/
theorem pcdFallback_stale_le_live (f : List (List α)) (M : Nat) (c : α) (nRemove : Int) (hne : f ≠ []) (hc : 0 < c)
    (hmax : AllMaxOnce f M) (hb : Budget f M nRemove) :
    ∃ live : List Nat, (∀ i ∈ live, i < f.length) ∧
      ∀ k, k < f.length → k ∉ live → ∀ i ∈ live,
        extLe ((pcdFallback f M c nRemove).getD k Ext.top) ((pcdFallback f M c nRemove).getD i Ext.top) = true := by
  have hinit : PInv f M (List.range f.length)
      (pcdScratch (normalizeCols f M) (List.range f.length) M (extremesFirst f M) f.length (f.map fun _ => Ext.top)) :=
    ⟨⟨_, rfl⟩, fun k hk hkl => absurd (List.mem_range.mpr hk) hkl⟩
  obtain ⟨live', hl', hinv⟩ := pinv_loop f M hmax (clampRemove nRemove f.length M - 1).toNat _ _
    (liveOK_range f M hne) hinit hb
  refine ⟨live', hl'.lt, ?_⟩
  intro k hk hkl i hi
  have := hinv.stale k hk hkl i hi
  unfold pcdFallback
  simp only []
  rw [getD_map_mapFin, getD_map_mapFin]
  unfold extLe at this ⊢
  rw [lt_mapFin c hc]
  exact this

/-- the same for the **compiled kernel** (through the refinement theorem) -/
theorem pcdKernel_stale_le_live (f : List (List α)) (M : Nat) (c : α) (nRemove : Int) (hne : f ≠ []) (hc : 0 < c)
    (hmax : AllMaxOnce f M) (hb : Budget f M nRemove) :
    ∃ live : List Nat, (∀ i ∈ live, i < f.length) ∧
      ∀ k, k < f.length → k ∉ live → ∀ i ∈ live,
        extLe ((pcdKernelF f M c nRemove).1.getD k Ext.top) ((pcdKernelF f M c nRemove).1.getD i Ext.top) = true := by
  rw [pcdKernelF_refines f M c nRemove hne hc hmax hb]
  exact pcdFallback_stale_le_live f M c nRemove hne hc hmax hb

end C15
end Pymoode
