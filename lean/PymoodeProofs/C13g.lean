/-
C13 / C14 (part 4 of the pcd refinement): the simulation over the whole `while` loop, the initial state,
and the property theorems

  * `pcdKernelF_refines`  — under `AllMaxOnce` (negation = known finding F2) and the removal budget
    (negation = known finding F3) the compiled pcd kernel returns **exactly the published definition**
    (`pcdFallback`, line by line the pure-Python engine) for any number of removals, and
  * `pcdKernelF_safe`     — every index it computes is in range (no read or write outside its arrays),
  * `pcd_two_objectives`  — on a duplicate-free non-dominated front with two objectives both hypotheses hold.

Exact ordered-field arithmetic; IEEE rounding (the kernel divides each gap by M and sums, the definition
sums and divides) is outside the theorem and is what "up to floating-point rounding" in C14 allows.
-/
import PymoodeProofs.C13f
import Mathlib.Tactic.NormNum
import Mathlib.Tactic.IntervalCases
import Mathlib.Data.Rat.Defs
import Mathlib.Algebra.Order.Field.Rat

set_option linter.unusedSectionVars false
set_option linter.unusedVariables false

namespace Pymoode
namespace C13

variable {α : Type} [Field α] [LinearOrder α] [IsStrictOrderedRing α] [Inhabited α]

/-- live points that are not extremes: the only ones the loop can remove -/
def nonEx (f : List (List α)) (M : Nat) (live : List Nat) : List Nat :=
  live.filter fun i => !(extremesFirst f M).contains i

theorem nonEx_filter_length (f : List (List α)) (M : Nat) (live : List Nat) (hnd : live.Nodup) (r : Nat)
    (hr : r ∈ live) (hrne : r ∉ extremesFirst f M) :
    (nonEx f M (live.filter (· != r))).length = (nonEx f M live).length - 1 := by
  unfold nonEx
  rw [List.filter_filter]
  have : (live.filter fun a => (!(extremesFirst f M).contains a) && (a != r)) =
      (live.filter fun i => !(extremesFirst f M).contains i).filter (· != r) := by
    rw [List.filter_filter]
    congr 1
    funext a
    exact Bool.and_comm _ _
  rw [this]
  have hnd' : (live.filter fun i => !(extremesFirst f M).contains i).Nodup := hnd.filter _
  have hmem : r ∈ live.filter fun i => !(extremesFirst f M).contains i := by
    rw [List.mem_filter]
    refine ⟨hr, ?_⟩
    cases h : (extremesFirst f M).contains r
    · rfl
    · exact absurd ((contains_iff _ r).mp h) hrne
  rw [← List.Nodup.erase_eq_filter hnd', List.length_erase_of_mem hmem]

/-- the recomputation the definition performs after each removal -/
def recomputeF (f : List (List α)) (M : Nat) : List Nat → List (Ext α) → List (Ext α) :=
  fun lv old => pcdScratch (normalizeCols f M) lv M (extremesFirst f M) f.length old

/-- **simulation over the whole loop** -/
theorem loop_sim (f : List (List α)) (M : Nat) (c : α) (hc : 0 < c) (hmax : AllMaxOnce f M) :
    ∀ (fuel : Nat) (st : PcdState α) (live : List Nat) (dF : List (Ext α)),
      LiveOK f M live → KInv f M c st live dF → fuel ≤ (nonEx f M live).length →
      (pcdLoopF (normalizeCols f M) c (extremesFirst f M) fuel st).ok = true ∧
      (pcdLoopF (normalizeCols f M) c (extremesFirst f M) fuel st).d =
        (pruneLoop (recomputeF f M) fuel live dF).map (Ext.mapFin (· / c))
  | 0, st, live, dF, _, hinv, _ => ⟨hinv.ok, hinv.d_eq⟩
  | fuel + 1, st, live, dF, hl, hinv, hb => by
    -- a live non-extreme point exists
    have hpos : 0 < (nonEx f M live).length := by omega
    obtain ⟨j, hj⟩ := List.exists_mem_of_length_pos hpos
    unfold nonEx at hj
    rw [List.mem_filter] at hj
    have hjne : j ∉ extremesFirst f M := by
      intro h; have := (contains_iff _ j).mpr h; rw [this] at hj; simp at hj
    obtain ⟨r, hr, hrl, hrne, hinv'⟩ := step_inv f M c hc hmax st live dF hl hinv j hj.1 hjne
    rw [pcdLoopF_succ]
    have hprune : pruneLoop (recomputeF f M) (fuel + 1) live dF =
        pruneLoop (recomputeF f M) fuel (live.filter (· != r)) (recomputeF f M (live.filter (· != r)) dF) := by
      rw [pruneLoop, hr]
    rw [hprune]
    apply loop_sim f M c hc hmax fuel _ _ _ (liveOK_filter f M live hl r hrne) hinv'
    rw [nonEx_filter_length f M live (live_nodup hl) r hrl hrne]
    omega

theorem liveOK_range (f : List (List α)) (M : Nat) (hne : f ≠ []) : LiveOK f M (List.range f.length) := by
  refine ⟨List.pairwise_lt_range, fun i hi => List.mem_range.mp hi, fun e he => ?_⟩
  rw [List.mem_range]
  unfold extremesFirst at he
  rw [List.mem_append] at he
  have hcne : ∀ m, column f m ≠ [] := by
    intro m hc; apply hne; have := column_length f m; rw [hc] at this; exact List.length_eq_zero_iff.mp this.symm
  rcases he with he | he
  · obtain ⟨m, _, rfl⟩ := List.mem_map.mp he
    have := (argminFirst_firstMin (column f m) (hcne m)).1
    rwa [column_length] at this
  · obtain ⟨m, _, rfl⟩ := List.mem_map.mp he
    have := (argmaxFirst_firstMax (column f m) (hcne m)).1
    rwa [column_length] at this

theorem padLast_full (s : List Nat) (n : Nat) (h : s.length = n) : padLast s n = s := by
  unfold padLast; rw [h]; simp

theorem Scol_range (f : List (List α)) (m : Nat) : Scol f m (List.range f.length) = argsortStable (column f m) := by
  rw [argsortStable_eq, column_length]; rfl

/-- the state on entry to the loop satisfies the invariant -/
theorem init_inv (f : List (List α)) (M : Nat) (c : α) (hne : f ≠ []) (hmax : AllMaxOnce f M) :
    KInv f M c (pcdInitF f M c) (List.range f.length)
      (pcdScratch (normalizeCols f M) (List.range f.length) M (extremesFirst f M) f.length (f.map fun _ => Ext.top)) := by
  set x := normalizeCols f M with hx
  set ex := extremesFirst f M with hex
  set n := f.length with hn
  have hl := liveOK_range f M hne
  have hxlen : x.length = n := normalize_length f M
  have hcols : ((List.range M).map fun cc => argsortStable (column f cc)) = colsOf f M (List.range n) := by
    unfold colsOf
    apply List.map_congr_left
    intro m _
    rw [padLast_full _ _ (by rw [Scol, sortedLive_length]; simp [hn]), Scol_range]
  set items := (List.range n).filter (fun i => !ex.contains i) with hitems
  have hitem_facts : ∀ i ∈ items, i < n ∧ i ∉ ex := by
    intro i hi
    rw [hitems, List.mem_filter] at hi
    refine ⟨List.mem_range.mp hi.1, fun h => ?_⟩
    rw [(contains_iff ex i).mpr h] at hi; simp at hi
  have hiter := iter_eval x c (fun m => Scol f m (List.range n)) n M true hxlen items
    (List.replicate n (List.replicate M Ext.top))
    (by
      intro i hi
      rw [List.length_replicate] at hi
      rw [List.getD_eq_getElem?_getD, List.getElem?_replicate]; simp [hi])
    (by
      intro i hi
      obtain ⟨h1, h2⟩ := hitem_facts i hi
      refine ⟨by rw [List.length_replicate]; exact h1, fun m hm => ?_⟩
      exact col_facts f M (List.range n) hl hmax i (List.mem_range.mpr h1) h2 m hm)
  have hinit : pcdInitF f M c =
      { cols := colsOf f M (List.range n),
        dmat := items.foldl (fun dm i => dm.set i (rowK f M c (List.range n) i)) (List.replicate n (List.replicate M Ext.top)),
        d := pcdCalcD (items.foldl (fun dm i => dm.set i (rowK f M c (List.range n) i)) (List.replicate n (List.replicate M Ext.top)))
          items (List.replicate n Ext.top),
        h := List.range n, ok := true } := by
    unfold pcdInitF
    simp only []
    rw [hcols]
    unfold colsOf
    rw [show (List.filter (fun i => !(extremesFirst f M).contains i) (List.range f.length)) = items from rfl, hiter]
    rfl
  rw [hinit]
  obtain ⟨hdl, hdg⟩ := foldl_set_getD (fun i => rowK f M c (List.range n) i) ([] : List (Ext α)) items
    (List.replicate n (List.replicate M Ext.top))
  set dmat' := items.foldl (fun dm i => dm.set i (rowK f M c (List.range n) i)) (List.replicate n (List.replicate M Ext.top))
  have hrows' : ∀ i ∈ List.range n, i ∉ ex → dmat'.getD i [] = rowK f M c (List.range n) i := by
    intro i hi hie
    rw [hdg i, List.length_replicate]
    have : i ∈ items := by
      rw [hitems, List.mem_filter]
      refine ⟨hi, ?_⟩
      cases hcc : ex.contains i
      · rfl
      · exact absurd ((contains_iff ex i).mp hcc) hie
    rw [if_pos ⟨this, List.mem_range.mp hi⟩]
  refine ⟨rfl, rfl, by rw [hdl, List.length_replicate], ?_, hrows', ?_, ⟨_, rfl⟩, rfl⟩
  · intro i hi
    rw [hdl, List.length_replicate] at hi
    rw [hdg i, List.length_replicate]
    split
    · exact rowK_length f M c _ i
    · rw [List.getD_eq_getElem?_getD, List.getElem?_replicate]; simp [hi]
  · unfold pcdCalcD
    obtain ⟨hcl, hcg⟩ := foldl_set_getD (fun i => (dmat'.getD i []).foldl Ext.add (Ext.fin 0)) (Ext.top : Ext α) items
      (List.replicate n Ext.top)
    apply ext_getD (Ext.top : Ext α)
    · rw [hcl, List.length_replicate, List.length_map]; exact (scratch_length _ _ _ _ _ _).symm
    · intro i hi
      rw [hcl, List.length_replicate] at hi
      rw [hcg i, getD_map_mapFin, scratch_get f M (List.range n) hl hmax _ i hi, List.length_replicate]
      by_cases hit : i ∈ items
      · obtain ⟨h1, h2⟩ := hitem_facts i hit
        rw [if_pos ⟨hit, hi⟩, hrows' i (List.mem_range.mpr h1) h2, rowK_sum]
        have : ex.contains i = false := by
          cases hcc : ex.contains i
          · rfl
          · exact absurd ((contains_iff ex i).mp hcc) h2
        rw [this]
        simp only [Bool.false_eq_true, ↓reduceIte, List.mem_range, h1]
        rfl
      · rw [if_neg (fun h => hit h.1)]
        have hie : ex.contains i = true := by
          cases hcc : ex.contains i
          · exfalso; apply hit
            rw [hitems, List.mem_filter]
            exact ⟨List.mem_range.mpr hi, by rw [hcc]; rfl⟩
          · rfl
        rw [hie]
        simp only [↓reduceIte, Ext.mapFin]
        rw [List.getD_eq_getElem?_getD, List.getElem?_replicate]; simp [hi]

/-- the hypothesis whose negation is known finding F3: no more removals than non-extreme points -/
def Budget (f : List (List α)) (M : Nat) (nRemove : Int) : Prop :=
  (clampRemove nRemove f.length M - 1).toNat ≤ (nonEx f M (List.range f.length)).length

/-- **C13 / C14: the compiled pcd kernel equals the published definition** (= the pure-Python engine), for any
number of removals, and stays inside its arrays -/
theorem pcdKernelF_refines (f : List (List α)) (M : Nat) (c : α) (nRemove : Int) (hne : f ≠ []) (hc : 0 < c)
    (hmax : AllMaxOnce f M) (hb : Budget f M nRemove) :
    pcdKernelF f M c nRemove = (pcdFallback f M c nRemove, true) := by
  obtain ⟨h1, h2⟩ := loop_sim f M c hc hmax (clampRemove nRemove f.length M - 1).toNat (pcdInitF f M c)
    (List.range f.length) _ (liveOK_range f M hne) (init_inv f M c hne hmax) hb
  unfold pcdKernelF pcdFallback
  simp only []
  rw [h1, h2]
  rfl

/-- **C13 (memory safety of the compiled pcd kernel, all passes)** -/
theorem pcdKernelF_safe (f : List (List α)) (M : Nat) (c : α) (nRemove : Int) (hne : f ≠ []) (hc : 0 < c)
    (hmax : AllMaxOnce f M) (hb : Budget f M nRemove) : (pcdKernelF f M c nRemove).2 = true := by
  rw [pcdKernelF_refines f M c nRemove hne hc hmax hb]

/-- **C14 (engine independence for pcd)** -/
theorem pcd_engine_independent (f : List (List α)) (M : Nat) (c : α) (nRemove : Int) (hne : f ≠ []) (hc : 0 < c)
    (hmax : AllMaxOnce f M) (hb : Budget f M nRemove) :
    (pcdKernelF f M c nRemove).1 = pcdFallback f M c nRemove := by
  rw [pcdKernelF_refines f M c nRemove hne hc hmax hb]


/-- a bi-objective front on which no point weakly dominates another one (non-dominated and free of
duplicates) -/
def Front2 (f : List (List α)) : Prop :=
  ∀ a b, a < f.length → b < f.length → a ≠ b → ¬ (xAt f a 0 ≤ xAt f b 0 ∧ xAt f a 1 ≤ xAt f b 1)

theorem front2_maxOnce (f : List (List α)) (h : Front2 f) : AllMaxOnce f 2 := by
  intro m hm a b ha hb hamax hbmax
  rw [column_length] at ha hb
  by_contra hab
  have e : ∀ k, (column f m).getD k default = xAt f k m := fun k => column_getD f m k
  have hle1 := hamax b (by rw [column_length]; exact hb)
  have hle2 := hbmax a (by rw [column_length]; exact ha)
  rw [e, e] at hle1 hle2
  have heq : xAt f a m = xAt f b m := le_antisymm hle2 hle1
  have hm' : m = 0 ∨ m = 1 := by omega
  rcases hm' with rfl | rfl
  · rcases le_total (xAt f a 1) (xAt f b 1) with h1 | h1
    · exact h a b ha hb hab ⟨le_of_eq heq, h1⟩
    · exact h b a hb ha (Ne.symm hab) ⟨le_of_eq heq.symm, h1⟩
  · rcases le_total (xAt f a 0) (xAt f b 0) with h1 | h1
    · exact h a b ha hb hab ⟨h1, le_of_eq heq⟩
    · exact h b a hb ha (Ne.symm hab) ⟨h1, le_of_eq heq.symm⟩

/-- on such a front the holder of the minimum of one objective is the holder of the maximum of the other -/
theorem front2_min_is_max (f : List (List α)) (hne : f ≠ []) (h : Front2 f) (m m' : Nat) (hmm : (m = 0 ∧ m' = 1) ∨ (m = 1 ∧ m' = 0)) :
    argminFirst (column f m) = argmaxFirst (column f m') := by
  have hcne : ∀ m, column f m ≠ [] := by
    intro m hc; apply hne; have := column_length f m; rw [hc] at this; exact List.length_eq_zero_iff.mp this.symm
  obtain ⟨a1, a2, _⟩ := argminFirst_firstMin (column f m) (hcne m)
  obtain ⟨b1, b2, _⟩ := argmaxFirst_firstMax (column f m') (hcne m')
  rw [column_length] at a1 b1
  by_contra hab
  have h1 := a2 (argmaxFirst (column f m')) (by rw [column_length]; exact b1)
  have h2 := b2 (argminFirst (column f m)) (by rw [column_length]; exact a1)
  rw [column_getD, column_getD] at h1 h2
  rcases hmm with ⟨rfl, rfl⟩ | ⟨rfl, rfl⟩
  · exact h _ _ a1 b1 hab ⟨h1, h2⟩
  · exact h _ _ a1 b1 hab ⟨h2, h1⟩

theorem length_filter_two (n a b : Nat) (p : Nat → Bool) (hp : ∀ i, i ≠ a → i ≠ b → p i = true) :
    n - 2 ≤ ((List.range n).filter p).length := by
  induction n with
  | zero => simp
  | succ k ih =>
    rw [List.range_succ, List.filter_append, List.length_append]
    by_cases hk : p k = true
    · simp [hk]; omega
    · -- k is a or b
      have hkab : k = a ∨ k = b := by
        by_contra hne
        have hne := not_or.mp hne
        exact hk (hp k hne.1 hne.2)
      -- among the first k numbers at most one of a, b occurs
      have : k - 1 ≤ ((List.range k).filter p).length := by
        clear ih
        have hgen : ∀ (j : Nat), j ≤ k → j - 1 ≤ ((List.range j).filter p).length := by
          intro j
          induction j with
          | zero => intro _; simp
          | succ t iht =>
            intro ht
            rw [List.range_succ, List.filter_append, List.length_append]
            by_cases hpt : p t = true
            · simp [hpt]; have := iht (by omega); omega
            · have htab : t = a ∨ t = b := by
                by_contra hne
                have hne := not_or.mp hne
                exact hpt (hp t hne.1 hne.2)
              -- then every earlier number satisfies p (the other of a, b is k > t)
              have hall : ∀ i, i < t → p i = true := by
                intro i hi
                apply hp i
                · rcases htab with rfl | rfl
                  · omega
                  · rcases hkab with rfl | rfl
                    · omega
                    · omega
                · rcases htab with rfl | rfl
                  · rcases hkab with rfl | rfl
                    · omega
                    · omega
                  · omega
              have : ((List.range t).filter p) = List.range t := by
                rw [List.filter_eq_self]
                intro i hi; exact hall i (List.mem_range.mp hi)
              rw [this]; simp
        exact hgen k (le_refl k)
      simp [hk]; omega

/-- **pcd on a bi-objective front**: the kernel equals the definition and never leaves its arrays -/
theorem pcd_two_objectives (f : List (List α)) (c : α) (nRemove : Int) (hne : f ≠ []) (hc : 0 < c) (h : Front2 f) :
    pcdKernelF f 2 c nRemove = (pcdFallback f 2 c nRemove, true) := by
  apply pcdKernelF_refines f 2 c nRemove hne hc (front2_maxOnce f h)
  unfold Budget nonEx
  have e1 := front2_min_is_max f hne h 0 1 (Or.inl ⟨rfl, rfl⟩)
  have e2 := front2_min_is_max f hne h 1 0 (Or.inr ⟨rfl, rfl⟩)
  have hlen := length_filter_two f.length (argminFirst (column f 0)) (argminFirst (column f 1))
    (fun i => !(extremesFirst f 2).contains i)
    (by
      intro i h1 h2
      simp only [extremesFirst, List.range_succ, List.range_zero, List.nil_append, List.map_cons, List.map_nil,
        List.cons_append, ← e1, ← e2]
      simp [h1, h2])
  have hcl : clampRemove nRemove f.length 2 ≤ (f.length : Int) - 2 ∨ clampRemove nRemove f.length 2 ≤ 0 := by
    unfold clampRemove
    simp only [Nat.cast_ofNat]
    split
    · split
      · exact Or.inr (le_refl _)
      · left; omega
    · exact Or.inl (le_refl _)
  generalize clampRemove nRemove f.length 2 = cl at hcl ⊢
  generalize (List.filter (fun i => !(extremesFirst f 2).contains i) (List.range f.length)).length = d at hlen ⊢
  omega


/-- non-vacuity of `pcd_two_objectives` / `pcdKernelF_refines`: a concrete 4-point bi-objective front over ℚ
meets the hypothesis, so on it the compiled kernel equals the definition for every `n_remove` -/
example : Front2 ([[0, 3], [1, 2], [2, 1], [3, 0]] : List (List ℚ)) := by
  intro a b ha hb hab
  simp only [List.length_cons, List.length_nil] at ha hb
  interval_cases a <;> interval_cases b <;> simp_all [xAt] <;> norm_num

example (nRemove : Int) :
    pcdKernelF ([[0, 3], [1, 2], [2, 1], [3, 0]] : List (List ℚ)) 2 2 nRemove =
      (pcdFallback ([[0, 3], [1, 2], [2, 1], [3, 0]] : List (List ℚ)) 2 2 nRemove, true) := by
  apply pcd_two_objectives _ 2 nRemove (by simp) (by norm_num)
  intro a b ha hb hab
  simp only [List.length_cons, List.length_nil] at ha hb
  interval_cases a <;> interval_cases b <;> simp_all [xAt] <;> norm_num

end C13
end Pymoode
