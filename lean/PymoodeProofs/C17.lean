/-
C17  Runs are reproducible and independent of how the loop is driven.   — PARTIAL —

FULL STATEMENT: same problem, configuration and seed ⇒ identical populations and results in every
generation, whatever ran before in the process; `minimize` and ask-and-tell with external
evaluation (one by one, any order) give the same outcome.

PROVED (over the model): the run is a fold of a pure step, so it is a function of (initial state,
draw stream) and of nothing else; it composes over any split of the stream; the three-phase step is
independent of the order / batching in which the offspring are evaluated.
NOT MODELLED (named): NumPy's Mersenne Twister and its seeding by `Algorithm.setup`, interpreter
and third-party process state. That the real object has *no more state than the model's `σ`* is
what the correspondence run checks: `gen` records (next population = step of the previous one on
the recorded draws and oracles) and twin executions (`repro` records).
-/
import PymoodeModel.Run
import Mathlib.Data.List.Basic
import Mathlib.Data.List.Perm.Basic
import Mathlib.Data.List.Range

set_option linter.unusedSectionVars false
set_option linter.unusedVariables false

namespace Pymoode
namespace C17

variable {σ δ χ υ : Type}

/-- a run composes over any split of the draw stream (also the basis of checkpoint/resume) -/
theorem run_split (step : σ → δ → σ) (s : σ) (d₁ d₂ : List δ) :
    runSteps step s (d₁ ++ d₂) = runSteps step (runSteps step s d₁) d₂ := by
  simp [runSteps, List.foldl_append]

/-- same state, same draws ⇒ same result: the outcome is a function of these two alone -/
theorem run_deterministic (step : σ → δ → σ) (s s' : σ) (d d' : List δ) (hs : s = s') (hd : d = d') :
    runSteps step s d = runSteps step s' d' := by subst hs; subst hd; rfl

/-- `next()` is ask, evaluate, tell -/
theorem next_eq_ask_eval_tell (p : Phases σ δ χ υ) (s : σ) (d : δ) :
    p.step s d = p.tell s d ((p.ask s d).map fun x => (x, p.eval x)) := rfl

theorem evalInOrder_length (eval : χ → υ) (xs : List χ) (order : List Nat) :
    (evalInOrder eval xs order).length = xs.length := by
  unfold evalInOrder
  have : ∀ (o : List Nat) (acc : List (Option υ)), acc.length = xs.length →
      (o.foldl (fun acc i => match xs[i]? with
        | some x => acc.set i (some (eval x))
        | none => acc) acc).length = xs.length := by
    intro o
    induction o with
    | nil => intro acc h; simpa using h
    | cons i o ih =>
      intro acc h
      simp only [List.foldl_cons]
      apply ih
      split <;> simp [h]
  exact this order _ (by simp)

/-- after evaluating in any order, slot `i` holds `eval xs[i]` iff `i` was visited -/
theorem evalInOrder_get (eval : χ → υ) (xs : List χ) (order : List Nat) (i : Nat) (hi : i < xs.length) :
    (evalInOrder eval xs order)[i]? = some (if i ∈ order then some (eval xs[i]) else none) := by
  unfold evalInOrder
  have : ∀ (o : List Nat) (acc : List (Option υ)), acc.length = xs.length →
      (o.foldl (fun acc j => match xs[j]? with
        | some x => acc.set j (some (eval x))
        | none => acc) acc)[i]? =
      some (if i ∈ o then some (eval xs[i]) else (acc[i]?.getD none)) := by
    intro o
    induction o with
    | nil =>
      intro acc h
      have : i < acc.length := by omega
      simp [List.getElem?_eq_getElem this]
    | cons j o ih =>
      intro acc h
      simp only [List.foldl_cons]
      by_cases hj : j < xs.length
      · simp only [List.getElem?_eq_getElem hj]
        rw [ih _ (by simp [h])]
        by_cases hio : i ∈ o
        · simp [hio]
        · simp only [hio, ↓reduceIte, List.mem_cons]
          by_cases hij : i = j
          · subst hij
            have : i < acc.length := by omega
            simp [List.getElem?_set_self this]
          · have hji : j ≠ i := fun h => hij h.symm
            simp [hij, List.getElem?_set_ne hji]
      · simp only [List.getElem?_eq_none (Nat.le_of_not_lt hj)]
        rw [ih _ h]
        have hij : i ≠ j := by omega
        simp [hij]
  have h := this order (xs.map fun _ => none) (by simp)
  simp only [List.getElem?_map, List.getElem?_eq_getElem hi, Option.map_some, Option.getD_some] at h
  exact h

/-- **evaluation order is irrelevant**: visiting every offspring once, in any order (one by one or
in any batching), yields exactly the evaluations `eval xs[i]` in place -/
theorem eval_order_irrelevant (eval : χ → υ) (xs : List χ) (order : List Nat)
    (hperm : order.Perm (List.range xs.length)) :
    evalInOrder eval xs order = xs.map fun x => some (eval x) := by
  apply List.ext_getElem?
  intro i
  by_cases hi : i < xs.length
  · rw [evalInOrder_get eval xs order i hi]
    have : i ∈ order := hperm.symm.subset (by simpa using hi)
    simp [this, List.getElem?_eq_getElem hi]
  · have h1 : (evalInOrder eval xs order).length ≤ i := by rw [evalInOrder_length]; omega
    rw [List.getElem?_eq_none h1, List.getElem?_eq_none (by simpa using Nat.le_of_not_lt hi)]

/-- two evaluation orders give the same evaluated offspring, hence (same `tell`) the same state -/
theorem eval_orders_agree (eval : χ → υ) (xs : List χ) (o₁ o₂ : List Nat)
    (h₁ : o₁.Perm (List.range xs.length)) (h₂ : o₂.Perm (List.range xs.length)) :
    evalInOrder eval xs o₁ = evalInOrder eval xs o₂ := by
  rw [eval_order_irrelevant eval xs o₁ h₁, eval_order_irrelevant eval xs o₂ h₂]

example : evalInOrder (fun x : Nat => x * x) [3, 4, 5] [2, 0, 1] = [some 9, some 16, some 25] := by decide

end C17
end Pymoode
