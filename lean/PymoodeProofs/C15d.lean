/-
C15, continued: **the cut `I[:-n_remove]` of RankAndCrowding keeps exactly what one-at-a-time pruning keeps.**

`truncation_is_greedy_step` (abstract): `s` = the front in descending order of the values `v` the metric returned (any
order meeting the argsort contract), `live` = the points still alive inside the metric after its `n_remove − 1` internal
removals, `r` = the live point of smallest value. If every pruned point's value is strictly below every live point's and
`r` is the unique live minimum (the removal sequence "involves no ties" at the cut), then the `|live| − 1` members the cut
keeps are exactly `live \ {r}` — the live set after one more greedy removal.

`mnn_truncation_is_greedy` instantiates it for the mnn / 2nn definition (`mnnFallback`): with `pruneLive k` = the live set
after `k` greedy removals ("drop the most crowded member, re-compute the crowding of the remaining ones, repeat"),
`s.take (n − n_remove) = pruneLive n_remove` as sets. Through `C13.mnnKernelF_refines` the same holds for the values the
compiled kernel returns on fronts without distance ties (`mnnKernel_truncation_is_greedy`).
-/
import PymoodeProofs.C13i
import PymoodeProofs.C15
import Mathlib.Tactic.IntervalCases
import Mathlib.Tactic.NormNum
import Mathlib.Data.Rat.Defs
import Mathlib.Algebra.Order.Field.Rat

set_option linter.unusedSectionVars false
set_option linter.unusedVariables false
set_option linter.unusedSimpArgs false

namespace Pymoode
namespace C15
open C13

variable {α : Type} [Field α] [LinearOrder α] [IsStrictOrderedRing α] [Inhabited α]

theorem countP_not_add {β : Type} (p : β → Bool) : ∀ (l : List β), l.countP (fun k => !p k) + l.countP p = l.length
  | [] => rfl
  | a :: t => by
    have ih := countP_not_add p t
    cases h : p a <;> simp [List.countP_cons, h] <;> omega

theorem ext_lt_of_le_ne (a b : Ext α) (hle : extLe a b = true) (hfin : a ≠ Ext.top)
    (hne : a ≠ b ∨ (a = Ext.top ∧ b = Ext.top)) : Ext.lt a b = true := by
  cases a with
  | top => exact absurd rfl hfin
  | fin x =>
    cases b with
    | top => rfl
    | fin y =>
      have hxy : x ≤ y := by simpa [extLe, Ext.lt] using hle
      have hne' : x ≠ y := by
        rcases hne with h | ⟨h, _⟩
        · intro e; exact h (by rw [e])
        · cases h
      simp only [Ext.lt, decide_eq_true_eq]
      exact lt_of_le_of_ne hxy hne'

/-- **the cut keeps the live points except the most crowded one** -/
theorem truncation_is_greedy_step (v : Nat → Ext α) (n : Nat) (s live : List Nat) (r : Nat)
    (hsperm : s.Perm (List.range n)) (hs : SortedDesc v s)
    (hlnd : live.Nodup) (hlsub : ∀ i ∈ live, i < n) (hr : r ∈ live)
    (hstale : ∀ k, k < n → k ∉ live → ∀ i ∈ live, Ext.lt (v k) (v i) = true)
    (hmin : ∀ i ∈ live, i ≠ r → Ext.lt (v r) (v i) = true) :
    ∀ i, i ∈ s.take (live.length - 1) ↔ (i ∈ live ∧ i ≠ r) := by
  have hsnd : s.Nodup := hsperm.nodup_iff.mpr List.nodup_range
  have hsmem : ∀ i, i ∈ s ↔ i < n := fun i => by rw [hsperm.mem_iff, List.mem_range]
  have hslen : s.length = n := by rw [hsperm.length_eq, List.length_range]
  have hlive_le : live.length ≤ n := by
    have : live ⊆ s := fun i hi => (hsmem i).mpr (hlsub i hi)
    have := (List.subperm_of_subset hlnd this).length_le
    omega
  have hlpos : 0 < live.length := List.length_pos_of_mem hr
  set m := live.length - 1 with hm
  set removed : Nat → Bool := fun k => !live.contains k with hrem
  -- the number of pruned points in s
  have hcount : s.countP removed + live.length = n := by
    have h1 : s.countP removed + s.countP (fun k => live.contains k) = s.length :=
      countP_not_add (fun k => live.contains k) s
    have h2 : s.countP (fun k => live.contains k) = live.length := by
      rw [List.countP_eq_length_filter]
      have hp : (s.filter fun k => live.contains k).Perm live := by
        rw [List.perm_ext_iff_of_nodup (hsnd.filter _) hlnd]
        intro a
        rw [List.mem_filter]
        simp only [List.contains_iff_mem]
        exact ⟨fun h => h.2, fun h => ⟨(hsmem a).mpr (hlsub a h), h⟩⟩
      exact hp.length_eq
    omega
  -- everything kept is alive
  have hkept_live : ∀ k ∈ s.take m, k ∈ live := by
    have := truncation_drops_removed v s removed hs
      (by
        intro k hk i hi hk' hi'
        have hkl : k ∉ live := by simpa [hrem] using hk'
        have hil : i ∈ live := by simpa [hrem] using hi'
        exact hstale k ((hsmem k).mp hk) hkl i hil)
      m (by omega)
    intro k hk
    simpa [hrem] using this k hk
  have htake_len : (s.take m).length = m := by rw [List.length_take]; omega
  have htake_nd : (s.take m).Nodup := hsnd.sublist (List.take_sublist _ _)
  -- r is not kept
  have hr_not : r ∉ s.take m := by
    intro hrin
    -- then some other live point is dropped, and it would have to be ≤ r
    have hex : ∃ i ∈ live, i ∉ s.take m := by
      by_contra hno
      have hsub : live ⊆ s.take m := fun i hi => by
        by_contra h; exact hno ⟨i, hi, h⟩
      have := (List.subperm_of_subset hlnd hsub).length_le
      omega
    obtain ⟨i, hil, hin⟩ := hex
    have his : i ∈ s := (hsmem i).mpr (hlsub i hil)
    rw [← List.take_append_drop m s, List.mem_append] at his
    rcases his with h | h
    · exact hin h
    · have hne : i ≠ r := fun e => hin (e ▸ hrin)
      have h1 := dropped_smallest v s m hs r hrin i h
      rw [hmin i hil hne] at h1
      exact Bool.noConfusion h1
  intro i
  constructor
  · intro hi
    exact ⟨hkept_live i hi, fun e => hr_not (e ▸ hi)⟩
  · rintro ⟨hil, hir⟩
    -- counting: the kept part is a duplicate-free sublist of live \ {r} of the same length
    by_contra hin
    have hsub : s.take m ⊆ (live.erase r).erase i := by
      intro k hk
      have hkl := hkept_live k hk
      have hkr : k ≠ r := fun e => hr_not (e ▸ hk)
      have hki : k ≠ i := fun e => hin (e ▸ hk)
      exact (List.mem_erase_of_ne hki).mpr ((List.mem_erase_of_ne hkr).mpr hkl)
    have h1 := (List.subperm_of_subset htake_nd hsub).length_le
    have h2 : ((live.erase r).erase i).length = live.length - 2 := by
      rw [List.length_erase_of_mem ((List.mem_erase_of_ne hir).mpr hil), List.length_erase_of_mem hr]
      omega
    have hl2 : 2 ≤ live.length := by
      have : [r, i].Subperm live := List.subperm_of_subset (by simp [Ne.symm hir]) (by
        intro a ha; simp at ha; rcases ha with rfl | rfl <;> assumption)
      simpa using this.length_le
    omega

/-- non-vacuity of `truncation_is_greedy_step`: three points with values 1, 0 (pruned), 3; the live ones are 0 and 2, the
live minimum is point 0; the cut keeping one member keeps point 2 -/
example : ∀ i, i ∈ ([2, 0, 1] : List Nat).take (([0, 2] : List Nat).length - 1) ↔ (i ∈ ([0, 2] : List Nat) ∧ i ≠ 0) := by
  apply truncation_is_greedy_step (α := ℚ) (fun i => ([Ext.fin 1, Ext.fin 0, Ext.fin 3] : List (Ext ℚ)).getD i Ext.top) 3
    [2, 0, 1] [0, 2] 0
  · decide
  · simp [SortedDesc, Ext.lt]
  · decide
  · intro i hi; simp at hi; rcases hi with rfl | rfl <;> omega
  · simp
  · intro k hk hkl i hi
    simp at hkl hi
    have : k = 1 := by omega
    subst this
    rcases hi with rfl | rfl <;> simp [Ext.lt]
  · intro i hi hne
    simp at hi
    rcases hi with rfl | rfl
    · exact absurd rfl hne
    · simp [Ext.lt]


/-! ### the live set of one-at-a-time pruning -/

/-- the removal loop with the live set made explicit: after `k` greedy removals -/
def pruneLive (recompute : List Nat → List (Ext α) → List (Ext α)) :
    Nat → List Nat → List (Ext α) → List Nat × List (Ext α)
  | 0, live, d => (live, d)
  | k + 1, live, d =>
    match dropLast d live with
    | none => (live, d)
    | some r =>
      let live' := live.filter (· != r)
      pruneLive recompute k live' (recompute live' d)

theorem pruneLive_snd (recompute : List Nat → List (Ext α) → List (Ext α)) :
    ∀ (k : Nat) (live : List Nat) (d : List (Ext α)), (pruneLive recompute k live d).2 = pruneLoop recompute k live d
  | 0, live, d => rfl
  | k + 1, live, d => by
    unfold pruneLive pruneLoop
    cases h : dropLast d live with
    | none => rfl
    | some r => exact pruneLive_snd recompute k _ _

/-- one more removal at the end: the live set loses the current most crowded member -/
theorem pruneLive_succ (recompute : List Nat → List (Ext α) → List (Ext α)) :
    ∀ (k : Nat) (live : List Nat) (d : List (Ext α)),
      (pruneLive recompute (k + 1) live d).1 =
        match dropLast (pruneLive recompute k live d).2 (pruneLive recompute k live d).1 with
        | none => (pruneLive recompute k live d).1
        | some r => (pruneLive recompute k live d).1.filter (· != r)
  | 0, live, d => by
    unfold pruneLive
    cases h : dropLast d live with
    | none => simp [pruneLive, h]
    | some r => simp [pruneLive, h]
  | k + 1, live, d => by
    rw [show pruneLive recompute (k + 1 + 1) live d =
      (match dropLast d live with
        | none => (live, d)
        | some r => pruneLive recompute (k + 1) (live.filter (· != r)) (recompute (live.filter (· != r)) d)) from rfl]
    rw [show pruneLive recompute (k + 1) live d =
      (match dropLast d live with
        | none => (live, d)
        | some r => pruneLive recompute k (live.filter (· != r)) (recompute (live.filter (· != r)) d)) from rfl]
    cases h : dropLast d live with
    | none => simp [h]
    | some r =>
      simp only []
      exact pruneLive_succ recompute k _ _

/-- the invariant of the removal loop holds for the explicit live set; the live set stays duplicate-free and loses one
member per removal -/
theorem pruneLive_inv (x : List (List α)) (mNb : Nat) (ex : List Nat) (n : Nat) :
    ∀ (k : Nat) (live : List Nat) (d : List (Ext α)), LoopInv x mNb ex n live d → live.Nodup → k ≤ live.length →
      LoopInv x mNb ex n (pruneLive (fun lv old => mnnScratch x lv mNb ex n old) k live d).1
        (pruneLive (fun lv old => mnnScratch x lv mNb ex n old) k live d).2 ∧
      (pruneLive (fun lv old => mnnScratch x lv mNb ex n old) k live d).1.Nodup ∧
      (pruneLive (fun lv old => mnnScratch x lv mNb ex n old) k live d).1.length = live.length - k
  | 0, live, d, h, hnd, _ => ⟨h, hnd, by simp [pruneLive]⟩
  | k + 1, live, d, h, hnd, hk => by
    have hne : live ≠ [] := by intro e; rw [e] at hk; simp at hk
    obtain ⟨r, hr⟩ := C13.dropLast_some d live hne
    unfold pruneLive
    rw [hr]
    simp only []
    have hrl := (dropLast_spec d live r hr).1
    have hlen : (live.filter (· != r)).length = live.length - 1 := by
      rw [← List.Nodup.erase_eq_filter hnd, List.length_erase_of_mem hrl]
    obtain ⟨h1, h2, h3⟩ := pruneLive_inv x mNb ex n k _ _ (loopInv_step x mNb ex n live d h r hr) (hnd.filter _) (by omega)
    exact ⟨h1, h2, by rw [h3, hlen]; omega⟩

/-- **C15 (mnn / 2nn definition): the members the cut keeps are exactly those one-at-a-time pruning keeps.**
`k = n_remove` (`1 ≤ k ≤ N − M`), `s` the front in descending order of the returned values; if, in those values, every
pruned point lies strictly below every live point and the live minimum is attained once, then
`s.take (N − k)` = the live set after `k` greedy removals -/
theorem mnn_truncation_is_greedy (f : List (List α)) (nObj : Nat) (twonn : Bool) (k : Nat) (hk1 : 1 ≤ k)
    (hk2 : k + nObj ≤ f.length) (hbig : (if twonn then 2 else nObj) < f.length)
    (s : List Nat) (hsperm : s.Perm (List.range f.length))
    (hs : SortedDesc (fun i => (mnnFallback f nObj (k : Int) twonn).getD i Ext.top) s)
    (hstrict : ∀ a b, a < f.length → b < f.length → a ≠ b →
      (mnnFallback f nObj (k : Int) twonn).getD a Ext.top ≠ (mnnFallback f nObj (k : Int) twonn).getD b Ext.top ∨
      ((mnnFallback f nObj (k : Int) twonn).getD a Ext.top = Ext.top ∧ (mnnFallback f nObj (k : Int) twonn).getD b Ext.top = Ext.top)) :
    let x := normalizeCols f nObj
    let ex := extremesFirst f nObj
    let mNb := if twonn then 2 else nObj
    let d0 := mnnScratch x (List.range f.length) mNb ex f.length (f.map fun _ => Ext.top)
    let rc := fun lv old => mnnScratch x lv mNb ex f.length old
    (∃ r, dropLast (pruneLive rc (k - 1) (List.range f.length) d0).2 (pruneLive rc (k - 1) (List.range f.length) d0).1 = some r ∧
      ((mnnFallback f nObj (k : Int) twonn).getD r Ext.top ≠ Ext.top →
        ∀ i, i ∈ s.take (f.length - k) ↔ i ∈ (pruneLive rc k (List.range f.length) d0).1)) := by
  intro x ex mNb d0 rc
  set n := f.length with hn
  have hcl : clampRemove (k : Int) n nObj = (k : Int) := by
    unfold clampRemove
    rw [if_pos (by omega), if_neg (by omega)]
  have hfb : mnnFallback f nObj (k : Int) twonn = (pruneLive rc (k - 1) (List.range n) d0).2 := by
    unfold mnnFallback
    simp only []
    rw [if_neg (by omega), hcl, pruneLive_snd]
    congr 1
    omega
  obtain ⟨hinv, hnd, hlen⟩ := pruneLive_inv x mNb ex n (k - 1) (List.range n) d0
    (loopInv_init x mNb ex n (f.map fun _ => Ext.top)) List.nodup_range (by rw [List.length_range]; omega)
  set live := (pruneLive rc (k - 1) (List.range n) d0).1 with hlive
  set d := (pruneLive rc (k - 1) (List.range n) d0).2 with hd
  rw [List.length_range] at hlen
  have hne : live ≠ [] := by
    intro e; rw [e] at hlen; simp at hlen; omega
  obtain ⟨r, hr⟩ := C13.dropLast_some d live hne
  refine ⟨r, hr, fun hrfin => ?_⟩
  rw [hfb] at hrfin
  obtain ⟨hrl, hrmin⟩ := dropLast_spec d live r hr
  -- the next live set
  have hnext : (pruneLive rc k (List.range n) d0).1 = live.filter (· != r) := by
    have := pruneLive_succ rc (k - 1) (List.range n) d0
    rw [show k - 1 + 1 = k by omega] at this
    rw [this, ← hlive, ← hd, hr]
  rw [hnext]
  have hlt : ∀ i ∈ live, i < n := hinv.live_lt
  have hs' : SortedDesc (fun i => d.getD i Ext.top) s := by rw [← hfb]; exact hs
  have hstrict' : ∀ a b, a < n → b < n → a ≠ b → extLe (d.getD a Ext.top) (d.getD b Ext.top) = true →
      d.getD a Ext.top ≠ Ext.top → Ext.lt (d.getD a Ext.top) (d.getD b Ext.top) = true := by
    intro a b ha hb hab hle hfin
    have := hstrict a b ha hb hab
    rw [hfb] at this
    exact ext_lt_of_le_ne _ _ hle hfin this
  have key := truncation_is_greedy_step (fun i => d.getD i Ext.top) n s live r hsperm hs' hnd hlt hrl
    (by
      intro kk hkk hkl i hil
      have hle := hinv.stale kk hkk (by simpa using hkl) i (hlt i hil) (by simpa using hil)
      have hkfin : d.getD kk Ext.top ≠ Ext.top := by
        -- a pruned point is ≤ the live minimum r, which is finite
        intro htop
        have h1 := hinv.stale kk hkk (by simpa using hkl) r (hlt r hrl) (by simpa using hrl)
        rw [htop] at h1
        cases hdr : d.getD r Ext.top with
        | top => exact hrfin hdr
        | fin a => rw [hdr] at h1; simp [extLe, Ext.lt] at h1
      have hne' : kk ≠ i := fun e => hkl (e ▸ hil)
      exact hstrict' kk i hkk (hlt i hil) hne' hle hkfin)
    (by
      intro i hil hir
      exact hstrict' r i (hlt r hrl) (hlt i hil) (Ne.symm hir) (hrmin i hil) hrfin)
  intro i
  rw [show n - k = live.length - 1 by omega, key i, List.mem_filter]
  simp

/-- the same for the values the **compiled** mnn / 2nn kernel returns, on fronts without distance ties (through the
refinement theorem `C13.mnnKernelF_refines`) -/
theorem mnnKernel_truncation_is_greedy (f : List (List α)) (nObj : Nat) (twonn : Bool) (k : Nat) (hk1 : 1 ≤ k)
    (hk2 : k + nObj ≤ f.length) (hbig : (if twonn then 2 else nObj) < f.length)
    (h2 : (if twonn then 2 else nObj) ≤ nObj) (hnt : NoTies (normalizeCols f nObj) f.length)
    (s : List Nat) (hsperm : s.Perm (List.range f.length))
    (hs : SortedDesc (fun i => (mnnKernelF f nObj (k : Int) twonn).1.getD i Ext.top) s)
    (hstrict : ∀ a b, a < f.length → b < f.length → a ≠ b →
      (mnnKernelF f nObj (k : Int) twonn).1.getD a Ext.top ≠ (mnnKernelF f nObj (k : Int) twonn).1.getD b Ext.top ∨
      ((mnnKernelF f nObj (k : Int) twonn).1.getD a Ext.top = Ext.top ∧ (mnnKernelF f nObj (k : Int) twonn).1.getD b Ext.top = Ext.top)) :
    let x := normalizeCols f nObj
    let ex := extremesFirst f nObj
    let mNb := if twonn then 2 else nObj
    let d0 := mnnScratch x (List.range f.length) mNb ex f.length (f.map fun _ => Ext.top)
    let rc := fun lv old => mnnScratch x lv mNb ex f.length old
    (∃ r, dropLast (pruneLive rc (k - 1) (List.range f.length) d0).2 (pruneLive rc (k - 1) (List.range f.length) d0).1 = some r ∧
      ((mnnKernelF f nObj (k : Int) twonn).1.getD r Ext.top ≠ Ext.top →
        ∀ i, i ∈ s.take (f.length - k) ↔ i ∈ (pruneLive rc k (List.range f.length) d0).1)) := by
  rw [mnn_engine_independent f nObj (k : Int) twonn h2 hnt] at hs hstrict ⊢
  exact mnn_truncation_is_greedy f nObj twonn k hk1 hk2 hbig s hsperm hs hstrict

end C15
end Pymoode
