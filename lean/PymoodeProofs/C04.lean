/-
C04  Truncation respects dominance ranks and prefers feasible solutions.
-/
import PymoodeProofs.C03
import Mathlib.Data.List.Pairwise
import Mathlib.Data.List.Sort

set_option linter.unusedSectionVars false
set_option linter.unusedVariables false

namespace Pymoode
namespace C04
open C03

/-- once the quota is reached nothing more is taken -/
theorem frontLoop_full (nS : Nat) : ∀ (fs : List (List Nat × List Nat)) (acc : List Nat),
    SortedOk fs → acc.length = nS → frontLoop nS fs acc = acc
  | [], acc, _, _ => by simp [frontLoop]
  | (f, s) :: fs, acc, hs, h => by
      simp only [frontLoop]
      split
      · have : f.length - (acc.length + f.length - nS) = 0 := by omega
        rw [this]
        simp only [List.take_zero, List.append_nil]
        exact frontLoop_full nS fs acc hs.tail h
      · have hf : f = [] := by
          have : f.length = 0 := by omega
          exact List.eq_nil_of_length_eq_zero this
        subst hf
        simp only [List.append_nil]
        exact frontLoop_full nS fs acc hs.tail h

/-- **ranks are respected**: a survivor taken from front `kx` and a ranked non-survivor of front
`ky` satisfy `kx ≤ ky` — fronts are consumed in order and only the last one used is cut. -/
theorem frontLoop_rank_respect (nS : Nat) : ∀ (fs : List (List Nat × List Nat)) (acc : List Nat),
    SortedOk fs → (acc ++ pool fs).Nodup → acc.length ≤ nS →
    ∀ x, x ∈ frontLoop nS fs acc → x ∉ acc →
    ∀ kx (hkx : kx < fs.length), x ∈ fs[kx].1 →
    ∀ y ky (hky : ky < fs.length), y ∈ fs[ky].1 → y ∉ frontLoop nS fs acc → kx ≤ ky
  | [], acc, _, _, _, x, _, _, kx, hkx, _, _, _, _, _, _ => by simp at hkx
  | (f, s) :: fs, acc, hs, hn, hle, x, hx, hxa, kx, hkx, hxk, y, ky, hky, hyk, hy => by
      have hsf : s.Perm f := hs (f, s) (by simp)
      rw [pool_cons] at hn
      simp only [frontLoop] at hx hy
      split at hx
      · -- the front does not fit: it is cut and the quota is reached
        rename_i hgt
        have hfull : (acc ++ s.take (f.length - (acc.length + f.length - nS))).length = nS := by
          simp only [List.length_append, List.length_take, hsf.length_eq]; omega
        rw [if_pos hgt] at hy
        rw [frontLoop_full nS fs _ hs.tail hfull] at hx hy
        have hxs : x ∈ f := by
          rcases List.mem_append.mp hx with h | h
          · exact absurd h hxa
          · exact hsf.subset (List.mem_of_mem_take h)
        cases kx with
        | zero => omega
        | succ kx' =>
          exfalso
          have hk' : kx' < fs.length := by simpa using hkx
          have hxp : x ∈ pool fs := by
            simp only [pool, List.mem_flatten, List.mem_map]
            exact ⟨fs[kx'].1, ⟨fs[kx'], List.getElem_mem hk', rfl⟩, by simpa using hxk⟩
          have := (List.nodup_append.mp (List.nodup_append.mp hn).2.1).2.2 x hxs x hxp
          exact this rfl
      · rename_i hfit
        rw [if_neg hfit] at hy
        have hn' : ((acc ++ f) ++ pool fs).Nodup := by simpa [List.append_assoc] using hn
        cases kx with
        | zero => omega
        | succ kx' =>
          have hk' : kx' < fs.length := by simpa using hkx
          have hxp : x ∈ pool fs := by
            simp only [pool, List.mem_flatten, List.mem_map]
            exact ⟨fs[kx'].1, ⟨fs[kx'], List.getElem_mem hk', rfl⟩, by simpa using hxk⟩
          have hxaf : x ∉ acc ++ f := fun hc => (List.nodup_append.mp hn').2.2 x hc x hxp rfl
          cases ky with
          | zero =>
            exfalso
            have hyf : y ∈ f := by simpa using hyk
            exact hy ((frontLoop_prefix nS fs (acc ++ f)).subset (by simp [hyf]))
          | succ ky' =>
            have := frontLoop_rank_respect nS fs (acc ++ f) hs.tail hn' (by simp; omega) x hx hxaf
              kx' (by simpa using hkx) (by simpa using hxk) y ky' (by simpa using hky) (by simpa using hyk) hy
            omega

/-- a front that fits is kept whole; in particular the non-dominated front when it fits the quota -/
theorem first_front_kept (nS : Nat) (f s : List Nat) (fs : List (List Nat × List Nat))
    (hfit : f.length ≤ nS) : ∀ x ∈ f, x ∈ frontLoop nS ((f, s) :: fs) [] := by
  intro x hx
  simp only [frontLoop, List.length_nil, Nat.zero_add, List.nil_append]
  rw [if_neg (by omega)]
  exact (frontLoop_prefix nS fs f).subset hx

/-! ### consequences of the NDS contract -/

theorem mem_earlier {fronts : List (List Nat)} {k : Nat} {x : Nat} :
    x ∈ earlier fronts k ↔ ∃ k', k' < k ∧ k' < fronts.length ∧ x ∈ fronts.getD k' [] := by
  simp only [earlier, List.mem_flatten]
  constructor
  · rintro ⟨l, hl, hx⟩
    obtain ⟨i, hi, rfl⟩ := List.mem_iff_getElem.mp hl
    simp only [List.length_take] at hi
    refine ⟨i, by omega, by omega, ?_⟩
    simp only [List.getElem_take] at hx
    simpa [List.getD_eq_getElem?_getD, List.getElem?_eq_getElem (show i < fronts.length by omega)] using hx
  · rintro ⟨k', h1, h2, hx⟩
    refine ⟨fronts[k'], ?_, by simpa [List.getD_eq_getElem?_getD, List.getElem?_eq_getElem h2] using hx⟩
    rw [List.mem_iff_getElem]
    exact ⟨k', by simp [List.length_take]; omega, by simp [List.getElem_take]⟩

/-- a dominator is always ranked strictly earlier -/
theorem dom_rank_lt {dom : Nat → Nat → Bool} {m nStop : Nat} {fronts : List (List Nat)}
    (h : IsFronts dom m nStop fronts) (k : Nat) (hk : k < fronts.length) (i j : Nat)
    (hi : i ∈ fronts[k]) (hj : j < m) (hd : dom j i = true) :
    ∃ k', k' < k ∧ ∃ (h' : k' < fronts.length), j ∈ fronts[k'] := by
  have him : i < m := h.valid _ (List.getElem_mem hk) i hi
  have := (h.peel k hk i him).mp (by
    simpa [List.getD_eq_getElem?_getD, List.getElem?_eq_getElem hk] using hi)
  obtain ⟨k', h1, h2, h3⟩ := mem_earlier.mp (this.2 j hj hd)
  exact ⟨k', h1, h2, by simpa [List.getD_eq_getElem?_getD, List.getElem?_eq_getElem h2] using h3⟩

/-- fronts are pairwise disjoint, so the front index of a point is well defined -/
theorem front_index_unique {dom : Nat → Nat → Bool} {m nStop : Nat} {fronts : List (List Nat)}
    (h : IsFronts dom m nStop fronts) (a b : Nat) (ha : a < fronts.length) (hb : b < fronts.length)
    (x : Nat) (hxa : x ∈ fronts[a]) (hxb : x ∈ fronts[b]) : a = b := by
  by_contra hne
  rcases Nat.lt_or_gt_of_ne hne with hlt | hlt
  · have hxm : x < m := h.valid _ (List.getElem_mem hb) x hxb
    have := ((h.peel b hb x hxm).mp (by
      simpa [List.getD_eq_getElem?_getD, List.getElem?_eq_getElem hb] using hxb)).1
    exact this (mem_earlier.mpr ⟨a, hlt, ha, by
      simpa [List.getD_eq_getElem?_getD, List.getElem?_eq_getElem ha] using hxa⟩)
  · have hxm : x < m := h.valid _ (List.getElem_mem ha) x hxa
    have := ((h.peel a ha x hxm).mp (by
      simpa [List.getD_eq_getElem?_getD, List.getElem?_eq_getElem ha] using hxa)).1
    exact this (mem_earlier.mpr ⟨b, hlt, hb, by
      simpa [List.getD_eq_getElem?_getD, List.getElem?_eq_getElem hb] using hxb⟩)

/-- all ranked positions are distinct (what C03 needs from the NDS oracle) -/
theorem isFronts_flatten_nodup {dom : Nat → Nat → Bool} {m nStop : Nat} {fronts : List (List Nat)}
    (h : IsFronts dom m nStop fronts) : fronts.flatten.Nodup := by
  rw [List.nodup_flatten]
  refine ⟨h.nodup, ?_⟩
  rw [List.pairwise_iff_getElem]
  intro a b ha hb hab
  intro x hxa hxb
  have := front_index_unique h a b ha hb x hxa hxb
  omega

/-- **the true front index is unique**: two NDS results satisfying the contract on the same
dominance relation agree front by front (as sets), so "the rank attribute equals the true front
index" is a well-defined statement. -/
theorem isFronts_unique {dom : Nat → Nat → Bool} {m n1 n2 : Nat} {f1 f2 : List (List Nat)}
    (h1 : IsFronts dom m n1 f1) (h2 : IsFronts dom m n2 f2) :
    ∀ k, k < f1.length → k < f2.length → ∀ x, x < m → (x ∈ f1.getD k [] ↔ x ∈ f2.getD k []) := by
  intro k
  induction k using Nat.strong_induction_on with
  | _ k ih =>
    intro hk1 hk2 x hx
    have e : ∀ y, y < m → (y ∈ earlier f1 k ↔ y ∈ earlier f2 k) := by
      intro y hy
      rw [mem_earlier, mem_earlier]
      constructor
      · rintro ⟨k', a, b, c⟩
        exact ⟨k', a, by omega, (ih k' a b (by omega) y hy).mp c⟩
      · rintro ⟨k', a, b, c⟩
        exact ⟨k', a, by omega, (ih k' a (by omega) b y hy).mpr c⟩
    rw [h1.peel k hk1 x hx, h2.peel k hk2 x hx, e x hx]
    constructor
    · rintro ⟨a, b⟩
      exact ⟨a, fun j hj hd => (e j hj).mp (b j hj hd)⟩
    · rintro ⟨a, b⟩
      exact ⟨a, fun j hj hd => (e j hj).mpr (b j hj hd)⟩

/-- **no discarded (ranked or not) individual dominates a survivor**: a dominator of a survivor
sits in a strictly earlier front, and earlier fronts are kept whole. -/
theorem no_discarded_dominates_survivor {dom : Nat → Nat → Bool} {m nStop nS : Nat}
    (fs : List (List Nat × List Nat)) (h : IsFronts dom m nStop (fs.map Prod.fst))
    (hs : SortedOk fs) (x j : Nat) (hx : x ∈ frontLoop nS fs []) (hj : j < m)
    (hd : dom j x = true) : j ∈ frontLoop nS fs [] := by
  by_contra hjn
  have hpn : (pool fs).Nodup := isFronts_flatten_nodup h
  have hxp : x ∈ pool fs := frontLoop_subset nS fs hs x hx
  simp only [pool, List.mem_flatten] at hxp
  obtain ⟨l, hl, hxl⟩ := hxp
  obtain ⟨kx, hkx, rfl⟩ := List.mem_iff_getElem.mp hl
  obtain ⟨k', hlt, hk', hjk⟩ := dom_rank_lt h kx hkx x j hxl hj hd
  simp only [List.length_map] at hkx hk'
  have := frontLoop_rank_respect nS fs [] hs (by simpa using hpn) (by simp) x hx (by simp)
    kx hkx (by simpa using hxl) j k' hk' (by simpa using hjk) hjn
  omega

/-! ### feasible first, infeasible by increasing violation (pymoo `Survival.do`) -/

/-- an infeasible individual survives only if every feasible one does -/
theorem feasible_first (n nSurvive : Nat) (feas infeas : List Nat) (fs : List (List Nat × List Nat))
    (hsplit : SplitOk n feas infeas) (hs : SortedOk fs) (hn : (pool fs).Nodup)
    (hv : ∀ x ∈ pool fs, x < feas.length)
    (hcover : feas ≠ [] → min feas.length (min nSurvive n) ≤ (pool fs).length)
    (b : Nat) (hb : b ∈ infeas) (hbs : b ∈ survivalDo n nSurvive true feas infeas fs) :
    ∀ a ∈ feas, a ∈ survivalDo n nSurvive true feas infeas fs := by
  have hnd : (feas ++ infeas).Nodup := hsplit.nodup_iff.mpr List.nodup_range
  have hfn : feas.Nodup := (List.nodup_append.mp hnd).1
  have hdisj : ∀ a ∈ feas, ∀ b ∈ infeas, a ≠ b := (List.nodup_append.mp hnd).2.2
  intro a ha
  simp only [survivalDo, ↓reduceIte] at hbs ⊢
  have hfe : feas ≠ [] := List.ne_nil_of_mem ha
  have hne : feas.isEmpty = false := by simpa using hfe
  simp only [hne, Bool.false_eq_true, ↓reduceIte] at hbs ⊢
  set nS := min nSurvive n
  set inner := frontLoop (min feas.length nS) fs []
  have hil : inner.length = min feas.length nS := by
    rw [frontLoop_length _ fs [] hs (by simp)]
    have := hcover hfe
    simp only [List.length_nil, Nat.zero_add]; omega
  have hiv : ∀ j ∈ inner, j < feas.length := fun j hj => hv j (frontLoop_subset _ fs hs j hj)
  have hind : inner.Nodup := frontLoop_nodup _ fs hs hn
  -- b comes from the infeasible tail, so room was left: all of feas was taken
  have hroom : 0 < nS - (inner.map (fun j => feas.getD j 0)).length := by
    rcases List.mem_append.mp hbs with h | h
    · exfalso
      simp only [List.mem_map] at h
      obtain ⟨j, hj, rfl⟩ := h
      have hjl := hiv j hj
      have : feas.getD j 0 ∈ feas := by
        simp [List.getD_eq_getElem?_getD, List.getElem?_eq_getElem hjl]
      exact hdisj _ this _ hb rfl
    · by_contra hc
      have : nS - (inner.map (fun j => feas.getD j 0)).length = 0 := by omega
      rw [this] at h
      simp at h
  have hfull : inner.length = feas.length := by
    simp only [List.length_map] at hroom; omega
  -- inner is a duplicate-free list of feas.length positions below feas.length: all of them
  have hperm : inner.Perm (List.range feas.length) := by
    apply List.Subperm.perm_of_length_le
    · exact List.subperm_of_subset hind (fun j hj => by simpa using hiv j hj)
    · simp [hfull]
  obtain ⟨ia, hia, rfl⟩ := List.mem_iff_getElem.mp ha
  apply List.mem_append_left
  simp only [List.mem_map]
  exact ⟨ia, hperm.symm.subset (by simpa using hia), by
    simp [List.getD_eq_getElem?_getD, List.getElem?_eq_getElem hia]⟩

/-- infeasible individuals are kept in order of increasing total violation: a kept one never has
a larger CV than a dropped one (`infeas` ascending in CV is the contract of `split_by_feasibility`) -/
theorem infeasible_by_cv {β : Type} [LinearOrder β] (cv : Nat → β) (infeas : List Nat) (k : Nat)
    (hsorted : infeas.Pairwise (fun a b => cv a ≤ cv b)) :
    ∀ a ∈ infeas.take k, ∀ b ∈ infeas.drop k, cv a ≤ cv b := by
  intro a ha b hb
  have : (infeas.take k ++ infeas.drop k).Pairwise (fun a b => cv a ≤ cv b) := by
    simpa using hsorted
  exact (List.pairwise_append.mp this).2.2 a ha b hb

/-- the `rank` attribute written for a member of front `k` is `k` -/
theorem rankOf_eq {dom : Nat → Nat → Bool} {m nStop : Nat} {fronts : List (List Nat)}
    (h : IsFronts dom m nStop fronts) (k : Nat) (hk : k < fronts.length) (x : Nat) (hx : x ∈ fronts[k]) :
    rankOf fronts x = some k := by
  unfold rankOf
  rw [List.findIdx?_eq_some_iff_getElem]
  refine ⟨hk, by simpa using hx, ?_⟩
  intro j hj
  simp only [List.contains_eq_mem, decide_eq_true_eq, Bool.not_eq_true, decide_eq_false_iff_not]
  intro hc
  have := front_index_unique h j k (by omega) hk x hc hx
  omega

end C04
end Pymoode
