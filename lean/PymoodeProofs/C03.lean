/-
C03  Survival returns exactly n_survive distinct, untouched members.
Individuals are positions of the input population; "untouched" (the frame condition) is by
construction in the model — it never writes X, F, G, H — and is checked on the real objects by
the correspondence run.
-/
import PymoodeModel.RankCrowd
import Mathlib.Data.List.Basic
import Mathlib.Data.List.Nodup
import Mathlib.Data.List.Perm.Subperm
import Mathlib.Data.List.Range
import Mathlib.Tactic.Linarith

set_option linter.unusedSectionVars false
set_option linter.unusedVariables false

namespace Pymoode
namespace C03

/-- all members of the paired fronts, in order -/
def pool (fs : List (List Nat × List Nat)) : List Nat := (fs.map Prod.fst).flatten

theorem pool_cons (f s : List Nat) (fs) : pool ((f, s) :: fs) = f ++ pool fs := by
  simp [pool]

/-- the sorted orders really are re-orderings of their fronts (contract of the argsort oracle) -/
def SortedOk (fs : List (List Nat × List Nat)) : Prop := ∀ p, p ∈ fs → p.2.Perm p.1

theorem SortedOk.tail {p} {fs : List (List Nat × List Nat)} (h : SortedOk (p :: fs)) : SortedOk fs :=
  fun q hq => h q (List.mem_cons_of_mem _ hq)

/-- **size**: the front loop returns `min nS (everything available)` individuals -/
theorem frontLoop_length (nS : Nat) : ∀ (fs : List (List Nat × List Nat)) (acc : List Nat),
    SortedOk fs → acc.length ≤ nS →
    (frontLoop nS fs acc).length = min nS (acc.length + (pool fs).length)
  | [], acc, _, h => by simp [frontLoop, pool]; omega
  | (f, s) :: fs, acc, hs, h => by
      have hsf : s.length = f.length := (hs (f, s) (by simp)).length_eq
      rw [pool_cons]
      simp only [frontLoop]
      split
      · rename_i hgt
        rw [frontLoop_length nS fs _ hs.tail (by simp [List.length_take, hsf]; omega)]
        simp only [List.length_append, List.length_take, hsf]
        omega
      · rename_i hle
        rw [frontLoop_length nS fs _ hs.tail (by simp; omega)]
        simp only [List.length_append]
        omega

/-- the survivors are drawn, without repetition of positions, from what went in -/
theorem frontLoop_subperm (nS : Nat) : ∀ (fs : List (List Nat × List Nat)) (acc : List Nat),
    SortedOk fs → (frontLoop nS fs acc).Subperm (acc ++ pool fs)
  | [], acc, _ => by simp only [frontLoop, pool, List.map_nil, List.flatten_nil, List.append_nil]; exact List.Subperm.refl _
  | (f, s) :: fs, acc, hs => by
      have hsf : s.Perm f := hs (f, s) (by simp)
      rw [pool_cons]
      simp only [frontLoop]
      split
      · refine (frontLoop_subperm nS fs _ hs.tail).trans ?_
        rw [← List.append_assoc]
        refine List.Subperm.append ?_ (List.Subperm.refl _)
        refine List.Subperm.append (List.Subperm.refl _) ?_
        exact ((List.take_sublist _ _).subperm).trans hsf.subperm
      · have := frontLoop_subperm nS fs (acc ++ f) hs.tail
        simpa [List.append_assoc] using this

/-- **distinct**: no position is returned twice -/
theorem frontLoop_nodup (nS : Nat) (fs : List (List Nat × List Nat)) (hs : SortedOk fs)
    (hn : (pool fs).Nodup) : (frontLoop nS fs []).Nodup := by
  obtain ⟨l, hp, hsub⟩ := frontLoop_subperm nS fs [] hs
  simp only [List.nil_append] at hsub
  exact hp.nodup_iff.mp (hn.sublist hsub)

/-- **members of the input**: every survivor is one of the ranked positions -/
theorem frontLoop_subset (nS : Nat) (fs : List (List Nat × List Nat)) (hs : SortedOk fs) :
    ∀ x ∈ frontLoop nS fs [], x ∈ pool fs := by
  intro x hx
  have := (frontLoop_subperm nS fs [] hs).subset hx
  simpa using this

/-- the accumulator is never taken back: survivors already chosen stay -/
theorem frontLoop_prefix (nS : Nat) : ∀ (fs : List (List Nat × List Nat)) (acc : List Nat),
    acc <+: frontLoop nS fs acc
  | [], acc => by simp [frontLoop]
  | (f, s) :: fs, acc => by
      simp only [frontLoop]
      split
      · exact (List.prefix_append _ _).trans (frontLoop_prefix nS fs _)
      · exact (List.prefix_append _ _).trans (frontLoop_prefix nS fs _)

/-! ### pymoo `Survival.do` around it -/

/-- contract of `split_by_feasibility` as far as C03 needs it: a partition of the positions -/
def SplitOk (n : Nat) (feas infeas : List Nat) : Prop := (feas ++ infeas).Perm (List.range n)

theorem map_getD_nodup (feas : List Nat) (hf : feas.Nodup) :
    ∀ (l : List Nat), l.Nodup → (∀ j ∈ l, j < feas.length) → (l.map (fun j => feas.getD j 0)).Nodup := by
  intro l hl hlt
  refine List.Nodup.map_on ?_ hl
  intro a ha b hb hab
  have ha' := hlt a ha
  have hb' := hlt b hb
  simp only [List.getD_eq_getElem?_getD, List.getElem?_eq_getElem ha', List.getElem?_eq_getElem hb',
    Option.getD_some] at hab
  exact (List.Nodup.getElem_inj_iff hf).mp hab

/-- **C03 for RankAndCrowding (unconstrained problem)**: exactly `min n_survive n` distinct positions
of the input population. `hcover`: NDS ranked at least `min n_survive n` points (its
`n_stop_if_ranked` contract). -/
theorem survivalDo_unconstrained (n nSurvive : Nat) (fs : List (List Nat × List Nat))
    (hs : SortedOk fs) (hn : (pool fs).Nodup) (hv : ∀ x ∈ pool fs, x < n)
    (hcover : min nSurvive n ≤ (pool fs).length) :
    (survivalDo n nSurvive false [] [] fs).length = min nSurvive n ∧
    (survivalDo n nSurvive false [] [] fs).Nodup ∧
    ∀ x ∈ survivalDo n nSurvive false [] [] fs, x < n := by
  simp only [survivalDo, Bool.false_eq_true, ↓reduceIte]
  refine ⟨?_, frontLoop_nodup _ fs hs hn, fun x hx => hv x (frontLoop_subset _ fs hs x hx)⟩
  rw [frontLoop_length _ fs [] hs (by simp)]
  simp only [List.length_nil, Nat.zero_add]
  omega

/-- **C03 for RankAndCrowding (constrained problem)**: the feasible part through the front loop on
`pop[feas]`, then `infeas[:n_remaining]`. -/
theorem survivalDo_constrained (n nSurvive : Nat) (feas infeas : List Nat)
    (fs : List (List Nat × List Nat)) (hsplit : SplitOk n feas infeas)
    (hs : SortedOk fs) (hn : (pool fs).Nodup) (hv : ∀ x ∈ pool fs, x < feas.length)
    (hcover : feas ≠ [] → min feas.length (min nSurvive n) ≤ (pool fs).length) :
    (survivalDo n nSurvive true feas infeas fs).length = min nSurvive n ∧
    (survivalDo n nSurvive true feas infeas fs).Nodup ∧
    ∀ x ∈ survivalDo n nSurvive true feas infeas fs, x < n := by
  have hlen : feas.length + infeas.length = n := by
    have := hsplit.length_eq
    simpa using this
  have hnd : (feas ++ infeas).Nodup := hsplit.nodup_iff.mpr List.nodup_range
  have hfn : feas.Nodup := (List.nodup_append.mp hnd).1
  have hin : infeas.Nodup := (List.nodup_append.mp hnd).2.1
  have hdisj : ∀ a ∈ feas, ∀ b ∈ infeas, a ≠ b := (List.nodup_append.mp hnd).2.2
  have hmem : ∀ x, x ∈ feas ++ infeas → x < n := fun x hx => by
    have := hsplit.subset hx
    simpa using this
  simp only [survivalDo, ↓reduceIte]
  by_cases hfe : feas = []
  · subst hfe
    simp only [List.isEmpty_nil, ↓reduceIte, List.nil_append, List.length_nil, Nat.sub_zero,
      List.length_take]
    refine ⟨by simp at hlen; omega, hin.sublist (List.take_sublist _ _), fun x hx => ?_⟩
    exact hmem x (by simp [List.mem_of_mem_take hx])
  · have hne : feas.isEmpty = false := by simpa using hfe
    simp only [hne, Bool.false_eq_true, ↓reduceIte]
    set nS := min nSurvive n with hnS
    set inner := frontLoop (min feas.length nS) fs [] with hinner
    have hil : inner.length = min feas.length nS := by
      rw [hinner, frontLoop_length _ fs [] hs (by simp)]
      have := hcover hfe
      simp only [List.length_nil, Nat.zero_add]
      omega
    have hiv : ∀ j ∈ inner, j < feas.length := fun j hj => hv j (frontLoop_subset _ fs hs j hj)
    have hind : inner.Nodup := frontLoop_nodup _ fs hs hn
    have hmapnd := map_getD_nodup feas hfn inner hind hiv
    have hmapmem : ∀ x ∈ inner.map (fun j => feas.getD j 0), x ∈ feas := by
      intro x hx
      simp only [List.mem_map] at hx
      obtain ⟨j, hj, rfl⟩ := hx
      have := hiv j hj
      simp [List.getD_eq_getElem?_getD, List.getElem?_eq_getElem this]
    refine ⟨?_, ?_, ?_⟩
    · simp only [List.length_append, List.length_map, List.length_take, hil]
      omega
    · rw [List.nodup_append]
      refine ⟨hmapnd, hin.sublist (List.take_sublist _ _), ?_⟩
      intro a ha b hb
      exact hdisj a (hmapmem a ha) b (List.mem_of_mem_take hb)
    · intro x hx
      rw [List.mem_append] at hx
      rcases hx with hx | hx
      · exact hmem x (by simp [hmapmem x hx])
      · exact hmem x (by simp [List.mem_of_mem_take hx])

/-- non-vacuity: a concrete call (two fronts, the second one split) -/
example : survivalDo 5 3 false [] [] [([0, 3], [0, 3]), ([1, 2, 4], [4, 1, 2])] = [0, 3, 4] := by decide
example : SortedOk [([0, 3], [0, 3]), ([1, 2, 4], [4, 1, 2])] := by
  intro p hp
  simp only [List.mem_cons, List.mem_nil_iff, or_false] at hp
  rcases hp with rfl | rfl <;> decide

end C03
end Pymoode
