/-
C01  Offspring never leave the problem's box bounds.
The offspring coordinate is `trialCoord m x (repair1 s ⟨xl, xu, x0, mutant x0 ts, rl, ru⟩)`:
the scale factors, jitter, number of differences, parents in the differences, CR and the
crossover mask are all universally quantified and unconstrained.
-/
import PymoodeModel.Repair
import PymoodeModel.Mutation
import PymoodeModel.Crossover
import Mathlib.Algebra.Order.Field.Basic
import Mathlib.Tactic.Linarith

set_option linter.unusedSectionVars false
set_option linter.unusedVariables false

namespace Pymoode
namespace C01

variable {α : Type} [Field α] [LinearOrder α] [IsStrictOrderedRing α]

/-- the value written by the lower-violation branch is inside the box -/
theorem repairLow_in_bounds (s : RepairKind) (xl xu xb r : α) (hb : xl ≤ xu)
    (h1 : xl ≤ xb) (h2 : xb ≤ xu) (hr0 : 0 ≤ r) (hr1 : r < 1) :
    xl ≤ repairLow s xl xu xb r ∧ repairLow s xl xu xb r ≤ xu := by
  cases s <;> simp only [repairLow]
  · constructor <;> nlinarith
  · constructor <;> linarith
  · constructor <;> nlinarith
  · exact ⟨le_refl _, hb⟩

theorem repairUp_in_bounds (s : RepairKind) (xl xu xb r : α) (hb : xl ≤ xu)
    (h1 : xl ≤ xb) (h2 : xb ≤ xu) (hr0 : 0 ≤ r) (hr1 : r < 1) :
    xl ≤ repairUp s xl xu xb r ∧ repairUp s xl xu xb r ≤ xu := by
  cases s <;> simp only [repairUp]
  · constructor <;> nlinarith
  · constructor <;> linarith
  · constructor <;> nlinarith
  · exact ⟨hb, le_refl _⟩

/-- Every repaired coordinate lies in `[xl, xu]`, whatever the mutant value `v` was
(zero-width ranges `xl = xu` included). -/
theorem repair1_in_bounds (s : RepairKind) (c : RCoord α) (hb : c.xl ≤ c.xu)
    (h1 : c.xl ≤ c.xb) (h2 : c.xb ≤ c.xu)
    (hl0 : 0 ≤ c.rl) (hl1 : c.rl < 1) (hu0 : 0 ≤ c.ru) (hu1 : c.ru < 1) :
    c.xl ≤ repair1 s c ∧ repair1 s c ≤ c.xu := by
  have hlow := repairLow_in_bounds s c.xl c.xu c.xb c.rl hb h1 h2 hl0 hl1
  have hup := repairUp_in_bounds s c.xl c.xu c.xb c.ru hb h1 h2 hu0 hu1
  unfold repair1 upPass lowPass
  by_cases hv : c.v < c.xl
  · rw [if_pos hv, if_neg (not_lt.mpr hlow.2)]
    exact hlow
  · rw [if_neg hv]
    by_cases hu : c.xu < c.v
    · rw [if_pos hu]; exact hup
    · rw [if_neg hu]; exact ⟨not_lt.mp hv, not_lt.mp hu⟩

/-- matrix version: every entry of the repaired matrix -/
theorem repairAll_in_bounds (s : RepairKind) (cs : List (RCoord α))
    (hpre : ∀ c ∈ cs, c.xl ≤ c.xu ∧ c.xl ≤ c.xb ∧ c.xb ≤ c.xu ∧ 0 ≤ c.rl ∧ c.rl < 1 ∧ 0 ≤ c.ru ∧ c.ru < 1)
    (i : Nat) (h : i < cs.length) :
    cs[i].xl ≤ (repairAll s cs)[i]'(by simpa [repairAll] using h) ∧
    (repairAll s cs)[i]'(by simpa [repairAll] using h) ≤ cs[i].xu := by
  obtain ⟨a, b, c, d, e, f, g⟩ := hpre cs[i] (List.getElem_mem h)
  simpa [repairAll] using repair1_in_bounds s cs[i] a b c d e f g

/-- one coordinate of one offspring of the whole DE pipeline -/
def offspringCoord (s : RepairKind) (m : Bool) (xl xu x x0 rl ru : α) (ts : List (DiffTerm α)) : α :=
  trialCoord m x (repair1 s { xl := xl, xu := xu, xb := x0, v := mutant x0 ts, rl := rl, ru := ru })

/-- **C01**: target coordinate `x` and base coordinate `x0` in `[xl, xu]`, uniform draws in
`[0,1)` ⇒ the offspring coordinate is in `[xl, xu]`; for every repair strategy, every list of
scaled differences (any number, any `F`, any jitter, any parents) and every crossover mask. -/
theorem offspring_in_bounds (s : RepairKind) (m : Bool) (xl xu x x0 rl ru : α) (ts : List (DiffTerm α))
    (hx : xl ≤ x ∧ x ≤ xu) (hx0 : xl ≤ x0 ∧ x0 ≤ xu)
    (hl : 0 ≤ rl ∧ rl < 1) (hu : 0 ≤ ru ∧ ru < 1) :
    xl ≤ offspringCoord s m xl xu x x0 rl ru ts ∧ offspringCoord s m xl xu x x0 rl ru ts ≤ xu := by
  have hb : xl ≤ xu := le_trans hx.1 hx.2
  have hr := repair1_in_bounds s
    { xl := xl, xu := xu, xb := x0, v := mutant x0 ts, rl := rl, ru := ru } hb hx0.1 hx0.2 hl.1 hl.2 hu.1 hu.2
  unfold offspringCoord trialCoord
  cases m
  · simpa using hx
  · simpa using hr

/-- every coordinate of a trial row is the target's or the (repaired) mutant's, hence in the box -/
theorem trialRow_in_bounds (xl xu : α) :
    ∀ (ms : List Bool) (xs vs : List α),
      (∀ x ∈ xs, xl ≤ x ∧ x ≤ xu) → (∀ v ∈ vs, xl ≤ v ∧ v ≤ xu) →
      ∀ u ∈ trialRow ms xs vs, xl ≤ u ∧ u ≤ xu
  | [], _, _, _, _, u, hu => by simp [trialRow] at hu
  | _ :: _, [], _, _, _, u, hu => by simp [trialRow] at hu
  | _ :: _, _ :: _, [], _, _, u, hu => by simp [trialRow] at hu
  | m :: ms, x :: xs, v :: vs, hx, hv, u, hu => by
      simp only [trialRow, List.mem_cons] at hu
      rcases hu with rfl | hu
      · unfold trialCoord
        cases m
        · simpa using hx x (by simp)
        · simpa using hv v (by simp)
      · exact trialRow_in_bounds xl xu ms xs vs
          (fun y hy => hx y (by simp [hy])) (fun y hy => hv y (by simp [hy])) u hu

/-- non-vacuity: the hypotheses are met by a zero-width variable and by a proper range -/
example : ((3:α) ≤ 3 ∧ (3:α) ≤ 3) ∧ ((0:α) ≤ 1/2 ∧ (1/2:α) < 1) := by
  refine ⟨⟨le_refl _, le_refl _⟩, ?_, ?_⟩ <;> norm_num

end C01
end Pymoode
