/-
C13, continued: **memory safety of the compiled mnn / 2nn kernel** (`pymoode/cython/mnn.pyx`, functional
transcription `mnnKernelF` of `PymoodeModel/Metrics/KernelM.lean`) for every front and every number of removals:
whenever the kernel uses a neighbour slot as a column index of the distance matrix (`D[i, Mnn[i, m]]`, mnn.pyx:224
and mnn.pyx:243) the slot is assigned — the re-insertion loop always refills a row completely, because at least
`M` other points are alive. The one exception is the read at mnn.pyx:207 (`D[i, Mnn[i, M-1]]` evaluated *before*
`or Mnn[i, M-1] == -1`), known finding F4, which the model does not guard. No hypothesis on ties is needed: the
duplicate-neighbour defect F9 makes values wrong, not indices.
-/
import PymoodeProofs.C13g
import PymoodeModel.Metrics.KernelM

set_option linter.unusedSectionVars false
set_option linter.unusedVariables false

namespace Pymoode
namespace C13

variable {α : Type} [Field α] [LinearOrder α] [IsStrictOrderedRing α] [Inhabited α]

/-- a neighbour row: assigned slots first, unassigned (`-1`) slots last -/
def Shape (row : List (Option Nat)) : Prop := ∃ (vals : List Nat) (z : Nat), row = vals.map some ++ List.replicate z none

/-- every slot assigned -/
def Full (row : List (Option Nat)) : Prop := none ∉ row

theorem full_of_shape_zero (vals : List Nat) : Full (vals.map some ++ List.replicate 0 none) := by
  simp [Full]

theorem shape_full_iff (vals : List Nat) (z : Nat) : Full (vals.map some ++ List.replicate z none) ↔ z = 0 := by
  unfold Full
  constructor
  · intro h
    by_contra hz
    apply h
    rw [List.mem_append]
    right
    rw [List.mem_replicate]
    exact ⟨hz, rfl⟩
  · intro h; subst h; simp

theorem getD_shape_lt (vals : List Nat) (z m : Nat) (hm : m < vals.length) :
    (vals.map some ++ List.replicate z none).getD m none = some vals[m] := by
  rw [List.getD_eq_getElem?_getD, List.getElem?_append_left (by simpa using hm), List.getElem?_map,
    List.getElem?_eq_getElem hm]
  rfl

theorem getD_shape_ge (vals : List Nat) (z m : Nat) (hm : vals.length ≤ m) :
    (vals.map some ++ List.replicate z none).getD m none = none := by
  rw [List.getD_eq_getElem?_getD, List.getElem?_append_right (by simpa using hm), List.getElem?_replicate]
  split <;> rfl

/-- the walk of `c_calc_mnn_iter` over the slots of one row, for a candidate `j` -/
theorem insertAt_spec (dist : Nat → α) (j : Nat) (vals : List Nat) (z : Nat) :
    ∀ (fuel m : Nat), m + fuel = vals.length + z → m ≤ vals.length →
      ∃ (vals' : List Nat) (z' : Nat),
        mnnInsertAt dist j fuel m (vals.map some ++ List.replicate z none) = vals'.map some ++ List.replicate z' none ∧
        vals'.length + z' = vals.length + z ∧ (z = 0 → z' = 0) ∧
        (∀ v ∈ vals', v ∈ vals ∨ v = j) ∧
        (z' ≠ 0 → j ∈ vals' ∧ ∀ v ∈ vals, v ∈ vals')
  | 0, m, hm, hle => by
    refine ⟨vals, z, rfl, rfl, fun h => h, fun v hv => Or.inl hv, fun hz => ?_⟩
    exfalso; omega
  | fuel + 1, m, hm, hle => by
    unfold mnnInsertAt
    rcases Nat.lt_or_ge m vals.length with hlt | hge
    · rw [getD_shape_lt vals z m hlt]
      simp only []
      by_cases hcj : vals[m] = j
      · rw [if_pos hcj]
        refine ⟨vals, z, rfl, rfl, fun h => h, fun v hv => Or.inl hv, fun _ => ⟨?_, fun v hv => hv⟩⟩
        rw [← hcj]; exact List.getElem_mem hlt
      · rw [if_neg hcj]
        by_cases hd : (!decide (dist vals[m] < dist j)) = true
        · rw [if_pos hd]
          -- insert at m, drop the last slot
          cases z with
          | zero =>
            refine ⟨(vals.take m ++ [j]) ++ (vals.drop m).dropLast, 0, ?_, ?_, fun _ => rfl, ?_, fun h => absurd rfl h⟩
            · simp only [List.replicate_zero, List.append_nil, List.map_append, List.map_take, List.map_cons,
                List.map_nil, List.map_dropLast, List.map_drop]
            · simp only [List.length_append, List.length_take, List.length_cons, List.length_nil,
                List.length_dropLast, List.length_drop]
              omega
            · intro v hv
              simp only [List.mem_append, List.mem_singleton] at hv
              rcases hv with (hv | hv) | hv
              · exact Or.inl (List.mem_of_mem_take hv)
              · exact Or.inr hv
              · exact Or.inl (List.mem_of_mem_drop (List.mem_of_mem_dropLast hv))
          | succ z0 =>
            refine ⟨(vals.take m ++ [j]) ++ vals.drop m, z0, ?_, ?_, fun h => by omega, ?_, fun _ => ⟨by simp, ?_⟩⟩
            · have e1 : List.take m (List.map some vals ++ List.replicate (z0 + 1) none) = (vals.take m).map some := by
                rw [List.take_append_of_le_length (by simpa using le_of_lt hlt), List.map_take]
              have e2 : List.drop m (List.map some vals ++ List.replicate (z0 + 1) none) =
                  (vals.drop m).map some ++ List.replicate (z0 + 1) none := by
                rw [List.drop_append_of_le_length (by simpa using le_of_lt hlt), List.map_drop]
              rw [e1, e2, List.replicate_succ', ← List.append_assoc, List.dropLast_concat]
              simp [List.append_assoc]
            · simp only [List.length_append, List.length_take, List.length_cons, List.length_nil, List.length_drop]
              omega
            · intro v hv
              simp only [List.mem_append, List.mem_singleton] at hv
              rcases hv with (hv | hv) | hv
              · exact Or.inl (List.mem_of_mem_take hv)
              · exact Or.inr hv
              · exact Or.inl (List.mem_of_mem_drop hv)
            · intro v hv
              have := List.take_append_drop m vals
              rw [← this] at hv
              simp only [List.mem_append, List.mem_singleton] at hv ⊢
              rcases hv with hv | hv
              · exact Or.inl (Or.inl hv)
              · exact Or.inr hv
        · rw [if_neg hd]
          exact insertAt_spec dist j vals z fuel (m + 1) (by omega) (by omega)
    · -- first unassigned slot
      have hmv : m = vals.length := by omega
      have hz : 0 < z := by omega
      rw [getD_shape_ge vals z m hge]
      simp only []
      cases z with
      | zero => omega
      | succ z0 =>
        refine ⟨vals ++ [j], z0, ?_, ?_, fun h => by omega, ?_, fun _ => ⟨by simp, fun v hv => by simp [hv]⟩⟩
        · subst hmv
          have : (List.map some vals).length ≤ vals.length := by simp
          rw [List.set_append_right _ _ this]
          simp [List.replicate_succ]
        · simp; omega
        · intro v hv
          simp only [List.mem_append, List.mem_singleton] at hv
          exact hv


theorem getLast_shape (vals : List Nat) (z : Nat) :
    (vals.map some ++ List.replicate z none).getLast?.getD none = none ∨
      (z = 0 ∧ ∃ v, (vals.map some ++ List.replicate z none).getLast?.getD none = some v) := by
  cases z with
  | zero =>
    have e : (vals.map some ++ List.replicate 0 none) = vals.map some := by simp
    rw [e]
    cases h : (vals.map some).getLast? with
    | none => left; rfl
    | some o =>
      cases o with
      | none => left; rfl
      | some v => right; exact ⟨rfl, v, rfl⟩
  | succ z0 =>
    left
    rw [List.replicate_succ', ← List.append_assoc, List.getLast?_concat]
    rfl

/-- one candidate `j` of `c_calc_mnn_iter` for row `i` -/
theorem insertStep_spec (dist : Nat → α) (i j : Nat) (vals : List Nat) (z : Nat) :
    ∃ (vals' : List Nat) (z' : Nat),
      mnnInsertStep dist i j (vals.map some ++ List.replicate z none) = vals'.map some ++ List.replicate z' none ∧
      vals'.length + z' = vals.length + z ∧ (z = 0 → z' = 0) ∧
      (∀ v ∈ vals', v ∈ vals ∨ v = j) ∧
      (z' ≠ 0 → (j ≠ i → j ∈ vals') ∧ ∀ v ∈ vals, v ∈ vals') := by
  unfold mnnInsertStep
  by_cases hji : j = i
  · rw [if_pos hji]
    exact ⟨vals, z, rfl, rfl, fun h => h, fun v hv => Or.inl hv, fun _ => ⟨fun h => absurd hji h, fun v hv => hv⟩⟩
  · rw [if_neg hji]
    simp only []
    have hlen : (vals.map some ++ List.replicate z none).length = vals.length + z := by simp
    have key := insertAt_spec dist j vals z (vals.length + z) 0 (by omega) (by omega)
    rcases getLast_shape vals z with hl | ⟨hz, v, hl⟩
    · rw [hl]
      simp only [↓reduceIte, hlen]
      obtain ⟨vals', z', e, h1, h2, h3, h4⟩ := key
      exact ⟨vals', z', e, h1, h2, h3, fun hz' => ⟨fun _ => (h4 hz').1, (h4 hz').2⟩⟩
    · rw [hl]
      simp only []
      by_cases hd : (!decide (dist v < dist j)) = true
      · rw [if_pos hd, hlen]
        obtain ⟨vals', z', e, h1, h2, h3, h4⟩ := key
        exact ⟨vals', z', e, h1, h2, h3, fun hz' => ⟨fun _ => (h4 hz').1, (h4 hz').2⟩⟩
      · rw [if_neg hd]
        exact ⟨vals, z, rfl, rfl, fun h => h, fun v hv => Or.inl hv, fun hz' => absurd hz hz'⟩

/-- `c_calc_mnn_iter` for one row: after all live candidates the row is complete, or it lists every candidate -/
theorem refill_spec (dist : Nat → α) (i : Nat) : ∀ (h : List Nat) (vals : List Nat) (z : Nat),
    ∃ (vals' : List Nat) (z' : Nat),
      mnnRefill dist i h (vals.map some ++ List.replicate z none) = vals'.map some ++ List.replicate z' none ∧
      vals'.length + z' = vals.length + z ∧ (z = 0 → z' = 0) ∧
      (∀ v ∈ vals', v ∈ vals ∨ v ∈ h) ∧
      (z' ≠ 0 → (∀ j ∈ h, j ≠ i → j ∈ vals') ∧ ∀ v ∈ vals, v ∈ vals')
  | [], vals, z => ⟨vals, z, rfl, rfl, fun h => h, fun v hv => Or.inl hv, fun _ => ⟨fun j hj _ => absurd hj List.not_mem_nil, fun v hv => hv⟩⟩
  | a :: t, vals, z => by
    unfold mnnRefill
    simp only [List.foldl_cons]
    obtain ⟨v1, z1, e1, l1, f1, s1, r1⟩ := insertStep_spec dist i a vals z
    rw [e1]
    obtain ⟨v2, z2, e2, l2, f2, s2, r2⟩ := refill_spec dist i t v1 z1
    unfold mnnRefill at e2
    refine ⟨v2, z2, e2, by omega, fun h => f2 (f1 h), ?_, ?_⟩
    · intro v hv
      rcases s2 v hv with h | h
      · rcases s1 v h with h' | h'
        · exact Or.inl h'
        · exact Or.inr (by simp [h'])
      · exact Or.inr (List.mem_cons_of_mem _ h)
    · intro hz2
      obtain ⟨q1, q2⟩ := r2 hz2
      have hz1 : z1 ≠ 0 := fun h => hz2 (f2 h)
      obtain ⟨p1, p2⟩ := r1 hz1
      refine ⟨?_, fun v hv => q2 v (p2 v hv)⟩
      intro j hj hji
      simp only [List.mem_cons] at hj
      rcases hj with rfl | hj
      · exact q2 j (p1 hji)
      · exact q1 j hj hji

/-- **a refilled row is complete** when at least as many other points are alive as the row has slots -/
theorem refill_full (dist : Nat → α) (i : Nat) (h : List Nat) (hnd : h.Nodup) (vals : List Nat) (z : Nat)
    (hcount : vals.length + z ≤ (h.filter (· != i)).length) :
    ∃ vals' : List Nat, mnnRefill dist i h (vals.map some ++ List.replicate z none) = vals'.map some ∧
      vals'.length = vals.length + z ∧ ∀ v ∈ vals', v ∈ vals ∨ v ∈ h := by
  obtain ⟨vals', z', e, hl, _, hs, hr⟩ := refill_spec dist i h vals z
  have hz : z' = 0 := by
    by_contra hz'
    obtain ⟨q1, _⟩ := hr hz'
    have hsub : h.filter (· != i) ⊆ vals' := by
      intro j hj
      rw [List.mem_filter] at hj
      exact q1 j hj.1 (by simpa using hj.2)
    have := (List.subperm_of_subset (hnd.filter _) hsub).length_le
    omega
  subst hz
  exact ⟨vals', by simpa using e, by omega, hs⟩

/-- `c_calc_d` on a complete row uses assigned slots only -/
theorem prod_ok (dist : Nat → α) (vals : List Nat) : (mnnProd dist (vals.map some)).2 = true := by
  unfold mnnProd
  have : ∀ (l : List Nat) (acc : α × Bool), acc.2 = true →
      ((l.map some).foldl (fun acc nb => match nb with
        | some c => (acc.1 * dist c, acc.2)
        | none => (acc.1, false)) acc).2 = true := by
    intro l
    induction l with
    | nil => intro acc h; exact h
    | cons a t ih => intro acc h; simp only [List.map_cons, List.foldl_cons]; exact ih _ h
  exact this vals _ rfl

/-- `c_get_calc_items` on one row: the shape survives, the length too; a row that does not list `k` is untouched -/
theorem rowRemove_spec (k : Nat) : ∀ (fuel m : Nat) (vals : List Nat) (z : Nat) (hit : Bool),
    ∃ (vals' : List Nat) (z' : Nat) (hit' : Bool),
      mnnRowRemove k fuel m (vals.map some ++ List.replicate z none) hit = (vals'.map some ++ List.replicate z' none, hit') ∧
      vals'.length + z' = vals.length + z ∧ (∀ v ∈ vals', v ∈ vals ∧ (v ≠ k ∨ True)) ∧
      (hit' = false → vals' = vals ∧ z' = z ∧ hit = false)
  | 0, m, vals, z, hit => ⟨vals, z, hit, rfl, rfl, fun v hv => ⟨hv, Or.inr trivial⟩, fun h => ⟨rfl, rfl, h⟩⟩
  | fuel + 1, m, vals, z, hit => by
    unfold mnnRowRemove
    by_cases hk : (vals.map some ++ List.replicate z none).getD m none = some k
    · rw [if_pos hk]
      -- the slot is an assigned one
      have hm : m < vals.length := by
        by_contra h
        rw [getD_shape_ge vals z m (by omega)] at hk
        cases hk
      have e : (List.take m (vals.map some ++ List.replicate z none) ++ List.drop (m + 1) (vals.map some ++ List.replicate z none)) ++ [none]
          = (vals.take m ++ vals.drop (m + 1)).map some ++ List.replicate (z + 1) none := by
        rw [List.take_append_of_le_length (by simpa using le_of_lt hm),
          List.drop_append_of_le_length (by simp; omega), List.replicate_succ']
        simp [List.map_take, List.map_drop, List.append_assoc]
      rw [e]
      obtain ⟨v', z', hit', e', l', s', u'⟩ := rowRemove_spec k fuel (m + 1) (vals.take m ++ vals.drop (m + 1)) (z + 1) true
      refine ⟨v', z', hit', e', ?_, ?_, ?_⟩
      · rw [l']
        simp only [List.length_append, List.length_take, List.length_drop]
        omega
      · intro v hv
        obtain ⟨h1, _⟩ := s' v hv
        refine ⟨?_, Or.inr trivial⟩
        rw [List.mem_append] at h1
        rcases h1 with h1 | h1
        · exact List.mem_of_mem_take h1
        · exact List.mem_of_mem_drop h1
      · intro hf
        obtain ⟨_, _, h3⟩ := u' hf
        cases h3
    · rw [if_neg hk]
      exact rowRemove_spec k fuel (m + 1) vals z hit


/-- a well-formed row of the neighbour table: assigned slots first, `mNb` slots, valid indices -/
def RowOK (n mNb : Nat) (row : List (Option Nat)) : Prop :=
  ∃ (vals : List Nat) (z : Nat), row = vals.map some ++ List.replicate z none ∧ vals.length + z = mNb ∧ ∀ v ∈ vals, v < n

/-- a complete row -/
def RowFull (n mNb : Nat) (row : List (Option Nat)) : Prop :=
  ∃ (vals : List Nat), row = vals.map some ∧ vals.length = mNb ∧ ∀ v ∈ vals, v < n

theorem rowFull_ok {n mNb : Nat} {row : List (Option Nat)} (h : RowFull n mNb row) : RowOK n mNb row := by
  obtain ⟨vals, e, l, v⟩ := h
  exact ⟨vals, 0, by simpa using e, by omega, v⟩

theorem getD_set_table {β : Type} (T : List β) (a i : Nat) (r d : β) :
    (T.set a r).getD i d = if a = i ∧ a < T.length then r else T.getD i d := by
  rw [List.getD_eq_getElem?_getD, List.getElem?_set]
  by_cases hai : a = i
  · subst hai
    by_cases hl : a < T.length
    · simp [hl]
    · simp [hl, List.getD_eq_getElem?_getD]
  · simp [hai, List.getD_eq_getElem?_getD]

/-- one row of `c_get_calc_items` -/
def removeStep (k : Nat) (acc : List (List (Option Nat)) × List Nat) (i : Nat) : List (List (Option Nat)) × List Nat :=
  let row := acc.1.getD i []
  let q := mnnRowRemove k row.length 0 row false
  if q.2 then (acc.1.set i q.1, insertSorted i acc.2) else acc

theorem removeStep_spec (n mNb k : Nat) (T : List (List (Option Nat))) (S : List Nat) (a : Nat)
    (hT : T.length = n) (hrows : ∀ i, i < n → RowOK n mNb (T.getD i [])) :
    (removeStep k (T, S) a = (T, S)) ∨
    (∃ row', RowOK n mNb row' ∧ a < n ∧ removeStep k (T, S) a = (T.set a row', insertSorted a S)) := by
  unfold removeStep
  simp only []
  by_cases han : a < n
  · obtain ⟨vals, z, e, hl, hv⟩ := hrows a han
    obtain ⟨v', z', hit', e', l', s', u'⟩ := rowRemove_spec k (T.getD a []).length 0 vals z false
    rw [← e] at e'
    rw [e']
    cases hit' with
    | false => left; simp
    | true =>
      right
      refine ⟨v'.map some ++ List.replicate z' none, ⟨v', z', rfl, by omega, fun v hv' => hv v (s' v hv').1⟩, han, ?_⟩
      simp
  · left
    have : T.getD a [] = [] := by
      rw [List.getD_eq_getElem?_getD, List.getElem?_eq_none (by omega)]; rfl
    rw [this]
    simp [mnnRowRemove]

/-- `c_get_calc_items` over the live rows: all rows stay well-formed; a row that is not reported is untouched -/
theorem removeAll_spec (n mNb k : Nat) : ∀ (l : List Nat) (T : List (List (Option Nat))) (S : List Nat),
    T.length = n → (∀ i, i < n → RowOK n mNb (T.getD i [])) →
    (l.foldl (removeStep k) (T, S)).1.length = n ∧
    (∀ i, i < n → RowOK n mNb ((l.foldl (removeStep k) (T, S)).1.getD i [])) ∧
    (∀ i, i ∉ (l.foldl (removeStep k) (T, S)).2 → (l.foldl (removeStep k) (T, S)).1.getD i [] = T.getD i []) ∧
    (∀ i, i ∈ (l.foldl (removeStep k) (T, S)).2 → i ∈ S ∨ i ∈ l) ∧
    (∀ i, i ∈ S → i ∈ (l.foldl (removeStep k) (T, S)).2)
  | [], T, S, hT, hrows => ⟨hT, hrows, fun _ _ => rfl, fun i hi => Or.inl hi, fun i hi => hi⟩
  | a :: t, T, S, hT, hrows => by
    simp only [List.foldl_cons]
    rcases removeStep_spec n mNb k T S a hT hrows with e | ⟨row', hrow', han, e⟩
    · rw [e]
      obtain ⟨h1, h2, h3, h4, h5⟩ := removeAll_spec n mNb k t T S hT hrows
      refine ⟨h1, h2, h3, fun i hi => ?_, h5⟩
      rcases h4 i hi with h | h
      · exact Or.inl h
      · exact Or.inr (List.mem_cons_of_mem _ h)
    · rw [e]
      have hT1 : (T.set a row').length = n := by rw [List.length_set]; exact hT
      have hrows1 : ∀ i, i < n → RowOK n mNb ((T.set a row').getD i []) := by
        intro i hi
        rw [getD_set_table]
        split
        · exact hrow'
        · exact hrows i hi
      obtain ⟨h1, h2, h3, h4, h5⟩ := removeAll_spec n mNb k t (T.set a row') (insertSorted a S) hT1 hrows1
      refine ⟨h1, h2, fun i hi => ?_, fun i hi => ?_, fun i hi => h5 i ((mem_insertSorted a i S).mpr (Or.inr hi))⟩
      · rw [h3 i hi, getD_set_table]
        have hia : a ≠ i := by
          intro h; subst h
          exact hi (h5 a ((mem_insertSorted a a S).mpr (Or.inl rfl)))
        simp [hia]
      · rcases h4 i hi with h | h
        · rcases (mem_insertSorted a i S).mp h with h' | h'
          · exact Or.inr (by simp [h'])
          · exact Or.inl h'
        · exact Or.inr (List.mem_cons_of_mem _ h)

/-- `c_calc_mnn_iter` over the items: every item's row becomes complete, the other rows are untouched -/
theorem refillAll_spec (n mNb : Nat) (dist : Nat → Nat → α) (h : List Nat) (hnd : h.Nodup) (hlt : ∀ j ∈ h, j < n)
    (hcount : ∀ i, mNb ≤ (h.filter (· != i)).length) :
    ∀ (items : List Nat) (T : List (List (Option Nat))), T.length = n → (∀ i, i < n → RowOK n mNb (T.getD i [])) →
      (∀ i ∈ items, i < n) →
      (items.foldl (fun t i => t.set i (mnnRefill (dist i) i h (t.getD i []))) T).length = n ∧
      (∀ i, i < n → RowOK n mNb ((items.foldl (fun t i => t.set i (mnnRefill (dist i) i h (t.getD i []))) T).getD i [])) ∧
      (∀ i ∈ items, RowFull n mNb ((items.foldl (fun t i => t.set i (mnnRefill (dist i) i h (t.getD i []))) T).getD i [])) ∧
      (∀ i, i ∉ items → (items.foldl (fun t i => t.set i (mnnRefill (dist i) i h (t.getD i []))) T).getD i [] = T.getD i []) ∧
      (∀ i, RowFull n mNb (T.getD i []) →
        RowFull n mNb ((items.foldl (fun t i => t.set i (mnnRefill (dist i) i h (t.getD i []))) T).getD i []))
  | [], T, hT, hrows, _ => ⟨hT, hrows, fun i hi => absurd hi List.not_mem_nil, fun _ _ => rfl, fun _ h => h⟩
  | a :: t, T, hT, hrows, hitems => by
    simp only [List.foldl_cons]
    have han : a < n := hitems a (by simp)
    obtain ⟨vals, z, e, hl, hv⟩ := hrows a han
    obtain ⟨vals', e', l', s'⟩ := refill_full (dist a) a h hnd vals z (by rw [hl]; exact hcount a)
    have hfull : RowFull n mNb (mnnRefill (dist a) a h (T.getD a [])) := by
      rw [e, e']
      refine ⟨vals', rfl, by omega, fun v hv' => ?_⟩
      rcases s' v hv' with h1 | h1
      · exact hv v h1
      · exact hlt v h1
    set T1 := T.set a (mnnRefill (dist a) a h (T.getD a [])) with hT1def
    have hT1 : T1.length = n := by rw [hT1def, List.length_set]; exact hT
    have hrows1 : ∀ i, i < n → RowOK n mNb (T1.getD i []) := by
      intro i hi
      rw [hT1def, getD_set_table]
      split
      · exact rowFull_ok hfull
      · exact hrows i hi
    obtain ⟨h1, h2, h3, h4, h5⟩ := refillAll_spec n mNb dist h hnd hlt hcount t T1 hT1 hrows1
      (fun i hi => hitems i (List.mem_cons_of_mem _ hi))
    have hfullT1 : ∀ i, RowFull n mNb (T.getD i []) → RowFull n mNb (T1.getD i []) := by
      intro i hi
      rw [hT1def, getD_set_table]
      split
      · exact hfull
      · exact hi
    refine ⟨h1, h2, ?_, ?_, fun i hi => h5 i (hfullT1 i hi)⟩
    · intro i hi
      simp only [List.mem_cons] at hi
      rcases hi with rfl | hi
      · apply h5
        rw [hT1def, getD_set_table, if_pos ⟨rfl, by rw [hT]; exact han⟩]
        exact hfull
      · exact h3 i hi
    · intro i hi
      simp only [List.mem_cons, not_or] at hi
      rw [h4 i hi.2, hT1def, getD_set_table]
      have : ¬ (a = i ∧ a < T.length) := fun h => hi.1 h.1.symm
      rw [if_neg this]


/-- `c_calc_d` over the items: the flag survives when every item's row is complete -/
theorem calcD_ok (n mNb : Nat) (dist : Nat → Nat → α) (T : List (List (Option Nat))) :
    ∀ (items : List Nat) (d : List (Ext α)) (ok : Bool), ok = true → (∀ i ∈ items, RowFull n mNb (T.getD i [])) →
      (items.foldl (fun (acc : List (Ext α) × Bool) i =>
        let p := mnnProd (dist i) (T.getD i [])
        (acc.1.set i (Ext.fin p.1), acc.2 && p.2)) (d, ok)).2 = true
  | [], d, ok, h, _ => h
  | a :: t, d, ok, h, hfull => by
    simp only [List.foldl_cons]
    apply calcD_ok n mNb dist T t
    · obtain ⟨vals, e, _, _⟩ := hfull a (by simp)
      rw [e, prod_ok, h]; rfl
    · intro i hi; exact hfull i (List.mem_cons_of_mem _ hi)

/-- invariant of the kernel's `while` loop -/
structure MInv (n mNb : Nat) (ex : List Nat) (st : MnnState α) : Prop where
  len : st.mnn.length = n
  rows : ∀ i, i < n → RowOK n mNb (st.mnn.getD i [])
  full : ∀ i ∈ st.h, i ∉ ex → RowFull n mNb (st.mnn.getD i [])
  nodup : st.h.Nodup
  lt : ∀ i ∈ st.h, i < n
  ok : st.ok = true

theorem filter_ne_length_ge (h : List Nat) (hnd : h.Nodup) (k : Nat) : h.length - 1 ≤ (h.filter (· != k)).length := by
  by_cases hk : k ∈ h
  · rw [← List.Nodup.erase_eq_filter hnd, List.length_erase_of_mem hk]
  · have : h.filter (· != k) = h := by
      rw [List.filter_eq_self]
      intro a ha
      simp only [bne_iff_ne, ne_eq]
      intro h'; subst h'; exact hk ha
    rw [this]; omega

theorem mnnStepF_eq (xs : List (List α)) (ex : List Nat) (st : MnnState α) :
    mnnStepF xs ex st =
      (let k := (dropLast st.d st.h).getD 0
       let h' := st.h.filter (· != k)
       let upd := h'.foldl (removeStep k) (st.mnn, [])
       let items := upd.2.filter fun i => !ex.contains i
       let mnn' := items.foldl (fun t i => t.set i (mnnRefill (dmAt xs i) i h' (t.getD i []))) upd.1
       let res := items.foldl (fun (acc : List (Ext α) × Bool) i =>
           let p := mnnProd (dmAt xs i) (mnn'.getD i [])
           (acc.1.set i (Ext.fin p.1), acc.2 && p.2)) (st.d, st.ok)
       { mnn := mnn', d := res.1, h := h', ok := res.2 }) := rfl

/-- **one pass keeps the invariant** as long as enough points stay alive -/
theorem mnn_step_inv (xs : List (List α)) (n mNb : Nat) (ex : List Nat) (st : MnnState α) (hinv : MInv n mNb ex st)
    (hbig : mNb + 2 ≤ st.h.length) :
    MInv n mNb ex (mnnStepF xs ex st) ∧ st.h.length - 1 ≤ (mnnStepF xs ex st).h.length := by
  rw [mnnStepF_eq]
  simp only []
  set k := (dropLast st.d st.h).getD 0 with hk
  set h' := st.h.filter (· != k) with hh'
  have hnd' : h'.Nodup := hinv.nodup.filter _
  have hlt' : ∀ i ∈ h', i < n := fun i hi => hinv.lt i (List.mem_filter.mp hi).1
  have hlen' : st.h.length - 1 ≤ h'.length := filter_ne_length_ge st.h hinv.nodup k
  obtain ⟨u1, u2, u3, u4, _⟩ := removeAll_spec n mNb k h' st.mnn [] hinv.len hinv.rows
  set upd := h'.foldl (removeStep k) (st.mnn, []) with hupd
  set items := upd.2.filter (fun i => !ex.contains i) with hitems
  have hitem_in : ∀ i ∈ items, i ∈ h' ∧ i ∉ ex := by
    intro i hi
    rw [hitems, List.mem_filter] at hi
    refine ⟨?_, fun h => ?_⟩
    · rcases u4 i hi.1 with h | h
      · cases h
      · exact h
    · rw [(contains_iff ex i).mpr h] at hi; simp at hi
  have hcount : ∀ i, mNb ≤ (h'.filter (· != i)).length := by
    intro i
    have := filter_ne_length_ge h' hnd' i
    omega
  obtain ⟨r1, r2, r3, r4, r5⟩ := refillAll_spec n mNb (fun i => dmAt xs i) h' hnd' hlt' hcount items upd.1 u1 u2
    (fun i hi => hlt' i (hitem_in i hi).1)
  set mnn' := items.foldl (fun t i => t.set i (mnnRefill (dmAt xs i) i h' (t.getD i []))) upd.1 with hmnn'
  refine ⟨⟨r1, r2, ?_, hnd', hlt', ?_⟩, hlen'⟩
  · intro i hi hie
    by_cases hit : i ∈ items
    · exact r3 i hit
    · -- not reported: the row is the one before the pass, which was complete
      have hnu : i ∉ upd.2 := by
        intro h
        apply hit
        rw [hitems, List.mem_filter]
        refine ⟨h, ?_⟩
        cases hcc : ex.contains i
        · rfl
        · exact absurd ((contains_iff ex i).mp hcc) hie
      apply r5
      rw [u3 i hnu]
      exact hinv.full i (List.mem_filter.mp hi).1 hie
  · exact calcD_ok n mNb (fun i => dmAt xs i) mnn' items st.d st.ok hinv.ok r3

/-- the whole loop -/
theorem mnn_loop_inv (xs : List (List α)) (n mNb : Nat) (ex : List Nat) :
    ∀ (fuel : Nat) (st : MnnState α), MInv n mNb ex st → mNb + 1 + fuel ≤ st.h.length →
      MInv n mNb ex (mnnLoopF xs ex fuel st)
  | 0, st, h, _ => h
  | fuel + 1, st, h, hb => by
    obtain ⟨h1, h2⟩ := mnn_step_inv xs n mNb ex st h (by omega)
    exact mnn_loop_inv xs n mNb ex fuel _ h1 (by omega)


theorem init_mnn_inv (f : List (List α)) (nObj mNb : Nat) (hbig : mNb < f.length) :
    MInv f.length mNb (extremesFirst f nObj) (mnnInitF f nObj mNb) := by
  set n := f.length with hn
  set xs := normalizeCols f nObj with hxs
  -- the initial table
  set T : List (List (Option Nat)) := (List.range n).map fun i =>
    ((argsortStable ((List.range n).map fun j => dmAt xs i j)).drop 1).take mNb |>.map some with hT
  have hTlen : T.length = n := by simp [hT]
  have hrowfull : ∀ i, i < n → RowFull n mNb (T.getD i []) := by
    intro i hi
    rw [hT, List.getD_eq_getElem?_getD, List.getElem?_map, List.getElem?_range hi]
    simp only [Option.map_some, Option.getD_some]
    set row := (List.range n).map fun j => dmAt xs i j with hrow
    have hperm := argsort_perm row
    have hrl : row.length = n := by simp [hrow]
    refine ⟨((argsortStable row).drop 1).take mNb, rfl, ?_, ?_⟩
    · rw [List.length_take, List.length_drop, hperm.length_eq, List.length_range, hrl]
      omega
    · intro v hv
      have hv' : v ∈ argsortStable row := List.mem_of_mem_drop (List.mem_of_mem_take hv)
      have := hperm.subset hv'
      rw [hrl] at this
      exact List.mem_range.mp this
  have hinit : mnnInitF f nObj mNb =
      { mnn := T,
        d := (((List.range n).filter fun i => !(extremesFirst f nObj).contains i).foldl
          (fun (acc : List (Ext α) × Bool) i =>
            let p := mnnProd (dmAt xs i) (T.getD i [])
            (acc.1.set i (Ext.fin p.1), acc.2 && p.2)) (List.replicate n Ext.top, true)).1,
        h := List.range n,
        ok := (((List.range n).filter fun i => !(extremesFirst f nObj).contains i).foldl
          (fun (acc : List (Ext α) × Bool) i =>
            let p := mnnProd (dmAt xs i) (T.getD i [])
            (acc.1.set i (Ext.fin p.1), acc.2 && p.2)) (List.replicate n Ext.top, true)).2 } := rfl
  rw [hinit]
  refine ⟨hTlen, fun i hi => rowFull_ok (hrowfull i hi), fun i hi _ => hrowfull i (List.mem_range.mp hi),
    List.nodup_range, fun i hi => List.mem_range.mp hi, ?_⟩
  apply calcD_ok n mNb (fun i => dmAt xs i) T _ _ true rfl
  intro i hi
  exact hrowfull i (List.mem_range.mp (List.mem_filter.mp hi).1)

/-- **C13 (memory safety of the compiled mnn / 2nn kernel, every front, every `n_remove`)**: whenever the kernel
uses a neighbour slot as a column index of the distance matrix the slot is assigned (known finding F4, the read
at mnn.pyx:207 whose value is never used, is the one access outside this statement) -/
theorem mnnKernelF_safe (f : List (List α)) (nObj : Nat) (nRemove : Int) (twonn : Bool)
    (h2 : (if twonn then 2 else nObj) ≤ nObj) : (mnnKernelF f nObj nRemove twonn).2 = true := by
  unfold mnnKernelF
  simp only []
  generalize (if twonn then 2 else nObj) = mNb at h2 ⊢
  by_cases hle : f.length ≤ mNb
  · rw [if_pos hle]
  · rw [if_neg hle]
    have hbig' : mNb < f.length := by omega
    have hcl : clampRemove nRemove f.length nObj ≤ (f.length : Int) - nObj ∨ clampRemove nRemove f.length nObj ≤ 0 := by
      unfold clampRemove
      split
      · split
        · exact Or.inr (le_refl _)
        · left; omega
      · exact Or.inl (le_refl _)
    have hinv := mnn_loop_inv (normalizeCols f nObj) f.length mNb (extremesFirst f nObj)
      (clampRemove nRemove f.length nObj - 1).toNat _ (init_mnn_inv f nObj mNb hbig')
      (by
        have : (mnnInitF f nObj mNb).h = List.range f.length := rfl
        rw [this, List.length_range]
        generalize clampRemove nRemove f.length nObj = cl at hcl
        omega)
    exact hinv.ok

/-- every neighbour index the kernel stores is a valid row / column of the distance matrix -/
theorem mnn_indices_valid (f : List (List α)) (nObj : Nat) (nRemove : Int) (twonn : Bool)
    (h2 : (if twonn then 2 else nObj) ≤ nObj) (hbig : (if twonn then 2 else nObj) < f.length) :
    let st := mnnLoopF (normalizeCols f nObj) (extremesFirst f nObj) (clampRemove nRemove f.length nObj - 1).toNat
      (mnnInitF f nObj (if twonn then 2 else nObj))
    ∀ i, i < f.length → ∀ v, some v ∈ st.mnn.getD i [] → v < f.length := by
  intro st i hi v hv
  have hcl : clampRemove nRemove f.length nObj ≤ (f.length : Int) - nObj ∨ clampRemove nRemove f.length nObj ≤ 0 := by
    unfold clampRemove
    split
    · split
      · exact Or.inr (le_refl _)
      · left; omega
    · exact Or.inl (le_refl _)
  have hinv := mnn_loop_inv (normalizeCols f nObj) f.length (if twonn then 2 else nObj) (extremesFirst f nObj)
    (clampRemove nRemove f.length nObj - 1).toNat _ (init_mnn_inv f nObj _ hbig)
    (by
      show (if twonn then 2 else nObj) + 1 + (clampRemove nRemove f.length nObj - 1).toNat ≤ (mnnInitF f nObj _).h.length
      have : (mnnInitF f nObj (if twonn then 2 else nObj)).h = List.range f.length := rfl
      rw [this, List.length_range]
      generalize clampRemove nRemove f.length nObj = cl at hcl
      omega)
  obtain ⟨vals, z, e, _, hvalid⟩ := hinv.rows i hi
  rw [show st.mnn.getD i [] = vals.map some ++ List.replicate z none from e] at hv
  rw [List.mem_append] at hv
  rcases hv with hv | hv
  · obtain ⟨w, hw, hwv⟩ := List.mem_map.mp hv
    cases hwv
    exact hvalid v hw
  · rw [List.mem_replicate] at hv
    cases hv.2

end C13
end Pymoode
