/-
C09  Parent selection yields valid, distinct parents in documented roles.
Partial-correctness statements over finite recorded draw streams: "if the re-selection loops
finished on the recorded `choice` vectors, the parent matrix satisfies …".
-/
import PymoodeModel.Selection
import Mathlib.Data.List.Basic
import Mathlib.Data.List.Nodup
import Mathlib.Data.List.Perm.Basic
import Mathlib.Tactic.Linarith

set_option linter.unusedSectionVars false
set_option linter.unusedVariables false

namespace Pymoode
namespace C09

/-! ### one column -/

/-- exit condition of the `while np.any(reselect)` loop, spelled out -/
theorem noRe_spec : ∀ (tp : List (Nat × List Nat)) (col : List Nat), noRe tp col = true →
    ∀ i (h1 : i < tp.length) (h2 : i < col.length), col[i] ≠ tp[i].1 ∧ col[i] ∉ tp[i].2
  | [], _, _, i, h1, _ => by simp at h1
  | _ :: _, [], _, i, _, h2 => by simp at h2
  | (t, p) :: tps, x :: xs, h, 0, _, _ => by
      simp only [noRe, needRe, Bool.and_eq_true, Bool.not_eq_eq_eq_not, Bool.not_true,
        Bool.or_eq_false_iff, beq_eq_false_iff_ne, ne_eq] at h
      simp only [List.getElem_cons_zero]
      refine ⟨h.1.1, ?_⟩
      have := h.1.2
      simpa using this
  | (t, p) :: tps, x :: xs, h, i + 1, h1, h2 => by
      simp only [noRe, Bool.and_eq_true] at h
      simp only [List.getElem_cons_succ]
      exact noRe_spec tps xs h.2 i (by simpa using h1) (by simpa using h2)

theorem redraw_length : ∀ (tp : List (Nat × List Nat)) (col e : List Nat), tp.length = col.length →
    (redraw tp col e).length = col.length
  | [], [], _, _ => by simp [redraw]
  | [], _ :: _, _, h => by simp at h
  | _ :: _, [], _, h => by simp at h
  | (t, p) :: tps, x :: xs, e, h => by
      simp only [redraw]
      have hl : tps.length = xs.length := by simpa using h
      split
      · cases e with
        | nil => simp [redraw_length tps xs [] hl]
        | cons v vs => simp [redraw_length tps xs vs hl]
      · simp [redraw_length tps xs e hl]

theorem redraw_mem : ∀ (tp : List (Nat × List Nat)) (col e : List Nat), ∀ y ∈ redraw tp col e, y ∈ col ∨ y ∈ e
  | [], _, _, y, hy => by simp [redraw] at hy
  | _ :: _, [], _, y, hy => by simp [redraw] at hy
  | (t, p) :: tps, x :: xs, e, y, hy => by
      simp only [redraw] at hy
      split at hy
      · cases e with
        | nil =>
          simp only [List.mem_cons] at hy
          rcases hy with rfl | hy
          · simp
          · rcases redraw_mem tps xs [] y hy with h | h
            · simp [h]
            · simp at h
        | cons v vs =>
          simp only [List.mem_cons] at hy
          rcases hy with rfl | hy
          · simp
          · rcases redraw_mem tps xs vs y hy with h | h
            · simp [h]
            · simp [h]
      · simp only [List.mem_cons] at hy
        rcases hy with rfl | hy
        · simp
        · rcases redraw_mem tps xs e y hy with h | h
          · simp [h]
          · simp [h]

/-- the column the loop ends with is flagged nowhere, has the right length, and every entry
is a value that was drawn -/
theorem fillCol_spec (tp : List (Nat × List Nat)) : ∀ (evs : List (List Nat)) (col c : List Nat)
    (rest : List (List Nat)), fillCol tp col evs = some (c, rest) → tp.length = col.length →
    noRe tp c = true ∧ c.length = col.length ∧ (∀ y ∈ c, y ∈ col ∨ ∃ e ∈ evs, y ∈ e)
  | [], col, c, rest, h, _ => by
      simp only [fillCol] at h
      split at h
      · rename_i hn
        simp only [Option.some.injEq, Prod.mk.injEq] at h
        obtain ⟨rfl, _⟩ := h
        exact ⟨hn, rfl, fun y hy => Or.inl hy⟩
      · simp at h
  | e :: es, col, c, rest, h, hl => by
      simp only [fillCol] at h
      split at h
      · rename_i hn
        simp only [Option.some.injEq, Prod.mk.injEq] at h
        obtain ⟨rfl, _⟩ := h
        exact ⟨hn, rfl, fun y hy => Or.inl hy⟩
      · have hl' : tp.length = (redraw tp col e).length := by rw [redraw_length tp col e hl]; exact hl
        obtain ⟨h1, h2, h3⟩ := fillCol_spec tp es (redraw tp col e) c rest h hl'
        refine ⟨h1, by rw [h2, redraw_length tp col e hl], ?_⟩
        intro y hy
        rcases h3 y hy with h | ⟨e', he', hy'⟩
        · rcases redraw_mem tp col e y h with h | h
          · exact Or.inl h
          · exact Or.inr ⟨e, by simp, h⟩
        · exact Or.inr ⟨e', by simp [he'], hy'⟩

/-! ### several columns -/

theorem addCol_length (rows : List (List Nat)) (col : List Nat) (h : col.length = rows.length) :
    (addCol rows col).length = rows.length := by
  simp [addCol, h]

theorem addCol_get (rows : List (List Nat)) (col : List Nat) (i : Nat) (h1 : i < rows.length)
    (h2 : i < col.length) (h3 : i < (addCol rows col).length) :
    (addCol rows col)[i] = rows[i] ++ [col[i]] := by
  simp [addCol]

/-- **distinctness and validity of the randomly drawn parents.**
If `k` random columns could be appended to `rows` from the recorded vectors, then row `i` became
`rows[i] ++ new` where the `k` new parents are pairwise distinct, differ from the target `i` and
from every earlier column of that row, and each is one of the drawn values. -/
theorem fillCols_spec : ∀ (k : Nat) (rows : List (List Nat)) (evs : List (List Nat))
    (rows' : List (List Nat)) (rest : List (List Nat)),
    fillCols rows k evs = some (rows', rest) →
    rows'.length = rows.length ∧
    ∀ i (h : i < rows.length) (h' : i < rows'.length), ∃ new : List Nat,
      rows'[i] = rows[i] ++ new ∧ new.length = k ∧ new.Nodup ∧
      (∀ x ∈ new, x ≠ i ∧ x ∉ rows[i]) ∧ (∀ x ∈ new, ∃ e ∈ evs, x ∈ e)
  | 0, rows, evs, rows', rest, h => by
      simp only [fillCols, Option.some.injEq, Prod.mk.injEq] at h
      obtain ⟨rfl, _⟩ := h
      exact ⟨rfl, fun i h _ => ⟨[], by simp⟩⟩
  | k + 1, rows, [], rows', rest, h => by simp [fillCols] at h
  | k + 1, rows, e :: es, rows', rest, h => by
      simp only [fillCols] at h
      split at h
      · simp at h
      · rename_i hlen
        have hlen : e.length = rows.length := by simpa using hlen
        split at h
        · simp at h
        · rename_i col rest1 hfc
          have htp : (List.zip (targetsOf rows) rows).length = e.length := by
            simp [targetsOf, hlen]
          obtain ⟨hno, hcl, hmem⟩ := fillCol_spec _ es e col rest1 hfc htp
          have hcl' : col.length = rows.length := by rw [hcl, hlen]
          obtain ⟨ihl, ih⟩ := fillCols_spec k (addCol rows col) rest1 rows' rest h
          have hal := addCol_length rows col hcl'
          refine ⟨by rw [ihl, hal], ?_⟩
          intro i hi hi'
          obtain ⟨new', e1, e2, e3, e4, e5⟩ := ih i (by rw [hal]; exact hi) hi'
          have hci : i < col.length := by rw [hcl']; exact hi
          have hget := addCol_get rows col i hi hci (by rw [hal]; exact hi)
          have hz : i < (List.zip (targetsOf rows) rows).length := by rw [htp, hlen]; exact hi
          obtain ⟨hne, hnin⟩ := noRe_spec _ col hno i hz hci
          have hzi : (List.zip (targetsOf rows) rows)[i] = (i, rows[i]) := by
            simp [targetsOf]
          rw [hzi] at hne hnin
          simp only at hne hnin
          refine ⟨col[i] :: new', ?_, by simp [e2], ?_, ?_, ?_⟩
          · rw [e1, hget]; simp
          · rw [List.nodup_cons]
            refine ⟨?_, e3⟩
            intro hin
            have := (e4 _ hin).2
            rw [hget] at this
            simp at this
          · intro x hx
            simp only [List.mem_cons] at hx
            rcases hx with rfl | hx
            · exact ⟨hne, hnin⟩
            · have := e4 x hx
              rw [hget] at this
              refine ⟨this.1, ?_⟩
              intro hc
              exact this.2 (by simp [hc])
          · intro x hx
            simp only [List.mem_cons] at hx
            rcases hx with rfl | hx
            · rcases hmem _ (List.getElem_mem hci) with h | ⟨e', he', hx'⟩
              · exact ⟨e, by simp, h⟩
              · exact ⟨e', by simp [he'], hx'⟩
            · obtain ⟨e', he', hx'⟩ := e5 x hx
              refine ⟨e', ?_, hx'⟩
              have hsub : ∀ z ∈ rest1, z ∈ e :: es := by
                intro z hz'
                -- rest1 is a suffix of the recorded vectors
                have := fillCol_rest_subset _ es e col rest1 hfc
                exact List.mem_cons_of_mem _ (this z hz')
              exact hsub e' he'
where
  fillCol_rest_subset (tp : List (Nat × List Nat)) : ∀ (evs : List (List Nat)) (col c : List Nat)
      (rest : List (List Nat)), fillCol tp col evs = some (c, rest) → ∀ z ∈ rest, z ∈ evs
    | [], col, c, rest, h => by
        simp only [fillCol] at h
        split at h
        · simp only [Option.some.injEq, Prod.mk.injEq] at h
          obtain ⟨_, rfl⟩ := h
          simp
        · simp at h
    | e :: es, col, c, rest, h => by
        simp only [fillCol] at h
        split at h
        · simp only [Option.some.injEq, Prod.mk.injEq] at h
          obtain ⟨_, rfl⟩ := h
          simp
        · intro z hz
          exact List.mem_cons_of_mem _ (fillCol_rest_subset tp es _ c rest h z hz)

/-- valid population indices: every drawn value is `< n_pop` ⇒ every new parent is -/
theorem fillCols_valid (k : Nat) (rows evs rows' rest) (nPop : Nat)
    (h : fillCols rows k evs = some (rows', rest)) (hv : ∀ e ∈ evs, ∀ x ∈ e, x < nPop)
    (i : Nat) (hi : i < rows.length) (hi' : i < rows'.length) :
    ∀ x ∈ rows'[i], x ∈ rows[i] ∨ x < nPop := by
  obtain ⟨_, hs⟩ := fillCols_spec k rows evs rows' rest h
  obtain ⟨new, e1, _, _, _, e5⟩ := hs i hi hi'
  intro x hx
  rw [e1, List.mem_append] at hx
  rcases hx with hx | hx
  · exact Or.inl hx
  · obtain ⟨e, he, hxe⟩ := e5 x hx
    exact Or.inr (hv e he x hxe)

/-! ### the variants (documented roles) -/

/-- `rand`: all `nPar` parents of target `i` are distinct and differ from `i` -/
theorem rand_spec (rank : Nat → Nat) (n nPar : Nat) (evs rows' rest)
    (h : select .rand rank n nPar evs = some (rows', rest)) (i : Nat) (hi : i < n) (hi' : i < rows'.length) :
    rows'[i].length = nPar ∧ rows'[i].Nodup ∧ i ∉ rows'[i] := by
  simp only [select] at h
  obtain ⟨_, hs⟩ := fillCols_spec nPar _ evs rows' rest h
  obtain ⟨new, e1, e2, e3, e4, _⟩ := hs i (by simpa using hi) hi'
  simp only [List.getElem_replicate, List.nil_append] at e1
  rw [e1]
  exact ⟨e2, e3, fun hc => (e4 i hc).1 rfl⟩

/-- `best`: column 0 is the top-ranked individual (index 0); the drawn parents are distinct,
differ from the target and from the best -/
theorem best_spec (rank : Nat → Nat) (n nPar : Nat) (evs rows' rest)
    (h : select .best rank n nPar evs = some (rows', rest)) (i : Nat) (hi : i < n) (hi' : i < rows'.length) :
    ∃ new, rows'[i] = 0 :: new ∧ new.length = nPar - 1 ∧ new.Nodup ∧ i ∉ new ∧ 0 ∉ new := by
  simp only [select] at h
  obtain ⟨_, hs⟩ := fillCols_spec (nPar - 1) _ evs rows' rest h
  obtain ⟨new, e1, e2, e3, e4, _⟩ := hs i (by simpa using hi) hi'
  simp only [List.getElem_map, List.singleton_append] at e1
  exact ⟨new, e1, e2, e3, fun hc => (e4 i hc).1 rfl, fun hc => by
    have := (e4 0 hc).2
    simp at this⟩

/-- `current-to-best`: `[i, 0, i]` then distinct drawn parents differing from `i` and `0` -/
theorem current_to_best_spec (rank : Nat → Nat) (n nPar : Nat) (evs rows' rest)
    (h : select .currentToBest rank n nPar evs = some (rows', rest)) (i : Nat) (hi : i < n)
    (hi' : i < rows'.length) :
    ∃ new, rows'[i] = i :: 0 :: i :: new ∧ new.length = nPar - 3 ∧ new.Nodup ∧ i ∉ new ∧ 0 ∉ new := by
  simp only [select] at h
  obtain ⟨_, hs⟩ := fillCols_spec (nPar - 3) _ evs rows' rest h
  obtain ⟨new, e1, e2, e3, e4, _⟩ := hs i (by simpa using hi) hi'
  simp only [List.getElem_map, List.getElem_range, List.cons_append, List.nil_append] at e1
  exact ⟨new, e1, e2, e3, fun hc => (e4 i hc).1 rfl, fun hc => by
    have := (e4 0 hc).2
    simp at this⟩

/-- `rand-to-best` is `best` with columns 0 and 1 exchanged -/
theorem rand_to_best_spec (rank : Nat → Nat) (n nPar : Nat) (evs rows' rest)
    (h : select .randToBest rank n nPar evs = some (rows', rest)) :
    ∃ rowsB, select .best rank n nPar evs = some (rowsB, rest) ∧ rows' = rowsB.map swap01 := by
  simp only [select] at h ⊢
  split at h
  · simp at h
  · rename_i rowsB rest' hb
    simp only [Option.some.injEq, Prod.mk.injEq] at h
    obtain ⟨rfl, rfl⟩ := h
    exact ⟨rowsB, hb, rfl⟩

/-! ### ranked: the drawn parents are only reordered -/

theorem interleaveEnds_perm {β : Type} : ∀ (l : List β), (interleaveEnds l).Perm l
  | [] => by simp [interleaveEnds]
  | [a] => by simp [interleaveEnds]
  | a :: b :: t => by
      rw [interleaveEnds]
      have ih := interleaveEnds_perm ((b :: t).dropLast)
      have hsplit : (b :: t) = (b :: t).dropLast ++ [(b :: t).getLast (by simp)] :=
        (List.dropLast_append_getLast (by simp)).symm
      refine List.Perm.cons a ?_
      calc (b :: t).getLast (by simp) :: interleaveEnds ((b :: t).dropLast)
          |>.Perm ((b :: t).getLast (by simp) :: (b :: t).dropLast) := List.Perm.cons _ ih
        _ |>.Perm ((b :: t).dropLast ++ [(b :: t).getLast (by simp)]) := by
            exact (List.perm_append_singleton _ _).symm
        _ = (b :: t) := hsplit.symm
termination_by l => l.length
decreasing_by simp; omega

/-- consecutive pairs `(P[2j-1], P[2j])` are ordered better-or-equal → worse-or-equal -/
def pairsDirected (rank : Nat → Nat) : List Nat → Prop
  | a :: b :: t => rank a ≤ rank b ∧ pairsDirected rank t
  | _ => True

theorem interleaveEnds_directed (rank : Nat → Nat) : ∀ (l : List Nat),
    l.Pairwise (fun a b => rank a ≤ rank b) → pairsDirected rank (interleaveEnds l)
  | [], _ => by simp [interleaveEnds, pairsDirected]
  | [a], _ => by simp [interleaveEnds, pairsDirected]
  | a :: b :: t, h => by
      rw [interleaveEnds]
      simp only [pairsDirected]
      have hmem : (b :: t).getLast (by simp) ∈ (b :: t) := List.getLast_mem _
      refine ⟨(List.pairwise_cons.mp h).1 _ hmem, ?_⟩
      apply interleaveEnds_directed rank
      have h2 : (b :: t).Pairwise (fun a b => rank a ≤ rank b) := (List.pairwise_cons.mp h).2
      exact h2.sublist (List.dropLast_sublist _)
termination_by l => l.length
decreasing_by simp; omega

/-- **ranked**: each row is a permutation of the drawn row (so the parents stay valid, distinct
and different from the target); the base vector has the best rank among them; every difference
vector is built from a better-or-equal-ranked minus a worse-or-equal-ranked parent. -/
theorem rankSortRow_spec (rank : Nat → Nat) (row : List Nat) :
    (rankSortRow rank row).Perm row ∧
    (∀ b t, rankSortRow rank row = b :: t → (∀ x ∈ row, rank b ≤ rank x) ∧ pairsDirected rank t) := by
  have hperm := List.mergeSort_perm row (fun a b => decide (rank a ≤ rank b))
  have hsorted : (row.mergeSort (fun a b => decide (rank a ≤ rank b))).Pairwise
      (fun a b => decide (rank a ≤ rank b) = true) :=
    List.pairwise_mergeSort (le := fun a b => decide (rank a ≤ rank b))
      (fun a b c h1 h2 => by simp only [decide_eq_true_eq] at *; omega)
      (fun a b => by simp only [Bool.or_eq_true, decide_eq_true_eq]; omega) row
  unfold rankSortRow
  generalize row.mergeSort (fun a b => decide (rank a ≤ rank b)) = s at hperm hsorted
  cases s with
  | nil => exact ⟨hperm, fun b t h => by simp at h⟩
  | cons s0 t =>
    refine ⟨(List.Perm.cons s0 (interleaveEnds_perm t)).trans hperm, ?_⟩
    intro b t' h
    simp only [List.cons.injEq] at h
    obtain ⟨rfl, rfl⟩ := h
    have hs' : (s0 :: t).Pairwise (fun a b => rank a ≤ rank b) := by
      refine hsorted.imp ?_
      intro a b hab; simpa using hab
    refine ⟨?_, interleaveEnds_directed rank t (List.pairwise_cons.mp hs').2⟩
    intro x hx
    have : x ∈ s0 :: t := hperm.symm.subset hx
    simp only [List.mem_cons] at this
    rcases this with rfl | hx'
    · exact le_refl _
    · exact (List.pairwise_cons.mp hs').1 x hx'

/-- consequence: under `ranked` no difference vector is built from one individual twice -/
theorem ranked_spec (rank : Nat → Nat) (n nPar : Nat) (evs rows' rest)
    (h : select .ranked rank n nPar evs = some (rows', rest)) (i : Nat) (hi : i < n) (hi' : i < rows'.length) :
    rows'[i].length = nPar ∧ rows'[i].Nodup ∧ i ∉ rows'[i] ∧
    (∀ b t, rows'[i] = b :: t → (∀ x ∈ rows'[i], rank b ≤ rank x) ∧ pairsDirected rank t) := by
  simp only [select] at h
  split at h
  · simp at h
  · rename_i rows0 rest0 h0
    simp only [Option.some.injEq, Prod.mk.injEq] at h
    obtain ⟨rfl, rfl⟩ := h
    have hi0 : i < rows0.length := by simpa using hi'
    obtain ⟨a1, a2, a3⟩ := rand_spec rank n nPar evs rows0 rest0 (by simpa [select] using h0) i hi hi0
    obtain ⟨p, q⟩ := rankSortRow_spec rank rows0[i]
    simp only [List.getElem_map]
    refine ⟨by rw [p.length_eq]; exact a1, p.nodup_iff.mpr a2, fun hc => a3 (p.subset hc), ?_⟩
    intro b t hbt
    obtain ⟨q1, q2⟩ := q b t hbt
    exact ⟨fun x hx => q1 x (p.subset hx), q2⟩

/-- non-vacuity: a concrete selection that finishes on a recorded stream, with one re-draw -/
example : select .rand id 4 3 [[1, 2, 3, 0], [0, 0, 1, 2], [2], [2, 1, 0, 1], [3, 3]] =
    some ([[1, 2, 3], [2, 0, 3], [3, 1, 0], [0, 2, 1]], []) := by decide

example : interleaveEnds [4, 1, 3, 2] = [4, 2, 1, 3] := by simp [interleaveEnds]

end C09
end Pymoode

namespace Pymoode
namespace C09

/-- `current-to-rand`: `[i, r, i]` then distinct drawn parents; `r` and the later ones differ from
the target and from each other -/
theorem current_to_rand_spec (rank : Nat → Nat) (n nPar : Nat) (evs rows' rest)
    (h : select .currentToRand rank n nPar evs = some (rows', rest)) (i : Nat) (hi : i < n)
    (hi' : i < rows'.length) :
    ∃ r new, rows'[i] = i :: r :: i :: new ∧ r ≠ i ∧ new.length = nPar - 3 ∧ new.Nodup ∧
      i ∉ new ∧ r ∉ new := by
  simp only [select] at h
  split at h
  · simp at h
  · rename_i rows1 rest1 h1
    obtain ⟨hl1, hs1⟩ := fillCols_spec 1 _ evs rows1 rest1 h1
    have hl1' : rows1.length = n := by simpa using hl1
    obtain ⟨hl2, hs2⟩ := fillCols_spec (nPar - 3) _ rest1 rows' rest h
    have hz : (List.zipWith (fun r i => r ++ [i]) rows1 (List.range n)).length = n := by simp [hl1']
    obtain ⟨new1, e1, e2, _, e4, _⟩ := hs1 i (by simpa using hi) (by omega)
    obtain ⟨new, f1, f2, f3, f4, _⟩ := hs2 i (by omega) hi'
    simp only [List.getElem_map, List.getElem_range, List.singleton_append] at e1
    -- new1 is a single parent r
    cases new1 with
    | nil => simp at e2
    | cons r t =>
      have ht : t = [] := by
        cases t with
        | nil => rfl
        | cons _ _ => simp at e2
      subst ht
      have hr : r ≠ i := (e4 r (by simp)).1
      have hrow : (List.zipWith (fun r i => r ++ [i]) rows1 (List.range n))[i]'(by omega) = [i, r, i] := by
        simp [e1]
      rw [hrow] at f1 f4
      refine ⟨r, new, by simpa using f1, hr, f2, f3, fun hc => (f4 i hc).1 rfl, fun hc => ?_⟩
      have := (f4 r hc).2
      simp at this

/-- every parent index of every variant is a valid population index, provided the draws are -/
theorem select_rand_valid (rank : Nat → Nat) (n nPar : Nat) (evs rows' rest)
    (h : select .rand rank n nPar evs = some (rows', rest)) (hv : ∀ e ∈ evs, ∀ x ∈ e, x < n)
    (i : Nat) (hi : i < n) (hi' : i < rows'.length) : ∀ x ∈ rows'[i], x < n := by
  simp only [select] at h
  intro x hx
  have := fillCols_valid nPar _ evs rows' rest n h hv i (by simpa using hi) hi' x hx
  rcases this with h1 | h1
  · simp at h1
  · exact h1

end C09
end Pymoode
