/-
C13 / C15, continued: the pcd and ce definitions are well-formed; which points the crowding
distance makes infinite (a min-holder and a max-holder of every non-constant objective, and no more
than two per objective, hence at most 2·n_obj per front).
-/
import PymoodeProofs.C13
import PymoodeProofs.C15

set_option linter.unusedSectionVars false
set_option linter.unusedVariables false

namespace Pymoode
namespace C13
open C15

variable {α : Type} [Field α] [LinearOrder α] [IsStrictOrderedRing α] [Inhabited α]

/-! ### pcd definition (= pure-Python engine) -/

theorem pcdScratch_wellformed (x : List (List α)) (live : List Nat) (nObj : Nat) (ex : List Nat) (n : Nat)
    (old : List (Ext α)) (hold : ∀ e ∈ old, WF e) :
    ∀ e ∈ pcdScratch x live nObj ex n old, WF e := by
  intro e he
  simp only [pcdScratch, List.mem_map, List.mem_range] at he
  obtain ⟨i, _, rfl⟩ := he
  split
  · simp [WF]
  · split
    · rename_i p hp
      -- a sum over objectives of one-sided / two-sided gaps of a sorted column
      set per := (List.range nObj).map fun m =>
        let col := column (live.map fun i => x.getD i []) m
        let order := argsortStable col
        let s := order.map fun i => col.getD i default
        let contrib : List (Ext α) := (List.range s.length).map fun p =>
          let dl : α := if p = 0 then 0 else s.getD p default - s.getD (p - 1) default
          let dn : α := if p + 1 = s.length then 0 else s.getD (p + 1) default - s.getD p default
          Ext.fin (dl + dn)
        (List.range col.length).map fun i => contrib.getD (order.idxOf i) (Ext.fin 0) with hper
      have hwf : ∀ r ∈ per, ∀ e ∈ r, WF e := by
        intro r hr e he
        simp only [hper, List.mem_map, List.mem_range] at hr
        obtain ⟨m, _, rfl⟩ := hr
        simp only [List.mem_map, List.mem_range] at he
        obtain ⟨j, _, rfl⟩ := he
        set col := column (live.map fun i => x.getD i []) m
        set s := (argsortStable col).map fun i => col.getD i default with hs
        have hsorted : s.Pairwise (· ≤ ·) := argsort_sorted col
        by_cases hj : (argsortStable col).idxOf j < s.length
        · simp only [List.getD_eq_getElem?_getD, List.length_map, List.length_range, List.getElem?_map,
            List.getElem?_range hj, Option.map_some, Option.getD_some]
          simp only [WF]
          set q := (argsortStable col).idxOf j
          apply add_nonneg
          · split
            · exact le_refl _
            · have := getD_mono s hsorted (q - 1) q (by omega) hj
              simpa [List.getD_eq_getElem?_getD] using sub_nonneg.mpr this
          · split
            · exact le_refl _
            · have := getD_mono s hsorted q (q + 1) (by omega) (by omega)
              simpa [List.getD_eq_getElem?_getD] using sub_nonneg.mpr this
        · have : (List.range s.length).length ≤ (argsortStable col).idxOf j := by simpa using Nat.le_of_not_lt hj
          simp [List.getD_eq_getElem?_getD, List.getElem?_eq_none this, WF]
      have hsum := sumExt_wellformed per live.length hwf
      by_cases hpl : p < (sumExt per live.length).length
      · simp only [List.getD_eq_getElem?_getD, List.getElem?_eq_getElem hpl, Option.getD_some]
        exact hsum _ (List.getElem_mem hpl)
      · simp [List.getD_eq_getElem?_getD, List.getElem?_eq_none (Nat.le_of_not_lt hpl), WF]
    · by_cases hi : i < old.length
      · simp only [List.getD_eq_getElem?_getD, List.getElem?_eq_getElem hi, Option.getD_some]
        exact hold _ (List.getElem_mem hi)
      · simp [List.getD_eq_getElem?_getD, List.getElem?_eq_none (Nat.le_of_not_lt hi), WF]

theorem pcdScratch_extremes_top (x : List (List α)) (live : List Nat) (nObj : Nat) (ex : List Nat) (n : Nat)
    (old : List (Ext α)) (i : Nat) (hi : i < n) (hex : i ∈ ex) :
    (pcdScratch x live nObj ex n old).getD i (Ext.fin 0) = Ext.top := by
  simp only [pcdScratch, List.getD_eq_getElem?_getD, List.getElem?_map, List.getElem?_range hi,
    Option.map_some, Option.getD_some]
  simp [hex]

/-- **pcd (definition = pure-Python engine), any number of removals**: well-formed values -/
theorem pcdFallback_wellformed (f : List (List α)) (nObj : Nat) (nObjS : α) (hpos : 0 < nObjS) (nRemove : Int) :
    ∀ e ∈ pcdFallback f nObj nObjS nRemove, WF e := by
  unfold pcdFallback
  simp only
  intro e he
  simp only [List.mem_map] at he
  obtain ⟨e', he', rfl⟩ := he
  apply WF_div _ nObjS hpos
  revert e' he'
  apply pruneLoop_preserves (fun d => ∀ e ∈ d, WF e)
  · intro lv d hd
    exact pcdScratch_wellformed _ lv _ _ _ d hd
  · apply pcdScratch_wellformed
    intro e he
    simp only [List.mem_map] at he
    obtain ⟨_, _, rfl⟩ := he
    simp [WF]

/-- … and every extreme (first arg-min / arg-max of each objective) stays infinite -/
theorem pcdFallback_extremes_top (f : List (List α)) (nObj : Nat) (nObjS : α) (nRemove : Int)
    (i : Nat) (hi : i < f.length) (hex : i ∈ extremesFirst f nObj) :
    (pcdFallback f nObj nObjS nRemove).getD i (Ext.fin 0) = Ext.top := by
  unfold pcdFallback
  simp only
  have h : (pruneLoop (fun lv old => pcdScratch (normalizeCols f nObj) lv nObj (extremesFirst f nObj) f.length old)
      (clampRemove nRemove f.length nObj - 1).toNat (List.range f.length)
      (pcdScratch (normalizeCols f nObj) (List.range f.length) nObj (extremesFirst f nObj) f.length
        (f.map fun _ => Ext.top))).getD i (Ext.fin 0) = Ext.top := by
    apply pruneLoop_preserves (fun d => d.getD i (Ext.fin 0) = Ext.top)
    · intro lv d _
      exact pcdScratch_extremes_top _ lv _ _ _ d i hi hex
    · exact pcdScratch_extremes_top _ _ _ _ _ _ i hi hex
  simp only [List.getD_eq_getElem?_getD, List.getElem?_map] at h ⊢
  cases hq : (pruneLoop (fun lv old => pcdScratch (normalizeCols f nObj) lv nObj (extremesFirst f nObj) f.length old)
      (clampRemove nRemove f.length nObj - 1).toNat (List.range f.length)
      (pcdScratch (normalizeCols f nObj) (List.range f.length) nObj (extremesFirst f nObj) f.length
        (f.map fun _ => Ext.top)))[i]? with
  | none => rw [hq] at h; simp at h
  | some v =>
    rw [hq] at h
    simp only [Option.getD_some] at h
    subst h
    simp [Ext.mapFin]

/-! ### crowding entropy -/

/-- **ce, one objective**: with `log2 p ≤ 0` on `(0, 1]` (entropy terms non-negative) every
contribution is `+inf` or finite and non-negative -/
theorem ceSorted_wellformed (log2 : α → α) (hlog : ∀ p, 0 < p → p ≤ 1 → log2 p ≤ 0)
    (s : List α) (hs : s.Pairwise (· ≤ ·)) : ∀ e ∈ ceSorted log2 (fun x => -x) s, WF e := by
  intro e he
  unfold ceSorted at he
  cases hh : s.head? with
  | none => simp [hh] at he
  | some lo =>
    cases hl : s.getLast? with
    | none => simp [hh, hl] at he
    | some hi =>
      simp only [hh, hl] at he
      split at he
      · rename_i hlt
        simp only [List.mem_map, List.mem_range] at he
        obtain ⟨p, hp, rfl⟩ := he
        split
        · simp [WF]
        · split
          · rename_i hpos
            obtain ⟨hdl, hdu⟩ := hpos
            simp only [WF]
            set dl := s.getD p default - s.getD (p - 1) default
            set du := s.getD (p + 1) default - s.getD p default
            have hcd : 0 < dl + du := by linarith
            have hnorm : 0 < hi - lo := by linarith
            have hpl : 0 < dl / (dl + du) := div_pos hdl hcd
            have hpu : 0 < du / (dl + du) := div_pos hdu hcd
            have hpl1 : dl / (dl + du) ≤ 1 := by rw [div_le_one hcd]; linarith
            have hpu1 : du / (dl + du) ≤ 1 := by rw [div_le_one hcd]; linarith
            have h1 := hlog _ hpl hpl1
            have h2 := hlog _ hpu hpu1
            apply div_nonneg _ (le_of_lt hnorm)
            apply mul_nonneg (le_of_lt hcd)
            have : dl / (dl + du) * log2 (dl / (dl + du)) + du / (dl + du) * log2 (du / (dl + du)) ≤ 0 := by
              have a := mul_nonpos_of_nonneg_of_nonpos (le_of_lt hpl) h1
              have b := mul_nonpos_of_nonneg_of_nonpos (le_of_lt hpu) h2
              linarith
            linarith
          · simp [WF]
      · simp only [List.mem_map] at he
        obtain ⟨_, _, rfl⟩ := he
        simp [WF]

/-! ### how many members the crowding distance makes infinite, and which -/

theorem countP_or_le {β : Type} (p q : β → Bool) (l : List β) :
    l.countP (fun x => p x || q x) ≤ l.countP p + l.countP q := by
  induction l with
  | nil => simp
  | cons x l ih =>
    simp only [List.countP_cons]
    cases hp : p x <;> cases hq : q x <;> simp <;> omega

/-- a row-wise sum is infinite at `i` only if some row is -/
theorem sumExt_top_iff (rows : List (List (Ext α))) (n i : Nat) (hi : i < n) :
    ((sumExt rows n).getD i (Ext.fin 0)).isTop = rows.any (fun r => (r.getD i (Ext.fin 0)).isTop) := by
  simp only [sumExt, List.getD_eq_getElem?_getD, List.getElem?_map, List.getElem?_range hi, Option.map_some,
    Option.getD_some]
  have : ∀ (rs : List (List (Ext α))) (acc : Ext α),
      (rs.foldl (fun acc r => Ext.add acc (r[i]?.getD (Ext.fin 0))) acc).isTop =
        (acc.isTop || rs.any fun r => (r[i]?.getD (Ext.fin 0)).isTop) := by
    intro rs
    induction rs with
    | nil => intro acc; simp
    | cons r rs ih =>
      intro acc
      simp only [List.foldl_cons, List.any_cons]
      rw [ih]
      cases acc <;> cases hr : r[i]?.getD (Ext.fin 0) <;> simp [Ext.add, Ext.isTop]
  rw [this rows (Ext.fin 0)]
  simp [Ext.isTop]

theorem sumExt_top_count (rows : List (List (Ext α))) (n : Nat) :
    (sumExt rows n).countP Ext.isTop ≤
      (rows.map fun r => (List.range n).countP fun i => (r.getD i (Ext.fin 0)).isTop).sum := by
  have hlen : (sumExt rows n).length = n := by simp [sumExt]
  have h1 : (sumExt rows n).countP Ext.isTop =
      (List.range n).countP fun i => rows.any fun r => (r.getD i (Ext.fin 0)).isTop := by
    have : sumExt rows n = (List.range n).map fun i => (sumExt rows n).getD i (Ext.fin 0) := by
      apply List.ext_getElem
      · simp [hlen]
      · intro k h1 h2
        simp [List.getD_eq_getElem?_getD, List.getElem?_eq_getElem h1]
    rw [this, List.countP_map]
    apply List.countP_congr
    intro i hi
    simp only [List.mem_range] at hi
    simp only [Function.comp]
    rw [sumExt_top_iff rows n i hi]
  rw [h1]
  clear h1 hlen
  induction rows with
  | nil => simp
  | cons r rs ih =>
    simp only [List.any_cons, List.map_cons, List.sum_cons]
    exact le_trans (countP_or_le _ _ _) (Nat.add_le_add_left ih _)

/-- per objective the crowding distance makes at most two *points* infinite -/
theorem cdObj_top_count (col : List α) :
    (List.range col.length).countP (fun i => ((cdObj col).getD i (Ext.fin 0)).isTop) ≤ 2 := by
  set order := argsortStable col with ho
  set contrib := cdSorted (order.map fun i => col.getD i default) with hc
  have hperm : order.Perm (List.range col.length) := argsort_perm col
  have hclen : contrib.length = col.length := by
    rw [hc, cdSorted_length]; simp [hperm.length_eq]
  rw [List.countP_eq_length_filter]
  have hnd : ((List.range col.length).filter fun i => ((cdObj col).getD i (Ext.fin 0)).isTop).Nodup :=
    List.nodup_range.filter _
  -- every infinite point sits at one of the (at most two) infinite sorted positions
  have hpos : (List.range contrib.length).countP (fun p => (contrib.getD p (Ext.fin 0)).isTop) ≤ 2 := by
    have := cdSorted_top_count (order.map fun i => col.getD i default)
    have e : contrib = (List.range contrib.length).map fun p => contrib.getD p (Ext.fin 0) := by
      apply List.ext_getElem
      · simp
      · intro k h1 h2
        simp [List.getD_eq_getElem?_getD, List.getElem?_eq_getElem h1]
    rw [← hc] at this
    rw [e, List.countP_map] at this
    exact this
  -- the map i ↦ position of i in the sorted order is injective on the points
  have hinj : ∀ a ∈ List.range col.length, ∀ b ∈ List.range col.length,
      order.idxOf a = order.idxOf b → a = b := by
    intro a ha b hb hab
    have ha' : a ∈ order := hperm.symm.subset ha
    have hb' : b ∈ order := hperm.symm.subset hb
    have h1 := List.getElem_idxOf (List.idxOf_lt_length_iff.mpr ha')
    have h2 := List.getElem_idxOf (List.idxOf_lt_length_iff.mpr hb')
    simp only [hab] at h1
    rw [← h1, h2]
  have hmap : ((List.range col.length).filter fun i => ((cdObj col).getD i (Ext.fin 0)).isTop).map (order.idxOf ·) ⊆
      (List.range contrib.length).filter fun p => (contrib.getD p (Ext.fin 0)).isTop := by
    intro p hp
    simp only [List.mem_map, List.mem_filter, List.mem_range] at hp
    obtain ⟨i, ⟨hi, htop⟩, rfl⟩ := hp
    simp only [List.mem_filter, List.mem_range]
    have hio : i ∈ order := hperm.symm.subset (by simpa using hi)
    refine ⟨by
      rw [hclen]
      have := List.idxOf_lt_length_iff.mpr hio
      rw [hperm.length_eq] at this
      simpa using this, ?_⟩
    simp only [cdObj, List.getD_eq_getElem?_getD, List.getElem?_map, List.getElem?_range hi, Option.map_some,
      Option.getD_some] at htop
    simp only [hc, ho, List.getD_eq_getElem?_getD]
    exact htop
  have hnd2 : (((List.range col.length).filter fun i => ((cdObj col).getD i (Ext.fin 0)).isTop).map (order.idxOf ·)).Nodup := by
    refine List.Nodup.map_on ?_ hnd
    intro a ha b hb hab
    exact hinj a (List.mem_of_mem_filter ha) b (List.mem_of_mem_filter hb) hab
  have h3 := (List.subperm_of_subset hnd2 hmap).length_le
  rw [List.length_map] at h3
  have h4 : ((List.range contrib.length).filter fun p => (contrib.getD p (Ext.fin 0)).isTop).length ≤ 2 := by
    rw [← List.countP_eq_length_filter]; exact hpos
  exact le_trans h3 h4

/-- **at most 2·n_obj members of a front have infinite crowding distance** -/
theorem crowdingDistance_top_count (f : List (List α)) (nObj : Nat) (nObjS : α) :
    (crowdingDistance f nObj nObjS).countP Ext.isTop ≤ 2 * nObj := by
  unfold crowdingDistance
  rw [List.countP_map]
  have e : (Ext.isTop ∘ Ext.mapFin fun x => x / nObjS) = (Ext.isTop : Ext α → Bool) := by
    funext x; cases x <;> simp [Ext.mapFin, Ext.isTop]
  rw [e]
  refine le_trans (sumExt_top_count _ _) ?_
  rw [List.map_map]
  have : ∀ m ∈ List.range nObj,
      ((fun r => (List.range f.length).countP fun i => (r.getD i (Ext.fin 0)).isTop) ∘ fun m => cdObj (column f m)) m ≤ 2 := by
    intro m _
    simp only [Function.comp]
    have := cdObj_top_count (column f m)
    simpa [column] using this
  have hsum : ∀ (l : List Nat) (g : Nat → Nat), (∀ m ∈ l, g m ≤ 2) → (l.map g).sum ≤ 2 * l.length := by
    intro l g hg
    induction l with
    | nil => simp
    | cons a l ih =>
      simp only [List.map_cons, List.sum_cons, List.length_cons]
      have := hg a (by simp)
      have := ih (fun m hm => hg m (by simp [hm]))
      omega
  have := hsum (List.range nObj) _ this
  simpa using this

end C13
end Pymoode

namespace Pymoode
namespace C13
open C15

variable {α : Type} [Field α] [LinearOrder α] [IsStrictOrderedRing α] [Inhabited α]

/-- position `p` of the sorted column is the value of point `order[p]` -/
theorem sorted_getD (col : List α) (p : Nat) (hp : p < col.length) :
    ((argsortStable col).map fun i => col.getD i default).getD p default =
      col.getD ((argsortStable col).getD p 0) default := by
  have hl : p < (argsortStable col).length := by rw [(argsort_perm col).length_eq]; simpa using hp
  simp [List.getD_eq_getElem?_getD, List.getElem?_eq_getElem hl]

/-- **the crowding distance is infinite at a point holding the minimum and at a point holding the
maximum of every non-constant objective** -/
theorem cdObj_extreme_holders (col : List α) (j k : Nat) (hj : j < col.length) (hk : k < col.length)
    (hjk : col.getD j default < col.getD k default) :
    ∃ lo hi, lo < col.length ∧ hi < col.length ∧
      ((cdObj col).getD lo (Ext.fin 0)) = Ext.top ∧ ((cdObj col).getD hi (Ext.fin 0)) = Ext.top ∧
      (∀ t, t < col.length → col.getD lo default ≤ col.getD t default) ∧
      (∀ t, t < col.length → col.getD t default ≤ col.getD hi default) := by
  set order := argsortStable col with ho
  have hperm : order.Perm (List.range col.length) := argsort_perm col
  have hol : order.length = col.length := by rw [hperm.length_eq]; simp
  have hn : 0 < col.length := by omega
  set s := order.map fun i => col.getD i default with hs
  have hsl : s.length = col.length := by simp [hs, hol]
  have hsorted : s.Pairwise (· ≤ ·) := argsort_sorted col
  -- every point appears at some sorted position
  have hposOf : ∀ t, t < col.length → ∃ p, p < col.length ∧ s.getD p default = col.getD t default := by
    intro t ht
    have htm : t ∈ order := hperm.symm.subset (by simpa using ht)
    have hp := List.idxOf_lt_length_iff.mpr htm
    refine ⟨order.idxOf t, by omega, ?_⟩
    rw [hs, sorted_getD col _ (by omega)]
    have := List.getElem_idxOf hp
    have e2 : (argsortStable col).getD (List.idxOf t order) 0 = t := by
      rw [← ho]
      simp [List.getD_eq_getElem?_getD, List.getElem?_eq_getElem hp, this]
    rw [e2]
  have hlast : col.length - 1 < col.length := by omega
  have hfirst_le : ∀ t, t < col.length → s.getD 0 default ≤ col.getD t default := by
    intro t ht
    obtain ⟨p, hp, e⟩ := hposOf t ht
    rw [← e]
    exact getD_mono s hsorted 0 p (by omega) (by omega)
  have hlast_ge : ∀ t, t < col.length → col.getD t default ≤ s.getD (col.length - 1) default := by
    intro t ht
    obtain ⟨p, hp, e⟩ := hposOf t ht
    rw [← e]
    exact getD_mono s hsorted p (col.length - 1) (by omega) (by omega)
  have hlt : s.getD 0 default < s.getD (col.length - 1) default :=
    lt_of_le_of_lt (hfirst_le j hj) (lt_of_lt_of_le hjk (hlast_ge k hk))
  -- head and last of the sorted column
  have hhead : s.head? = some (s.getD 0 default) := by
    cases hsc : s with
    | nil => rw [hsc] at hsl; simp at hsl; omega
    | cons a t => simp
  have hgl : s.getLast? = some (s.getD (col.length - 1) default) := by
    rw [List.getLast?_eq_getElem?]
    have hsl1 : col.length - 1 < s.length := by omega
    simp [hsl, List.getD_eq_getElem?_getD, List.getElem?_eq_getElem hsl1]
  obtain ⟨t0, t1⟩ := cdSorted_ends_top s _ _ hhead hgl hlt
  rw [hsl] at t1
  have h0 : 0 < order.length := by omega
  have h1 : col.length - 1 < order.length := by omega
  refine ⟨order.getD 0 0, order.getD (col.length - 1) 0, ?_, ?_, ?_, ?_, ?_, ?_⟩
  · have : order[0] ∈ List.range col.length := hperm.subset (List.getElem_mem h0)
    simpa [List.getD_eq_getElem?_getD, List.getElem?_eq_getElem h0] using this
  · have : order[col.length - 1] ∈ List.range col.length := hperm.subset (List.getElem_mem h1)
    simpa [List.getD_eq_getElem?_getD, List.getElem?_eq_getElem h1] using this
  · have hm : order[0] ∈ List.range col.length := hperm.subset (List.getElem_mem h0)
    have hlt0 : order[0] < col.length := by simpa using hm
    have hidx : order.idxOf order[0] = 0 := by
      have hnd : order.Nodup := hperm.nodup_iff.mpr List.nodup_range
      exact List.Nodup.idxOf_getElem hnd 0 h0
    simp only [cdObj, List.getD_eq_getElem?_getD, List.getElem?_eq_getElem h0, Option.getD_some,
      List.getElem?_map, List.getElem?_range hlt0, Option.map_some]
    rw [← ho, hidx]
    simpa [List.getD_eq_getElem?_getD, hs] using t0
  · have hm : order[col.length - 1] ∈ List.range col.length := hperm.subset (List.getElem_mem h1)
    have hlt1 : order[col.length - 1] < col.length := by simpa using hm
    have hidx : order.idxOf order[col.length - 1] = col.length - 1 := by
      have hnd : order.Nodup := hperm.nodup_iff.mpr List.nodup_range
      exact List.Nodup.idxOf_getElem hnd _ h1
    simp only [cdObj, List.getD_eq_getElem?_getD, List.getElem?_eq_getElem h1, Option.getD_some,
      List.getElem?_map, List.getElem?_range hlt1, Option.map_some]
    rw [← ho, hidx]
    simpa [List.getD_eq_getElem?_getD, hs] using t1
  · intro t ht
    have := hfirst_le t ht
    rw [hs, sorted_getD col 0 hn] at this
    exact this
  · intro t ht
    have := hlast_ge t ht
    rw [hs, sorted_getD col _ hlast] at this
    exact this

end C13
end Pymoode
