/-
C15  Truncating a front keeps boundary points and prunes one at a time.

FULL STATEMENT: when RankAndCrowding truncates a front to k ≥ 2·n_obj members the kept part attains
the front's min and max of every objective (all five metrics); with pcd / mnn / 2nn the dropped
members are exactly those of one-at-a-time greedy pruning when that sequence has no ties; with
cd / ce the members of smallest crowding computed once.

PROVED: (1) the truncation keeps every infinite-crowding member whenever their number fits
(`take_keeps_top`), hence (2) the boundary clause for any metric whose infinite values mark a
min-holder and a max-holder of each objective and number at most k (`boundary_retained`), with the
count bound for the crowding distance (`cdSorted_top_count`); (3) cd/ce: the dropped are the
members of smallest value computed once (`dropped_smallest`). (4) in `C15b.lean`, for the mnn / 2nn
*definition* (= pure-Python engine): removing a point never decreases another point's crowding
(`nnProduct_mono`, via monotonicity of order statistics `sort_mono`), hence throughout the removal
loop every pruned point's value stays ≤ every live point's value (`mnnFallback_stale_le_live`), and
therefore the descending sort followed by the cut drops the pruned points first
(`truncation_drops_removed`) and then the live points of smallest current value
(`dropped_smallest`) — exactly one-at-a-time pruning when no compared values are equal.
NOT PROVED (`…_partial`): the same for pcd, and the refinement of the *compiled* incremental kernels
to the definitions; both are checked against an independent greedy reference on every tie-free
split front of the correspondence run, in both engines.
-/
import PymoodeProofs.C13
import Mathlib.Data.List.Count

set_option linter.unusedSectionVars false
set_option linter.unusedVariables false

namespace Pymoode
namespace C15
open C13

variable {α : Type} [Field α] [LinearOrder α] [IsStrictOrderedRing α] [Inhabited α]

/-- contract of the descending (randomised) argsort: no later member has a strictly larger value -/
def SortedDesc (v : Nat → Ext α) (s : List Nat) : Prop :=
  s.Pairwise fun a b => Ext.lt (v a) (v b) = false

theorem lt_top_of_fin (a : α) : Ext.lt (Ext.fin a) (Ext.top : Ext α) = true := rfl

/-- **the truncation `I[:-n_remove]` keeps every infinite-crowding member**, as long as there are
at most `k` of them (`k` = number kept) -/
theorem take_keeps_top (v : Nat → Ext α) (s : List Nat) (k : Nat) (hs : SortedDesc v s)
    (hcount : s.countP (fun x => (v x).isTop) ≤ k) :
    ∀ x ∈ s, (v x).isTop = true → x ∈ s.take k := by
  intro x hx htop
  by_contra hnot
  have hsplit : s = s.take k ++ s.drop k := (List.take_append_drop k s).symm
  have hxd : x ∈ s.drop k := by
    rw [hsplit, List.mem_append] at hx
    rcases hx with h | h
    · exact absurd h hnot
    · exact h
  have hk : k < s.length := by
    by_contra hc
    have : s.drop k = [] := List.drop_eq_nil_of_le (by omega)
    rw [this] at hxd
    simp at hxd
  have hpw : (s.take k ++ s.drop k).Pairwise fun a b => Ext.lt (v a) (v b) = false := by
    rw [← hsplit]; exact hs
  have hall : ∀ a ∈ s.take k, (v a).isTop = true := by
    intro a ha
    have := (List.pairwise_append.mp hpw).2.2 a ha x hxd
    cases hva : v a with
    | top => rfl
    | fin a' =>
      cases hvx : v x with
      | top => rw [hva, hvx] at this; simp [Ext.lt] at this
      | fin _ => rw [hvx] at htop; simp [Ext.isTop] at htop
  have h1 : (s.take k).countP (fun x => (v x).isTop) = k := by
    rw [List.countP_eq_length.mpr (by simpa using hall)]
    simp [List.length_take]; omega
  have h2 : 1 ≤ (s.drop k).countP (fun x => (v x).isTop) :=
    List.countP_pos_iff.mpr ⟨x, hxd, by simpa using htop⟩
  have : s.countP (fun x => (v x).isTop) = (s.take k).countP (fun x => (v x).isTop) +
      (s.drop k).countP (fun x => (v x).isTop) := by
    conv_lhs => rw [hsplit]
    exact List.countP_append
  omega

/-- **boundary clause**: if the crowding metric gives an infinite value to some holder of the
minimum (maximum) of objective `m` over the front, and the infinite values fit into the kept part,
the kept part still attains that minimum (maximum) -/
theorem boundary_retained (v : Nat → Ext α) (obj : Nat → α) (s : List Nat) (k : Nat)
    (hs : SortedDesc v s) (hcount : s.countP (fun x => (v x).isTop) ≤ k)
    (x : Nat) (hx : x ∈ s) (htop : (v x).isTop = true) (hmin : ∀ y ∈ s, obj x ≤ obj y) :
    ∃ z ∈ s.take k, ∀ y ∈ s, obj z ≤ obj y :=
  ⟨x, take_keeps_top v s k hs hcount x hx htop, hmin⟩

theorem countP_ends_le_two (L n : Nat) :
    (List.range n).countP (fun p => decide (p = 0 ∨ p + 1 = L)) ≤ 2 := by
  rw [List.countP_eq_length_filter]
  have hnd : ((List.range n).filter fun p => decide (p = 0 ∨ p + 1 = L)).Nodup :=
    List.nodup_range.filter _
  have hsub : ((List.range n).filter fun p => decide (p = 0 ∨ p + 1 = L)) ⊆ [0, L - 1] := by
    intro x hx
    simp only [List.mem_filter, List.mem_range, decide_eq_true_eq] at hx
    rcases hx.2 with h | h
    · simp [h]
    · have : x = L - 1 := by omega
      simp [this]
  have := (List.subperm_of_subset hnd hsub).length_le
  simpa using this

/-- the crowding distance gives at most two infinite contributions per objective, so at most
`2·n_obj` members of a front are infinite -/
theorem cdSorted_top_count (s : List α) : (cdSorted s).countP Ext.isTop ≤ 2 := by
  unfold cdSorted
  cases hh : s.head? with
  | none => simp
  | some lo =>
    cases hl : s.getLast? with
    | none => simp
    | some hi =>
      simp only
      split
      · rw [List.countP_map]
        rw [List.countP_congr (q := fun p => decide (p = 0 ∨ p + 1 = s.length))]
        · exact countP_ends_le_two s.length s.length
        · intro p _
          by_cases h : p = 0 ∨ p + 1 = s.length
          · simp [h, Ext.isTop]
          · simp [h, Ext.isTop]
      · rw [List.countP_map]
        simp [Function.comp_def, Ext.isTop]

/-- cd / ce (one-shot metrics): what the truncation drops are members whose value is no larger than
that of any kept member — "the members of smallest crowding value computed once" -/
theorem dropped_smallest (v : Nat → Ext α) (s : List Nat) (k : Nat) (hs : SortedDesc v s) :
    ∀ a ∈ s.take k, ∀ b ∈ s.drop k, Ext.lt (v a) (v b) = false := by
  intro a ha b hb
  have hpw : (s.take k ++ s.drop k).Pairwise fun a b => Ext.lt (v a) (v b) = false := by
    rw [List.take_append_drop]; exact hs
  exact (List.pairwise_append.mp hpw).2.2 a ha b hb

end C15
end Pymoode
