/-
C13 / C14 / C15, continued: the compiled pcd kernel (`pymoode/cython/pruning_cd.pyx`, functional
transcription `pcdKernelF` of `PymoodeModel/Metrics/KernelF.lean`) **refines the published
definition** (`pcdFallback`, line by line the pure-Python engine) for *any number of removals*, and
every index it computes stays inside its arrays — under exactly the hypotheses whose negations are
the known findings F2 (an objective's maximum attained twice) and F3 (more removals than
non-extreme points).

Part 1 (this file): list machinery — stable sorting as the unique lexicographically sorted
permutation, sorting commutes with filtering, neighbours in a duplicate-free list and what erasing a
non-neighbour does to them, the padded column `padLast` and the kernel's shift / scan on it.
-/
import PymoodeProofs.C13c
import PymoodeModel.Metrics.KernelF
import Mathlib.Data.List.Sort
import Mathlib.Data.List.Nodup
import Mathlib.Data.List.Perm.Basic

set_option linter.unusedSectionVars false
set_option linter.unusedVariables false

namespace Pymoode
namespace C13

/-! ### stable merge sort of an ascending list of indices = the unique lex-sorted permutation -/

section Lex
variable (le : Nat → Nat → Bool)

/-- `a` goes before `b`: smaller key, or equal key and smaller index -/
def LexLt (a b : Nat) : Prop := le a b = true ∧ (le b a = true → a < b)

theorem pair_sublist_antisymm {β : Type} : ∀ (l : List β) (a b : β), l.Nodup → [a, b].Sublist l → [b, a].Sublist l → False
  | [], a, b, _, h, _ => by cases h
  | c :: t, a, b, hnd, h1, h2 => by
    have hc : c ∉ t := (List.nodup_cons.mp hnd).1
    have ht : t.Nodup := (List.nodup_cons.mp hnd).2
    cases h1 with
    | cons _ h1 =>
      cases h2 with
      | cons _ h2 => exact pair_sublist_antisymm t a b ht h1 h2
      | cons_cons _ h2 => exact hc (h1.subset (by simp))
    | cons_cons _ h1 =>
      cases h2 with
      | cons _ h2 => exact hc (h2.subset (by simp))
      | cons_cons _ h2 => exact hc (h1.subset (by simp))

theorem pair_sublist_of_pairwise_lt : ∀ (l : List Nat) (a b : Nat), l.Pairwise (· < ·) → a ∈ l → b ∈ l → a < b →
    [a, b].Sublist l
  | [], a, b, _, ha, _, _ => by cases ha
  | c :: t, a, b, hp, ha, hb, hab => by
    have hct : ∀ x ∈ t, c < x := (List.pairwise_cons.mp hp).1
    have ht := (List.pairwise_cons.mp hp).2
    simp only [List.mem_cons] at ha hb
    rcases ha with rfl | ha
    · rcases hb with rfl | hb
      · omega
      · exact List.Sublist.cons_cons _ (List.singleton_sublist.mpr hb)
    · rcases hb with rfl | hb
      · have := hct a ha; omega
      · exact List.Sublist.cons _ (pair_sublist_of_pairwise_lt t a b ht ha hb hab)

variable (trans : ∀ a b c : Nat, le a b = true → le b c = true → le a c = true)
  (total : ∀ a b : Nat, (le a b || le b a) = true)

include trans total in
/-- the stable sort of an ascending list is sorted for the lexicographic (key, index) order -/
theorem mergeSort_lex (l : List Nat) (hl : l.Pairwise (· < ·)) : (l.mergeSort le).Pairwise (LexLt le) := by
  rw [List.pairwise_iff_forall_sublist]
  intro a b hab
  have hnd : (l.mergeSort le).Nodup := (List.mergeSort_perm l le).nodup_iff.mpr (hl.imp (fun h => Nat.ne_of_lt h))
  have hsorted := List.pairwise_mergeSort trans total l
  have hle : le a b = true := (List.pairwise_iff_forall_sublist.mp hsorted) hab
  refine ⟨hle, fun hba => ?_⟩
  by_contra hnlt
  have ha : a ∈ l := (List.mergeSort_perm l le).subset (hab.subset (by simp))
  have hb : b ∈ l := (List.mergeSort_perm l le).subset (hab.subset (by simp))
  have hne : a ≠ b := by
    intro h; subst h
    have : [a, a].Nodup := hnd.sublist hab
    simp at this
  have hlt : b < a := by omega
  have h2 : [b, a].Sublist (l.mergeSort le) :=
    List.pair_sublist_mergeSort trans total hba (pair_sublist_of_pairwise_lt l b a hl hb ha hlt)
  exact pair_sublist_antisymm _ a b hnd hab h2

theorem lex_unique (l₁ l₂ : List Nat) (h1 : l₁.Pairwise (LexLt le)) (h2 : l₂.Pairwise (LexLt le))
    (hp : l₁.Perm l₂) : l₁ = l₂ := by
  refine List.Perm.eq_of_pairwise ?_ h1 h2 hp
  intro a b _ _ hab hba
  have := hab.2 hba.1
  have := hba.2 hab.1
  omega

include trans total in
/-- sorting commutes with filtering (stability) -/
theorem mergeSort_filter (l : List Nat) (hl : l.Pairwise (· < ·)) (p : Nat → Bool) :
    (l.mergeSort le).filter p = (l.filter p).mergeSort le := by
  apply lex_unique le
  · exact (mergeSort_lex le trans total l hl).filter p
  · exact mergeSort_lex le trans total _ (hl.filter p)
  · exact ((List.mergeSort_perm l le).filter p).trans (List.mergeSort_perm _ le).symm

theorem mergeSort_congr (le' : Nat → Nat → Bool) (l : List Nat)
    (h : ∀ a ∈ l, ∀ b ∈ l, le a b = le' a b) : l.mergeSort le = l.mergeSort le' := by
  have := List.map_mergeSort (r := le) (s := le') (f := id) (l := l) (by simpa using h)
  simpa using this

/-- an element that goes before every other one is the head -/
theorem lex_head (l : List Nat) (hl : l.Pairwise (LexLt le)) (a : Nat) (ha : a ∈ l)
    (hmin : ∀ b ∈ l, b ≠ a → LexLt le a b) : l.head? = some a := by
  cases l with
  | nil => cases ha
  | cons c t =>
    simp only [List.head?_cons, Option.some.injEq]
    by_contra hca
    have hat : a ∈ t := by
      simp only [List.mem_cons] at ha
      rcases ha with rfl | ha
      · exact absurd rfl hca
      · exact ha
    have h1 : LexLt le c a := (List.pairwise_cons.mp hl).1 a hat
    have h2 : LexLt le a c := hmin c (by simp) hca
    have := h1.2 h2.1
    have := h2.2 h1.1
    omega

/-- an element that goes after every other one is the last -/
theorem lex_last (l : List Nat) (hl : l.Pairwise (LexLt le)) (a : Nat) (ha : a ∈ l)
    (hmax : ∀ b ∈ l, b ≠ a → LexLt le b a) : l.getLast? = some a := by
  induction l with
  | nil => cases ha
  | cons c t ih =>
    cases t with
    | nil =>
      simp only [List.mem_singleton] at ha
      simp [ha]
    | cons c2 t2 =>
      rw [List.getLast?_cons_cons]
      have hat : a ∈ c2 :: t2 := by
        simp only [List.mem_cons] at ha
        rcases ha with rfl | ha
        · exfalso
          have h1 : LexLt le a c2 := (List.pairwise_cons.mp hl).1 c2 (by simp)
          have hne : c2 ≠ a := by
            intro h
            have := h1.2 (h ▸ h1.1)
            omega
          have h2 := hmax c2 (by simp) hne
          have := h1.2 h2.1
          have := h2.2 h1.1
          omega
        · simpa using ha
      exact ih (List.pairwise_cons.mp hl).2 hat (fun b hb hne => hmax b (List.mem_cons_of_mem _ hb) hne)

end Lex


/-! ### neighbours in a duplicate-free list; the padded column and the kernel's shift and scan -/

def prevOf (s : List Nat) (i : Nat) : Nat := s.getD (s.idxOf i - 1) 0
def nextOf (s : List Nat) (i : Nat) : Nat := s.getD (s.idxOf i + 1) 0

/-- `i` sits strictly inside `s` -/
def Interior (s : List Nat) (i : Nat) : Prop := 0 < s.idxOf i ∧ s.idxOf i + 1 < s.length

theorem idxOf_getElem_nodup (s : List Nat) (hs : s.Nodup) (j : Nat) (hj : j < s.length) : s.idxOf s[j] = j :=
  List.Nodup.idxOf_getElem hs j hj

theorem interior_of_ne_ends (s : List Nat) (hs : s.Nodup) (i : Nat) (hi : i ∈ s)
    (hh : s.head? ≠ some i) (hl : s.getLast? ≠ some i) : Interior s i := by
  have hp := List.idxOf_lt_length_iff.mpr hi
  have hval := List.getElem_idxOf hp
  constructor
  · by_contra h0
    have hz : s.idxOf i = 0 := by omega
    apply hh
    cases s with
    | nil => cases hi
    | cons c t =>
      simp only [List.head?_cons, Option.some.injEq]
      simp only [hz, List.getElem_cons_zero] at hval
      exact hval
  · by_contra h1
    have hz : s.idxOf i = s.length - 1 := by omega
    apply hl
    rw [List.getLast?_eq_getElem?]
    rw [List.getElem?_eq_getElem (by omega)]
    simp only [Option.some.injEq]
    simp only [hz] at hval
    exact hval

theorem filter_ne_eq_eraseIdx (s : List Nat) (hs : s.Nodup) (k : Nat) (hk : k ∈ s) :
    s.filter (· != k) = s.eraseIdx (s.idxOf k) := by
  rw [← List.erase_eq_eraseIdx_of_idxOf rfl, List.Nodup.erase_eq_filter hs]

theorem getD_of_lt (s : List Nat) (j : Nat) (hj : j < s.length) : s.getD j 0 = s[j] := by
  rw [List.getD_eq_getElem?_getD, List.getElem?_eq_getElem hj]; rfl

/-- erasing a point that is not adjacent to `i` leaves the neighbours of `i` unchanged -/
theorem neighbours_erase (s : List Nat) (hs : s.Nodup) (k i : Nat) (hk : k ∈ s) (hi : i ∈ s) (hik : i ≠ k)
    (hint : Interior s i) (hp : prevOf s i ≠ k) (hn : nextOf s i ≠ k) :
    prevOf (s.filter (· != k)) i = prevOf s i ∧ nextOf (s.filter (· != k)) i = nextOf s i ∧
      Interior (s.filter (· != k)) i := by
  rw [filter_ne_eq_eraseIdx s hs k hk]
  have hpk := List.idxOf_lt_length_iff.mpr hk
  have hpi := List.idxOf_lt_length_iff.mpr hi
  have hvk : s[s.idxOf k] = k := List.getElem_idxOf hpk
  have hvi : s[s.idxOf i] = i := List.getElem_idxOf hpi
  obtain ⟨hq0, hq1⟩ := hint
  unfold prevOf at hp
  unfold nextOf at hn
  unfold prevOf nextOf Interior
  generalize s.idxOf k = p at *
  generalize hqdef : s.idxOf i = q at *
  have hpq : p ≠ q := by
    intro h; apply hik; rw [← hvi, ← hvk]; simp [h]
  have hpm : p ≠ q - 1 := by
    intro h; apply hp
    rw [← h, getD_of_lt s p hpk]; exact hvk
  have hpn : p ≠ q + 1 := by
    intro h; apply hn
    rw [← h, getD_of_lt s p hpk]; exact hvk
  have hlen : (s.eraseIdx p).length = s.length - 1 := List.length_eraseIdx_of_lt hpk
  have hnd' : (s.eraseIdx p).Nodup := hs.sublist (List.eraseIdx_sublist s p)
  rcases Nat.lt_or_ge q p with hlt | hge
  · -- i before k: same position
    have hq' : q < (s.eraseIdx p).length := by omega
    have e : (s.eraseIdx p)[q]'hq' = i := by
      rw [List.getElem_eraseIdx]; simp [hlt, hvi]
    have hidx : (s.eraseIdx p).idxOf i = q := by
      rw [← e]; exact idxOf_getElem_nodup _ hnd' q hq'
    rw [hidx]
    refine ⟨?_, ?_, by omega⟩
    · have h1 : q - 1 < (s.eraseIdx p).length := by omega
      have h2 : q - 1 < s.length := by omega
      rw [getD_of_lt _ _ h1, getD_of_lt _ _ h2, List.getElem_eraseIdx]
      have : q - 1 < p := by omega
      simp [this]
    · have h1 : q + 1 < (s.eraseIdx p).length := by omega
      have h2 : q + 1 < s.length := by omega
      rw [getD_of_lt _ _ h1, getD_of_lt _ _ h2, List.getElem_eraseIdx]
      have : q + 1 < p := by omega
      simp [this]
  · -- i after k: position shifts down by one
    have hq' : q - 1 < (s.eraseIdx p).length := by omega
    have e : (s.eraseIdx p)[q - 1]'hq' = i := by
      rw [List.getElem_eraseIdx]
      have : ¬ q - 1 < p := by omega
      simp only [this, ↓reduceDIte]
      have : q - 1 + 1 = q := by omega
      simp [this, hvi]
    have hidx : (s.eraseIdx p).idxOf i = q - 1 := by
      rw [← e]; exact idxOf_getElem_nodup _ hnd' (q - 1) hq'
    rw [hidx]
    refine ⟨?_, ?_, by omega⟩
    · have h1 : q - 1 - 1 < (s.eraseIdx p).length := by omega
      have h2 : q - 1 < s.length := by omega
      rw [getD_of_lt _ _ h1, getD_of_lt _ _ h2, List.getElem_eraseIdx]
      have : ¬ q - 1 - 1 < p := by omega
      simp only [this, ↓reduceDIte]
      have : q - 1 - 1 + 1 = q - 1 := by omega
      simp [this]
    · have h1 : q - 1 + 1 < (s.eraseIdx p).length := by omega
      have h2 : q + 1 < s.length := by omega
      rw [getD_of_lt _ _ h1, getD_of_lt _ _ h2, List.getElem_eraseIdx]
      have : ¬ q - 1 + 1 < p := by omega
      simp only [this, ↓reduceDIte]
      have : q - 1 + 1 + 1 = q + 1 := by omega
      simp [this]

/-- adjacency is symmetric: if `k` is the predecessor (successor) of `i` then `i` is the successor
(predecessor) of `k` -/
theorem next_of_prev (s : List Nat) (hs : s.Nodup) (i : Nat) (hi : i ∈ s) (h0 : 0 < s.idxOf i) :
    nextOf s (prevOf s i) = i := by
  have hpi := List.idxOf_lt_length_iff.mpr hi
  have h1 : s.idxOf i - 1 < s.length := by omega
  unfold nextOf prevOf
  rw [getD_of_lt s _ h1, idxOf_getElem_nodup s hs _ h1]
  have : s.idxOf i - 1 + 1 = s.idxOf i := by omega
  rw [this, getD_of_lt s _ hpi]
  exact List.getElem_idxOf hpi

theorem prev_of_next (s : List Nat) (hs : s.Nodup) (i : Nat) (hi : i ∈ s) (h1 : s.idxOf i + 1 < s.length) :
    prevOf s (nextOf s i) = i := by
  have hpi := List.idxOf_lt_length_iff.mpr hi
  unfold nextOf prevOf
  rw [getD_of_lt s _ h1, idxOf_getElem_nodup s hs _ h1]
  have : s.idxOf i + 1 - 1 = s.idxOf i := by omega
  rw [this, getD_of_lt s _ hpi]
  exact List.getElem_idxOf hpi


/-- a live sorted column followed by copies of its last entry: the shape of a column of the index
table `I` after some removals (`I[n:-1, m] = I[n+1:, m]` never touches the last row) -/
def padLast (s : List Nat) (n : Nat) : List Nat := s ++ List.replicate (n - s.length) (s.getLastD 0)

theorem padLast_length (s : List Nat) (n : Nat) (h : s.length ≤ n) : (padLast s n).length = n := by
  simp [padLast]; omega

theorem padLast_getD_lt (s : List Nat) (n j : Nat) (hj : j < s.length) : (padLast s n).getD j 0 = s.getD j 0 := by
  unfold padLast
  rw [List.getD_eq_getElem?_getD, List.getD_eq_getElem?_getD, List.getElem?_append_left hj]

theorem padLast_getD_ge (s : List Nat) (n j : Nat) (hj : s.length ≤ j) (hn : j < n) :
    (padLast s n).getD j 0 = s.getLastD 0 := by
  unfold padLast
  rw [List.getD_eq_getElem?_getD, List.getElem?_append_right hj, List.getElem?_replicate]
  have : j - s.length < n - s.length := by omega
  simp [this]

theorem getLastD_eq (s : List Nat) (h : 0 < s.length) : s.getLastD 0 = s.getD (s.length - 1) 0 := by
  rw [List.getLastD_eq_getLast?, List.getLast?_eq_getElem?, List.getD_eq_getElem?_getD]

theorem getLastD_eraseIdx (s : List Nat) (p : Nat) (hp : p + 1 < s.length) :
    (s.eraseIdx p).getLastD 0 = s.getLastD 0 := by
  have hlen : (s.eraseIdx p).length = s.length - 1 := List.length_eraseIdx_of_lt (by omega)
  rw [getLastD_eq _ (by omega), getLastD_eq _ (by omega), hlen]
  have h1 : s.length - 1 - 1 < (s.eraseIdx p).length := by omega
  rw [getD_of_lt _ _ h1, getD_of_lt _ _ (by omega : s.length - 1 < s.length), List.getElem_eraseIdx]
  have : ¬ s.length - 1 - 1 < p := by omega
  simp only [this, ↓reduceDIte]
  have : s.length - 1 - 1 + 1 = s.length - 1 := by omega
  simp [this]

/-- the kernel's in-place shift on a padded column erases one live entry and keeps the shape -/
theorem shiftAt_padLast (s : List Nat) (n p : Nat) (hp : p + 1 < s.length) (hn : s.length ≤ n) :
    shiftAt (padLast s n) p = padLast (s.eraseIdx p) n := by
  have hlen : (s.eraseIdx p).length = s.length - 1 := List.length_eraseIdx_of_lt (by omega)
  unfold shiftAt
  rw [padLast_length s n hn]
  unfold padLast
  rw [getLastD_eraseIdx s p hp, hlen]
  have e1 : List.take p (s ++ List.replicate (n - s.length) (s.getLastD 0)) = s.take p := by
    rw [List.take_append_of_le_length (by omega)]
  have e2 : List.drop (p + 1) (s ++ List.replicate (n - s.length) (s.getLastD 0))
      = s.drop (p + 1) ++ List.replicate (n - s.length) (s.getLastD 0) := by
    rw [List.drop_append_of_le_length (by omega)]
  have e3 : List.drop (n - 1) (s ++ List.replicate (n - s.length) (s.getLastD 0)) = [s.getLastD 0] := by
    rcases Nat.lt_or_ge s.length n with h | h
    · rw [List.drop_append]
      have : List.drop (n - 1) s = [] := List.drop_eq_nil_of_le (by omega)
      rw [this, List.drop_replicate]
      have : n - s.length - (n - 1 - s.length) = 1 := by omega
      rw [this]; rfl
    · have hnn : n = s.length := by omega
      subst hnn
      simp only [Nat.sub_self, List.replicate_zero, List.append_nil]
      rw [getLastD_eq s (by omega)]
      rw [List.drop_eq_getElem_cons (by omega : s.length - 1 < s.length)]
      have : s.length - 1 + 1 = s.length := by omega
      rw [this, List.drop_length, getD_of_lt _ _ (by omega)]
  rw [e1, e2, e3, List.eraseIdx_eq_take_drop_succ]
  have : n - (s.length - 1) = (n - s.length) + 1 := by omega
  rw [this, List.replicate_succ']
  simp [List.append_assoc]

theorem shiftAt_length (col : List Nat) (p : Nat) (hp : p < col.length) : (shiftAt col p).length = col.length := by
  unfold shiftAt
  simp only [List.length_append, List.length_take, List.length_drop]
  omega

theorem scan_none (k : Nat) : ∀ (fuel start : Nat) (col : List Nat) (acc : List Nat × Bool),
    (∀ q, start ≤ q → q < start + fuel → col.getD q 0 ≠ k) → pcdScanCol k fuel start col acc = (col, acc)
  | 0, _, _, _, _ => rfl
  | fuel + 1, start, col, acc, h => by
    unfold pcdScanCol
    have h0 : col.getD start 0 ≠ k := h start (Nat.le_refl _) (by omega)
    rw [if_neg h0]
    exact scan_none k fuel (start + 1) col acc (fun q h1 h2 => h q (by omega) (by omega))

/-- the scan of `c_get_calc_items` over one column that holds `k` at exactly one position `p` -/
theorem scan_find (k p : Nat) (col : List Nat) (acc : List Nat × Bool) (hp : p < col.length)
    (hpk : col.getD p 0 = k) (hbefore : ∀ q, q < p → col.getD q 0 ≠ k)
    (hafter : ∀ q, p < q → q < col.length → (shiftAt col p).getD q 0 ≠ k) :
    ∀ (d start fuel : Nat), start + d = p → start + fuel = col.length →
      pcdScanCol k fuel start col acc = (shiftAt col p,
        (insertSorted (col.getD (p - 1) 0) (insertSorted (col.getD (p + 1) 0) acc.1),
          acc.2 && decide (0 < p ∧ p + 1 < col.length)))
  | 0, start, fuel, hd, hf => by
    have hs : start = p := by omega
    subst hs
    cases fuel with
    | zero => omega
    | succ f =>
      unfold pcdScanCol
      rw [if_pos hpk]
      apply scan_none
      intro q h1 h2
      exact hafter q (by omega) (by omega)
  | d + 1, start, fuel, hd, hf => by
    cases fuel with
    | zero => omega
    | succ f =>
      unfold pcdScanCol
      rw [if_neg (hbefore start (by omega))]
      exact scan_find k p col acc hp hpk hbefore hafter d (start + 1) f (by omega) (by omega)

theorem foldl_range_none {β : Type} (c : Nat → Prop) [DecidablePred c] (upd : β → Nat → β) (init : β) :
    ∀ (N : Nat), (∀ q, q < N → ¬ c q) →
      (List.range N).foldl (fun acc n => if c n then upd acc n else acc) init = init
  | 0, _ => rfl
  | N + 1, h => by
    rw [List.range_succ, List.foldl_append, foldl_range_none c upd init N (fun q hq => h q (by omega))]
    simp [h N (by omega)]

theorem foldl_range_unique {β : Type} (c : Nat → Prop) [DecidablePred c] (upd : β → Nat → β) (init : β) (p : Nat)
    (hc : c p) : ∀ (N : Nat), p < N → (∀ q, q < N → q ≠ p → ¬ c q) →
      (List.range N).foldl (fun acc n => if c n then upd acc n else acc) init = upd init p
  | 0, hp, _ => by omega
  | N + 1, hp, h => by
    rw [List.range_succ, List.foldl_append]
    rcases Nat.lt_or_ge p N with hlt | hge
    · rw [foldl_range_unique c upd init p hc N hlt (fun q hq hne => h q (by omega) hne)]
      simp [h N (by omega) (by omega)]
    · have : p = N := by omega
      subst this
      rw [foldl_range_none c upd init p (fun q hq => h q (by omega) (by omega))]
      simp [hc]

end C13
end Pymoode
