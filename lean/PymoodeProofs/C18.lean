/-
C18  A run can be checkpointed after any generation and resumed.   — PARTIAL —

PROVED (over the model): if restoring a snapshot gives back the abstract state, resuming with the
remaining draws equals the uninterrupted run, for every interruption point; recording a history
does not influence the run. NOT MODELLED (named): the pickle / dill / deepcopy protocols and object
graphs, NumPy's generator state. The hypothesis `restore (snapshot s) = s` is checked on the real
objects for every generation index of every monitored run (copy compared with the original, and
all later populations of the resumed run compared with the uninterrupted one).
-/
import PymoodeProofs.C17

set_option linter.unusedSectionVars false
set_option linter.unusedVariables false

namespace Pymoode
namespace C18

variable {σ δ κ : Type}

/-- **resume = uninterrupted**, for every split point of the draw stream -/
theorem resume_eq (step : σ → δ → σ) (snapshot : σ → κ) (restore : κ → σ)
    (hrt : ∀ s, restore (snapshot s) = s) (s : σ) (d₁ d₂ : List δ) :
    runSteps step (restore (snapshot (runSteps step s d₁))) d₂ = runSteps step s (d₁ ++ d₂) := by
  rw [hrt, C17.run_split]

/-- every generation index is a valid interruption point -/
theorem resume_any_point (step : σ → δ → σ) (snapshot : σ → κ) (restore : κ → σ)
    (hrt : ∀ s, restore (snapshot s) = s) (s : σ) (ds : List δ) (k : Nat) :
    runSteps step (restore (snapshot (runSteps step s (ds.take k)))) (ds.drop k) = runSteps step s ds := by
  rw [resume_eq step snapshot restore hrt, List.take_append_drop]

/-- checkpointing repeatedly (e.g. a history of deep copies) still resumes correctly -/
theorem resume_twice (step : σ → δ → σ) (snapshot : σ → κ) (restore : κ → σ)
    (hrt : ∀ s, restore (snapshot s) = s) (s : σ) (d₁ d₂ d₃ : List δ) :
    runSteps step (restore (snapshot (runSteps step (restore (snapshot (runSteps step s d₁))) d₂))) d₃ =
      runSteps step s (d₁ ++ d₂ ++ d₃) := by
  rw [hrt, hrt, C17.run_split, C17.run_split]

/-- **recording the history is neutral**: the state reached is that of the plain run, and the
history is exactly the sequence of intermediate states -/
theorem history_neutral (step : σ → δ → σ) (s : σ) (ds : List δ) :
    (runWithHistory step s ds).1 = runSteps step s ds := by
  unfold runWithHistory runSteps
  have : ∀ (ds : List δ) (acc : σ × List σ),
      (ds.foldl (fun (acc : σ × List σ) d => let s' := step acc.1 d; (s', acc.2 ++ [s'])) acc).1 =
        ds.foldl step acc.1 := by
    intro ds
    induction ds with
    | nil => intro acc; rfl
    | cons d ds ih => intro acc; simp only [List.foldl_cons]; rw [ih]
  exact this ds (s, [])

theorem history_length (step : σ → δ → σ) (s : σ) (ds : List δ) :
    (runWithHistory step s ds).2.length = ds.length := by
  unfold runWithHistory
  have : ∀ (ds : List δ) (acc : σ × List σ),
      (ds.foldl (fun (acc : σ × List σ) d => let s' := step acc.1 d; (s', acc.2 ++ [s'])) acc).2.length =
        acc.2.length + ds.length := by
    intro ds
    induction ds with
    | nil => intro acc; simp
    | cons d ds ih => intro acc; simp only [List.foldl_cons]; rw [ih]; simp; omega
  simpa using this ds (s, [])

example : runSteps (fun (s : Nat) (d : Nat) => s + d) 0 [1, 2, 3] = 6 := by decide

end C18
end Pymoode
