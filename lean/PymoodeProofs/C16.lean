/-
C16  ConstrRankAndCrowding orders infeasible solutions in violation space.
-/
import PymoodeProofs.C04

set_option linter.unusedSectionVars false
set_option linter.unusedVariables false

namespace Pymoode
namespace C16
open C03 C04

/-- the infeasible fill is the same front-consumption loop, over the fronts of the violation
matrix, with the front that does not fit cut to the places left -/
theorem fillLoop_eq_frontLoop (room : Nat) : ∀ (fs : List (List Nat × List Nat)) (acc : List Nat),
    acc.length ≤ room → SortedOk fs → fillLoop room fs acc = frontLoop room fs acc
  | [], acc, _, _ => by simp [fillLoop, frontLoop]
  | (f, s) :: fs, acc, h, hs => by
      have hsf : s.length = f.length := (hs (f, s) (by simp)).length_eq
      simp only [fillLoop, frontLoop]
      split
      · rename_i hgt
        have e : f.length - (acc.length + f.length - room) = room - acc.length := by omega
        rw [e]
        exact fillLoop_eq_frontLoop room fs _ (by simp [List.length_take, hsf]; omega) hs.tail
      · exact fillLoop_eq_frontLoop room fs _ (by simp; omega) hs.tail

/-- on a problem without constraints the operator *is* RankAndCrowding -/
theorem unconstrained_eq_rnc (n nSurvive : Nat) (feas infeas : List Nat)
    (fs cfs : List (List Nat × List Nat)) :
    constrSurvival n nSurvive false feas infeas fs cfs = survivalDo n nSurvive false [] [] fs := rfl

/-- the feasible survivors are selected exactly as RankAndCrowding selects them: both results
start with the same list, computed by the same front loop on `pop[feas]` with the same oracles -/
theorem feasible_part_eq_rnc (n nSurvive : Nat) (feas infeas : List Nat)
    (fs cfs : List (List Nat × List Nat)) :
    ∃ inner t1 t2,
      constrSurvival n nSurvive true feas infeas fs cfs = inner ++ t1 ∧
      survivalDo n nSurvive true feas infeas fs = inner ++ t2 ∧
      (∀ x ∈ t1, x ∈ infeas ∨ x = 0) ∧ (∀ x ∈ t2, x ∈ infeas) := by
  refine ⟨if feas.isEmpty then [] else
      (frontLoop (min feas.length (min nSurvive n)) fs []).map (fun j => feas.getD j 0), ?_⟩
  generalize hin : (if feas.isEmpty then [] else
      (frontLoop (min feas.length (min nSurvive n)) fs []).map (fun j => feas.getD j 0)) = inner
  have hc : constrSurvival n nSurvive true feas infeas fs cfs =
      if min nSurvive n - inner.length > 0 then
        inner ++ (fillLoop (min nSurvive n - inner.length) cfs []).map (fun j => infeas.getD j 0)
      else inner := by
    simp only [constrSurvival, constrDo, ↓reduceIte, hin]
  have hsv : survivalDo n nSurvive true feas infeas fs =
      inner ++ infeas.take (min nSurvive n - inner.length) := by
    simp only [survivalDo, ↓reduceIte, hin]
  rw [hc, hsv]
  by_cases hroom : min nSurvive n - inner.length > 0
  · rw [if_pos hroom]
    refine ⟨_, _, rfl, rfl, ?_, fun x hx => List.mem_of_mem_take hx⟩
    intro x hx
    simp only [List.mem_map] at hx
    obtain ⟨j, _, rfl⟩ := hx
    by_cases hj : j < infeas.length
    · left; simp [List.getD_eq_getElem?_getD, List.getElem?_eq_getElem hj]
    · right; simp [List.getD_eq_getElem?_getD, List.getElem?_eq_none (by omega : infeas.length ≤ j)]
  · rw [if_neg hroom]
    exact ⟨[], _, by simp, rfl, by simp, fun x hx => List.mem_of_mem_take hx⟩

/-- feasible individuals come before any infeasible one: an infeasible survivor implies that
no place was left after *all* feasible ones -/
theorem feasible_before_infeasible (n nSurvive : Nat) (feas infeas : List Nat)
    (fs cfs : List (List Nat × List Nat)) (hs : SortedOk fs) (hn : (pool fs).Nodup)
    (hv : ∀ x ∈ pool fs, x < feas.length)
    (hcover : feas ≠ [] → min feas.length (min nSurvive n) ≤ (pool fs).length) :
    let inner := if feas.isEmpty then [] else
      (frontLoop (min feas.length (min nSurvive n)) fs []).map (fun j => feas.getD j 0)
    inner.length = min feas.length (min nSurvive n) ∧
    (inner.length < min nSurvive n → inner.length = feas.length) := by
  intro inner
  have hil : inner.length = min feas.length (min nSurvive n) := by
    by_cases hfe : feas = []
    · subst hfe; simp [inner]
    · have hne : feas.isEmpty = false := by simpa using hfe
      simp only [inner, hne, Bool.false_eq_true, ↓reduceIte, List.length_map]
      rw [frontLoop_length _ fs [] hs (by simp)]
      have := hcover hfe
      simp only [List.length_nil, Nat.zero_add]; omega
  exact ⟨hil, fun h => by omega⟩

/-- remaining places are filled front by front of the violation space: an infeasible individual
kept from violation front `kx` and a ranked one dropped from front `ky` satisfy `kx ≤ ky` -/
theorem fill_rank_respect (room : Nat) (cfs : List (List Nat × List Nat)) (hs : SortedOk cfs)
    (hn : (pool cfs).Nodup) (x : Nat) (hx : x ∈ fillLoop room cfs [])
    (kx : Nat) (hkx : kx < cfs.length) (hxk : x ∈ cfs[kx].1)
    (y ky : Nat) (hky : ky < cfs.length) (hyk : y ∈ cfs[ky].1) (hy : y ∉ fillLoop room cfs []) :
    kx ≤ ky := by
  rw [fillLoop_eq_frontLoop room cfs [] (by simp) hs] at hx hy
  exact frontLoop_rank_respect room cfs [] hs (by simpa using hn) (by simp) x hx (by simp)
    kx hkx hxk y ky hky hyk hy

/-- the violation front that does not fit is cut by smaller total violation: what is kept of it
(`s.take k`, `s` = the front in ascending-CV order) never has a larger CV than what is dropped -/
theorem last_front_cut_by_cv {β : Type} [LinearOrder β] (cv : Nat → β) (s : List Nat) (k : Nat)
    (hsorted : s.Pairwise (fun a b => cv a ≤ cv b)) :
    ∀ a ∈ s.take k, ∀ b ∈ s.drop k, cv a ≤ cv b :=
  infeasible_by_cv cv s k hsorted

/-- exactly `min n_survive n` distinct members on constrained problems too (C03 for this class) -/
theorem constr_length (n nSurvive : Nat) (feas infeas : List Nat) (fs cfs : List (List Nat × List Nat))
    (hsplit : SplitOk n feas infeas) (hs : SortedOk fs) (hn : (pool fs).Nodup)
    (hv : ∀ x ∈ pool fs, x < feas.length)
    (hcover : feas ≠ [] → min feas.length (min nSurvive n) ≤ (pool fs).length)
    (hcs : SortedOk cfs)
    (hccover : min (min nSurvive n - min feas.length (min nSurvive n)) infeas.length ≤ (pool cfs).length) :
    (constrSurvival n nSurvive true feas infeas fs cfs).length = min nSurvive n := by
  have hlen : feas.length + infeas.length = n := by
    have := hsplit.length_eq
    simpa using this
  obtain ⟨hil, _⟩ := feasible_before_infeasible n nSurvive feas infeas fs cfs hs hn hv hcover
  generalize hin : (if feas.isEmpty then [] else
      (frontLoop (min feas.length (min nSurvive n)) fs []).map (fun j => feas.getD j 0)) = inner at hil
  have hc : constrSurvival n nSurvive true feas infeas fs cfs =
      if min nSurvive n - inner.length > 0 then
        inner ++ (fillLoop (min nSurvive n - inner.length) cfs []).map (fun j => infeas.getD j 0)
      else inner := by
    simp only [constrSurvival, constrDo, ↓reduceIte, hin]
  rw [hc]
  by_cases hroom : min nSurvive n - inner.length > 0
  · rw [if_pos hroom, List.length_append, List.length_map, fillLoop_eq_frontLoop _ cfs [] (by simp) hcs,
      frontLoop_length _ cfs [] hcs (by simp), hil]
    simp only [List.length_nil, Nat.zero_add]
    rw [hil] at hroom
    omega
  · rw [if_neg hroom]
    rw [hil] at hroom ⊢
    omega

example : constrSurvival 5 4 true [0, 2] [4, 1, 3] [([0, 1], [0, 1])] [([0], [0]), ([2, 1], [1, 2])] =
    [0, 2, 4, 1] := by decide

end C16
end Pymoode
