/-
C06  Multi-objective runs are elitist in every generation.
The statements quantify over an arbitrary current population, arbitrary offspring and arbitrary
oracle results satisfying their contracts, hence hold in every generation of every run.
-/
import PymoodeProofs.C04
import PymoodeProofs.C05

set_option linter.unusedSectionVars false
set_option linter.unusedVariables false

namespace Pymoode
namespace C06
open C03 C04

variable {α : Type} [Field α] [LinearOrder α] [IsStrictOrderedRing α]

/-- the new population consists only of candidates (the very same records: nothing is altered) -/
theorem pick_subset (cand : List (IndM α)) (ps : List Nat) : ∀ i ∈ pick cand ps, i ∈ cand := by
  intro i hi
  simp only [pick, List.mem_filterMap] at hi
  obtain ⟨p, _, hp⟩ := hi
  exact List.mem_of_getElem? hp

theorem pick_length (cand : List (IndM α)) (ps : List Nat) (h : ∀ p ∈ ps, p < cand.length) :
    (pick cand ps).length = ps.length := by
  induction ps with
  | nil => simp [pick]
  | cons p ps ih =>
    have hp : p < cand.length := h p (by simp)
    simp only [pick, List.filterMap_cons, List.getElem?_eq_getElem hp, List.length_cons]
    have := ih (fun q hq => h q (by simp [hq]))
    simp only [pick] at this
    rw [this]

/-- NSDE / (μ+λ): candidates are current members and offspring — so is the new population -/
theorem nsde_new_pop_subset (pop off : List (IndM α)) (popSize : Nat) (constr : Bool)
    (feas infeas : List Nat) (fs : List (List Nat × List Nat)) :
    ∀ i ∈ advanceRnc (mergeCandidates pop off) popSize constr feas infeas fs, i ∈ pop ∨ i ∈ off := by
  intro i hi
  have := pick_subset _ _ i hi
  simpa [mergeCandidates] using this

/-- GDE3: the new population consists of members and offspring that passed the one-to-one comparison -/
theorem gde3_new_pop_subset (pop off : List (IndM α)) (popSize : Nat) (constr : Bool)
    (feas infeas : List Nat) (fs : List (List Nat × List Nat)) :
    ∀ i ∈ advanceRnc (gde3Candidates pop off) popSize constr feas infeas fs, i ∈ gde3Candidates pop off :=
  fun i hi => pick_subset _ _ i hi

/-- positions of candidates that survive (unconstrained problem / all handed to `_do`) -/
def survivors (n popSize : Nat) (fs : List (List Nat × List Nat)) : List Nat :=
  survivalDo n popSize false [] [] fs

/-- **no feasible survivor is dominated by a discarded feasible candidate** (sub-population handed
to the front loop; `dom` = Pareto-dominance among those candidates) -/
theorem no_survivor_dominated_by_discarded {dom : Nat → Nat → Bool} {m nStop : Nat} (nS : Nat)
    (fs : List (List Nat × List Nat)) (h : IsFronts dom m nStop (fs.map Prod.fst)) (hs : SortedOk fs)
    (x j : Nat) (hx : x ∈ frontLoop nS fs []) (hj : j < m) (hjn : j ∉ frontLoop nS fs []) :
    dom j x = false := by
  by_contra hd
  have hd' : dom j x = true := by simpa using hd
  exact hjn (no_discarded_dominates_survivor fs h hs x j hx hj hd')

/-- **whenever the feasible non-dominated candidates fit, all of them survive** -/
theorem nondominated_survive_if_fit {dom : Nat → Nat → Bool} {m nStop : Nat} (nS : Nat)
    (fs : List (List Nat × List Nat)) (h : IsFronts dom m nStop (fs.map Prod.fst))
    (x : Nat) (hx : x < m) (hnd : ∀ j, j < m → dom j x = false)
    (hfit : ∀ f s rest, fs = (f, s) :: rest → f.length ≤ nS) (hne : fs ≠ []) :
    x ∈ frontLoop nS fs [] := by
  cases fs with
  | nil => exact absurd rfl hne
  | cons p rest =>
    obtain ⟨f, s⟩ := p
    have hfit' := hfit f s rest rfl
    apply first_front_kept nS f s rest hfit'
    have h0 := h.peel 0 (by simp) x hx
    simp only [List.map_cons, List.getD_cons_zero, earlier, List.take_zero, List.flatten_nil,
      List.not_mem_nil, not_false_eq_true, true_and] at h0
    exact h0.mpr (fun j hj hd => by rw [hnd j hj] at hd; simp at hd)

/-- **no infeasible candidate survives while a feasible one is discarded** -/
theorem no_infeasible_over_feasible (n nSurvive : Nat) (feas infeas : List Nat)
    (fs : List (List Nat × List Nat)) (hsplit : SplitOk n feas infeas) (hs : SortedOk fs)
    (hn : (pool fs).Nodup) (hv : ∀ x ∈ pool fs, x < feas.length)
    (hcover : feas ≠ [] → min feas.length (min nSurvive n) ≤ (pool fs).length)
    (b : Nat) (hb : b ∈ infeas) (hbs : b ∈ survivalDo n nSurvive true feas infeas fs) :
    ∀ a ∈ feas, a ∈ survivalDo n nSurvive true feas infeas fs :=
  feasible_first n nSurvive feas infeas fs hsplit hs hn hv hcover b hb hbs

end C06
end Pymoode
