/-
C13 / C14 / C15, continued (part 3 of the pcd refinement): what the pure-Python definition
(`pcdScratch`) computes for a live non-extreme point, in terms of the same sorted live columns the
kernel maintains; then the simulation between the functional kernel and the definition.
-/
import PymoodeProofs.C13e

set_option linter.unusedSectionVars false
set_option linter.unusedVariables false

namespace Pymoode
namespace C13

variable {α : Type} [Field α] [LinearOrder α] [IsStrictOrderedRing α] [Inhabited α]

/-- facts about the live set that every step of the removal loop preserves -/
structure LiveOK (f : List (List α)) (M : Nat) (live : List Nat) : Prop where
  pw : live.Pairwise (· < ·)
  lt : ∀ i ∈ live, i < f.length
  ex_in : ∀ e ∈ extremesFirst f M, e ∈ live

theorem live_nodup {f : List (List α)} {M : Nat} {live : List Nat} (h : LiveOK f M live) : live.Nodup :=
  h.pw.imp (fun h => Nat.ne_of_lt h)

theorem live_length_le {f : List (List α)} {M : Nat} {live : List Nat} (h : LiveOK f M live) :
    live.length ≤ f.length := by
  have hsub : live ⊆ List.range f.length := fun i hi => List.mem_range.mpr (h.lt i hi)
  have := (List.subperm_of_subset (live_nodup h) hsub).length_le
  simpa using this

theorem argmin_mem_extremes (f : List (List α)) (M m : Nat) (hm : m < M) :
    argminFirst (column f m) ∈ extremesFirst f M := by
  unfold extremesFirst
  exact List.mem_append_left _ (List.mem_map.mpr ⟨m, List.mem_range.mpr hm, rfl⟩)

theorem argmax_mem_extremes (f : List (List α)) (M m : Nat) (hm : m < M) :
    argmaxFirst (column f m) ∈ extremesFirst f M := by
  unfold extremesFirst
  exact List.mem_append_right _ (List.mem_map.mpr ⟨m, List.mem_range.mpr hm, rfl⟩)

/-- sorted live column of objective `m` (global indices) -/
def Scol (f : List (List α)) (m : Nat) (live : List Nat) : List Nat := sortedLive (vf f m) live

/-- the hypothesis whose negation is known finding F2 -/
def AllMaxOnce (f : List (List α)) (M : Nat) : Prop := ∀ m, m < M → MaxOnce (column f m)

/-- a live non-extreme point is interior in every sorted live column -/
theorem col_facts (f : List (List α)) (M : Nat) (live : List Nat) (hl : LiveOK f M live) (hmax : AllMaxOnce f M)
    (i : Nat) (hi : i ∈ live) (hne : i ∉ extremesFirst f M) (m : Nat) (hm : m < M) :
    (Scol f m live).Nodup ∧ (Scol f m live).length ≤ f.length ∧ (∀ j ∈ Scol f m live, j < f.length) ∧
      i ∈ Scol f m live ∧ Interior (Scol f m live) i := by
  have hfne : f ≠ [] := by
    intro h; have := hl.lt i hi; rw [h] at this; simp at this
  have hnd := sortedLive_nodup (vf f m) live hl.pw
  have hmem := (sortedLive_mem (vf f m) live i).mpr hi
  refine ⟨hnd, ?_, ?_, hmem, ?_⟩
  · unfold Scol; rw [sortedLive_length]; exact live_length_le hl
  · intro j hj; exact hl.lt j ((sortedLive_mem (vf f m) live j).mp hj)
  · apply interior_of_ne_ends _ hnd i hmem
    · rw [S_head f m live hl.pw hl.lt hfne (hl.ex_in _ (argmin_mem_extremes f M m hm))]
      intro h
      apply hne
      rw [← Option.some.inj h]; exact argmin_mem_extremes f M m hm
    · rw [S_last f m live hl.pw hl.lt hfne (hl.ex_in _ (argmax_mem_extremes f M m hm)) (hmax m hm)]
      intro h
      apply hne
      rw [← Option.some.inj h]; exact argmax_mem_extremes f M m hm

theorem vf_eq_xAt (f : List (List α)) (m i : Nat) : vf f m i = xAt f i m := column_getD f m i

/-- the fallback sorts the *normalised* values of the live rows by position; mapped back to global
indices this is the kernel's sorted live column (which was sorted on the raw values) -/
theorem sort_bridge (f : List (List α)) (M m : Nat) (hm : m < M) (live : List Nat) (hl : LiveOK f M live) :
    (argsortStable (column (live.map fun i => (normalizeCols f M).getD i []) m)).map (fun p => live.getD p 0) =
      Scol f m live := by
  set x := normalizeCols f M with hx
  have hcol : column (live.map fun i => x.getD i []) m = live.map fun j => xAt x j m := by
    unfold column xAt; rw [List.map_map]; rfl
  rw [hcol, argsortStable_eq]
  unfold sortedLive
  rw [List.map_mergeSort (s := leBy (vf f m))]
  · congr 1
    apply List.ext_getElem
    · simp
    · intro k h1 h2
      simp only [List.getElem_map, List.getElem_range, List.length_map]
      rw [List.getD_eq_getElem?_getD, List.getElem?_eq_getElem (by simpa using h2)]; rfl
  · intro a ha b hb
    simp only [List.length_map, List.mem_range] at ha hb
    have ea : (live.map fun j => xAt x j m).getD a default = xAt x live[a] m := by
      rw [List.getD_eq_getElem?_getD, List.getElem?_map, List.getElem?_eq_getElem ha]; rfl
    have eb : (live.map fun j => xAt x j m).getD b default = xAt x live[b] m := by
      rw [List.getD_eq_getElem?_getD, List.getElem?_map, List.getElem?_eq_getElem hb]; rfl
    have ga : live.getD a 0 = live[a] := getD_of_lt live a ha
    have gb : live.getD b 0 = live[b] := getD_of_lt live b hb
    have hiff : ((live.map fun j => xAt x j m).getD b default < (live.map fun j => xAt x j m).getD a default) ↔
        (vf f m (live.getD b 0) < vf f m (live.getD a 0)) := by
      rw [ea, eb, ga, gb, vf_eq_xAt, vf_eq_xAt]
      exact normalize_lt_iff f M m hm _ _ (hl.lt _ (List.getElem_mem hb)) (hl.lt _ (List.getElem_mem ha))
    exact congrArg not (decide_eq_decide.mpr hiff)


/-- the definition's contribution of objective `m` to a live non-extreme point: the two gaps to its
neighbours in the sorted live column -/
def gapF (f : List (List α)) (M : Nat) (live : List Nat) (i m : Nat) : α :=
  let x := normalizeCols f M
  (xAt x i m - xAt x (prevOf (Scol f m live) i) m) + (xAt x (nextOf (Scol f m live) i) m - xAt x i m)

/-- one objective of `pcdScratch`, read at the position of a live non-extreme point -/
theorem scratch_cell (f : List (List α)) (M m : Nat) (hm : m < M) (live : List Nat) (hl : LiveOK f M live)
    (hmax : AllMaxOnce f M) (i : Nat) (hi : i ∈ live) (hne : i ∉ extremesFirst f M) :
    let x := normalizeCols f M
    let col := column (live.map fun j => x.getD j []) m
    let order := argsortStable col
    let s := order.map fun p => col.getD p default
    let contrib : List (Ext α) := (List.range s.length).map fun p =>
      let dl : α := if p = 0 then 0 else s.getD p default - s.getD (p - 1) default
      let dn : α := if p + 1 = s.length then 0 else s.getD (p + 1) default - s.getD p default
      Ext.fin (dl + dn)
    contrib.getD (order.idxOf (live.idxOf i)) (Ext.fin 0) = Ext.fin (gapF f M live i m) := by
  intro x col order s contrib
  obtain ⟨hnd, hlen, hlt, hmem, h0, h1⟩ := col_facts f M live hl hmax i hi hne m hm
  have hbridge : order.map (fun p => live.getD p 0) = Scol f m live := sort_bridge f M m hm live hl
  have hcolL : col.length = live.length := by simp [col, column]
  have hperm : order.Perm (List.range col.length) := argsort_perm col
  have holen : order.length = live.length := by rw [hperm.length_eq]; simp [hcolL]
  have hSlen : (Scol f m live).length = live.length := sortedLive_length _ _
  have hondup : order.Nodup := hperm.nodup_iff.mpr List.nodup_range
  set q := (Scol f m live).idxOf i with hq
  have hqlt : q < live.length := by rw [← hSlen]; exact List.idxOf_lt_length_iff.mpr hmem
  have hqo : q < order.length := by omega
  -- entries of `order` are positions in `live`
  have hoent : ∀ j (hj : j < order.length), order[j] < live.length := by
    intro j hj
    have : order[j] ∈ List.range col.length := hperm.subset (List.getElem_mem hj)
    simpa [hcolL] using this
  -- S[j] = live[order[j]]
  have hSget : ∀ j (hj : j < order.length), (Scol f m live).getD j 0 = live.getD order[j] 0 := by
    intro j hj
    rw [← hbridge, getD_of_lt _ _ (by simpa using hj)]
    simp
  have hpos := List.idxOf_lt_length_iff.mpr hi
  -- order[q] is the position of i in live
  have hoq : order[q] = live.idxOf i := by
    have e1 : live.getD order[q] 0 = i := by
      rw [← hSget q hqo, getD_of_lt _ _ (by omega)]; exact List.getElem_idxOf (by omega)
    have hlnd := live_nodup hl
    rw [getD_of_lt _ _ (hoent q hqo)] at e1
    have := idxOf_getElem_nodup live hlnd order[q] (hoent q hqo)
    rw [e1] at this; exact this.symm
  have hidx : order.idxOf (live.idxOf i) = q := by
    rw [← hoq]; exact idxOf_getElem_nodup order hondup q hqo
  rw [hidx]
  have hslen : s.length = live.length := by simp [s, holen]
  -- values along the sorted order
  have hsget : ∀ j, j < order.length → s.getD j default = xAt x ((Scol f m live).getD j 0) m := by
    intro j hj
    have e : s.getD j default = col.getD order[j] default := by
      simp only [s]
      rw [List.getD_eq_getElem?_getD, List.getElem?_map, List.getElem?_eq_getElem hj]; rfl
    rw [e, hSget j hj]
    have hoj := hoent j hj
    simp only [col, column]
    rw [List.getD_eq_getElem?_getD, List.getElem?_map, List.getElem?_map, List.getElem?_eq_getElem hoj,
      getD_of_lt live _ hoj]
    rfl
  have hcq : contrib.getD q (Ext.fin 0) =
      Ext.fin ((if q = 0 then 0 else s.getD q default - s.getD (q - 1) default) +
        (if q + 1 = s.length then 0 else s.getD (q + 1) default - s.getD q default)) := by
    simp only [contrib]
    rw [List.getD_eq_getElem?_getD, List.getElem?_map, List.getElem?_range (by omega)]
    rfl
  rw [hcq]
  have hq0 : q ≠ 0 := by omega
  have hq1 : q + 1 ≠ s.length := by rw [hslen, ← hSlen]; omega
  rw [if_neg hq0, if_neg hq1, hsget q hqo, hsget (q - 1) (by omega), hsget (q + 1) (by rw [holen, ← hSlen]; omega)]
  have ei : (Scol f m live).getD q 0 = i := by
    rw [getD_of_lt _ _ (by omega)]; exact List.getElem_idxOf (by omega)
  rw [ei]
  rfl


theorem idxOf?_of_mem_nodup (l : List Nat) (hl : l.Nodup) (i : Nat) (hi : i ∈ l) : l.idxOf? i = some (l.idxOf i) := by
  rw [List.idxOf?_eq_some_iff]
  have hp := List.idxOf_lt_length_iff.mpr hi
  refine ⟨hp, List.getElem_idxOf hp, ?_⟩
  intro j hj heq
  have := idxOf_getElem_nodup l hl j (by omega)
  rw [heq] at this; omega

theorem scratch_get (f : List (List α)) (M : Nat) (live : List Nat) (hl : LiveOK f M live)
    (hmax : AllMaxOnce f M) (old : List (Ext α)) (i : Nat) (hi : i < f.length) :
    (pcdScratch (normalizeCols f M) live M (extremesFirst f M) f.length old).getD i Ext.top =
      if (extremesFirst f M).contains i then Ext.top
      else if i ∈ live then
        (List.range M).foldl (fun acc m => Ext.add acc (Ext.fin (gapF f M live i m))) (Ext.fin 0)
      else old.getD i Ext.top := by
  unfold pcdScratch
  simp only []
  rw [List.getD_eq_getElem?_getD, List.getElem?_map, List.getElem?_range hi]
  simp only [Option.map_some, Option.getD_some]
  split
  · rfl
  · rename_i hex
    by_cases hil : i ∈ live
    · rw [if_pos hil, idxOf?_of_mem_nodup live (live_nodup hl) i hil]
      simp only []
      have hpos := List.idxOf_lt_length_iff.mpr hil
      unfold sumExt
      rw [List.getD_eq_getElem?_getD, List.getElem?_map, List.getElem?_range hpos]
      simp only [Option.map_some, Option.getD_some, List.foldl_map]
      apply List.foldl_ext
      intro acc m hm
      have hm' := List.mem_range.mp hm
      congr 1
      have hne : i ∉ extremesFirst f M := by simpa using hex
      have hcl : (column (live.map fun j => (normalizeCols f M).getD j []) m).length = live.length := by simp [column]
      rw [List.getD_eq_getElem?_getD, List.getElem?_map, List.getElem?_range (by rw [hcl]; exact hpos)]
      simp only [Option.map_some, Option.getD_some]
      exact scratch_cell f M m hm' live hl hmax i hil hne
    · rw [if_neg hil]
      have : live.idxOf? i = none := List.idxOf?_eq_none_iff.mpr hil
      rw [this]

/-! ### algebra: dividing the sum of the gaps = summing the divided gaps; order is kept by `/ c` -/

theorem div_fold (c : α) (a : Nat → α) : ∀ (l : List Nat) (acc : Ext α),
    Ext.mapFin (· / c) (l.foldl (fun acc m => Ext.add acc (Ext.fin (a m))) acc) =
      l.foldl (fun acc m => Ext.add acc (Ext.fin (a m / c))) (Ext.mapFin (· / c) acc)
  | [], acc => rfl
  | m :: t, acc => by
    simp only [List.foldl_cons]
    rw [div_fold c a t]
    congr 1
    cases acc <;> simp [Ext.add, Ext.mapFin, add_div]

theorem fold_fin_isFin (a : Nat → α) : ∀ (l : List Nat) (v : α),
    ∃ w, l.foldl (fun acc m => Ext.add acc (Ext.fin (a m))) (Ext.fin v) = Ext.fin w
  | [], v => ⟨v, rfl⟩
  | m :: t, v => by simp only [List.foldl_cons, Ext.add]; exact fold_fin_isFin a t _

theorem lt_mapFin (c : α) (hc : 0 < c) (a b : Ext α) :
    Ext.lt (Ext.mapFin (· / c) a) (Ext.mapFin (· / c) b) = Ext.lt a b := by
  cases a <;> cases b <;> simp [Ext.lt, Ext.mapFin, div_lt_div_iff_of_pos_right hc]

theorem getD_map_mapFin (c : α) (d : List (Ext α)) (j : Nat) :
    (d.map (Ext.mapFin (· / c))).getD j Ext.top = Ext.mapFin (· / c) (d.getD j Ext.top) := by
  rw [List.getD_eq_getElem?_getD, List.getD_eq_getElem?_getD, List.getElem?_map]
  cases d[j]? <;> simp [Ext.mapFin]

theorem dropLast_map (c : α) (hc : 0 < c) (d : List (Ext α)) (live : List Nat) :
    dropLast (d.map (Ext.mapFin (· / c))) live = dropLast d live := by
  unfold dropLast
  congr 1
  funext best i
  cases best with
  | none => rfl
  | some b => simp only [getD_map_mapFin, lt_mapFin c hc]

theorem ext_getD {β : Type} (dflt : β) (l₁ l₂ : List β) (hlen : l₁.length = l₂.length)
    (h : ∀ i, i < l₁.length → l₁.getD i dflt = l₂.getD i dflt) : l₁ = l₂ := by
  apply List.ext_getElem hlen
  intro i h1 h2
  have := h i h1
  rw [List.getD_eq_getElem?_getD, List.getD_eq_getElem?_getD, List.getElem?_eq_getElem h1,
    List.getElem?_eq_getElem h2] at this
  simpa using this

theorem prevOf_ne (s : List Nat) (hs : s.Nodup) (k : Nat) (hk : k ∈ s) (h0 : 0 < s.idxOf k) : prevOf s k ≠ k := by
  have hp := List.idxOf_lt_length_iff.mpr hk
  intro h
  unfold prevOf at h
  rw [getD_of_lt s _ (by omega)] at h
  have := idxOf_getElem_nodup s hs (s.idxOf k - 1) (by omega)
  rw [h] at this; omega

theorem nextOf_ne (s : List Nat) (hs : s.Nodup) (k : Nat) (hk : k ∈ s) (h1 : s.idxOf k + 1 < s.length) : nextOf s k ≠ k := by
  intro h
  unfold nextOf at h
  rw [getD_of_lt s _ h1] at h
  have := idxOf_getElem_nodup s hs (s.idxOf k + 1) h1
  rw [h] at this; omega

end C13
end Pymoode
