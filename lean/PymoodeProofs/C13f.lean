/-
C13 / C14 / C15, continued (part 3 of the pcd refinement): what the pure-Python definition
(`pcdScratch`) computes for a live non-extreme point, in terms of the same sorted live columns the
kernel maintains; then the simulation between the functional kernel and the definition.
-/
import PymoodeProofs.C13e
import PymoodeProofs.C15b
import Mathlib.Tactic.Ring

set_option linter.unusedSectionVars false
set_option linter.unusedVariables false

namespace Pymoode
namespace C13

variable {α : Type} [Field α] [LinearOrder α] [IsStrictOrderedRing α] [Inhabited α]

/-- facts about the live set that every step of the removal loop preserves -/
structure LiveOK (f : List (List α)) (M : Nat) (live : List Nat) : Prop where
  pw : live.Pairwise (· < ·)
  lt : ∀ i ∈ live, i < f.length
  ex_in : ∀ e ∈ extremesFirst f M, e ∈ live

theorem live_nodup {f : List (List α)} {M : Nat} {live : List Nat} (h : LiveOK f M live) : live.Nodup :=
  h.pw.imp (fun h => Nat.ne_of_lt h)

theorem live_length_le {f : List (List α)} {M : Nat} {live : List Nat} (h : LiveOK f M live) :
    live.length ≤ f.length := by
  have hsub : live ⊆ List.range f.length := fun i hi => List.mem_range.mpr (h.lt i hi)
  have := (List.subperm_of_subset (live_nodup h) hsub).length_le
  simpa using this

theorem argmin_mem_extremes (f : List (List α)) (M m : Nat) (hm : m < M) :
    argminFirst (column f m) ∈ extremesFirst f M := by
  unfold extremesFirst
  exact List.mem_append_left _ (List.mem_map.mpr ⟨m, List.mem_range.mpr hm, rfl⟩)

theorem argmax_mem_extremes (f : List (List α)) (M m : Nat) (hm : m < M) :
    argmaxFirst (column f m) ∈ extremesFirst f M := by
  unfold extremesFirst
  exact List.mem_append_right _ (List.mem_map.mpr ⟨m, List.mem_range.mpr hm, rfl⟩)

/-- sorted live column of objective `m` (global indices) -/
def Scol (f : List (List α)) (m : Nat) (live : List Nat) : List Nat := sortedLive (vf f m) live

/-- the hypothesis whose negation is known finding F2 -/
def AllMaxOnce (f : List (List α)) (M : Nat) : Prop := ∀ m, m < M → MaxOnce (column f m)

/-- a live non-extreme point is interior in every sorted live column -/
theorem col_facts (f : List (List α)) (M : Nat) (live : List Nat) (hl : LiveOK f M live) (hmax : AllMaxOnce f M)
    (i : Nat) (hi : i ∈ live) (hne : i ∉ extremesFirst f M) (m : Nat) (hm : m < M) :
    (Scol f m live).Nodup ∧ (Scol f m live).length ≤ f.length ∧ (∀ j ∈ Scol f m live, j < f.length) ∧
      i ∈ Scol f m live ∧ Interior (Scol f m live) i := by
  have hfne : f ≠ [] := by
    intro h; have := hl.lt i hi; rw [h] at this; simp at this
  have hnd := sortedLive_nodup (vf f m) live hl.pw
  have hmem := (sortedLive_mem (vf f m) live i).mpr hi
  refine ⟨hnd, ?_, ?_, hmem, ?_⟩
  · unfold Scol; rw [sortedLive_length]; exact live_length_le hl
  · intro j hj; exact hl.lt j ((sortedLive_mem (vf f m) live j).mp hj)
  · apply interior_of_ne_ends _ hnd i hmem
    · rw [S_head f m live hl.pw hl.lt hfne (hl.ex_in _ (argmin_mem_extremes f M m hm))]
      intro h
      apply hne
      rw [← Option.some.inj h]; exact argmin_mem_extremes f M m hm
    · rw [S_last f m live hl.pw hl.lt hfne (hl.ex_in _ (argmax_mem_extremes f M m hm)) (hmax m hm)]
      intro h
      apply hne
      rw [← Option.some.inj h]; exact argmax_mem_extremes f M m hm

theorem vf_eq_xAt (f : List (List α)) (m i : Nat) : vf f m i = xAt f i m := column_getD f m i

/-- the fallback sorts the *normalised* values of the live rows by position; mapped back to global
indices this is the kernel's sorted live column (which was sorted on the raw values) -/
theorem sort_bridge (f : List (List α)) (M m : Nat) (hm : m < M) (live : List Nat) (hl : LiveOK f M live) :
    (argsortStable (column (live.map fun i => (normalizeCols f M).getD i []) m)).map (fun p => live.getD p 0) =
      Scol f m live := by
  set x := normalizeCols f M with hx
  have hcol : column (live.map fun i => x.getD i []) m = live.map fun j => xAt x j m := by
    unfold column xAt; rw [List.map_map]; rfl
  rw [hcol, argsortStable_eq]
  unfold sortedLive
  rw [List.map_mergeSort (s := leBy (vf f m))]
  · congr 1
    apply List.ext_getElem
    · simp
    · intro k h1 h2
      simp only [List.getElem_map, List.getElem_range, List.length_map]
      rw [List.getD_eq_getElem?_getD, List.getElem?_eq_getElem (by simpa using h2)]; rfl
  · intro a ha b hb
    simp only [List.length_map, List.mem_range] at ha hb
    have ea : (live.map fun j => xAt x j m).getD a default = xAt x live[a] m := by
      rw [List.getD_eq_getElem?_getD, List.getElem?_map, List.getElem?_eq_getElem ha]; rfl
    have eb : (live.map fun j => xAt x j m).getD b default = xAt x live[b] m := by
      rw [List.getD_eq_getElem?_getD, List.getElem?_map, List.getElem?_eq_getElem hb]; rfl
    have ga : live.getD a 0 = live[a] := getD_of_lt live a ha
    have gb : live.getD b 0 = live[b] := getD_of_lt live b hb
    have hiff : ((live.map fun j => xAt x j m).getD b default < (live.map fun j => xAt x j m).getD a default) ↔
        (vf f m (live.getD b 0) < vf f m (live.getD a 0)) := by
      rw [ea, eb, ga, gb, vf_eq_xAt, vf_eq_xAt]
      exact normalize_lt_iff f M m hm _ _ (hl.lt _ (List.getElem_mem hb)) (hl.lt _ (List.getElem_mem ha))
    exact congrArg not (decide_eq_decide.mpr hiff)


/-- the definition's contribution of objective `m` to a live non-extreme point: the two gaps to its
neighbours in the sorted live column -/
def gapF (f : List (List α)) (M : Nat) (live : List Nat) (i m : Nat) : α :=
  let x := normalizeCols f M
  (xAt x i m - xAt x (prevOf (Scol f m live) i) m) + (xAt x (nextOf (Scol f m live) i) m - xAt x i m)

/-- one objective of `pcdScratch`, read at the position of a live non-extreme point -/
theorem scratch_cell (f : List (List α)) (M m : Nat) (hm : m < M) (live : List Nat) (hl : LiveOK f M live)
    (hmax : AllMaxOnce f M) (i : Nat) (hi : i ∈ live) (hne : i ∉ extremesFirst f M) :
    let x := normalizeCols f M
    let col := column (live.map fun j => x.getD j []) m
    let order := argsortStable col
    let s := order.map fun p => col.getD p default
    let contrib : List (Ext α) := (List.range s.length).map fun p =>
      let dl : α := if p = 0 then 0 else s.getD p default - s.getD (p - 1) default
      let dn : α := if p + 1 = s.length then 0 else s.getD (p + 1) default - s.getD p default
      Ext.fin (dl + dn)
    contrib.getD (order.idxOf (live.idxOf i)) (Ext.fin 0) = Ext.fin (gapF f M live i m) := by
  intro x col order s contrib
  obtain ⟨hnd, hlen, hlt, hmem, h0, h1⟩ := col_facts f M live hl hmax i hi hne m hm
  have hbridge : order.map (fun p => live.getD p 0) = Scol f m live := sort_bridge f M m hm live hl
  have hcolL : col.length = live.length := by simp [col, column]
  have hperm : order.Perm (List.range col.length) := argsort_perm col
  have holen : order.length = live.length := by rw [hperm.length_eq]; simp [hcolL]
  have hSlen : (Scol f m live).length = live.length := sortedLive_length _ _
  have hondup : order.Nodup := hperm.nodup_iff.mpr List.nodup_range
  set q := (Scol f m live).idxOf i with hq
  have hqlt : q < live.length := by rw [← hSlen]; exact List.idxOf_lt_length_iff.mpr hmem
  have hqo : q < order.length := by omega
  -- entries of `order` are positions in `live`
  have hoent : ∀ j (hj : j < order.length), order[j] < live.length := by
    intro j hj
    have : order[j] ∈ List.range col.length := hperm.subset (List.getElem_mem hj)
    simpa [hcolL] using this
  -- S[j] = live[order[j]]
  have hSget : ∀ j (hj : j < order.length), (Scol f m live).getD j 0 = live.getD order[j] 0 := by
    intro j hj
    rw [← hbridge, getD_of_lt _ _ (by simpa using hj)]
    simp
  have hpos := List.idxOf_lt_length_iff.mpr hi
  -- order[q] is the position of i in live
  have hoq : order[q] = live.idxOf i := by
    have e1 : live.getD order[q] 0 = i := by
      rw [← hSget q hqo, getD_of_lt _ _ (by omega)]; exact List.getElem_idxOf (by omega)
    have hlnd := live_nodup hl
    rw [getD_of_lt _ _ (hoent q hqo)] at e1
    have := idxOf_getElem_nodup live hlnd order[q] (hoent q hqo)
    rw [e1] at this; exact this.symm
  have hidx : order.idxOf (live.idxOf i) = q := by
    rw [← hoq]; exact idxOf_getElem_nodup order hondup q hqo
  rw [hidx]
  have hslen : s.length = live.length := by simp [s, holen]
  -- values along the sorted order
  have hsget : ∀ j, j < order.length → s.getD j default = xAt x ((Scol f m live).getD j 0) m := by
    intro j hj
    have e : s.getD j default = col.getD order[j] default := by
      simp only [s]
      rw [List.getD_eq_getElem?_getD, List.getElem?_map, List.getElem?_eq_getElem hj]; rfl
    rw [e, hSget j hj]
    have hoj := hoent j hj
    simp only [col, column]
    rw [List.getD_eq_getElem?_getD, List.getElem?_map, List.getElem?_map, List.getElem?_eq_getElem hoj,
      getD_of_lt live _ hoj]
    rfl
  have hcq : contrib.getD q (Ext.fin 0) =
      Ext.fin ((if q = 0 then 0 else s.getD q default - s.getD (q - 1) default) +
        (if q + 1 = s.length then 0 else s.getD (q + 1) default - s.getD q default)) := by
    simp only [contrib]
    rw [List.getD_eq_getElem?_getD, List.getElem?_map, List.getElem?_range (by omega)]
    rfl
  rw [hcq]
  have hq0 : q ≠ 0 := by omega
  have hq1 : q + 1 ≠ s.length := by rw [hslen, ← hSlen]; omega
  rw [if_neg hq0, if_neg hq1, hsget q hqo, hsget (q - 1) (by omega), hsget (q + 1) (by rw [holen, ← hSlen]; omega)]
  have ei : (Scol f m live).getD q 0 = i := by
    rw [getD_of_lt _ _ (by omega)]; exact List.getElem_idxOf (by omega)
  rw [ei]
  rfl


theorem idxOf?_of_mem_nodup (l : List Nat) (hl : l.Nodup) (i : Nat) (hi : i ∈ l) : l.idxOf? i = some (l.idxOf i) := by
  rw [List.idxOf?_eq_some_iff]
  have hp := List.idxOf_lt_length_iff.mpr hi
  refine ⟨hp, List.getElem_idxOf hp, ?_⟩
  intro j hj heq
  have := idxOf_getElem_nodup l hl j (by omega)
  rw [heq] at this; omega

theorem scratch_get (f : List (List α)) (M : Nat) (live : List Nat) (hl : LiveOK f M live)
    (hmax : AllMaxOnce f M) (old : List (Ext α)) (i : Nat) (hi : i < f.length) :
    (pcdScratch (normalizeCols f M) live M (extremesFirst f M) f.length old).getD i Ext.top =
      if (extremesFirst f M).contains i then Ext.top
      else if i ∈ live then
        (List.range M).foldl (fun acc m => Ext.add acc (Ext.fin (gapF f M live i m))) (Ext.fin 0)
      else old.getD i Ext.top := by
  unfold pcdScratch
  simp only []
  rw [List.getD_eq_getElem?_getD, List.getElem?_map, List.getElem?_range hi]
  simp only [Option.map_some, Option.getD_some]
  split
  · rfl
  · rename_i hex
    by_cases hil : i ∈ live
    · rw [if_pos hil, idxOf?_of_mem_nodup live (live_nodup hl) i hil]
      simp only []
      have hpos := List.idxOf_lt_length_iff.mpr hil
      unfold sumExt
      rw [List.getD_eq_getElem?_getD, List.getElem?_map, List.getElem?_range hpos]
      simp only [Option.map_some, Option.getD_some, List.foldl_map]
      apply List.foldl_ext
      intro acc m hm
      have hm' := List.mem_range.mp hm
      congr 1
      have hne : i ∉ extremesFirst f M := by simpa using hex
      have hcl : (column (live.map fun j => (normalizeCols f M).getD j []) m).length = live.length := by simp [column]
      rw [List.getD_eq_getElem?_getD, List.getElem?_map, List.getElem?_range (by rw [hcl]; exact hpos)]
      simp only [Option.map_some, Option.getD_some]
      exact scratch_cell f M m hm' live hl hmax i hil hne
    · rw [if_neg hil]
      have : live.idxOf? i = none := List.idxOf?_eq_none_iff.mpr hil
      rw [this]

/-! ### algebra: dividing the sum of the gaps = summing the divided gaps; order is kept by `/ c` -/

theorem div_fold (c : α) (a : Nat → α) : ∀ (l : List Nat) (acc : Ext α),
    Ext.mapFin (· / c) (l.foldl (fun acc m => Ext.add acc (Ext.fin (a m))) acc) =
      l.foldl (fun acc m => Ext.add acc (Ext.fin (a m / c))) (Ext.mapFin (· / c) acc)
  | [], acc => rfl
  | m :: t, acc => by
    simp only [List.foldl_cons]
    rw [div_fold c a t]
    congr 1
    cases acc <;> simp [Ext.add, Ext.mapFin, add_div]

theorem fold_fin_isFin (a : Nat → α) : ∀ (l : List Nat) (v : α),
    ∃ w, l.foldl (fun acc m => Ext.add acc (Ext.fin (a m))) (Ext.fin v) = Ext.fin w
  | [], v => ⟨v, rfl⟩
  | m :: t, v => by simp only [List.foldl_cons, Ext.add]; exact fold_fin_isFin a t _

theorem lt_mapFin (c : α) (hc : 0 < c) (a b : Ext α) :
    Ext.lt (Ext.mapFin (· / c) a) (Ext.mapFin (· / c) b) = Ext.lt a b := by
  cases a <;> cases b <;> simp [Ext.lt, Ext.mapFin, div_lt_div_iff_of_pos_right hc]

theorem getD_map_mapFin (c : α) (d : List (Ext α)) (j : Nat) :
    (d.map (Ext.mapFin (· / c))).getD j Ext.top = Ext.mapFin (· / c) (d.getD j Ext.top) := by
  rw [List.getD_eq_getElem?_getD, List.getD_eq_getElem?_getD, List.getElem?_map]
  cases d[j]? <;> simp [Ext.mapFin]

theorem dropLast_map (c : α) (hc : 0 < c) (d : List (Ext α)) (live : List Nat) :
    dropLast (d.map (Ext.mapFin (· / c))) live = dropLast d live := by
  unfold dropLast
  congr 1
  funext best i
  cases best with
  | none => rfl
  | some b => simp only [getD_map_mapFin, lt_mapFin c hc]

theorem ext_getD {β : Type} (dflt : β) (l₁ l₂ : List β) (hlen : l₁.length = l₂.length)
    (h : ∀ i, i < l₁.length → l₁.getD i dflt = l₂.getD i dflt) : l₁ = l₂ := by
  apply List.ext_getElem hlen
  intro i h1 h2
  have := h i h1
  rw [List.getD_eq_getElem?_getD, List.getD_eq_getElem?_getD, List.getElem?_eq_getElem h1,
    List.getElem?_eq_getElem h2] at this
  simpa using this

theorem prevOf_ne (s : List Nat) (hs : s.Nodup) (k : Nat) (hk : k ∈ s) (h0 : 0 < s.idxOf k) : prevOf s k ≠ k := by
  have hp := List.idxOf_lt_length_iff.mpr hk
  intro h
  unfold prevOf at h
  rw [getD_of_lt s _ (by omega)] at h
  have := idxOf_getElem_nodup s hs (s.idxOf k - 1) (by omega)
  rw [h] at this; omega

theorem nextOf_ne (s : List Nat) (hs : s.Nodup) (k : Nat) (hk : k ∈ s) (h1 : s.idxOf k + 1 < s.length) : nextOf s k ≠ k := by
  intro h
  unfold nextOf at h
  rw [getD_of_lt s _ h1] at h
  have := idxOf_getElem_nodup s hs (s.idxOf k + 1) h1
  rw [h] at this; omega


/-- one pass of the kernel's `while` loop (the body of `pcdLoopF`) -/
def pcdStepF (x : List (List α)) (c : α) (ex : List Nat) (st : PcdState α) : PcdState α :=
  let k := (dropLast st.d st.h).getD 0
  let h' := st.h.filter (· != k)
  let r := pcdGetCalcItems k st.cols
  let items := r.2.1.filter fun i => !ex.contains i
  let it := pcdIter x c r.1 items (st.dmat, st.ok && r.2.2)
  let d' := pcdCalcD it.1 items st.d
  { cols := r.1, dmat := it.1, d := d', h := h', ok := it.2 }

theorem pcdLoopF_succ (x : List (List α)) (c : α) (ex : List Nat) (fuel : Nat) (st : PcdState α) :
    pcdLoopF x c ex (fuel + 1) st = pcdLoopF x c ex fuel (pcdStepF x c ex st) := rfl

/-- the definition's (undivided) crowding sum of a live non-extreme point -/
def sumF (f : List (List α)) (M : Nat) (live : List Nat) (i : Nat) : Ext α :=
  (List.range M).foldl (fun acc m => Ext.add acc (Ext.fin (gapF f M live i m))) (Ext.fin 0)

/-- the columns the kernel maintains -/
def colsOf (f : List (List α)) (M : Nat) (live : List Nat) : List (List Nat) :=
  (List.range M).map fun m => padLast (Scol f m live) f.length

/-- the kernel's row of gaps of point `i` -/
def rowK (f : List (List α)) (M : Nat) (c : α) (live : List Nat) (i : Nat) : List (Ext α) :=
  rowOf (normalizeCols f M) c (fun m => Scol f m live) M i

theorem rowK_length (f : List (List α)) (M : Nat) (c : α) (live : List Nat) (i : Nat) : (rowK f M c live i).length = M := by
  simp [rowK, rowOf]

/-- what the kernel sums for a point = the definition's sum divided by `c` -/
theorem rowK_sum (f : List (List α)) (M : Nat) (c : α) (live : List Nat) (i : Nat) :
    (rowK f M c live i).foldl Ext.add (Ext.fin 0) = Ext.mapFin (· / c) (sumF f M live i) := by
  unfold rowK rowOf sumF
  rw [List.foldl_map, div_fold]
  have : Ext.mapFin (· / c) (Ext.fin (0 : α)) = Ext.fin 0 := by simp [Ext.mapFin]
  rw [this]
  apply List.foldl_ext
  intro acc m hm
  congr 2
  unfold gapF
  simp only []
  ring

/-- removing a point that is not adjacent to `i` in column `m` leaves the neighbours of `i` unchanged -/
theorem neighbours_stable (f : List (List α)) (M : Nat) (live : List Nat) (hl : LiveOK f M live) (hmax : AllMaxOnce f M)
    (r : Nat) (hr : r ∈ live) (hrne : r ∉ extremesFirst f M) (i : Nat) (hi : i ∈ live) (hir : i ≠ r)
    (hine : i ∉ extremesFirst f M) (m : Nat) (hm : m < M)
    (h1 : i ≠ prevOf (Scol f m live) r) (h2 : i ≠ nextOf (Scol f m live) r) :
    prevOf (Scol f m (live.filter (· != r))) i = prevOf (Scol f m live) i ∧
      nextOf (Scol f m (live.filter (· != r))) i = nextOf (Scol f m live) i := by
  obtain ⟨hnd, _, _, himem, hi0, hi1⟩ := col_facts f M live hl hmax i hi hine m hm
  obtain ⟨_, _, _, hrmem, hr0, hr1⟩ := col_facts f M live hl hmax r hr hrne m hm
  have hS : Scol f m (live.filter (· != r)) = (Scol f m live).filter (· != r) :=
    (sortedLive_filter (vf f m) live hl.pw _).symm
  rw [hS]
  have hp : prevOf (Scol f m live) i ≠ r := by
    intro h
    apply h2
    rw [← h, next_of_prev _ hnd i himem hi0]
  have hn : nextOf (Scol f m live) i ≠ r := by
    intro h
    apply h1
    rw [← h, prev_of_next _ hnd i himem hi1]
  obtain ⟨a, b, _⟩ := neighbours_erase (Scol f m live) hnd r i hrmem himem hir ⟨hi0, hi1⟩ hp hn
  exact ⟨a, b⟩


/-- simulation invariant between the kernel state and the definition's crowding array `dF` -/
structure KInv (f : List (List α)) (M : Nat) (c : α) (st : PcdState α) (live : List Nat) (dF : List (Ext α)) : Prop where
  h_eq : st.h = live
  cols_eq : st.cols = colsOf f M live
  dmat_len : st.dmat.length = f.length
  dmat_rows : ∀ i, i < st.dmat.length → (st.dmat.getD i []).length = M
  dmat_live : ∀ i ∈ live, i ∉ extremesFirst f M → st.dmat.getD i [] = rowK f M c live i
  d_eq : st.d = dF.map (Ext.mapFin (· / c))
  dF_scratch : ∃ old, dF = pcdScratch (normalizeCols f M) live M (extremesFirst f M) f.length old
  ok : st.ok = true

theorem scratch_length (x : List (List α)) (live : List Nat) (M : Nat) (ex : List Nat) (n : Nat) (old : List (Ext α)) :
    (pcdScratch x live M ex n old).length = n := by
  simp [pcdScratch]

theorem contains_iff (ex : List Nat) (i : Nat) : ex.contains i = true ↔ i ∈ ex := by simp

theorem liveOK_filter (f : List (List α)) (M : Nat) (live : List Nat) (hl : LiveOK f M live) (r : Nat)
    (hr : r ∉ extremesFirst f M) : LiveOK f M (live.filter (· != r)) := by
  refine ⟨hl.pw.filter _, fun i hi => hl.lt i (List.mem_filter.mp hi).1, fun e he => ?_⟩
  rw [List.mem_filter]
  refine ⟨hl.ex_in e he, ?_⟩
  simp only [bne_iff_ne, ne_eq]
  intro h; subst h; exact hr he

/-- **one pass of the loop keeps the simulation**: the kernel and the definition remove the same point,
the kernel's index arithmetic stays in range, and its lazily updated arrays agree with the
definition's from-scratch recomputation -/
theorem step_inv (f : List (List α)) (M : Nat) (c : α) (hc : 0 < c) (hmax : AllMaxOnce f M)
    (st : PcdState α) (live : List Nat) (dF : List (Ext α)) (hl : LiveOK f M live)
    (hinv : KInv f M c st live dF) (j : Nat) (hj : j ∈ live) (hjne : j ∉ extremesFirst f M) :
    ∃ r, dropLast dF live = some r ∧ r ∈ live ∧ r ∉ extremesFirst f M ∧
      KInv f M c (pcdStepF (normalizeCols f M) c (extremesFirst f M) st) (live.filter (· != r))
        (pcdScratch (normalizeCols f M) (live.filter (· != r)) M (extremesFirst f M) f.length dF) := by
  set x := normalizeCols f M with hx
  set ex := extremesFirst f M with hex
  set n := f.length with hn
  obtain ⟨old, hold⟩ := hinv.dF_scratch
  have hxlen : x.length = n := normalize_length f M
  -- values of the definition's array
  have hdF : ∀ i, i < n → dF.getD i Ext.top =
      if ex.contains i then Ext.top else if i ∈ live then sumF f M live i else old.getD i Ext.top := by
    intro i hi; rw [hold]; exact scratch_get f M live hl hmax old i hi
  -- the point to drop
  have hsome : ∃ r, dropLast dF live = some r := by
    cases hd : dropLast dF live with
    | some r => exact ⟨r, rfl⟩
    | none =>
      exfalso
      unfold dropLast at hd
      cases live with
      | nil => cases hj
      | cons a t =>
        simp only [List.foldl_cons] at hd
        have : ∀ (l : List Nat) (b : Nat), l.foldl (fun best i => match best with
            | none => some i
            | some b => if Ext.lt (dF.getD b Ext.top) (dF.getD i Ext.top) then some b else some i) (some b) ≠ none := by
          intro l
          induction l with
          | nil => intro b; simp
          | cons y ys ih =>
            intro b
            simp only [List.foldl_cons]
            split <;> exact ih _
        exact this t a hd
  obtain ⟨r, hr⟩ := hsome
  obtain ⟨hrl, hrmin⟩ := C15.dropLast_spec dF live r hr
  have hrne : r ∉ ex := by
    intro hre
    have h1 := hrmin j hj
    rw [hdF r (hl.lt r hrl), hdF j (hl.lt j hj)] at h1
    have e1 : ex.contains r = true := (contains_iff ex r).mpr hre
    have e2 : ex.contains j = false := by
      cases h : ex.contains j
      · rfl
      · exact absurd ((contains_iff ex j).mp h) hjne
    rw [e1, e2] at h1
    simp only [↓reduceIte, Bool.false_eq_true, hj] at h1
    obtain ⟨w, hw⟩ := fold_fin_isFin (fun m => gapF f M live j m) (List.range M) 0
    unfold sumF at h1
    rw [hw] at h1
    simp [extLe, Ext.lt] at h1
  refine ⟨r, hr, hrl, hrne, ?_⟩
  have hl' := liveOK_filter f M live hl r hrne
  set live' := live.filter (· != r) with hlive'
  -- the kernel picks the same point
  have hk : (dropLast st.d live).getD 0 = r := by
    rw [hinv.d_eq, dropLast_map c hc, hr]; rfl
  -- columns of the removed point
  have hrcols : ∀ m ∈ List.range M, (Scol f m live).Nodup ∧ (Scol f m live).length ≤ n ∧ r ∈ Scol f m live ∧
      Interior (Scol f m live) r := by
    intro m hm
    obtain ⟨a1, a2, _, a4, a5⟩ := col_facts f M live hl hmax r hrl hrne m (List.mem_range.mp hm)
    exact ⟨a1, a2, a4, a5⟩
  obtain ⟨its, hits, hmemits⟩ := getCalcItems_eval (fun m => Scol f m live) n r (List.range M) [] [] true hrcols
  have hScol' : ∀ m, (Scol f m live).filter (· != r) = Scol f m live' := fun m =>
    sortedLive_filter (vf f m) live hl.pw _
  have hgci : pcdGetCalcItems r st.cols = (colsOf f M live', (its, true)) := by
    unfold pcdGetCalcItems
    rw [hinv.cols_eq]
    unfold colsOf
    rw [hits]
    simp only [List.nil_append, hScol']
    rfl
  -- items to recompute
  set items := its.filter (fun i => !ex.contains i) with hitems
  have hitem_facts : ∀ i ∈ items, i ∈ live' ∧ i ∉ ex := by
    intro i hi
    rw [hitems, List.mem_filter] at hi
    obtain ⟨hi1, hi2⟩ := hi
    have hie : i ∉ ex := by
      intro h; rw [(contains_iff ex i).mpr h] at hi2; simp at hi2
    refine ⟨?_, hie⟩
    rw [hmemits] at hi1
    rcases hi1 with hi1 | ⟨m, hm, hi1⟩
    · cases hi1
    · obtain ⟨a1, a2, a3, a4, a5, a6⟩ := col_facts f M live hl hmax r hrl hrne m (List.mem_range.mp hm)
      rw [hlive', List.mem_filter]
      rcases hi1 with rfl | rfl
      · exact ⟨(sortedLive_mem _ _ _).mp (prevOf_mem _ r a4), by simpa using prevOf_ne _ a1 r a4 a5⟩
      · exact ⟨(sortedLive_mem _ _ _).mp (nextOf_mem _ r a6), by simpa using nextOf_ne _ a1 r a4 a6⟩
  have hiter := iter_eval x c (fun m => Scol f m live') n M (st.ok && true) hxlen items st.dmat hinv.dmat_rows
    (by
      intro i hi
      obtain ⟨h1, h2⟩ := hitem_facts i hi
      refine ⟨by rw [hinv.dmat_len]; exact hl'.lt i h1, fun m hm => ?_⟩
      exact col_facts f M live' hl' hmax i h1 h2 m hm)
  -- unfold the step
  have hstep : pcdStepF x c ex st =
      { cols := colsOf f M live',
        dmat := items.foldl (fun dm i => dm.set i (rowK f M c live' i)) st.dmat,
        d := pcdCalcD (items.foldl (fun dm i => dm.set i (rowK f M c live' i)) st.dmat) items st.d,
        h := live', ok := st.ok && true } := by
    unfold pcdStepF
    simp only [hinv.h_eq, hk, hgci]
    rw [show (List.filter (fun i => !ex.contains i) its) = items from rfl]
    unfold colsOf
    rw [hiter]
    rfl
  rw [hstep]
  obtain ⟨hdl, hdg⟩ := foldl_set_getD (fun i => rowK f M c live' i) ([] : List (Ext α)) items st.dmat
  set dmat' := items.foldl (fun dm i => dm.set i (rowK f M c live' i)) st.dmat with hdmat'
  -- rows of live non-extreme points after the pass
  have hrows' : ∀ i ∈ live', i ∉ ex → dmat'.getD i [] = rowK f M c live' i := by
    intro i hi hie
    rw [hdg i]
    have hil : i ∈ live := (List.mem_filter.mp hi).1
    have hir : i ≠ r := by simpa using (List.mem_filter.mp hi).2
    by_cases hit : i ∈ items
    · rw [if_pos ⟨hit, by rw [hinv.dmat_len]; exact hl.lt i hil⟩]
    · rw [if_neg (fun h => hit h.1), hinv.dmat_live i hil hie]
      unfold rowK rowOf
      apply List.map_congr_left
      intro m hm
      have hnotits : i ∉ its := by
        intro h
        apply hit
        rw [hitems, List.mem_filter]
        refine ⟨h, ?_⟩
        cases hcc : ex.contains i
        · rfl
        · exact absurd ((contains_iff ex i).mp hcc) hie
      have hna : i ≠ prevOf (Scol f m live) r ∧ i ≠ nextOf (Scol f m live) r := by
        constructor
        · intro h; apply hnotits; rw [hmemits]; exact Or.inr ⟨m, hm, Or.inl h⟩
        · intro h; apply hnotits; rw [hmemits]; exact Or.inr ⟨m, hm, Or.inr h⟩
      obtain ⟨e1, e2⟩ := neighbours_stable f M live hl hmax r hrl hrne i hil hir hie m (List.mem_range.mp hm) hna.1 hna.2
      rw [hlive', e1, e2]
  refine ⟨rfl, rfl, by rw [hdl]; exact hinv.dmat_len, ?_, hrows', ?_, ⟨dF, rfl⟩, by simp [hinv.ok]⟩
  · intro i hi
    rw [hdl] at hi
    rw [hdg i]
    split
    · exact rowK_length f M c live' i
    · exact hinv.dmat_rows i hi
  · -- the crowding arrays
    unfold pcdCalcD
    obtain ⟨hcl, hcg⟩ := foldl_set_getD (fun i => (dmat'.getD i []).foldl Ext.add (Ext.fin 0)) (Ext.top : Ext α) items st.d
    have hdlen : st.d.length = n := by
      rw [hinv.d_eq, List.length_map, hold]; exact scratch_length _ _ _ _ _ _
    apply ext_getD (Ext.top : Ext α)
    · rw [hcl, hdlen, List.length_map]; exact (scratch_length _ _ _ _ _ _).symm
    · intro i hi
      rw [hcl, hdlen] at hi
      rw [hcg i, getD_map_mapFin, scratch_get f M live' hl' hmax dF i hi]
      by_cases hit : i ∈ items
      · obtain ⟨h1, h2⟩ := hitem_facts i hit
        rw [if_pos ⟨hit, by rw [hdlen]; exact hi⟩, hrows' i h1 h2, rowK_sum]
        have : ex.contains i = false := by
          cases hcc : ex.contains i
          · rfl
          · exact absurd ((contains_iff ex i).mp hcc) h2
        rw [this]
        simp only [Bool.false_eq_true, ↓reduceIte, h1]
        rfl
      · rw [if_neg (fun h => hit h.1), hinv.d_eq, getD_map_mapFin, hdF i hi]
        by_cases hie : i ∈ ex
        · rw [(contains_iff ex i).mpr hie]; simp [Ext.mapFin]
        · have hcf : ex.contains i = false := by
            cases hcc : ex.contains i
            · rfl
            · exact absurd ((contains_iff ex i).mp hcc) hie
          rw [hcf]
          simp only [Bool.false_eq_true, ↓reduceIte]
          by_cases hil' : i ∈ live'
          · have hil : i ∈ live := (List.mem_filter.mp hil').1
            have hir : i ≠ r := by simpa using (List.mem_filter.mp hil').2
            rw [if_pos hil, if_pos hil']
            congr 1
            -- same neighbours in every column: the point was not adjacent to the removed one
            unfold sumF
            apply List.foldl_ext
            intro acc m hm
            congr 2
            have hnotits : i ∉ its := by
              intro h
              apply hit
              rw [hitems, List.mem_filter]
              exact ⟨h, by rw [hcf]; rfl⟩
            have hna : i ≠ prevOf (Scol f m live) r ∧ i ≠ nextOf (Scol f m live) r := by
              constructor
              · intro h; apply hnotits; rw [hmemits]; exact Or.inr ⟨m, hm, Or.inl h⟩
              · intro h; apply hnotits; rw [hmemits]; exact Or.inr ⟨m, hm, Or.inr h⟩
            obtain ⟨e1, e2⟩ := neighbours_stable f M live hl hmax r hrl hrne i hil hir hie m (List.mem_range.mp hm) hna.1 hna.2
            unfold gapF
            simp only []
            rw [hlive', e1, e2]
          · rw [if_neg hil']

end C13
end Pymoode
