/-
C13, continued: the index arithmetic behind the compiled pcd kernel's neighbour look-ups
`I[n-1, m]`, `I[n+1, m]` (pruning_cd.pyx:152-153).

The kernel visits, for every point `i` that is not an extreme, the position `n` of `i` in the stably
sorted column `m` and reads rows `n-1` and `n+1` of the index table. These reads are in range iff
`0 < n < N-1`. Proved here: position 0 of the stable sort is the *first* arg-min (always an extreme),
and position N-1 is the first arg-max **iff the maximum is attained once**; hence under
`PcdSafePre` (every objective's maximum attained once) no non-extreme point sits at either end —
the first pass (`n_remove ≤ 1`) of the kernel stays inside its arrays. When the maximum is attained
twice the last position holds a point that need not be an extreme: that is known finding F2.
This is a statement about the model's pure pieces; that the array interpreter `pcdKernel` reports
no out-of-bounds access exactly under this predicate is cross-checked by the driver on every record.
-/
import PymoodeProofs.C13b

set_option linter.unusedSectionVars false
set_option linter.unusedVariables false

namespace Pymoode
namespace C13

variable {α : Type} [Field α] [LinearOrder α] [IsStrictOrderedRing α] [Inhabited α]

/-- "`r` is the first index holding the minimum of `col`" -/
def FirstMin (col : List α) (r : Nat) : Prop :=
  r < col.length ∧ (∀ k, k < col.length → col.getD r default ≤ col.getD k default) ∧
    (∀ k, k < r → col.getD r default < col.getD k default)

def FirstMax (col : List α) (r : Nat) : Prop :=
  r < col.length ∧ (∀ k, k < col.length → col.getD k default ≤ col.getD r default) ∧
    (∀ k, k < r → col.getD k default < col.getD r default)

theorem FirstMin.unique {col : List α} {a b : Nat} (ha : FirstMin col a) (hb : FirstMin col b) : a = b := by
  rcases Nat.lt_trichotomy a b with h | h | h
  · have := hb.2.2 a h
    have := ha.2.1 b hb.1
    exact absurd (lt_of_lt_of_le ‹_› ‹_›) (lt_irrefl _)
  · exact h
  · have := ha.2.2 b h
    have := hb.2.1 a ha.1
    exact absurd (lt_of_lt_of_le ‹_› ‹_›) (lt_irrefl _)

/-- the scan of `np.argmin` / `c_get_argmin` (strict `<`) returns the first index of the minimum -/
theorem argminFirst_go_first (full : List α) : ∀ (l : List α) (best : α) (bi i : Nat),
    full.getD bi default = best → bi < i → i + l.length = full.length →
    (∀ k, k < l.length → full.getD (i + k) default = l.getD k default) →
    (∀ k, k < i → best ≤ full.getD k default) → (∀ k, k < bi → best < full.getD k default) →
    FirstMin full (argminFirst.go best bi i l)
  | [], best, bi, i, hb, hbi, hlen, _, hall, hfirst => by
      simp only [argminFirst.go]
      simp only [List.length_nil, Nat.add_zero] at hlen
      refine ⟨by omega, fun k hk => ?_, fun k hk => ?_⟩
      · rw [hb]; exact hall k (by omega)
      · rw [hb]; exact hfirst k hk
  | x :: xs, best, bi, i, hb, hbi, hlen, hsuf, hall, hfirst => by
      simp only [argminFirst.go]
      have hx : full.getD i default = x := by simpa using hsuf 0 (by simp)
      have hsuf' : ∀ k, k < xs.length → full.getD (i + 1 + k) default = xs.getD k default := by
        intro k hk
        have := hsuf (k + 1) (by simp; omega)
        simpa [Nat.add_assoc, Nat.add_comm 1 k] using this
      have hlen' : i + 1 + xs.length = full.length := by simp at hlen; omega
      split
      · rename_i hlt
        apply argminFirst_go_first full xs x i (i + 1) hx (by omega) hlen' hsuf'
        · intro k hk
          rcases Nat.lt_or_ge k i with h | h
          · exact le_trans (le_of_lt hlt) (hall k h)
          · have : k = i := by omega
            subst this; rw [hx]
        · intro k hk
          exact lt_of_lt_of_le hlt (hall k hk)
      · rename_i hnlt
        apply argminFirst_go_first full xs best bi (i + 1) hb (by omega) hlen' hsuf'
        · intro k hk
          rcases Nat.lt_or_ge k i with h | h
          · exact hall k h
          · have : k = i := by omega
            subst this; rw [hx]; exact not_lt.mp hnlt
        · exact hfirst

theorem argminFirst_firstMin (col : List α) (hne : col ≠ []) : FirstMin col (argminFirst col) := by
  cases col with
  | nil => exact absurd rfl hne
  | cons a t =>
    simp only [argminFirst]
    apply argminFirst_go_first (a :: t) t a 0 1 (by simp) (by omega) (by simp; omega)
    · intro k hk; simp [Nat.add_comm 1 k]
    · intro k hk
      have : k = 0 := by omega
      subst this; simp
    · intro k hk; omega

theorem argmaxFirst_go_first (full : List α) : ∀ (l : List α) (best : α) (bi i : Nat),
    full.getD bi default = best → bi < i → i + l.length = full.length →
    (∀ k, k < l.length → full.getD (i + k) default = l.getD k default) →
    (∀ k, k < i → full.getD k default ≤ best) → (∀ k, k < bi → full.getD k default < best) →
    FirstMax full (argmaxFirst.go best bi i l)
  | [], best, bi, i, hb, hbi, hlen, _, hall, hfirst => by
      simp only [argmaxFirst.go]
      simp only [List.length_nil, Nat.add_zero] at hlen
      refine ⟨by omega, fun k hk => ?_, fun k hk => ?_⟩
      · rw [hb]; exact hall k (by omega)
      · rw [hb]; exact hfirst k hk
  | x :: xs, best, bi, i, hb, hbi, hlen, hsuf, hall, hfirst => by
      simp only [argmaxFirst.go]
      have hx : full.getD i default = x := by simpa using hsuf 0 (by simp)
      have hsuf' : ∀ k, k < xs.length → full.getD (i + 1 + k) default = xs.getD k default := by
        intro k hk
        have := hsuf (k + 1) (by simp; omega)
        simpa [Nat.add_assoc, Nat.add_comm 1 k] using this
      have hlen' : i + 1 + xs.length = full.length := by simp at hlen; omega
      split
      · rename_i hlt
        apply argmaxFirst_go_first full xs x i (i + 1) hx (by omega) hlen' hsuf'
        · intro k hk
          rcases Nat.lt_or_ge k i with h | h
          · exact le_trans (hall k h) (le_of_lt hlt)
          · have : k = i := by omega
            subst this; rw [hx]
        · intro k hk
          exact lt_of_le_of_lt (hall k hk) hlt
      · rename_i hnlt
        apply argmaxFirst_go_first full xs best bi (i + 1) hb (by omega) hlen' hsuf'
        · intro k hk
          rcases Nat.lt_or_ge k i with h | h
          · exact hall k h
          · have : k = i := by omega
            subst this; rw [hx]; exact not_lt.mp hnlt
        · exact hfirst

theorem argmaxFirst_firstMax (col : List α) (hne : col ≠ []) : FirstMax col (argmaxFirst col) := by
  cases col with
  | nil => exact absurd rfl hne
  | cons a t =>
    simp only [argmaxFirst]
    apply argmaxFirst_go_first (a :: t) t a 0 1 (by simp) (by omega) (by simp; omega)
    · intro k hk; simp [Nat.add_comm 1 k]
    · intro k hk
      have : k = 0 := by omega
      subst this; simp
    · intro k hk; omega

theorem pair_sublist_range (a b : Nat) : ∀ (n : Nat), a < b → b < n → List.Sublist [a, b] (List.range n)
  | 0, _, h => by omega
  | n + 1, hab, hb => by
      rw [List.range_succ]
      rcases Nat.lt_or_ge b n with h | h
      · exact (pair_sublist_range a b n hab h).trans (List.sublist_append_left _ _)
      · have hbn : b = n := by omega
        subst hbn
        have h1 : List.Sublist [a] (List.range b) := List.singleton_sublist.mpr (by simpa using hab)
        have : List.Sublist ([a] ++ [b]) (List.range b ++ [b]) := List.Sublist.append h1 (List.Sublist.refl _)
        simpa using this

/-- **position 0 of the stable sort is the first arg-min** (so the point at the lower end of a
sorted column is always one of the kernel's extremes) -/
theorem argsort_head_eq_argminFirst (col : List α) (hne : col ≠ []) :
    (argsortStable col).getD 0 0 = argminFirst col := by
  have hn : 0 < col.length := List.length_pos_iff.mpr hne
  set order := argsortStable col with ho
  have hperm : order.Perm (List.range col.length) := argsort_perm col
  have hol : order.length = col.length := by rw [hperm.length_eq]; simp
  have h0 : 0 < order.length := by omega
  have hi0 : order[0] < col.length := by
    have : order[0] ∈ List.range col.length := hperm.subset (List.getElem_mem h0)
    simpa using this
  have hsorted := argsort_sorted col
  apply FirstMin.unique _ (argminFirst_firstMin col hne)
  have hget : order.getD 0 0 = order[0] := by simp [List.getD_eq_getElem?_getD, List.getElem?_eq_getElem h0]
  rw [hget]
  refine ⟨hi0, ?_, ?_⟩
  · -- minimal: every point appears at some sorted position ≥ 0
    intro k hk
    have hkm : k ∈ order := hperm.symm.subset (by simpa using hk)
    have hp := List.idxOf_lt_length_iff.mpr hkm
    have hs := getD_mono _ hsorted 0 (order.idxOf k) (by omega) (by simpa using hp)
    rw [← ho] at hs
    rw [sorted_getD col 0 hn, sorted_getD col _ (by omega)] at hs
    have e2 : (argsortStable col).getD (List.idxOf k order) 0 = k := by
      rw [← ho]
      simp [List.getD_eq_getElem?_getD, List.getElem?_eq_getElem hp, List.getElem_idxOf hp]
    rw [e2, ← ho, hget] at hs
    exact hs
  · -- first: an earlier index with the same value would be placed before it (stability)
    intro k hk
    have hkl : k < col.length := by omega
    by_contra hnot
    have hle : col.getD k default ≤ col.getD order[0] default := not_lt.mp hnot
    have hsub : List.Sublist [k, order[0]] (List.range col.length) := pair_sublist_range k order[0] col.length hk hi0
    have hmin : col.getD order[0] default ≤ col.getD k default := by
      have hkm : k ∈ order := hperm.symm.subset (by simpa using hkl)
      have hp := List.idxOf_lt_length_iff.mpr hkm
      have hs := getD_mono _ hsorted 0 (order.idxOf k) (by omega) (by simpa using hp)
      rw [sorted_getD col 0 hn, sorted_getD col _ (by omega)] at hs
      have e2 : (argsortStable col).getD (List.idxOf k order) 0 = k := by
        show order.getD (List.idxOf k order) 0 = k
        simp [List.getD_eq_getElem?_getD, List.getElem?_eq_getElem hp, List.getElem_idxOf hp]
      have e0 : (argsortStable col).getD 0 0 = order[0] := hget
      rw [e2, e0] at hs
      exact hs
    have hsub2 : List.Sublist [k, order[0]] order := by
      have := List.pair_sublist_mergeSort (l := List.range col.length)
        (le := fun i j => !decide (col.getD j default < col.getD i default))
        (fun a b c h1 h2 => by
          simp only [Bool.not_eq_eq_eq_not, Bool.not_true, decide_eq_false_iff_not, not_lt] at *
          exact le_trans h1 h2)
        (fun a b => by
          simp only [Bool.or_eq_true, Bool.not_eq_eq_eq_not, Bool.not_true, decide_eq_false_iff_not, not_lt]
          exact le_total _ _)
        (a := k) (b := order[0])
        (by simp only [Bool.not_eq_eq_eq_not, Bool.not_true, decide_eq_false_iff_not, not_lt]; exact hle)
        hsub
      exact this
    -- but order[0] is the head of `order`
    have hnd : order.Nodup := hperm.nodup_iff.mpr List.nodup_range
    cases hord : order with
    | nil => rw [hord] at h0; simp at h0
    | cons a t =>
      have ha : order[0] = a := by simp [hord]
      rw [ha, hord] at hsub2
      have hne : k ≠ a := by rw [← ha]; omega
      cases hsub2 with
      | cons _ h =>
        have : a ∈ t := h.subset (by simp)
        rw [hord] at hnd
        exact (List.nodup_cons.mp hnd).1 this
      | cons_cons _ h => exact hne rfl

/-- **position N−1 of the stable sort is the first arg-max when the maximum is attained once** -/
theorem argsort_last_eq_argmaxFirst (col : List α) (hne : col ≠ [])
    (huniq : ∀ a b, a < col.length → b < col.length →
      (∀ k, k < col.length → col.getD k default ≤ col.getD a default) →
      (∀ k, k < col.length → col.getD k default ≤ col.getD b default) → a = b) :
    (argsortStable col).getD (col.length - 1) 0 = argmaxFirst col := by
  have hn : 0 < col.length := List.length_pos_iff.mpr hne
  set order := argsortStable col with ho
  have hperm : order.Perm (List.range col.length) := argsort_perm col
  have hol : order.length = col.length := by rw [hperm.length_eq]; simp
  have h1 : col.length - 1 < order.length := by omega
  have hlast : col.length - 1 < col.length := by omega
  have hi1 : order[col.length - 1] < col.length := by
    have : order[col.length - 1] ∈ List.range col.length := hperm.subset (List.getElem_mem h1)
    simpa using this
  have hsorted := argsort_sorted col
  have hget : order.getD (col.length - 1) 0 = order[col.length - 1] := by
    simp [List.getD_eq_getElem?_getD, List.getElem?_eq_getElem h1]
  rw [hget]
  have hfm := argmaxFirst_firstMax col hne
  apply huniq _ _ hi1 hfm.1 _ hfm.2.1
  intro k hk
  have hkm : k ∈ order := hperm.symm.subset (by simpa using hk)
  have hp := List.idxOf_lt_length_iff.mpr hkm
  have hs := getD_mono _ hsorted (order.idxOf k) (col.length - 1) (by omega) (by simp [← ho, hol]; omega)
  rw [← ho] at hs
  rw [sorted_getD col _ (by omega), sorted_getD col _ hlast] at hs
  have e2 : (argsortStable col).getD (List.idxOf k order) 0 = k := by
    rw [← ho]
    simp [List.getD_eq_getElem?_getD, List.getElem?_eq_getElem hp, List.getElem_idxOf hp]
  rw [e2, ← ho, hget] at hs
  exact hs

/-- `PcdSafePre`: every objective's maximum is attained by exactly one point -/
def MaxOnce (col : List α) : Prop :=
  ∀ a b, a < col.length → b < col.length →
    (∀ k, k < col.length → col.getD k default ≤ col.getD a default) →
    (∀ k, k < col.length → col.getD k default ≤ col.getD b default) → a = b

/-- **first pass of the compiled pcd kernel stays inside the index table** (partial: `n_remove ≤ 1`):
a point that is neither the first arg-min nor the first arg-max of column `m` sits at a position
`0 < n < N−1` of that sorted column, provided the column's maximum is attained once — so
`I[n−1, m]` and `I[n+1, m]` are in range for every point the kernel visits -/
theorem pcd_first_pass_safe_partial (col : List α) (hne : col ≠ []) (hmax : MaxOnce col)
    (i : Nat) (hi : i < col.length) (hnmin : i ≠ argminFirst col) (hnmax : i ≠ argmaxFirst col) :
    0 < (argsortStable col).idxOf i ∧ (argsortStable col).idxOf i + 1 < col.length := by
  have hperm := argsort_perm col
  have hol : (argsortStable col).length = col.length := by rw [hperm.length_eq]; simp
  have him : i ∈ argsortStable col := hperm.symm.subset (by simpa using hi)
  have hp := List.idxOf_lt_length_iff.mpr him
  have hval := List.getElem_idxOf hp
  constructor
  · by_contra h0
    have hz : (argsortStable col).idxOf i = 0 := by omega
    have := argsort_head_eq_argminFirst col hne
    have e : (argsortStable col).getD 0 0 = i := by
      have h00 : 0 < (argsortStable col).length := by omega
      simp only [List.getD_eq_getElem?_getD, List.getElem?_eq_getElem h00, Option.getD_some]
      simp only [hz] at hval
      exact hval
    rw [e] at this
    exact hnmin this
  · by_contra h1
    have hz : (argsortStable col).idxOf i = col.length - 1 := by omega
    have := argsort_last_eq_argmaxFirst col hne hmax
    have e : (argsortStable col).getD (col.length - 1) 0 = i := by
      have h00 : col.length - 1 < (argsortStable col).length := by omega
      simp only [List.getD_eq_getElem?_getD, List.getElem?_eq_getElem h00, Option.getD_some]
      simp only [hz] at hval
      exact hval
    rw [e] at this
    exact hnmax this

end C13
end Pymoode
