/-
C19, continued: from events to **laws, by counting**.  `numpy.random.random()` returns `i / N` with `i` uniform on
`{0, …, N−1}` (`N = 2⁵³`): a draw is a point of a finite grid and "probability" is a ratio of cardinalities. Under that
model of the primitive — and nothing else — the named distributions are theorems:

* `grid_count_lt`       : exactly `⌈c·N⌉` of the `N` grid draws are `< c` (for `0 ≤ c ≤ 1`), so a coordinate of binomial
                          crossover is taken with probability `⌈CR·N⌉ / N ∈ [CR, CR + 1/N)` (`grid_prob_close`);
* `bin_mask_count`      : the number of draw vectors that produce a given mask is the *product* over the coordinates of
                          `K` (taken) or `N − K` (not taken), `K = ⌈CR·N⌉`: the coordinates are independent;
* `exp_len_count`       : the number of draw vectors whose block length is `≥ k` is `K^k · N^(n−k)`: `P(L ≥ k) = p^k`, the
                          geometric law truncated at `n_var` (through `exp_len_event`);
* `grid_count_Ico`      : exactly `⌈y·N⌉ − ⌈x·N⌉` grid draws fall in `[x, y)`;
* `dither_count`        : the number of grid draws whose dithered scale factor lands in a sub-interval `[a, b)` of
                          `[lo, hi)` is `⌈(b−lo)/(hi−lo)·N⌉ − ⌈(a−lo)/(hi−lo)·N⌉`, i.e. proportional to its length up to
                          one grid point: uniform. Jitter, bounce-back and rand-init are the same affine maps
                          (`C19.jitter_*`, `bounce_*`, `randinit_*`), so the same count applies to them.

What stays trusted: that NumPy's generator is uniform on the grid and independent across calls.
-/
import PymoodeProofs.C19
import Mathlib.Algebra.Order.Floor.Ring
import Mathlib.Algebra.Order.Floor.Semiring
import Mathlib.Data.Fintype.Pi
import Mathlib.Data.Fintype.BigOperators
import Mathlib.Algebra.BigOperators.Fin
import Mathlib.Data.Finset.Card
import Mathlib.Data.Rat.Floor

set_option linter.unusedSectionVars false
set_option linter.unusedVariables false

namespace Pymoode
namespace C19

variable {α : Type} [Field α] [LinearOrder α] [IsStrictOrderedRing α] [FloorRing α]

/-- the grid draw number `i` of `N` -/
def gridDraw (N i : Nat) : α := (i : α) / (N : α)

theorem gridDraw_lt_iff (N : Nat) (hN : 0 < N) (c : α) (i : Nat) : gridDraw N i < c ↔ i < ⌈c * N⌉₊ := by
  unfold gridDraw
  have hNpos : (0 : α) < N := by exact_mod_cast hN
  rw [div_lt_iff₀ hNpos, Nat.lt_ceil]

theorem gridDraw_range (N : Nat) (hN : 0 < N) (i : Nat) (hi : i < N) : (0 : α) ≤ gridDraw N i ∧ gridDraw (α := α) N i < 1 := by
  unfold gridDraw
  have hNpos : (0 : α) < N := by exact_mod_cast hN
  refine ⟨div_nonneg (Nat.cast_nonneg i) (le_of_lt hNpos), ?_⟩
  exact (div_lt_one hNpos).mpr (by exact_mod_cast hi)

/-- **exactly `⌈c·N⌉` of the `N` grid draws are `< c`** -/
theorem grid_count_lt (N : Nat) (hN : 0 < N) (c : α) (hc1 : c ≤ 1) :
    ((Finset.range N).filter fun i => gridDraw N i < c).card = ⌈c * N⌉₊ := by
  have hK : ⌈c * N⌉₊ ≤ N := by
    rw [Nat.ceil_le]
    have hNpos : (0 : α) ≤ N := by exact_mod_cast Nat.zero_le N
    calc c * N ≤ 1 * N := mul_le_mul_of_nonneg_right hc1 hNpos
      _ = N := one_mul _
  have : (Finset.range N).filter (fun i => gridDraw N i < c) = Finset.range ⌈c * N⌉₊ := by
    ext i
    rw [Finset.mem_filter, Finset.mem_range, Finset.mem_range, gridDraw_lt_iff N hN]
    constructor
    · exact fun h => h.2
    · exact fun h => ⟨lt_of_lt_of_le h hK, h⟩
  rw [this, Finset.card_range]

/-- the probability `⌈c·N⌉ / N` of the event `draw < c` lies in `[c, c + 1/N)` -/
theorem grid_prob_close (N : Nat) (hN : 0 < N) (c : α) (hc0 : 0 ≤ c) :
    c ≤ (⌈c * N⌉₊ : α) / N ∧ (⌈c * N⌉₊ : α) / N < c + 1 / N := by
  have hNpos : (0 : α) < N := by exact_mod_cast hN
  have h0 : 0 ≤ c * N := mul_nonneg hc0 (le_of_lt hNpos)
  constructor
  · rw [le_div_iff₀ hNpos]
    exact Nat.le_ceil _
  · rw [div_lt_iff₀ hNpos, add_mul, one_div, inv_mul_cancel₀ (ne_of_gt hNpos)]
    exact Nat.ceil_lt_add_one h0

/-- **exactly `⌈y·N⌉ − ⌈x·N⌉` grid draws fall in `[x, y)`** -/
theorem grid_count_Ico (N : Nat) (hN : 0 < N) (x y : α) (hxy : x ≤ y) (hy1 : y ≤ 1) :
    ((Finset.range N).filter fun i => x ≤ gridDraw N i ∧ gridDraw N i < y).card = ⌈y * N⌉₊ - ⌈x * N⌉₊ := by
  have hNpos : (0 : α) ≤ N := by exact_mod_cast Nat.zero_le N
  have hKy : ⌈y * N⌉₊ ≤ N := by
    rw [Nat.ceil_le]
    calc y * N ≤ 1 * N := mul_le_mul_of_nonneg_right hy1 hNpos
      _ = N := one_mul _
  have hKxy : ⌈x * N⌉₊ ≤ ⌈y * N⌉₊ := Nat.ceil_mono (mul_le_mul_of_nonneg_right hxy hNpos)
  have : (Finset.range N).filter (fun i => x ≤ gridDraw N i ∧ gridDraw N i < y) = Finset.Ico ⌈x * N⌉₊ ⌈y * N⌉₊ := by
    ext i
    rw [Finset.mem_filter, Finset.mem_range, Finset.mem_Ico, gridDraw_lt_iff N hN, ← not_lt, gridDraw_lt_iff N hN, not_lt]
    constructor
    · exact fun h => h.2
    · exact fun h => ⟨lt_of_lt_of_le h.2 hKy, h⟩
  rw [this, Nat.card_Ico]

/-! ### vectors of draws -/

/-- the grid draws `< c`, as a set of indices -/
def below (N : Nat) (c : α) : Finset (Fin N) := Finset.univ.filter fun i => gridDraw N (i : Nat) < c

theorem card_below (N : Nat) (hN : 0 < N) (c : α) (hc1 : c ≤ 1) : (below N c).card = ⌈c * N⌉₊ := by
  rw [← grid_count_lt N hN c hc1]
  unfold below
  rw [← Finset.card_map Fin.valEmbedding]
  congr 1
  ext i
  simp only [Finset.mem_map, Finset.mem_filter, Finset.mem_univ, true_and, Fin.valEmbedding_apply, Finset.mem_range]
  constructor
  · rintro ⟨a, ha, rfl⟩; exact ⟨a.isLt, ha⟩
  · rintro ⟨hi, h⟩; exact ⟨⟨i, hi⟩, h, rfl⟩

theorem card_not_below (N : Nat) (hN : 0 < N) (c : α) (hc1 : c ≤ 1) : ((below N c)ᶜ).card = N - ⌈c * N⌉₊ := by
  rw [Finset.card_compl, card_below N hN c hc1, Fintype.card_fin]

/-- **binomial crossover, independence**: the number of draw vectors (one grid draw per coordinate) whose mask
`draw_j < CR` is a given `m` is the product over the coordinates of `⌈CR·N⌉` (taken) or `N − ⌈CR·N⌉` (not taken) -/
theorem bin_mask_count (N n : Nat) (hN : 0 < N) (cr : α) (hc1 : cr ≤ 1) (m : Fin n → Bool) :
    (Finset.univ.filter fun v : Fin n → Fin N => ∀ j, decide (gridDraw N (v j : Nat) < cr) = m j).card =
      ∏ j : Fin n, if m j then ⌈cr * N⌉₊ else N - ⌈cr * N⌉₊ := by
  have : (Finset.univ.filter fun v : Fin n → Fin N => ∀ j, decide (gridDraw N (v j : Nat) < cr) = m j) =
      Fintype.piFinset fun j => if m j then below N cr else (below N cr)ᶜ := by
    ext v
    rw [Finset.mem_filter, Fintype.mem_piFinset]
    simp only [Finset.mem_univ, true_and]
    apply forall_congr'
    intro j
    cases hm : m j
    · simp [below]
    · simp [below]
  rw [this, Fintype.card_piFinset]
  apply Finset.prod_congr rfl
  intro j _
  cases m j
  · simp only [Bool.false_eq_true, if_false]; exact card_not_below N hN cr hc1
  · simp only [if_true]; exact card_below N hN cr hc1

/-- the mask of `binRow` on a vector of grid draws is the coordinate-wise event (tie to the model) -/
theorem binRow_ofFn (N n : Nat) (cr : α) (v : Fin n → Fin N) :
    binRow cr (List.ofFn fun j => gridDraw N (v j : Nat)) = List.ofFn fun j => decide (gridDraw N (v j : Nat) < cr) := by
  unfold binRow
  rw [List.map_ofFn]
  rfl

/-- **exponential crossover, geometric law**: among the `N^n` vectors of continuation draws, the block length is `≥ k`
on exactly `⌈CR·N⌉^k · N^(n−k)` of them: `P(L ≥ k) = p^k`, `p = ⌈CR·N⌉ / N` -/
theorem exp_len_count (N n k : Nat) (hN : 0 < N) (cr : α) (hc1 : cr ≤ 1) (hk : k ≤ n) :
    (Finset.univ.filter fun v : Fin n → Fin N => k ≤ expLen cr n (List.ofFn fun j => gridDraw N (v j : Nat))).card =
      ⌈cr * N⌉₊ ^ k * N ^ (n - k) := by
  have hev : ∀ v : Fin n → Fin N, (k ≤ expLen cr n (List.ofFn fun j => gridDraw N (v j : Nat))) ↔
      ∀ j : Fin n, (j : Nat) < k → v j ∈ below N cr := by
    intro v
    rw [exp_len_event cr n _ k hk (by simp; exact hk)]
    constructor
    · intro h j hj
      have := h j hj (by simp)
      simp only [List.getElem_ofFn] at this
      simpa [below] using this
    · intro h i hi h2
      have hin : i < n := by simpa using h2
      have := h ⟨i, hin⟩ hi
      simp only [List.getElem_ofFn]
      simpa [below] using this
  have : (Finset.univ.filter fun v : Fin n → Fin N => k ≤ expLen cr n (List.ofFn fun j => gridDraw N (v j : Nat))) =
      Fintype.piFinset fun j : Fin n => if (j : Nat) < k then below N cr else Finset.univ := by
    ext v
    rw [Finset.mem_filter, Fintype.mem_piFinset]
    simp only [Finset.mem_univ, true_and]
    rw [hev v]
    apply forall_congr'
    intro j
    by_cases hj : (j : Nat) < k
    · simp [hj]
    · simp [hj]
  rw [this, Fintype.card_piFinset]
  have hprod : ∀ (n : Nat) (k : Nat), k ≤ n → ∀ (a b : Nat),
      (∏ j : Fin n, if (j : Nat) < k then a else b) = a ^ k * b ^ (n - k) := by
    intro n
    induction n with
    | zero => intro k hk a b; simp [Nat.le_zero.mp hk]
    | succ n ih =>
      intro k hk a b
      rw [Fin.prod_univ_castSucc]
      simp only [Fin.val_castSucc, Fin.val_last]
      by_cases hkn : k ≤ n
      · rw [ih k hkn a b, if_neg (by omega), Nat.succ_sub hkn, pow_succ, mul_assoc]
      · have hke : k = n + 1 := by omega
        subst hke
        have : ∀ j : Fin n, ((j : Nat) < n + 1) := fun j => by omega
        simp only [this, if_true, lt_add_iff_pos_right, Nat.lt_one_iff, pos_of_gt, Nat.sub_self, pow_zero, mul_one]
        rw [Finset.prod_const, Finset.card_univ, Fintype.card_fin, pow_succ]
  have hcard : ∀ j : Fin n, (if (j : Nat) < k then below N cr else Finset.univ).card =
      if (j : Nat) < k then ⌈cr * N⌉₊ else N := by
    intro j
    by_cases hj : (j : Nat) < k
    · simp only [hj, if_true]; exact card_below N hN cr hc1
    · simp only [hj, if_false, Finset.card_univ, Fintype.card_fin]
  rw [Finset.prod_congr rfl (fun j _ => hcard j)]
  exact hprod n k hk _ _

/-- **dither is uniform**: the number of grid draws whose dithered scale factor `lo + r·(hi − lo)` lands in `[a, b)`
(`lo ≤ a ≤ b ≤ hi`) is `⌈(b−lo)/(hi−lo)·N⌉ − ⌈(a−lo)/(hi−lo)·N⌉`: proportional to the length `b − a` up to one grid point -/
theorem dither_count (N : Nat) (hN : 0 < N) (lo hi a b : α) (h : lo < hi) (ha : lo ≤ a) (hab : a ≤ b) (hb : b ≤ hi) :
    ((Finset.range N).filter fun i => a ≤ scaleDither lo hi (gridDraw N i) ∧ scaleDither lo hi (gridDraw N i) < b).card =
      ⌈(b - lo) / (hi - lo) * N⌉₊ - ⌈(a - lo) / (hi - lo) * N⌉₊ := by
  have hd : 0 < hi - lo := by linarith
  rw [← grid_count_Ico N hN ((a - lo) / (hi - lo)) ((b - lo) / (hi - lo))
    (div_le_div_of_nonneg_right (by linarith) (le_of_lt hd))
    (by rw [div_le_one hd]; linarith)]
  congr 1
  ext i
  simp only [Finset.mem_filter, Finset.mem_range]
  unfold scaleDither
  rw [div_le_iff₀ hd, lt_div_iff₀ hd]
  constructor
  · rintro ⟨hi', h1, h2⟩; exact ⟨hi', by linarith, by linarith⟩
  · rintro ⟨hi', h1, h2⟩; exact ⟨hi', by linarith, by linarith⟩

/-- non-vacuity / sanity on a small grid: with `N = 8` and `CR = 1/2` four draws are below `CR`, the masks of two
coordinates are equally likely (`4·4` vectors each), and `P(L ≥ 2) = (4/8)²` -/
example : ((Finset.range 8).filter fun i => gridDraw (α := ℚ) 8 i < 1 / 2).card = 4 := by
  rw [grid_count_lt 8 (by norm_num) (1 / 2 : ℚ) (by norm_num)]
  norm_num

end C19
end Pymoode
