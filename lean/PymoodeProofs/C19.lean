/-
C19  Stochastic operators sample the distributions their parameters name.   — PARTIAL —

FULL STATEMENT: binomial crossover takes each coordinate independently with probability CR (plus a
forced one when none was drawn); exponential crossover has a block length geometric in CR truncated
at n_var; dithered F is uniform over its range, jitter uniform and centred on 1, random parents
uniform over the admissible individuals, bounce-back / rand-init uniform on their segment.

PROVED: the *events* — each outcome as an exact set of draws of NumPy's primitives: a coordinate is
taken iff its own draw is `< CR`; block length ≥ k iff the first k draws are `< CR`; dither, jitter,
bounce-back and rand-init are strictly increasing (or decreasing) affine bijections of `[0,1)` onto
the stated segment; a re-selected parent is the first admissible candidate offered to its row, and
admissible values are exchangeable (the transposition of two admissible values commutes with the
selection). Under "the primitives are i.i.d. uniform" the named laws follow.
NOT MODELLED: that law of NumPy's generator. The call signatures (`choice(n_pop, …)`,
`randint(0, n_var)`, one `random(n_matings)` per difference …) are compared on every record of the
operator components; the real code is additionally subjected to exact finite-sample tests (binomial
tails, Dvoretzky–Kiefer–Wolfowitz bound) with total false-alarm probability ≤ 1e-9.
-/
import PymoodeProofs.C09
import PymoodeProofs.C10
import PymoodeProofs.C12
import PymoodeModel.Repair
import Mathlib.Tactic.FieldSimp
import Mathlib.Data.Rat.Defs
import Mathlib.Tactic.NormNum

set_option linter.unusedSectionVars false
set_option linter.unusedVariables false

namespace Pymoode
namespace C19

variable {α : Type} [Field α] [LinearOrder α] [IsStrictOrderedRing α]

/-- binomial crossover: coordinate `j` is taken from the mutant iff *its own* draw is `< CR` -/
theorem bin_event (cr : α) (rs : List α) (j : Nat) (h : j < rs.length) :
    (binRow cr rs)[j]'(by simpa [binRow] using h) = true ↔ rs[j] < cr := by
  simp [binRow]

/-- the forced coordinate is used only when nothing was drawn -/
theorem forced_only_when_empty (m : List Bool) (k : Nat) :
    forceOne m k = m ∨ (m.any id = false ∧ forceOne m k = m.set k true) := by
  unfold forceOne
  by_cases h : m.any id = true
  · left; simp [h]
  · right; simp [h]

/-- exponential crossover: block length ≥ k ⇔ the first k continuation draws are all `< CR`
(cylinder sets ⇒ geometric law truncated at `n_var`) -/
theorem exp_len_event (cr : α) (n : Nat) (rs : List α) (k : Nat) (hk : k ≤ n) (hl : k ≤ rs.length) :
    k ≤ expLen cr n rs ↔ ∀ i (_ : i < k) (h2 : i < rs.length), rs[i] < cr :=
  C12.expLen_ge_iff cr n rs k hk hl

/-- dither: strictly increasing affine map of `[0,1)` onto `[lo, hi)` -/
theorem dither_strict_mono (lo hi r r' : α) (h : lo < hi) (hr : r < r') :
    scaleDither lo hi r < scaleDither lo hi r' := by
  unfold scaleDither
  have : 0 < hi - lo := by linarith
  nlinarith

theorem dither_onto (lo hi y : α) (h : lo < hi) (hy : lo ≤ y ∧ y < hi) :
    ∃ r, 0 ≤ r ∧ r < 1 ∧ scaleDither lo hi r = y := by
  have hd : 0 < hi - lo := by linarith
  refine ⟨(y - lo) / (hi - lo), div_nonneg (by linarith) (le_of_lt hd), ?_, ?_⟩
  · rw [div_lt_one hd]; linarith
  · unfold scaleDither
    field_simp
    ring

theorem dither_into (lo hi r : α) (h : lo < hi) (hr0 : 0 ≤ r) (hr1 : r < 1) :
    lo ≤ scaleDither lo hi r ∧ scaleDither lo hi r < hi := by
  unfold scaleDither
  have : 0 < hi - lo := by linarith
  constructor <;> nlinarith

/-- jitter: strictly increasing affine map of `[0,1)` onto `[1 − γ/2, 1 + γ/2)`, centred on 1 -/
theorem jitter_strict_mono (γ r r' : α) (hγ : 0 < γ) (hr : r < r') : jitterFactor γ r < jitterFactor γ r' := by
  unfold jitterFactor; nlinarith

theorem jitter_onto (γ y : α) (hγ : 0 < γ) (hy : 1 - γ / 2 ≤ y ∧ y < 1 + γ / 2) :
    ∃ r, 0 ≤ r ∧ r < 1 ∧ jitterFactor γ r = y := by
  refine ⟨(y - 1) / γ + 1 / 2, ?_, ?_, ?_⟩
  · have : -(1/2) ≤ (y - 1) / γ := by
      rw [le_div_iff₀ hγ]; linarith
    linarith
  · have : (y - 1) / γ < 1 / 2 := by
      rw [div_lt_iff₀ hγ]; linarith
    linarith
  · unfold jitterFactor
    field_simp
    ring

/-- bounce-back (lower violation): strictly increasing affine map of `[0,1)` onto `[xl, xb)` -/
theorem bounce_low_affine (xl xu xb r r' : α) (h : xl < xb) (hr : r < r') :
    repairLow .bounceBack xl xu xb r < repairLow .bounceBack xl xu xb r' := by
  simp only [repairLow]
  have : 0 < xb - xl := by linarith
  nlinarith

theorem bounce_low_onto (xl xu xb y : α) (h : xl < xb) (hy : xl ≤ y ∧ y < xb) :
    ∃ r, 0 ≤ r ∧ r < 1 ∧ repairLow .bounceBack xl xu xb r = y := by
  have hd : 0 < xb - xl := by linarith
  refine ⟨(y - xl) / (xb - xl), div_nonneg (by linarith) (le_of_lt hd), ?_, ?_⟩
  · rw [div_lt_one hd]; linarith
  · simp only [repairLow]
    field_simp
    ring

/-- bounce-back (upper violation): strictly decreasing affine map of `[0,1)` onto `(xb, xu]` -/
theorem bounce_up_affine (xl xu xb r r' : α) (h : xb < xu) (hr : r < r') :
    repairUp .bounceBack xl xu xb r' < repairUp .bounceBack xl xu xb r := by
  simp only [repairUp]
  have : 0 < xu - xb := by linarith
  nlinarith

/-- rand-init: affine onto the whole range of the variable -/
theorem randinit_low_onto (xl xu xb y : α) (h : xl < xu) (hy : xl ≤ y ∧ y < xu) :
    ∃ r, 0 ≤ r ∧ r < 1 ∧ repairLow .randInit xl xu xb r = y := by
  have hd : 0 < xu - xl := by linarith
  refine ⟨(y - xl) / (xu - xl), div_nonneg (by linarith) (le_of_lt hd), ?_, ?_⟩
  · rw [div_lt_one hd]; linarith
  · simp only [repairLow]
    field_simp
    ring

theorem randinit_up_onto (xl xu xb y : α) (h : xl < xu) (hy : xl < y ∧ y ≤ xu) :
    ∃ r, 0 ≤ r ∧ r < 1 ∧ repairUp .randInit xl xu xb r = y := by
  have hd : 0 < xu - xl := by linarith
  refine ⟨(xu - y) / (xu - xl), div_nonneg (by linarith) (le_of_lt hd), ?_, ?_⟩
  · rw [div_lt_one hd]; linarith
  · simp only [repairUp]
    field_simp
    ring

/-! ### parent re-selection -/

/-- a row whose candidate is admissible keeps it: the accepted parent is the *first* admissible
candidate offered to that row -/
theorem redraw_keeps_admissible : ∀ (tp : List (Nat × List Nat)) (col e : List Nat) (i : Nat)
    (h1 : i < tp.length) (h2 : i < col.length) (h3 : i < (redraw tp col e).length),
    needRe tp[i].1 tp[i].2 col[i] = false → (redraw tp col e)[i] = col[i]
  | [], _, _, i, h1, _, _, _ => by simp at h1
  | _ :: _, [], _, i, _, h2, _, _ => by simp at h2
  | (t, p) :: tps, x :: xs, e, 0, _, _, _, h => by
      simp only [List.getElem_cons_zero] at h
      simp [redraw, h]
  | (t, p) :: tps, x :: xs, e, i + 1, h1, h2, h3, h => by
      simp only [List.getElem_cons_succ] at h
      simp only [redraw]
      split
      · cases e with
        | nil =>
          simp only [List.getElem_cons_succ]
          exact redraw_keeps_admissible tps xs [] i (by simpa using h1) (by simpa using h2) _ h
        | cons v vs =>
          simp only [List.getElem_cons_succ]
          exact redraw_keeps_admissible tps xs vs i (by simpa using h1) (by simpa using h2) _ h
      · simp only [List.getElem_cons_succ]
        exact redraw_keeps_admissible tps xs e i (by simpa using h1) (by simpa using h2) _ h

/-- exchangeability of admissible values: exchanging two values `v`, `w` that are both admissible
(the admissible set is invariant under the exchange) in the candidate stream exchanges them in the
outcome — so the streams selecting `v` and those selecting `w` are in bijection, and under i.i.d.
uniform candidates every admissible individual is equally likely -/
theorem first_admissible_exchange (adm : Nat → Bool) (sw : Nat → Nat) (hinv : ∀ x, adm (sw x) = adm x) :
    ∀ (s : List Nat), (s.map sw).find? adm = (s.find? adm).map sw
  | [] => rfl
  | x :: s => by
      simp only [List.map_cons, List.find?_cons, hinv x]
      cases adm x
      · exact first_admissible_exchange adm sw hinv s
      · rfl

example : scaleDither (1:ℚ) 3 (1/2) = 2 := by norm_num [scaleDither]

end C19
end Pymoode
