/-
C10  Mutants follow the DE formula with scale factors in range.
-/
import PymoodeModel.Mutation
import PymoodeModel.Selection
import Mathlib.Algebra.Order.Field.Basic
import Mathlib.Algebra.BigOperators.Group.List.Basic
import Mathlib.Tactic.Linarith
import Mathlib.Tactic.Ring

set_option linter.unusedSectionVars false

namespace Pymoode
namespace C10

variable {α : Type} [Field α] [LinearOrder α] [IsStrictOrderedRing α]

theorem foldl_add_eq (ts : List (DiffTerm α)) (a : α) :
    ts.foldl (fun acc t => acc + diffTerm t) a = a + (ts.map diffTerm).sum := by
  induction ts generalizing a with
  | nil => simp
  | cons t ts ih => simp [List.foldl_cons, ih, add_assoc]

/-- the accumulated perturbation is the sum of the scaled differences -/
theorem sumDiffs_eq_sum (ts : List (DiffTerm α)) : sumDiffs ts = (ts.map diffTerm).sum := by
  unfold sumDiffs
  rw [foldl_add_eq]; simp

/-- **DE formula**: mutant = base + Σ_k (effective scale factor)_k · (x_{2k-1} − x_{2k}) -/
theorem mutant_formula (x0 : α) (ts : List (DiffTerm α)) :
    mutant x0 ts = x0 + (ts.map diffTerm).sum := by
  unfold mutant; rw [sumDiffs_eq_sum]

/-- scalar F and no jitter: each term is exactly `F · (xi − xj)` -/
theorem diffTerm_exact (F xi xj : α) :
    diffTerm { F := F, jit := none, xi := xi, xj := xj } = F * (xi - xj) := rfl

/-- with jitter the effective factor is `F · (1 + γ (r − ½))` -/
theorem diffTerm_jitter (F γ r xi xj : α) :
    diffTerm { F := F, jit := some (γ, r), xi := xi, xj := xj } = (F * (1 + γ * (r - 1 / 2))) * (xi - xj) := rfl

/-- a dithered scale factor lies in the configured range -/
theorem dither_range (lo hi r : α) (h : lo ≤ hi) (hr0 : 0 ≤ r) (hr1 : r < 1) :
    lo ≤ scaleDither lo hi r ∧ scaleDither lo hi r ≤ hi := by
  unfold scaleDither; constructor <;> nlinarith

/-- the unset scale factor `F = None` is dithered over `[0, 1]` -/
theorem default_F_range (r : α) (hr0 : 0 ≤ r) (hr1 : r < 1) :
    0 ≤ scaleDither (0:α) 1 r ∧ scaleDither (0:α) 1 r ≤ 1 :=
  dither_range 0 1 r zero_le_one hr0 hr1

/-- jitter perturbs the factor relatively by at most `γ/2` in either direction -/
theorem jitter_range (γ r : α) (hγ : 0 ≤ γ) (hr0 : 0 ≤ r) (hr1 : r < 1) :
    1 - γ / 2 ≤ jitterFactor γ r ∧ jitterFactor γ r ≤ 1 + γ / 2 := by
  unfold jitterFactor; constructor <;> nlinarith

/-- jitter is centred on 1 -/
theorem jitter_centre (γ : α) : jitterFactor γ (1 / 2) = 1 := by
  unfold jitterFactor; ring

/-- variant-string parsing: `y` differences, plus the directional one for the '-to-' selections -/
theorem nParents_eq (k : SelKind) (y : Nat) :
    nParents k y = 1 + 2 * (y + (if k.isTo then 1 else 0)) := by
  unfold nParents nDiffs
  cases k <;> simp [SelKind.isTo]

/-- the difference pairs are (1,2), (3,4), … -/
theorem pairs_get (nPar k : Nat) (h : k < (nPar - 1) / 2) :
    (pairs nPar)[k]'(by simpa [pairs] using h) = (2 * k + 1, 2 * k + 2) := by
  simp [pairs]

theorem pairs_length (nPar : Nat) : (pairs nPar).length = (nPar - 1) / 2 := by simp [pairs]

example : nParents .randToBest 1 = 5 ∧ nParents .rand 2 = 5 ∧ nParents .currentToRand 2 = 7 := by
  decide

example : pairs 7 = [(1, 2), (3, 4), (5, 6)] := by decide

end C10
end Pymoode
