/-
C01, continued: **the bounds survive rounding.**  The theorems of `C01.lean` are about exact field arithmetic. Here every
arithmetic operation of the four repair formulas is followed by an abstract rounding `fl` of which only this is assumed:

  * `mono`  : `x ≤ y → fl x ≤ fl y`                 (rounding is monotone — true of every IEEE rounding mode),
  * `fix`   : the bounds and `0` are representable: `fl xl = xl`, `fl xu = xu`, `fl 0 = 0`,
  * `rel`   : `0 ≤ x → fl x ≤ (1 + u)·x`            (relative error at most `u`, no overflow; `u = 2⁻⁵³` for binary64),

and the formulas are transcribed operation by operation (`xl + r*(xb − xl)` is `fl (xl + fl (r * fl (xb − xl)))`, …).
Proved for **every** draw `0 ≤ r`: the repaired value never crosses the bound that was violated (`*_near`), to-bounds and
midway stay inside the box on both sides; and for every draw with `r·(1+u)² ≤ 1` — with `u = 2⁻⁵³` that is every value of
NumPy's grid `{i/2⁵³}` except the largest one, `1 − 2⁻⁵³` — bounce-back and rand-init do not cross the far bound either
(`*_far`). The one remaining grid point is covered by the argument in DESIGN.md §3.1 (the product `r·fl(d)` lies at least
half an ulp below `fl(d)`, hence rounds to a float `≤ d`) and by the check of every recorded offspring as real floats.
Underflow of `r * d` to a subnormal only rounds towards a representable value between `0` and `d` and is covered by `mono`.
-/
import PymoodeProofs.C01
import Mathlib.Tactic.Linarith
import Mathlib.Tactic.Ring

set_option linter.unusedSectionVars false
set_option linter.unusedVariables false

namespace Pymoode
namespace C01

variable {α : Type} [Field α] [LinearOrder α] [IsStrictOrderedRing α]

/-- what is assumed of the rounding function -/
structure Rounding (fl : α → α) (u xl xu : α) : Prop where
  mono : ∀ x y, x ≤ y → fl x ≤ fl y
  fix0 : fl 0 = 0
  fixl : fl xl = xl
  fixu : fl xu = xu
  u0 : 0 ≤ u
  rel : ∀ x, 0 ≤ x → fl x ≤ (1 + u) * x

variable {fl : α → α} {u xl xu : α}

theorem Rounding.nonneg (h : Rounding fl u xl xu) {x : α} (hx : 0 ≤ x) : 0 ≤ fl x := by
  have := h.mono 0 x hx
  rwa [h.fix0] at this

/-- bounce-back, lower violation: `xl + r*(xb − xl)`, rounded after every operation -/
def bounceLowR (fl : α → α) (xl xb r : α) : α := fl (xl + fl (r * fl (xb - xl)))
/-- bounce-back, upper violation: `xu − r*(xu − xb)` -/
def bounceUpR (fl : α → α) (xu xb r : α) : α := fl (xu - fl (r * fl (xu - xb)))
/-- midway: `xl + (xb − xl)/2` and `xu − (xu − xb)/2` -/
def midLowR (fl : α → α) (xl xb : α) : α := fl (xl + fl (fl (xb - xl) / 2))
def midUpR (fl : α → α) (xu xb : α) : α := fl (xu - fl (fl (xu - xb) / 2))
/-- rand-init: `xl + r*(xu − xl)` and `xu − r*(xu − xl)` -/
def randLowR (fl : α → α) (xl xu r : α) : α := fl (xl + fl (r * fl (xu - xl)))
def randUpR (fl : α → α) (xl xu r : α) : α := fl (xu - fl (r * fl (xu - xl)))

/-- **the violated bound is never crossed, whatever the draw** (lower violation) -/
theorem bounceLow_near (h : Rounding fl u xl xu) (xb r : α) (hb : xl ≤ xb) (hr : 0 ≤ r) :
    xl ≤ bounceLowR fl xl xb r := by
  unfold bounceLowR
  have h1 : 0 ≤ fl (xb - xl) := h.nonneg (by linarith)
  have h2 : 0 ≤ fl (r * fl (xb - xl)) := h.nonneg (mul_nonneg hr h1)
  have := h.mono xl (xl + fl (r * fl (xb - xl))) (by linarith)
  rwa [h.fixl] at this

theorem bounceUp_near (h : Rounding fl u xl xu) (xb r : α) (hb : xb ≤ xu) (hr : 0 ≤ r) :
    bounceUpR fl xu xb r ≤ xu := by
  unfold bounceUpR
  have h1 : 0 ≤ fl (xu - xb) := h.nonneg (by linarith)
  have h2 : 0 ≤ fl (r * fl (xu - xb)) := h.nonneg (mul_nonneg hr h1)
  have := h.mono (xu - fl (r * fl (xu - xb))) xu (by linarith)
  rwa [h.fixu] at this

theorem randLow_near (h : Rounding fl u xl xu) (r : α) (hb : xl ≤ xu) (hr : 0 ≤ r) : xl ≤ randLowR fl xl xu r :=
  bounceLow_near h xu r hb hr

theorem randUp_near (h : Rounding fl u xl xu) (r : α) (hb : xl ≤ xu) (hr : 0 ≤ r) : randUpR fl xl xu r ≤ xu := by
  unfold randUpR
  have h1 : 0 ≤ fl (xu - xl) := h.nonneg (by linarith)
  have h2 : 0 ≤ fl (r * fl (xu - xl)) := h.nonneg (mul_nonneg hr h1)
  have := h.mono (xu - fl (r * fl (xu - xl))) xu (by linarith)
  rwa [h.fixu] at this

/-- two roundings of a non-negative quantity scaled by `c ≥ 0` with `c·(1+u)² ≤ 1` stay below it -/
theorem two_roundings_le (h : Rounding fl u xl xu) (c d : α) (hc : 0 ≤ c) (hd : 0 ≤ d) (hcu : c * (1 + u) ^ 2 ≤ 1) :
    fl (c * fl d) ≤ d := by
  have h1 : fl d ≤ (1 + u) * d := h.rel d hd
  have h0 : 0 ≤ fl d := h.nonneg hd
  have h2 : fl (c * fl d) ≤ (1 + u) * (c * fl d) := h.rel _ (mul_nonneg hc h0)
  have hu : 0 ≤ 1 + u := by linarith [h.u0]
  calc fl (c * fl d) ≤ (1 + u) * (c * fl d) := h2
    _ ≤ (1 + u) * (c * ((1 + u) * d)) := by
        apply mul_le_mul_of_nonneg_left _ hu
        exact mul_le_mul_of_nonneg_left h1 hc
    _ = (c * (1 + u) ^ 2) * d := by ring
    _ ≤ 1 * d := mul_le_mul_of_nonneg_right hcu hd
    _ = d := one_mul d

/-- **bounce-back does not cross the far bound** for every draw with `r·(1+u)² ≤ 1` (all of NumPy's grid but its largest
value when `u = 2⁻⁵³`) -/
theorem bounceLow_far (h : Rounding fl u xl xu) (xb r : α) (hb : xl ≤ xb) (hbu : xb ≤ xu) (hr : 0 ≤ r)
    (hru : r * (1 + u) ^ 2 ≤ 1) : bounceLowR fl xl xb r ≤ xu := by
  unfold bounceLowR
  have h1 := two_roundings_le h r (xb - xl) hr (by linarith) hru
  have := h.mono (xl + fl (r * fl (xb - xl))) xu (by linarith)
  rwa [h.fixu] at this

theorem bounceUp_far (h : Rounding fl u xl xu) (xb r : α) (hb : xl ≤ xb) (hbu : xb ≤ xu) (hr : 0 ≤ r)
    (hru : r * (1 + u) ^ 2 ≤ 1) : xl ≤ bounceUpR fl xu xb r := by
  unfold bounceUpR
  have h1 := two_roundings_le h r (xu - xb) hr (by linarith) hru
  have := h.mono xl (xu - fl (r * fl (xu - xb))) (by linarith)
  rwa [h.fixl] at this

theorem randLow_far (h : Rounding fl u xl xu) (r : α) (hb : xl ≤ xu) (hr : 0 ≤ r) (hru : r * (1 + u) ^ 2 ≤ 1) :
    randLowR fl xl xu r ≤ xu :=
  bounceLow_far h xu r hb (le_refl _) hr hru

theorem randUp_far (h : Rounding fl u xl xu) (r : α) (hb : xl ≤ xu) (hr : 0 ≤ r) (hru : r * (1 + u) ^ 2 ≤ 1) :
    xl ≤ randUpR fl xl xu r := by
  unfold randUpR
  have h1 := two_roundings_le h r (xu - xl) hr (by linarith) hru
  have := h.mono xl (xu - fl (r * fl (xu - xl))) (by linarith)
  rwa [h.fixl] at this

/-- **midway stays inside the box on both sides** (needs only `(1+u)² ≤ 2`) -/
theorem midLow_in_bounds (h : Rounding fl u xl xu) (xb : α) (hb : xl ≤ xb) (hbu : xb ≤ xu) (hu2 : (1 + u) ^ 2 ≤ 2) :
    xl ≤ midLowR fl xl xb ∧ midLowR fl xl xb ≤ xu := by
  unfold midLowR
  have hd : 0 ≤ xb - xl := by linarith
  have h0 : 0 ≤ fl (xb - xl) := h.nonneg hd
  have hhalf : fl (fl (xb - xl) / 2) = fl ((1 / 2) * fl (xb - xl)) := by congr 1; ring
  have h1 : fl (fl (xb - xl) / 2) ≤ xb - xl := by
    rw [hhalf]
    apply two_roundings_le h (1 / 2) (xb - xl) (by norm_num) hd
    linarith
  have h2 : 0 ≤ fl (fl (xb - xl) / 2) := h.nonneg (by positivity)
  constructor
  · have := h.mono xl (xl + fl (fl (xb - xl) / 2)) (by linarith)
    rwa [h.fixl] at this
  · have := h.mono (xl + fl (fl (xb - xl) / 2)) xu (by linarith)
    rwa [h.fixu] at this

theorem midUp_in_bounds (h : Rounding fl u xl xu) (xb : α) (hb : xl ≤ xb) (hbu : xb ≤ xu) (hu2 : (1 + u) ^ 2 ≤ 2) :
    xl ≤ midUpR fl xu xb ∧ midUpR fl xu xb ≤ xu := by
  unfold midUpR
  have hd : 0 ≤ xu - xb := by linarith
  have h0 : 0 ≤ fl (xu - xb) := h.nonneg hd
  have hhalf : fl (fl (xu - xb) / 2) = fl ((1 / 2) * fl (xu - xb)) := by congr 1; ring
  have h1 : fl (fl (xu - xb) / 2) ≤ xu - xb := by
    rw [hhalf]
    apply two_roundings_le h (1 / 2) (xu - xb) (by norm_num) hd
    linarith
  have h2 : 0 ≤ fl (fl (xu - xb) / 2) := h.nonneg (by positivity)
  constructor
  · have := h.mono xl (xu - fl (fl (xu - xb) / 2)) (by linarith)
    rwa [h.fixl] at this
  · have := h.mono (xu - fl (fl (xu - xb) / 2)) xu (by linarith)
    rwa [h.fixu] at this

/-- the rounded formulas are the model's formulas when nothing is rounded (tie to `PymoodeModel/Repair.lean`) -/
theorem rounded_eq_model (xl xu xb r : α) :
    bounceLowR id xl xb r = repairLow .bounceBack xl xu xb r ∧ bounceUpR id xu xb r = repairUp .bounceBack xl xu xb r ∧
    midLowR id xl xb = repairLow .midway xl xu xb r ∧ midUpR id xu xb = repairUp .midway xl xu xb r ∧
    randLowR id xl xu r = repairLow .randInit xl xu xb r ∧ randUpR id xl xu r = repairUp .randInit xl xu xb r := by
  simp [bounceLowR, bounceUpR, midLowR, midUpR, randLowR, randUpR, repairLow, repairUp]

/-- non-vacuity: the identity is a rounding with `u = 0` (exact arithmetic), and so is rounding to multiples of `1/4`
towards zero on `[0, ∞)` … the structure is inhabited, and `r = 3/4`, `u = 1/8` meet `r·(1+u)² ≤ 1` -/
example : Rounding (id : ℚ → ℚ) 0 0 1 :=
  ⟨fun _ _ h => h, rfl, rfl, rfl, le_refl _, fun x _ => by simp⟩

example : (3 / 4 : ℚ) * (1 + 1 / 8) ^ 2 ≤ 1 := by norm_num

end C01
end Pymoode
