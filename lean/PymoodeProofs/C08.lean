/-
C08  The reported optimum is feasible, non-dominated and complete.
-/
import PymoodeProofs.C06
import PymoodeProofs.C02

set_option linter.unusedSectionVars false
set_option linter.unusedVariables false

namespace Pymoode
namespace C08
open C03 C04 C06

variable {α : Type} [Field α] [LinearOrder α] [IsStrictOrderedRing α]

/-- a member of a later front is dominated by a member of the front just before it -/
theorem later_front_has_dominator {dom : Nat → Nat → Bool} {m nStop : Nat} {fronts : List (List Nat)}
    (h : IsFronts dom m nStop fronts) (k : Nat) (hk : k + 1 < fronts.length) (x : Nat)
    (hx : x ∈ fronts[k + 1]) : ∃ j ∈ fronts[k], j < m ∧ dom j x = true := by
  have hxm : x < m := h.valid _ (List.getElem_mem hk) x hx
  have hk0 : k < fronts.length := by omega
  -- x is not in front k, although it is not ranked before k
  have hnot : x ∉ fronts[k] := fun hc => by
    have := front_index_unique h k (k + 1) hk0 hk x hc hx
    omega
  have hpk1 := (h.peel (k + 1) hk x hxm).mp (by
    simpa [List.getD_eq_getElem?_getD, List.getElem?_eq_getElem hk] using hx)
  have hne : x ∉ earlier fronts k := fun hc => by
    obtain ⟨k', a, b, c⟩ := mem_earlier.mp hc
    exact hpk1.1 (mem_earlier.mpr ⟨k', by omega, b, c⟩)
  have hpk := h.peel k hk0 x hxm
  have hnk : ¬ (x ∉ earlier fronts k ∧ ∀ j, j < m → dom j x = true → j ∈ earlier fronts k) := fun hc =>
    hnot (by simpa [List.getD_eq_getElem?_getD, List.getElem?_eq_getElem hk0] using hpk.mpr hc)
  have : ∃ j, j < m ∧ dom j x = true ∧ j ∉ earlier fronts k := by
    by_contra hcon
    apply hnk
    refine ⟨hne, fun j hj hd => ?_⟩
    by_contra hjn
    exact hcon ⟨j, hj, hd, hjn⟩
  obtain ⟨j, hj, hd, hjn⟩ := this
  obtain ⟨k', a, b, c⟩ := mem_earlier.mp (hpk1.2 j hj hd)
  have hkk : k' = k := by
    by_contra hne'
    exact hjn (mem_earlier.mpr ⟨k', by omega, b, c⟩)
  subst hkk
  exact ⟨j, by simpa [List.getD_eq_getElem?_getD, List.getElem?_eq_getElem b] using c, hj, hd⟩

/-- **rank 0 ⇔ non-dominated within the new population** (for ranked survivors): the members the
algorithm reports (`rank == 0`, written by *this* generation's survival) are exactly the survivors
no survivor dominates — every dominator of a later-front survivor has itself survived. -/
theorem rank0_iff_nondominated {dom : Nat → Nat → Bool} {m nStop : Nat} (nS : Nat)
    (fs : List (List Nat × List Nat)) (h : IsFronts dom m nStop (fs.map Prod.fst)) (hs : SortedOk fs)
    (hdm : ∀ j x, dom j x = true → j < m)
    (x : Nat) (hx : x ∈ frontLoop nS fs []) :
    rankOf (fs.map Prod.fst) x = some 0 ↔ ∀ y ∈ frontLoop nS fs [], dom y x = false := by
  have hxp : x ∈ pool fs := frontLoop_subset nS fs hs x hx
  simp only [pool, List.mem_flatten] at hxp
  obtain ⟨l, hl, hxl⟩ := hxp
  obtain ⟨kx, hkx, rfl⟩ := List.mem_iff_getElem.mp hl
  have hrk := rankOf_eq h kx hkx x hxl
  have hxm : x < m := h.valid _ (List.getElem_mem hkx) x hxl
  constructor
  · intro h0
    rw [hrk] at h0
    have hk0 : kx = 0 := by simpa using h0
    subst hk0
    intro y hy
    by_contra hd
    have hd' : dom y x = true := by simpa using hd
    have hp0 := (h.peel 0 hkx x hxm).mp (by
      simpa [List.getD_eq_getElem?_getD, List.getElem?_eq_getElem hkx] using hxl)
    have := hp0.2 y (hdm y x hd') hd'
    simp [earlier] at this
  · intro hnd
    rw [hrk]
    cases kx with
    | zero => rfl
    | succ k =>
      exfalso
      obtain ⟨j, hjk, hjm, hd⟩ := later_front_has_dominator h k hkx x hxl
      have hjs := no_discarded_dominates_survivor fs h hs x j hx hjm hd
      rw [hnd j hjs] at hd
      simp at hd

/-- `np.argmin(CV)`: a member of least total violation -/
theorem argminCv_spec : ∀ (pop : List (IndM α)) (b : IndM α), argminCv pop = some b →
    b ∈ pop ∧ ∀ q ∈ pop, b.cv ≤ q.cv
  | [], b, h => by simp [argminCv] at h
  | a :: t, b, h => by
      simp only [argminCv] at h
      cases ht : argminCv t with
      | none =>
        rw [ht] at h
        simp only [Option.some.injEq] at h
        subst h
        have htn : t = [] := by
          cases t with
          | nil => rfl
          | cons c t' =>
            simp only [argminCv] at ht
            cases h2 : argminCv t' <;> rw [h2] at ht <;> simp at ht
            split at ht <;> simp at ht
        subst htn
        simp
      | some c =>
        rw [ht] at h
        obtain ⟨hc1, hc2⟩ := argminCv_spec t c ht
        simp only at h
        split at h
        · rename_i hlt
          simp only [Option.some.injEq] at h
          subst h
          refine ⟨by simp [hc1], fun q hq => ?_⟩
          simp only [List.mem_cons] at hq
          rcases hq with rfl | hq
          · exact le_of_lt hlt
          · exact hc2 q hq
        · rename_i hnlt
          simp only [Option.some.injEq] at h
          subst h
          refine ⟨by simp, fun q hq => ?_⟩
          simp only [List.mem_cons] at hq
          rcases hq with rfl | hq
          · exact le_refl _
          · exact le_trans (not_lt.mp hnlt) (hc2 q hq)

/-- when no member is feasible the optimum is the single member of least constraint violation -/
theorem opt_infeasible (pop : List (IndM α)) (rank : Nat → Option Nat) (hnf : ∀ i ∈ pop, i.feas = false)
    (hne : pop ≠ []) :
    ∃ b, setOptimum pop rank = [b] ∧ b ∈ pop ∧ ∀ q ∈ pop, b.cv ≤ q.cv := by
  have hany : pop.any (·.feas) = false := by
    rw [Bool.eq_false_iff]
    intro hc
    rw [List.any_eq_true] at hc
    obtain ⟨i, hi, hf⟩ := hc
    rw [hnf i hi] at hf
    simp at hf
  unfold setOptimum
  simp only [hany, Bool.false_eq_true, ↓reduceIte]
  cases hb : argminCv pop with
  | none =>
    exfalso
    cases pop with
    | nil => exact hne rfl
    | cons a t =>
      simp only [argminCv] at hb
      cases h2 : argminCv t <;> rw [h2] at hb <;> simp at hb
      split at hb <;> simp at hb
  | some b =>
    obtain ⟨h1, h2⟩ := argminCv_spec pop b hb
    exact ⟨b, by simp, h1, h2⟩

/-- when some member is feasible only members carrying rank 0 are reported; with the
rank-and-crowding survivals infeasible members carry no rank from this generation, so every
reported member is feasible -/
theorem opt_feasible_only (pop : List (IndM α)) (rank : Nat → Option Nat)
    (hf : ∃ i ∈ pop, i.feas = true) (hinf : ∀ i ∈ pop, i.feas = false → rank i.id = none) :
    ∀ o ∈ setOptimum pop rank, o ∈ pop ∧ o.feas = true ∧ rank o.id = some 0 := by
  obtain ⟨i, hi, hfe⟩ := hf
  have hany : pop.any (·.feas) = true := List.any_eq_true.mpr ⟨i, hi, hfe⟩
  intro o ho
  unfold setOptimum at ho
  simp only [hany, ↓reduceIte, List.mem_filter, beq_iff_eq] at ho
  refine ⟨ho.1, ?_, ho.2⟩
  by_contra hc
  have : o.feas = false := by simpa using hc
  rw [hinf o ho.1 this] at ho
  simp at ho

/-- DE: the population is sorted best-first and `rank` = position, so the reported optimum is the
single best member (the head), which is feasible as soon as any member is -/
theorem de_opt_single (b : IndM α) (t : List (IndM α)) (hf : ∃ i ∈ b :: t, i.feas = true)
    (rank : Nat → Option Nat) (hb : rank b.id = some 0) (ht : ∀ i ∈ t, rank i.id ≠ some 0) :
    setOptimum (b :: t) rank = [b] := by
  obtain ⟨i, hi, hfe⟩ := hf
  have hany : (b :: t).any (·.feas) = true := List.any_eq_true.mpr ⟨i, hi, hfe⟩
  unfold setOptimum
  simp only [hany, ↓reduceIte, List.filter_cons, hb, beq_self_eq_true]
  congr 1
  rw [List.filter_eq_nil_iff]
  intro a ha
  simpa using ht a ha

end C08
end Pymoode
