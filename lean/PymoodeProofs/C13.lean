/-
C13  Crowding metrics are safe, well-formed and match their definitions.

FULL STATEMENT (kept visible): for every non-dominated front and every n_remove each metric
returns normally, touches no memory outside its arrays, gives one non-negative non-NaN value per
point, infinite at a min-holder and a max-holder of every non-constant objective, leaves the
caller's array alone, and equals the published definitions on tie-free fronts.

PROVED HERE (`…_partial` where marked): well-formedness and extremes for the crowding distance and
for the pruning *definitions* (which are, line by line, the pure-Python engine). NOT PROVED: memory
safety of the compiled kernels for all inputs and their refinement of the definitions — those are
decided per input by executing the checked-index transcription (`Kernel.lean`) and by the
correspondence run; the genuine out-of-bounds accesses found that way are known findings F2–F4.
-/
import PymoodeModel.Metrics.Diversity
import Mathlib.Algebra.Order.Field.Basic
import Mathlib.Data.List.Basic
import Mathlib.Data.List.Pairwise
import Mathlib.Tactic.Linarith
import Mathlib.Tactic.Positivity

set_option linter.unusedSectionVars false
set_option linter.unusedVariables false

namespace Pymoode
namespace C13

variable {α : Type} [Field α] [LinearOrder α] [IsStrictOrderedRing α] [Inhabited α]

/-- a crowding value is well-formed: `+inf`, or a finite non-negative number (`Ext` has no NaN) -/
def WF : Ext α → Prop
  | Ext.top => True
  | Ext.fin a => 0 ≤ a

theorem WF_add {a b : Ext α} (ha : WF a) (hb : WF b) : WF (Ext.add a b) := by
  cases a <;> cases b <;> simp_all [Ext.add, WF]
  exact add_nonneg ha hb

theorem WF_div {a : Ext α} (ha : WF a) (c : α) (hc : 0 < c) : WF (Ext.mapFin (· / c) a) := by
  cases a <;> simp_all [Ext.mapFin, WF]
  exact div_nonneg ha (le_of_lt hc)

/-- sortedness of the stably argsorted column -/
theorem argsort_sorted (col : List α) :
    ((argsortStable col).map fun i => col.getD i default).Pairwise (· ≤ ·) := by
  unfold argsortStable
  rw [List.pairwise_map]
  have := List.pairwise_mergeSort
    (le := fun i j => !decide (col.getD j default < col.getD i default))
    (fun a b c h1 h2 => by
      simp only [Bool.not_eq_eq_eq_not, Bool.not_true, decide_eq_false_iff_not, not_lt] at *
      exact le_trans h1 h2)
    (fun a b => by
      simp only [Bool.or_eq_true, Bool.not_eq_eq_eq_not, Bool.not_true, decide_eq_false_iff_not, not_lt]
      exact le_total _ _) (List.range col.length)
  refine this.imp ?_
  intro a b h
  simpa using h

theorem argsort_perm (col : List α) : (argsortStable col).Perm (List.range col.length) :=
  List.mergeSort_perm _ _

theorem getD_mono (s : List α) (hs : s.Pairwise (· ≤ ·)) (p q : Nat) (hpq : p ≤ q) (hq : q < s.length) :
    s.getD p default ≤ s.getD q default := by
  have hp : p < s.length := by omega
  simp only [List.getD_eq_getElem?_getD, List.getElem?_eq_getElem hp, List.getElem?_eq_getElem hq,
    Option.getD_some]
  rcases Nat.lt_or_ge p q with h | h
  · exact (List.pairwise_iff_getElem.mp hs) p q hp hq h
  · have : p = q := by omega
    subst this; exact le_refl _

/-- **cd, one objective**: every contribution is `+inf` or finite and non-negative -/
theorem cdSorted_wellformed (s : List α) (hs : s.Pairwise (· ≤ ·)) : ∀ e ∈ cdSorted s, WF e := by
  intro e he
  unfold cdSorted at he
  cases hh : s.head? with
  | none => simp [hh] at he
  | some lo =>
    cases hl : s.getLast? with
    | none => simp [hh, hl] at he
    | some hi =>
      simp only [hh, hl] at he
      split at he
      · rename_i hlt
        simp only [List.mem_map, List.mem_range] at he
        obtain ⟨p, hp, rfl⟩ := he
        split
        · simp [WF]
        · rename_i hne
          simp only [WF]
          have hnorm : 0 < hi - lo := by linarith
          have h1 := getD_mono s hs (p - 1) p (by omega) hp
          have h2 := getD_mono s hs p (p + 1) (by omega) (by omega)
          apply add_nonneg
          · exact div_nonneg (by linarith) (le_of_lt hnorm)
          · exact div_nonneg (by linarith) (le_of_lt hnorm)
      · simp only [List.mem_map] at he
        obtain ⟨_, _, rfl⟩ := he
        simp [WF]

theorem cdSorted_length (s : List α) : (cdSorted s).length = s.length := by
  unfold cdSorted
  cases hh : s.head? with
  | none =>
    have : s = [] := by cases s <;> simp_all
    subst this; simp
  | some lo =>
    cases hl : s.getLast? with
    | none =>
      have : s = [] := by cases s <;> simp_all
      subst this; simp at hh
    | some hi =>
      simp only
      split <;> simp

/-- **cd, one non-constant objective**: the two ends of the sorted order — a point holding the
minimum and a point holding the maximum — are infinite -/
theorem cdSorted_ends_top (s : List α) (lo hi : α) (hh : s.head? = some lo) (hl : s.getLast? = some hi)
    (hlt : lo < hi) :
    (cdSorted s).getD 0 (Ext.fin 0) = Ext.top ∧ (cdSorted s).getD (s.length - 1) (Ext.fin 0) = Ext.top := by
  have hpos : 0 < s.length := by
    cases s with
    | nil => simp at hh
    | cons _ _ => simp
  unfold cdSorted
  simp only [hh, hl, hlt, ↓reduceIte]
  constructor
  · simp [List.getD_eq_getElem?_getD, hpos]
  · have : s.length - 1 < s.length := by omega
    simp only [List.getD_eq_getElem?_getD, List.getElem?_map, List.getElem?_range this, Option.map_some,
      Option.getD_some]
    rw [if_pos (Or.inr (by omega))]

/-- row-wise sums of well-formed contributions are well-formed -/
theorem sumExt_wellformed (rows : List (List (Ext α))) (n : Nat)
    (h : ∀ r ∈ rows, ∀ e ∈ r, WF e) : ∀ e ∈ sumExt rows n, WF e := by
  intro e he
  simp only [sumExt, List.mem_map, List.mem_range] at he
  obtain ⟨i, _, rfl⟩ := he
  have : ∀ (rs : List (List (Ext α))) (acc : Ext α), WF acc → (∀ r ∈ rs, ∀ e ∈ r, WF e) →
      WF (rs.foldl (fun acc r => Ext.add acc (r.getD i (Ext.fin 0))) acc) := by
    intro rs
    induction rs with
    | nil => intro acc ha _; simpa using ha
    | cons r rs ih =>
      intro acc ha hr
      simp only [List.foldl_cons]
      apply ih
      · apply WF_add ha
        by_cases hi : i < r.length
        · simp only [List.getD_eq_getElem?_getD, List.getElem?_eq_getElem hi, Option.getD_some]
          exact hr r (by simp) _ (List.getElem_mem hi)
        · simp [List.getD_eq_getElem?_getD, List.getElem?_eq_none (by omega : r.length ≤ i), WF]
      · exact fun r' hr' => hr r' (by simp [hr'])
  exact this rows (Ext.fin 0) (by simp [WF]) h

/-- **crowding distance**: one well-formed value per point -/
theorem crowdingDistance_wellformed (f : List (List α)) (nObj : Nat) (nObjS : α) (hpos : 0 < nObjS) :
    (crowdingDistance f nObj nObjS).length = f.length ∧ ∀ e ∈ crowdingDistance f nObj nObjS, WF e := by
  unfold crowdingDistance
  constructor
  · simp [sumExt]
  · intro e he
    simp only [List.mem_map] at he
    obtain ⟨e', he', rfl⟩ := he
    apply WF_div _ nObjS hpos
    apply sumExt_wellformed _ _ _ e' he'
    intro r hr e'' he''
    simp only [List.mem_map, List.mem_range] at hr
    obtain ⟨m, _, rfl⟩ := hr
    simp only [cdObj, List.mem_map, List.mem_range] at he''
    obtain ⟨i, _, rfl⟩ := he''
    set contrib := cdSorted ((argsortStable (column f m)).map fun i => (column f m).getD i default)
    by_cases hi : (argsortStable (column f m)).idxOf i < contrib.length
    · simp only [List.getD_eq_getElem?_getD, List.getElem?_eq_getElem hi, Option.getD_some]
      exact cdSorted_wellformed _ (argsort_sorted _) _ (List.getElem_mem hi)
    · simp [List.getD_eq_getElem?_getD, List.getElem?_eq_none (Nat.le_of_not_lt hi), WF]

/-! ### the pruning definitions (= the pure-Python engine) -/

theorem sqDist_nonneg (a b : List α) : 0 ≤ sqDist a b := by
  unfold sqDist
  have : ∀ (a b : List α) (acc : α), 0 ≤ acc →
      0 ≤ (List.zipWith (fun x y => (y - x) * (y - x)) a b).foldl (· + ·) acc := by
    intro a
    induction a with
    | nil => intro b acc h; simpa using h
    | cons x a ih =>
      intro b acc h
      cases b with
      | nil => simpa using h
      | cons y b =>
        simp only [List.zipWith_cons_cons, List.foldl_cons]
        exact ih b _ (add_nonneg h (mul_self_nonneg _))
  exact this a b 0 (le_refl _)

/-- a product of well-formed neighbour distances is well-formed -/
theorem nnProduct_wellformed (row : List (Ext α)) (mNb : Nat) (h : ∀ e ∈ row, WF e) :
    WF (nnProduct row mNb) := by
  unfold nnProduct
  simp only
  split
  · simp [WF]
  · have hsub : ∀ e ∈ ((row.mergeSort extLe).drop 1).take mNb, WF e := by
      intro e he
      have h1 := List.mem_of_mem_take he
      have h2 := List.mem_of_mem_drop h1
      exact h e ((List.mergeSort_perm row extLe).subset h2)
    generalize ((row.mergeSort extLe).drop 1).take mNb = l at hsub
    have : ∀ (l : List (Ext α)) (acc : Ext α), WF acc → (∀ e ∈ l, WF e) →
        WF (l.foldl (fun acc x => match acc, x with
          | Ext.fin a, Ext.fin b => Ext.fin (a * b)
          | _, _ => Ext.top) acc) := by
      intro l
      induction l with
      | nil => intro acc ha _; simpa using ha
      | cons x l ih =>
        intro acc ha hl
        simp only [List.foldl_cons]
        apply ih _ _ (fun y hy => hl y (by simp [hy]))
        have hx := hl x (by simp)
        cases acc with
        | top => cases x <;> simp [WF]
        | fin a =>
          cases x with
          | top => simp [WF]
          | fin b =>
            simp only [WF] at ha hx ⊢
            exact mul_nonneg ha hx
    exact this l (Ext.fin 1) (by simp [WF]) hsub

/-- **mnn / 2nn definition, one evaluation**: well-formed values, extremes infinite; removed
points keep the (well-formed) value they had -/
theorem mnnScratch_wellformed (x : List (List α)) (live : List Nat) (mNb : Nat) (ex : List Nat) (n : Nat)
    (old : List (Ext α)) (hold : ∀ e ∈ old, WF e) :
    ∀ e ∈ mnnScratch x live mNb ex n old, WF e := by
  intro e he
  simp only [mnnScratch, List.mem_map, List.mem_range] at he
  obtain ⟨i, _, rfl⟩ := he
  split
  · simp [WF]
  · split
    · apply nnProduct_wellformed
      intro e he
      simp only [List.mem_map, List.mem_range] at he
      obtain ⟨j, _, rfl⟩ := he
      split
      · simp only [WF]; exact sqDist_nonneg _ _
      · simp [WF]
    · by_cases hi : i < old.length
      · simp only [List.getD_eq_getElem?_getD, List.getElem?_eq_getElem hi, Option.getD_some]
        exact hold _ (List.getElem_mem hi)
      · simp [List.getD_eq_getElem?_getD, List.getElem?_eq_none (Nat.le_of_not_lt hi), WF]

theorem mnnScratch_extremes_top (x : List (List α)) (live : List Nat) (mNb : Nat) (ex : List Nat) (n : Nat)
    (old : List (Ext α)) (i : Nat) (hi : i < n) (hex : i ∈ ex) :
    (mnnScratch x live mNb ex n old).getD i (Ext.fin 0) = Ext.top := by
  simp only [mnnScratch, List.getD_eq_getElem?_getD, List.getElem?_map, List.getElem?_range hi,
    Option.map_some, Option.getD_some]
  simp [hex]

/-- the removal loop preserves any property that one re-computation preserves -/
theorem pruneLoop_preserves (P : List (Ext α) → Prop) (recompute : List Nat → List (Ext α) → List (Ext α))
    (hrec : ∀ lv d, P d → P (recompute lv d)) :
    ∀ (k : Nat) (live : List Nat) (d : List (Ext α)), P d → P (pruneLoop recompute k live d)
  | 0, _, d, h => by simpa [pruneLoop] using h
  | k + 1, live, d, h => by
      simp only [pruneLoop]
      split
      · exact h
      · exact pruneLoop_preserves P recompute hrec k _ _ (hrec _ _ h)

/-- **mnn / 2nn (definition = pure-Python engine), any number of removals**: one well-formed
value per point, every extreme (first arg-min / arg-max of each objective) infinite -/
theorem mnnFallback_wellformed (f : List (List α)) (nObj : Nat) (nRemove : Int) (twonn : Bool) :
    ∀ e ∈ mnnFallback f nObj nRemove twonn, WF e := by
  unfold mnnFallback
  simp only
  generalize (if twonn = true then 2 else nObj) = mNb
  generalize ((clampRemove nRemove f.length nObj - 1).toNat) = k
  by_cases h : f.length ≤ mNb
  · rw [if_pos h]
    intro e he
    simp only [List.mem_map] at he
    obtain ⟨_, _, rfl⟩ := he
    simp [WF]
  · rw [if_neg h]
    apply pruneLoop_preserves (fun d => ∀ e ∈ d, WF e)
    · intro lv d hd
      exact mnnScratch_wellformed _ lv _ _ _ d hd
    · apply mnnScratch_wellformed
      intro e he
      simp only [List.mem_map] at he
      obtain ⟨_, _, rfl⟩ := he
      simp [WF]

theorem mnnFallback_extremes_top (f : List (List α)) (nObj : Nat) (nRemove : Int) (twonn : Bool)
    (i : Nat) (hi : i < f.length) (hex : i ∈ extremesFirst f nObj) :
    (mnnFallback f nObj nRemove twonn).getD i (Ext.fin 0) = Ext.top := by
  unfold mnnFallback
  simp only
  generalize (if twonn = true then 2 else nObj) = mNb
  generalize ((clampRemove nRemove f.length nObj - 1).toNat) = k
  by_cases h : f.length ≤ mNb
  · rw [if_pos h]
    simp [List.getD_eq_getElem?_getD, hi]
  · rw [if_neg h]
    apply pruneLoop_preserves (fun d => d.getD i (Ext.fin 0) = Ext.top)
    · intro lv d _
      exact mnnScratch_extremes_top _ lv _ _ _ d i hi hex
    · exact mnnScratch_extremes_top _ _ _ _ _ _ i hi hex

/-- the first arg-min holds the minimum of its column -/
theorem argminFirst_go_spec (l : List α) (best : α) (bi i : Nat) (full : List α)
    (hfull : full.getD bi default = best) (hsuf : ∀ k, k < l.length → full.getD (i + k) default = l.getD k default) :
    full.getD (argminFirst.go best bi i l) default ≤ best ∧
    ∀ k, k < l.length → full.getD (argminFirst.go best bi i l) default ≤ l.getD k default := by
  induction l generalizing best bi i with
  | nil =>
    simp only [argminFirst.go]
    exact ⟨le_of_eq hfull, fun k hk => by simp at hk⟩
  | cons x xs ih =>
    simp only [argminFirst.go]
    have hx : full.getD i default = x := by simpa using hsuf 0 (by simp)
    have hsuf' : ∀ k, k < xs.length → full.getD (i + 1 + k) default = xs.getD k default := by
      intro k hk
      have := hsuf (k + 1) (by simp; omega)
      simpa [Nat.add_assoc, Nat.add_comm 1 k] using this
    split
    · rename_i hlt
      obtain ⟨h1, h2⟩ := ih x i (i + 1) hx hsuf'
      refine ⟨le_trans h1 (le_of_lt hlt), ?_⟩
      intro k hk
      cases k with
      | zero => simpa using h1
      | succ k => simpa using h2 k (by simpa using hk)
    · rename_i hnlt
      obtain ⟨h1, h2⟩ := ih best bi (i + 1) hfull hsuf'
      refine ⟨h1, ?_⟩
      intro k hk
      cases k with
      | zero => simpa using le_trans h1 (not_lt.mp hnlt)
      | succ k => simpa using h2 k (by simpa using hk)

theorem argminFirst_spec (col : List α) (k : Nat) (hk : k < col.length) :
    col.getD (argminFirst col) default ≤ col.getD k default := by
  cases col with
  | nil => simp at hk
  | cons a t =>
    simp only [argminFirst]
    obtain ⟨h1, h2⟩ := argminFirst_go_spec t a 0 1 (a :: t) (by simp) (by
      intro j hj
      simp [Nat.add_comm 1 j])
    cases k with
    | zero => simpa using h1
    | succ k => simpa using h2 k (by simpa using hk)

end C13
end Pymoode
