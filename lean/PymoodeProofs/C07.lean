/-
C07  Every generation keeps the books: sizes, budget, provenance.
Invariant `Inv`: exactly `popSize` members, no identity twice. Preserved by every modelled
generation step; lifted to every reachable state by induction over the history.
-/
import PymoodeProofs.C06
import Mathlib.Data.List.Perm.Basic

set_option linter.unusedSectionVars false
set_option linter.unusedVariables false

namespace Pymoode
namespace C07
open C03 C04 C06

variable {α : Type} [Field α] [LinearOrder α] [IsStrictOrderedRing α]

def Inv (popSize : Nat) (pop : List (IndM α)) : Prop :=
  pop.length = popSize ∧ (pop.map (·.id)).Nodup

/-- picking distinct valid positions of a list with distinct identities gives distinct identities -/
theorem pick_ids_nodup (cand : List (IndM α)) (ps : List Nat) (hc : (cand.map (·.id)).Nodup)
    (hp : ps.Nodup) (hv : ∀ p ∈ ps, p < cand.length) : ((pick cand ps).map (·.id)).Nodup := by
  induction ps with
  | nil => simp [pick]
  | cons p ps ih =>
    have hpl : p < cand.length := hv p (by simp)
    have hnd := List.nodup_cons.mp hp
    simp only [pick, List.filterMap_cons, List.getElem?_eq_getElem hpl, List.map_cons, List.nodup_cons]
    refine ⟨?_, ih hnd.2 (fun q hq => hv q (by simp [hq]))⟩
    intro hmem
    simp only [List.mem_map, List.mem_filterMap] at hmem
    obtain ⟨i, ⟨q, hq, hqi⟩, hid⟩ := hmem
    have hql : q < cand.length := hv q (by simp [hq])
    rw [List.getElem?_eq_getElem hql] at hqi
    simp only [Option.some.injEq] at hqi
    subst hqi
    have hinj := List.nodup_iff_injective_getElem.mp hc
    have : (⟨q, by simpa using hql⟩ : Fin (cand.map (·.id)).length) = ⟨p, by simpa using hpl⟩ :=
      hinj (by simpa using hid)
    simp only [Fin.mk.injEq] at this
    subst this
    exact hnd.1 hq

/-- GDE3 candidates keep identities distinct: they are a sub-list of the slot-wise interleaving -/
theorem gde3Candidates_ids_nodup : ∀ (ps os : List (IndM α)),
    ((ps ++ os).map (·.id)).Nodup → ((gde3Candidates ps os).map (·.id)).Nodup
  | [], _, _ => by simp [gde3Candidates]
  | _ :: _, [], _ => by simp [gde3Candidates]
  | p :: ps, o :: os, h => by
      have hperm : ((p :: ps) ++ (o :: os)).Perm (p :: o :: (ps ++ os)) := by
        simp only [List.cons_append]
        exact List.Perm.cons p List.perm_middle
      have h2 : ((p :: o :: (ps ++ os)).map (·.id)).Nodup := (hperm.map _).nodup_iff.mp h
      simp only [List.map_cons, List.nodup_cons, List.mem_cons, List.mem_map, not_or] at h2
      obtain ⟨⟨hpo, hp⟩, ho, hrest⟩ := h2
      have ih := gde3Candidates_ids_nodup ps os hrest
      have hsub : ∀ x ∈ gde3Candidates ps os, x ∈ ps ++ os := by
        intro x hx
        obtain ⟨k, a, b, c⟩ := C05.mem_gde3Candidates ps os x hx
        rcases C05.gde3Slot_spec ps[k] os[k] with ⟨_, e⟩ | ⟨_, e⟩ | ⟨_, _, e⟩ <;> rw [e] at c <;> simp at c
        · subst c; simp
        · subst c; simp
        · rcases c with rfl | rfl <;> simp
      have hpn : p.id ∉ (gde3Candidates ps os).map (·.id) := by
        intro hc
        simp only [List.mem_map] at hc
        obtain ⟨x, hx, hxid⟩ := hc
        exact hp ⟨x, hsub x hx, hxid⟩
      have hon : o.id ∉ (gde3Candidates ps os).map (·.id) := by
        intro hc
        simp only [List.mem_map] at hc
        obtain ⟨x, hx, hxid⟩ := hc
        exact ho ⟨x, hsub x hx, hxid⟩
      rw [C05.gde3Candidates_cons, List.map_append]
      rcases C05.gde3Slot_spec p o with ⟨_, e⟩ | ⟨_, e⟩ | ⟨_, _, e⟩ <;> rw [e]
      · simp only [List.map_cons, List.map_nil, List.cons_append, List.nil_append, List.nodup_cons]
        exact ⟨hpn, ih⟩
      · simp only [List.map_cons, List.map_nil, List.cons_append, List.nil_append, List.nodup_cons]
        exact ⟨hon, ih⟩
      · simp only [List.map_cons, List.map_nil, List.cons_append, List.nil_append, List.nodup_cons,
          List.mem_cons, not_or]
        exact ⟨⟨hpo, hpn⟩, hon, ih⟩

/-- **one generation on an unconstrained problem** (NSDE, GDE3, (μ+λ)): if the candidates have
distinct identities and are at least `popSize`, the next population satisfies the invariant.
Oracle contracts: `SortedOk`, ranked positions distinct and valid, NDS ranked enough points. -/
theorem advance_inv_unconstrained (cand : List (IndM α)) (popSize : Nat)
    (fs : List (List Nat × List Nat)) (hids : (cand.map (·.id)).Nodup) (hsize : popSize ≤ cand.length)
    (hs : SortedOk fs) (hn : (pool fs).Nodup) (hv : ∀ x ∈ pool fs, x < cand.length)
    (hcover : min popSize cand.length ≤ (pool fs).length) :
    Inv popSize (advanceRnc cand popSize false [] [] fs) := by
  obtain ⟨hl, hnd, hval⟩ := survivalDo_unconstrained cand.length popSize fs hs hn hv hcover
  refine ⟨?_, pick_ids_nodup cand _ hids hnd hval⟩
  unfold advanceRnc
  rw [pick_length cand _ hval, hl]
  omega

/-- **one generation on a constrained problem** -/
theorem advance_inv_constrained (cand : List (IndM α)) (popSize : Nat) (feas infeas : List Nat)
    (fs : List (List Nat × List Nat)) (hids : (cand.map (·.id)).Nodup) (hsize : popSize ≤ cand.length)
    (hsplit : SplitOk cand.length feas infeas)
    (hs : SortedOk fs) (hn : (pool fs).Nodup) (hv : ∀ x ∈ pool fs, x < feas.length)
    (hcover : feas ≠ [] → min feas.length (min popSize cand.length) ≤ (pool fs).length) :
    Inv popSize (advanceRnc cand popSize true feas infeas fs) := by
  obtain ⟨hl, hnd, hval⟩ := survivalDo_constrained cand.length popSize feas infeas fs hsplit hs hn hv hcover
  refine ⟨?_, pick_ids_nodup cand _ hids hnd hval⟩
  unfold advanceRnc
  rw [pick_length cand _ hval, hl]
  omega

/-- merging a population with fresh offspring keeps identities distinct and doubles the size -/
theorem merge_ok (pop off : List (IndM α)) (popSize : Nat) (hp : Inv popSize pop)
    (ho : off.length = popSize) (hfresh : ((pop ++ off).map (·.id)).Nodup) :
    ((mergeCandidates pop off).map (·.id)).Nodup ∧ popSize ≤ (mergeCandidates pop off).length := by
  refine ⟨hfresh, ?_⟩
  simp [mergeCandidates, hp.1]

theorem gde3_ok (pop off : List (IndM α)) (popSize : Nat) (hp : Inv popSize pop)
    (ho : off.length = popSize) (hfresh : ((pop ++ off).map (·.id)).Nodup) :
    ((gde3Candidates pop off).map (·.id)).Nodup ∧ popSize ≤ (gde3Candidates pop off).length := by
  refine ⟨gde3Candidates_ids_nodup pop off hfresh, ?_⟩
  have := C05.gde3Candidates_length_ge pop off (by rw [hp.1, ho])
  rw [hp.1] at this
  exact this

/-- budget: a generation evaluates exactly the offspring it was handed, `tell` evaluates nothing -/
structure Books where
  nEval : Nat
  nGen : Nat

def Books.step (b : Books) (nOff : Nat) : Books := { nEval := b.nEval + nOff, nGen := b.nGen + 1 }

theorem budget (b : Books) (popSize : Nat) : (b.step popSize).nEval = b.nEval + popSize := rfl

/-- **every reachable state**: states reachable from a population satisfying the invariant by
generation steps each of which preserves it (the four lemmas above are the per-step facts) -/
inductive Reach (popSize : Nat) (step : List (IndM α) → List (IndM α) → Prop) : List (IndM α) → Prop
  | init (s : List (IndM α)) : Inv popSize s → Reach popSize step s
  | next (s s' : List (IndM α)) : Reach popSize step s → step s s' → Reach popSize step s'

theorem reachable_inv (popSize : Nat) (step : List (IndM α) → List (IndM α) → Prop)
    (hstep : ∀ s s', Inv popSize s → step s s' → Inv popSize s') :
    ∀ s, Reach popSize step s → Inv popSize s := by
  intro s hr
  induction hr with
  | init s h => exact h
  | next s s' _ hs ih => exact hstep s s' ih hs

/-- the NSDE step relation on unconstrained problems satisfies the per-step hypothesis -/
def NsdeStep (popSize : Nat) (s s' : List (IndM α)) : Prop :=
  ∃ off fs, off.length = popSize ∧ ((s ++ off).map (·.id)).Nodup ∧ SortedOk fs ∧ (pool fs).Nodup ∧
    (∀ x ∈ pool fs, x < (mergeCandidates s off).length) ∧
    min popSize (mergeCandidates s off).length ≤ (pool fs).length ∧
    s' = advanceRnc (mergeCandidates s off) popSize false [] [] fs

theorem nsde_reachable_inv (popSize : Nat) :
    ∀ s, Reach popSize (NsdeStep (α := α) popSize) s → Inv popSize s :=
  reachable_inv popSize _ (by
    rintro s s' hinv ⟨off, fs, h1, h2, h3, h4, h5, h6, rfl⟩
    obtain ⟨a, b⟩ := merge_ok s off popSize hinv h1 h2
    exact advance_inv_unconstrained _ popSize fs a b h3 h4 h5 h6)

def Gde3Step (popSize : Nat) (s s' : List (IndM α)) : Prop :=
  ∃ off fs, off.length = popSize ∧ ((s ++ off).map (·.id)).Nodup ∧ SortedOk fs ∧ (pool fs).Nodup ∧
    (∀ x ∈ pool fs, x < (gde3Candidates s off).length) ∧
    min popSize (gde3Candidates s off).length ≤ (pool fs).length ∧
    s' = advanceRnc (gde3Candidates s off) popSize false [] [] fs

theorem gde3_reachable_inv (popSize : Nat) :
    ∀ s, Reach popSize (Gde3Step (α := α) popSize) s → Inv popSize s :=
  reachable_inv popSize _ (by
    rintro s s' hinv ⟨off, fs, h1, h2, h3, h4, h5, h6, rfl⟩
    obtain ⟨a, b⟩ := gde3_ok s off popSize hinv h1 h2
    exact advance_inv_unconstrained _ popSize fs a b h3 h4 h5 h6)

end C07
end Pymoode
