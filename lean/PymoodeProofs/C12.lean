/-
C12  Trial vectors inherit every coordinate from target or mutant.
-/
import PymoodeModel.Crossover
import Mathlib.Algebra.Order.Field.Basic
import Mathlib.Data.List.Basic
import Mathlib.Tactic.Linarith
import Mathlib.Data.Rat.Defs
import Mathlib.Tactic.NormNum

set_option linter.unusedSectionVars false
set_option linter.unusedVariables false

namespace Pymoode
namespace C12

variable {α : Type} [Field α] [LinearOrder α] [IsStrictOrderedRing α]

/-- every coordinate of a trial is copied (not computed) from its target or its mutant -/
theorem trial_coord_cases {β : Type} (m : Bool) (x v : β) :
    (m = true ∧ trialCoord m x v = v) ∨ (m = false ∧ trialCoord m x v = x) := by
  cases m <;> simp [trialCoord]

theorem trialRow_length {β : Type} : ∀ (ms : List Bool) (xs vs : List β),
    ms.length = xs.length → xs.length = vs.length → (trialRow ms xs vs).length = xs.length
  | [], [], [], _, _ => rfl
  | _ :: ms, _ :: xs, _ :: vs, h1, h2 => by
      simp only [trialRow, List.length_cons] at *
      rw [trialRow_length ms xs vs (by omega) (by omega)]
  | [], _ :: _, _, h, _ => by simp at h
  | _ :: _, [], _, h, _ => by simp at h
  | _, [], _ :: _, _, h => by simp at h
  | _, _ :: _, [], _, h => by simp at h

/-- coordinate `i` of the trial row is the mutant's where the mask is set, the target's elsewhere -/
theorem trialRow_get {β : Type} : ∀ (ms : List Bool) (xs vs : List β) (i : Nat)
    (hm : i < ms.length) (hx : i < xs.length) (hv : i < vs.length) (hu : i < (trialRow ms xs vs).length),
    (trialRow ms xs vs)[i] = if ms[i] then vs[i] else xs[i]
  | m :: ms, x :: xs, v :: vs, 0, _, _, _, _ => by simp [trialRow, trialCoord]
  | m :: ms, x :: xs, v :: vs, i + 1, hm, hx, hv, hu => by
      simp only [trialRow, List.getElem_cons_succ]
      exact trialRow_get ms xs vs i (by simpa using hm) (by simpa using hx) (by simpa using hv) _

/-- after `row_at_least_once_true` a row has at least one `True` (the drawn index is valid) -/
theorem forceOne_any (m : List Bool) (k : Nat) (hk : k < m.length) : (forceOne m k).any id = true := by
  unfold forceOne
  by_cases h : m.any id = true
  · simp [h]
  · simp only [h, Bool.false_eq_true, ↓reduceIte]
    rw [List.any_eq_true]
    exact ⟨true, by
      rw [List.mem_iff_getElem]
      exact ⟨k, by simpa using hk, by simp⟩, rfl⟩

/-- a row that already has a `True` is left alone -/
theorem forceOne_noop (m : List Bool) (k : Nat) (h : m.any id = true) : forceOne m k = m := by
  simp [forceOne, h]

theorem forceOne_length (m : List Bool) (k : Nat) : (forceOne m k).length = m.length := by
  unfold forceOne; split <;> simp

/-- binomial, CR = 1: every coordinate is taken from the mutant (draws are `< 1`) -/
theorem bin_cr_one (rs : List α) (h : ∀ r ∈ rs, r < 1) : ∀ b ∈ binRow (1:α) rs, b = true := by
  intro b hb
  simp only [binRow, List.mem_map] at hb
  obtain ⟨r, hr, rfl⟩ := hb
  simpa using h r hr

/-- binomial, CR = 0: nothing is drawn (draws are `≥ 0`) … -/
theorem bin_cr_zero (rs : List α) (h : ∀ r ∈ rs, 0 ≤ r) : ∀ b ∈ binRow (0:α) rs, b = false := by
  intro b hb
  simp only [binRow, List.mem_map] at hb
  obtain ⟨r, hr, rfl⟩ := hb
  simpa using h r hr

theorem count_set_of_all_false : ∀ (m : List Bool) (k : Nat), (∀ b ∈ m, b = false) → k < m.length →
    (m.set k true).count true = 1
  | [], k, _, hk => by simp at hk
  | b :: m, 0, h, _ => by
      have hm : m.count true = 0 := by
        rw [List.count_eq_zero]
        intro hmem
        have := h true (by simp [hmem])
        simp at this
      simp [List.set, hm]
  | b :: m, k + 1, h, hk => by
      have hb : b = false := h b (by simp)
      subst hb
      have := count_set_of_all_false m k (fun b hb => h b (by simp [hb])) (by simpa using hk)
      simpa [List.set] using this

/-- … so exactly the forced coordinate is taken: **CR = 0 ⇒ exactly one mutant coordinate** -/
theorem bin_cr_zero_exactly_one (rs : List α) (k : Nat) (h : ∀ r ∈ rs, 0 ≤ r) (hk : k < rs.length) :
    (forceOne (binRow (0:α) rs) k).count true = 1 := by
  have hall := bin_cr_zero rs h
  have hany : (binRow (0:α) rs).any id = false := by
    rw [Bool.eq_false_iff]
    intro hc
    rw [List.any_eq_true] at hc
    obtain ⟨b, hb, hid⟩ := hc
    have := hall b hb
    simp [this] at hid
  unfold forceOne
  simp only [hany, Bool.false_eq_true, ↓reduceIte]
  exact count_set_of_all_false _ k hall (by simpa [binRow] using hk)

/-! ### exponential crossover -/

theorem expLen_le (cr : α) : ∀ (n : Nat) (rs : List α), expLen cr n rs ≤ n
  | 0, _ => by simp [expLen]
  | n + 1, [] => by simp [expLen]
  | n + 1, r :: rs => by
      simp only [expLen]
      split
      · have := expLen_le cr n rs; omega
      · omega

/-- block length ≥ k  ⇔  the first k draws are all `< CR` (for k ≤ n and enough draws) -/
theorem expLen_ge_iff (cr : α) : ∀ (n : Nat) (rs : List α) (k : Nat), k ≤ n → k ≤ rs.length →
    (k ≤ expLen cr n rs ↔ ∀ i (h : i < k), ∀ (h2 : i < rs.length), rs[i] < cr)
  | _, _, 0, _, _ => by simp
  | 0, _, k + 1, h, _ => by omega
  | n + 1, [], k + 1, _, h => by simp at h
  | n + 1, r :: rs, k + 1, hn, hl => by
      simp only [expLen]
      have ih := expLen_ge_iff cr n rs k (by omega) (by simpa using hl)
      constructor
      · intro hge i hi h2
        by_cases hr : r < cr
        · rw [if_pos hr] at hge
          cases i with
          | zero => simpa using hr
          | succ i =>
            simp only [List.getElem_cons_succ]
            exact ih.mp (by omega) i (by omega) (by simpa using h2)
        · rw [if_neg hr] at hge; omega
      · intro hall
        have hr : r < cr := by
          have := hall 0 (by omega) (by simp)
          simpa using this
        rw [if_pos hr]
        have : k ≤ expLen cr n rs := ih.mpr (fun i hi h2 => by
          have := hall (i + 1) (by omega) (by simpa using h2)
          simpa using this)
        omega

/-- exponential, CR = 1: the block has full length -/
theorem exp_cr_one (n : Nat) (rs : List α) (hl : n ≤ rs.length) (h : ∀ r ∈ rs, r < 1) :
    expLen (1:α) n rs = n := by
  have := (expLen_ge_iff (1:α) n rs n (le_refl _) hl).mpr (fun i _ h2 => h _ (List.getElem_mem h2))
  have := expLen_le (1:α) n rs
  omega

/-- exponential, CR = 0: the block is empty (so exactly the forced coordinate is taken) -/
theorem exp_cr_zero (n : Nat) (rs : List α) (h : ∀ r ∈ rs, 0 ≤ r) : expLen (0:α) n rs = 0 := by
  cases n with
  | zero => simp [expLen]
  | succ n =>
    cases rs with
    | nil => simp [expLen]
    | cons r rs =>
      simp only [expLen]
      rw [if_neg (not_lt.mpr (h r (by simp)))]

/-- the loop of `cross_exp`, invariant form: after running `k` more steps from counter `j` the mask
holds exactly the old entries plus positions `(start + j') % n` for `j ≤ j' < j + expLen` -/
theorem expFill_get (cr : α) (n start : Nat) (hn : 0 < n) :
    ∀ (k j : Nat) (rs : List α) (m : List Bool), m.length = n → ∀ (c : Nat) (hc : c < n),
      ((expFill cr n start k j rs m)[c]? = some true ↔
        (m[c]? = some true ∨ ∃ j', j ≤ j' ∧ j' < j + expLen cr k rs ∧ (start + j') % n = c))
  | 0, j, rs, m, _, c, _ => by
      simp only [expFill, expLen, Nat.add_zero]
      constructor
      · intro h; exact Or.inl h
      · rintro (h | ⟨j', h1, h2, _⟩)
        · exact h
        · omega
  | k + 1, j, [], m, _, c, _ => by
      simp only [expFill, expLen, Nat.add_zero]
      constructor
      · intro h; exact Or.inl h
      · rintro (h | ⟨j', h1, h2, _⟩)
        · exact h
        · omega
  | k + 1, j, r :: rs, m, hm, c, hc => by
      simp only [expFill, expLen]
      by_cases hr : r < cr
      · rw [if_pos hr, if_pos hr]
        have hlen : (m.set ((start + j) % n) true).length = n := by simpa using hm
        rw [expFill_get cr n start hn k (j + 1) rs _ hlen c hc]
        constructor
        · rintro (h | ⟨j', h1, h2, h3⟩)
          · by_cases hcj : (start + j) % n = c
            · right; exact ⟨j, le_refl _, by omega, hcj⟩
            · left
              rw [List.getElem?_set_ne hcj] at h
              exact h
          · right; exact ⟨j', by omega, by omega, h3⟩
        · rintro (h | ⟨j', h1, h2, h3⟩)
          · left
            by_cases hcj : (start + j) % n = c
            · subst hcj
              rw [List.getElem?_set_self (by rw [hm]; exact Nat.mod_lt _ hn)]
            · rw [List.getElem?_set_ne hcj]; exact h
          · by_cases hj : j' = j
            · subst hj
              left
              rw [← h3, List.getElem?_set_self (by rw [hm]; exact Nat.mod_lt _ hn)]
            · right; exact ⟨j', by omega, by omega, h3⟩
      · rw [if_neg hr, if_neg hr]
        constructor
        · intro h; exact Or.inl h
        · rintro (h | ⟨j', h1, h2, _⟩)
          · exact h
          · omega

/-- **one circularly contiguous block**: coordinate `c` is taken from the mutant iff
`c = (start + j) % n` for some `j` below the block length `L = expLen`, and `L ≤ n` -/
theorem expRow_block (cr : α) (n start : Nat) (rs : List α) (c : Nat) (hc : c < n) :
    ((expRow cr n start rs)[c]? = some true ↔ ∃ j, j < expLen cr n rs ∧ (start + j) % n = c) := by
  unfold expRow
  rw [expFill_get cr n start (by omega) n 0 rs _ (by simp) c hc]
  constructor
  · rintro (h | ⟨j, _, h2, h3⟩)
    · simp [hc] at h
    · exact ⟨j, by omega, h3⟩
  · rintro ⟨j, h1, h2⟩
    right; exact ⟨j, by omega, by omega, h2⟩

/-- non-vacuity: a concrete row -/
example : expRow (1/2 : ℚ) 5 3 [1/10, 1/5, 9/10] = [false, false, false, true, true] := by
  simp [expRow, expFill]; norm_num
example : forceOne (binRow (0:ℚ) [3/10, 7/10]) 1 = [false, true] := by
  simp [forceOne, binRow]; norm_num

end C12
end Pymoode
