/-
C19, continued: the remaining uniform laws, spelled out by counting over the draw grid (each is the affine image of
`grid_count_Ico`): jitter is uniform on `[1 − γ/2, 1 + γ/2)`, bounce-back on the segment between the violated bound and the
base vector, rand-init on the variable's range — a sub-interval receives a number of grid draws proportional to its length,
up to one grid point.
-/
import PymoodeProofs.C19b

set_option linter.unusedSectionVars false
set_option linter.unusedVariables false

namespace Pymoode
namespace C19

variable {α : Type} [Field α] [LinearOrder α] [IsStrictOrderedRing α] [FloorRing α]

/-- **jitter is uniform and centred on 1**: `1 + γ·(r − ½)` lands in `[a, b) ⊆ [1 − γ/2, 1 + γ/2)` for exactly
`⌈(b − (1 − γ/2))/γ · N⌉ − ⌈(a − (1 − γ/2))/γ · N⌉` of the `N` grid draws -/
theorem jitter_count (N : Nat) (hN : 0 < N) (γ a b : α) (hγ : 0 < γ) (ha : 1 - γ / 2 ≤ a) (hab : a ≤ b) (hb : b ≤ 1 + γ / 2) :
    ((Finset.range N).filter fun i => a ≤ jitterFactor γ (gridDraw N i) ∧ jitterFactor γ (gridDraw N i) < b).card =
      ⌈(b - (1 - γ / 2)) / γ * N⌉₊ - ⌈(a - (1 - γ / 2)) / γ * N⌉₊ := by
  rw [← grid_count_Ico N hN ((a - (1 - γ / 2)) / γ) ((b - (1 - γ / 2)) / γ)
    (div_le_div_of_nonneg_right (by linarith) (le_of_lt hγ))
    (by rw [div_le_one hγ]; linarith)]
  congr 1
  ext i
  simp only [Finset.mem_filter, Finset.mem_range]
  unfold jitterFactor
  rw [div_le_iff₀ hγ, lt_div_iff₀ hγ]
  constructor
  · rintro ⟨hi', h1, h2⟩; exact ⟨hi', by linarith, by linarith⟩
  · rintro ⟨hi', h1, h2⟩; exact ⟨hi', by linarith, by linarith⟩

/-- **bounce-back (lower violation) is uniform on `[xl, xb)`** -/
theorem bounce_low_count (N : Nat) (hN : 0 < N) (xl xu xb a b : α) (h : xl < xb) (ha : xl ≤ a) (hab : a ≤ b) (hb : b ≤ xb) :
    ((Finset.range N).filter fun i => a ≤ repairLow .bounceBack xl xu xb (gridDraw N i) ∧
        repairLow .bounceBack xl xu xb (gridDraw N i) < b).card =
      ⌈(b - xl) / (xb - xl) * N⌉₊ - ⌈(a - xl) / (xb - xl) * N⌉₊ :=
  dither_count N hN xl xb a b h ha hab hb

/-- **rand-init (lower violation) is uniform on `[xl, xu)`** -/
theorem randinit_low_count (N : Nat) (hN : 0 < N) (xl xu xb a b : α) (h : xl < xu) (ha : xl ≤ a) (hab : a ≤ b) (hb : b ≤ xu) :
    ((Finset.range N).filter fun i => a ≤ repairLow .randInit xl xu xb (gridDraw N i) ∧
        repairLow .randInit xl xu xb (gridDraw N i) < b).card =
      ⌈(b - xl) / (xu - xl) * N⌉₊ - ⌈(a - xl) / (xu - xl) * N⌉₊ :=
  dither_count N hN xl xu a b h ha hab hb

/-- **bounce-back (upper violation) is uniform on `(xb, xu]`**: `xu − r·(xu − xb)` lands in `(a, b]` for exactly
`⌈(xu − a)/(xu − xb)·N⌉ − ⌈(xu − b)/(xu − xb)·N⌉` grid draws -/
theorem bounce_up_count (N : Nat) (hN : 0 < N) (xl xu xb a b : α) (h : xb < xu) (ha : xb ≤ a) (hab : a ≤ b) (hb : b ≤ xu) :
    ((Finset.range N).filter fun i => a < repairUp .bounceBack xl xu xb (gridDraw N i) ∧
        repairUp .bounceBack xl xu xb (gridDraw N i) ≤ b).card =
      ⌈(xu - a) / (xu - xb) * N⌉₊ - ⌈(xu - b) / (xu - xb) * N⌉₊ := by
  have hd : 0 < xu - xb := by linarith
  rw [← grid_count_Ico N hN ((xu - b) / (xu - xb)) ((xu - a) / (xu - xb))
    (div_le_div_of_nonneg_right (by linarith) (le_of_lt hd))
    (by rw [div_le_one hd]; linarith)]
  congr 1
  ext i
  simp only [Finset.mem_filter, Finset.mem_range]
  simp only [repairUp]
  rw [div_le_iff₀ hd, lt_div_iff₀ hd]
  constructor
  · rintro ⟨hi', h1, h2⟩; exact ⟨hi', by linarith, by linarith⟩
  · rintro ⟨hi', h1, h2⟩; exact ⟨hi', by linarith, by linarith⟩

/-- **rand-init (upper violation) is uniform on `(xl, xu]`** -/
theorem randinit_up_count (N : Nat) (hN : 0 < N) (xl xu xb a b : α) (h : xl < xu) (ha : xl ≤ a) (hab : a ≤ b) (hb : b ≤ xu) :
    ((Finset.range N).filter fun i => a < repairUp .randInit xl xu xb (gridDraw N i) ∧
        repairUp .randInit xl xu xb (gridDraw N i) ≤ b).card =
      ⌈(xu - a) / (xu - xl) * N⌉₊ - ⌈(xu - b) / (xu - xl) * N⌉₊ := by
  have hd : 0 < xu - xl := by linarith
  rw [← grid_count_Ico N hN ((xu - b) / (xu - xl)) ((xu - a) / (xu - xl))
    (div_le_div_of_nonneg_right (by linarith) (le_of_lt hd))
    (by rw [div_le_one hd]; linarith)]
  congr 1
  ext i
  simp only [Finset.mem_filter, Finset.mem_range]
  simp only [repairUp]
  rw [div_le_iff₀ hd, lt_div_iff₀ hd]
  constructor
  · rintro ⟨hi', h1, h2⟩; exact ⟨hi', by linarith, by linarith⟩
  · rintro ⟨hi', h1, h2⟩; exact ⟨hi', by linarith, by linarith⟩

end C19
end Pymoode
