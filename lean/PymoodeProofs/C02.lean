/-
C02  Single-objective DE replaces one-to-one and never loses ground.
-/
import PymoodeModel.Replacement
import Mathlib.Algebra.Order.Field.Basic
import Mathlib.Data.List.Basic
import Mathlib.Data.List.Perm.Basic
import Mathlib.Tactic.Linarith

set_option linter.unusedSectionVars false
set_option linter.unusedVariables false

namespace Pymoode
namespace C02

variable {α : Type} [Field α] [LinearOrder α] [IsStrictOrderedRing α]

/-- the documented meaning of "strictly better" -/
def StrictlyBetter (constr : Bool) (p o : Ind1 α) : Prop :=
  if constr then
    (¬p.feas ∧ ¬o.feas ∧ o.cv < p.cv) ∨ (¬p.feas ∧ o.feas) ∨ (p.feas ∧ o.feas ∧ o.f < p.f)
  else o.f < p.f

theorem improves_iff (constr : Bool) (p o : Ind1 α) :
    improves constr p o = true ↔ StrictlyBetter constr p o := by
  unfold improves StrictlyBetter
  cases constr
  · simp
  · cases hp : p.feas <;> cases ho : o.feas <;> simp

/-- "is a duplicate of a current member or of an earlier offspring" -/
theorem isDuplicate_iff (pop seen : List (Ind1 α)) (o : Ind1 α) :
    isDuplicate pop seen o = true ↔ (∃ e ∈ seen, e.x = o.x) ∨ (∃ p ∈ pop, p.x = o.x) := by
  unfold isDuplicate sameX
  simp [List.any_eq_true]

/-- **slot rule**: slot `k` of the merged population holds parent `k` or offspring `k`, the
offspring exactly when it is strictly better and not a duplicate -/
theorem slotChoice_get (ms : List Bool) (ps os : List (Ind1 α)) :
    ∀ (k : Nat) (hm : k < ms.length) (hp : k < ps.length) (ho : k < os.length)
      (h : k < (slotChoice ms ps os).length),
      (slotChoice ms ps os)[k] = if ms[k] then os[k] else ps[k] := by
  induction ms generalizing ps os with
  | nil => intro k hm; simp at hm
  | cons m ms ih =>
    intro k hm hp ho h
    cases ps with
    | nil => simp at hp
    | cons p ps =>
      cases os with
      | nil => simp at ho
      | cons o os =>
        cases k with
        | zero => simp [slotChoice]
        | succ k =>
          simp only [slotChoice, List.getElem_cons_succ]
          exact ih ps os k (by simpa using hm) (by simpa using hp) (by simpa using ho) _

theorem slotChoice_length (ms : List Bool) (ps os : List (Ind1 α))
    (h1 : ms.length = ps.length) (h2 : ps.length = os.length) :
    (slotChoice ms ps os).length = ps.length := by
  induction ms generalizing ps os with
  | nil => cases ps <;> simp_all [slotChoice]
  | cons m ms ih =>
    cases ps with
    | nil => simp at h1
    | cons p ps =>
      cases os with
      | nil => simp at h2
      | cons o os =>
        simp only [slotChoice, List.length_cons]
        rw [ih ps os (by simpa using h1) (by simpa using h2)]

theorem replaceMaskAux_length (constr : Bool) (pop : List (Ind1 α)) :
    ∀ (ps os seen : List (Ind1 α)), ps.length = os.length →
      (replaceMaskAux constr pop ps os seen).length = ps.length
  | [], [], _, _ => by simp [replaceMaskAux]
  | p :: ps, o :: os, seen, h => by
      simp only [replaceMaskAux, List.length_cons]
      rw [replaceMaskAux_length constr pop ps os _ (by simpa using h)]
  | [], _ :: _, _, h => by simp at h
  | _ :: _, [], _, h => by simp at h

/-- the mask entry of slot `k`: strictly better ∧ not a duplicate of a member or of offspring `< k` -/
theorem replaceMaskAux_get (constr : Bool) (pop : List (Ind1 α)) :
    ∀ (ps os seen : List (Ind1 α)) (k : Nat) (hp : k < ps.length) (ho : k < os.length)
      (h : k < (replaceMaskAux constr pop ps os seen).length),
      (replaceMaskAux constr pop ps os seen)[k] =
        (improves constr ps[k] os[k] && !isDuplicate pop (seen ++ os.take k) os[k])
  | [], _, _, k, hp, _, _ => by simp at hp
  | _ :: _, [], _, k, _, ho, _ => by simp at ho
  | p :: ps, o :: os, seen, 0, _, _, _ => by simp [replaceMaskAux]
  | p :: ps, o :: os, seen, k + 1, hp, ho, h => by
      simp only [replaceMaskAux, List.getElem_cons_succ]
      rw [replaceMaskAux_get constr pop ps os (seen ++ [o]) k (by simpa using hp) (by simpa using ho)]
      simp [List.take_succ_cons, List.append_assoc]

/-- **size never changes**, and the next population is a re-ordering of the slot-wise choice -/
theorem replaceStep_perm (constr : Bool) (pop off : List (Ind1 α)) :
    (replaceStep constr pop off).Perm (slotChoice (replaceMask constr pop off) pop off) :=
  List.mergeSort_perm _ _

theorem replaceStep_length (constr : Bool) (pop off : List (Ind1 α)) (h : pop.length = off.length) :
    (replaceStep constr pop off).length = pop.length := by
  rw [(replaceStep_perm constr pop off).length_eq]
  exact slotChoice_length _ _ _ (replaceMaskAux_length constr pop pop off [] h) h

/-- lexicographic order of `np.lexsort([F, cv])` -/
def LexLe (a b : Ind1 α) : Prop := a.cv < b.cv ∨ (a.cv = b.cv ∧ a.f ≤ b.f)

theorem lexLeB_iff (a b : Ind1 α) : lexLeB a b = true ↔ LexLe a b := by
  unfold lexLeB LexLe
  simp only [Bool.or_eq_true, decide_eq_true_eq, Bool.and_eq_true, Bool.not_eq_eq_eq_not,
    Bool.not_true, decide_eq_false_iff_not, not_lt]
  constructor
  · rintro (h | ⟨h1, h2⟩)
    · exact Or.inl h
    · rcases lt_or_eq_of_le h1 with h | h
      · exact Or.inl h
      · exact Or.inr ⟨h, h2⟩
  · rintro (h | ⟨h1, h2⟩)
    · exact Or.inl h
    · exact Or.inr ⟨le_of_eq h1, h2⟩

theorem LexLe.trans {a b c : Ind1 α} (h1 : LexLe a b) (h2 : LexLe b c) : LexLe a c := by
  unfold LexLe at *
  rcases h1 with h1 | ⟨h1, h1'⟩ <;> rcases h2 with h2 | ⟨h2, h2'⟩
  · exact Or.inl (lt_trans h1 h2)
  · exact Or.inl (h2 ▸ h1)
  · exact Or.inl (h1 ▸ h2)
  · exact Or.inr ⟨h1.trans h2, le_trans h1' h2'⟩

theorem LexLe.total (a b : Ind1 α) : LexLe a b ∨ LexLe b a := by
  unfold LexLe
  rcases lt_trichotomy a.cv b.cv with h | h | h
  · exact Or.inl (Or.inl h)
  · rcases le_total a.f b.f with h' | h'
    · exact Or.inl (Or.inr ⟨h, h'⟩)
    · exact Or.inr (Or.inr ⟨h.symm, h'⟩)
  · exact Or.inr (Or.inl h)

/-- **ordered best-first**: the result is sorted by (cv, F); `rank` = position -/
theorem replaceStep_sorted (constr : Bool) (pop off : List (Ind1 α)) :
    (replaceStep constr pop off).Pairwise LexLe := by
  have := List.pairwise_mergeSort (le := lexLeB (α := α))
    (fun a b c h1 h2 => (lexLeB_iff a c).mpr (((lexLeB_iff a b).mp h1).trans ((lexLeB_iff b c).mp h2)))
    (fun a b => by
      rcases LexLe.total a b with h | h
      · simp [(lexLeB_iff a b).mpr h]
      · simp [(lexLeB_iff b a).mpr h])
    (slotChoice (replaceMask constr pop off) pop off)
  exact this.imp (fun h => (lexLeB_iff _ _).mp h)

/-- pymoo's feasibility convention (checked on every record): `CV ≥ 0`, feasible ⇔ `CV ≤ 0` -/
def CvOk (i : Ind1 α) : Prop := 0 ≤ i.cv ∧ (i.feas = true ↔ i.cv ≤ 0)

/-- an accepted offspring is lexicographically no worse than the parent it replaces -/
theorem improves_lexLe (p o : Ind1 α) (hp : CvOk p) (ho : CvOk o)
    (h : improves true p o = true) : LexLe o p := by
  rw [improves_iff] at h
  simp only [StrictlyBetter, ↓reduceIte] at h
  unfold LexLe
  rcases h with ⟨_, _, h⟩ | ⟨h1, h2⟩ | ⟨h1, h2, h3⟩
  · exact Or.inl h
  · have ho0 : o.cv ≤ 0 := ho.2.mp h2
    have hp0 : ¬ p.cv ≤ 0 := fun hc => h1 (hp.2.mpr hc)
    exact Or.inl (lt_of_le_of_lt ho0 (not_le.mp hp0))
  · have ho0 : o.cv = 0 := le_antisymm (ho.2.mp h2) ho.1
    have hp0 : p.cv = 0 := le_antisymm (hp.2.mp h1) hp.1
    exact Or.inr ⟨ho0.trans hp0.symm, le_of_lt h3⟩

/-- every slot ends up with an individual no worse than its previous occupant -/
theorem slot_no_worse (ms : List Bool) : ∀ (ps os : List (Ind1 α)),
    (∀ k (hm : k < ms.length) (hp : k < ps.length) (ho : k < os.length), ms[k] = true → LexLe os[k] ps[k]) →
    ∀ p ∈ ps.take (min ms.length os.length), ∃ q ∈ slotChoice ms ps os, LexLe q p := by
  induction ms with
  | nil => intro ps os _ p hp; simp at hp
  | cons m ms ih =>
    intro ps os hall p hp
    cases ps with
    | nil => simp at hp
    | cons p0 ps =>
      cases os with
      | nil => simp at hp
      | cons o os =>
        simp only [List.length_cons, Nat.add_min_add_right, List.take_succ_cons, List.mem_cons] at hp
        simp only [slotChoice, List.mem_cons]
        rcases hp with rfl | hp
        · cases hm : m
          · exact ⟨p, Or.inl (by simp), Or.inr ⟨rfl, le_refl _⟩⟩
          · refine ⟨o, Or.inl (by simp), ?_⟩
            have := hall 0 (by simp) (by simp) (by simp) (by simpa using hm)
            simpa using this
        · obtain ⟨q, hq, hle⟩ := ih ps os (fun k hm hp ho hk => by
            have := hall (k + 1) (by simpa using hm) (by simpa using hp) (by simpa using ho) (by simpa using hk)
            simpa using this) p hp
          exact ⟨q, Or.inr hq, hle⟩

/-- **never loses ground, one generation (constrained or not)**: for every member of the old
population the new population holds a member that is at least as good in the (cv, F) order -/
theorem replaceStep_no_worse (constr : Bool) (pop off : List (Ind1 α)) (hl : pop.length = off.length)
    (hcv : constr = true → (∀ i ∈ pop, CvOk i) ∧ (∀ i ∈ off, CvOk i))
    (hunc : constr = false → ∀ i ∈ pop ++ off, i.cv = 0) :
    ∀ p ∈ pop, ∃ q ∈ replaceStep constr pop off, LexLe q p := by
  intro p hp
  have hml : (replaceMask constr pop off).length = pop.length :=
    replaceMaskAux_length constr pop pop off [] hl
  have := slot_no_worse (replaceMask constr pop off) pop off (by
    intro k hm hpk hok hk
    have hk : (improves constr pop[k] off[k] && !isDuplicate pop ([] ++ off.take k) off[k]) = true := by
      rw [← replaceMaskAux_get constr pop pop off [] k hpk hok (by simpa [replaceMask] using hm)]
      exact hk
    simp only [Bool.and_eq_true] at hk
    cases constr with
    | true =>
      obtain ⟨h1, h2⟩ := hcv rfl
      exact improves_lexLe pop[k] off[k] (h1 _ (List.getElem_mem hpk)) (h2 _ (List.getElem_mem hok)) hk.1
    | false =>
      have hi := (improves_iff false pop[k] off[k]).mp hk.1
      simp only [StrictlyBetter, Bool.false_eq_true, ↓reduceIte] at hi
      have e1 := hunc rfl pop[k] (by simp [List.getElem_mem hpk])
      have e2 := hunc rfl off[k] (by simp [List.getElem_mem hok])
      exact Or.inr ⟨e2.trans e1.symm, le_of_lt hi⟩) p (by
    rw [hml, ← hl, Nat.min_self, List.take_length]; exact hp)
  obtain ⟨q, hq, hle⟩ := this
  exact ⟨q, (replaceStep_perm constr pop off).symm.subset hq, hle⟩

/-- the head of the sorted population is its best member -/
theorem head_best (l : List (Ind1 α)) (hs : l.Pairwise LexLe) (b : Ind1 α) (t : List (Ind1 α))
    (h : l = b :: t) : ∀ q ∈ l, LexLe b q := by
  subst h
  intro q hq
  simp only [List.mem_cons] at hq
  rcases hq with rfl | hq
  · exact Or.inr ⟨rfl, le_refl _⟩
  · exact (List.pairwise_cons.mp hs).1 q hq

/-- **best never gets worse, any number of generations**: the offspring of every generation
are universally quantified (so this covers every variant / repair / parameter setting). -/
theorem best_monotone (offs : List (List (Ind1 α))) :
    ∀ (pop : List (Ind1 α)),
      (∀ i ∈ pop, CvOk i) → (∀ off ∈ offs, off.length = pop.length ∧ ∀ i ∈ off, CvOk i) →
      ∀ p ∈ pop, ∃ q ∈ offs.foldl (replaceStep true) pop, LexLe q p := by
  induction offs with
  | nil => intro pop _ _ p hp; exact ⟨p, hp, Or.inr ⟨rfl, le_refl _⟩⟩
  | cons off offs ih =>
    intro pop hpop hoffs p hp
    obtain ⟨hlen, hocv⟩ := hoffs off (by simp)
    simp only [List.foldl_cons]
    obtain ⟨q, hq, hle⟩ := replaceStep_no_worse true pop off hlen.symm (fun _ => ⟨hpop, hocv⟩)
      (fun h => by simp at h) p hp
    have hnewcv : ∀ i ∈ replaceStep true pop off, CvOk i := by
      intro i hi
      have hi' := (replaceStep_perm true pop off).subset hi
      -- every member of the slot-wise choice is a parent or an offspring
      have : ∀ (ms : List Bool) (ps os : List (Ind1 α)), ∀ i ∈ slotChoice ms ps os, i ∈ ps ∨ i ∈ os := by
        intro ms
        induction ms with
        | nil => intro ps os i hi; simp [slotChoice] at hi
        | cons m ms ihm =>
          intro ps os i hi
          cases ps with
          | nil => simp [slotChoice] at hi
          | cons p0 ps =>
            cases os with
            | nil => simp [slotChoice] at hi
            | cons o os =>
              simp only [slotChoice, List.mem_cons] at hi
              rcases hi with rfl | hi
              · cases m <;> simp
              · rcases ihm ps os i hi with h | h
                · exact Or.inl (by simp [h])
                · exact Or.inr (by simp [h])
      rcases this _ _ _ i hi' with h | h
      · exact hpop i h
      · exact hocv i h
    have hlen' : (replaceStep true pop off).length = pop.length := replaceStep_length true pop off hlen.symm
    obtain ⟨q', hq', hle'⟩ := ih (replaceStep true pop off) hnewcv (fun o ho => by
      obtain ⟨a, b⟩ := hoffs o (by simp [ho])
      exact ⟨by rw [hlen']; exact a, b⟩) q hq
    exact ⟨q', hq', hle'.trans hle⟩

end C02
end Pymoode
