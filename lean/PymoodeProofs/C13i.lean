/-
C13 / C14, continued: **the compiled mnn / 2nn kernel computes the published definition** on every front whose
rows of the distance matrix have no ties (`NoTies`: for every point, the squared distances to all points, itself
included, are pairwise different — in particular no duplicate points), for every number of removals:

  `mnnKernelF f nObj nRemove twonn = (mnnFallback f nObj nRemove twonn, true)`.

`mnnFallback` is the pure-Python engine and at the same time the definition ("remove the most crowded point,
re-compute, repeat"). The hypothesis is exactly what excludes known finding F9 (a neighbour listed twice on fronts
with tied distances). The proof is a simulation: the rows of the kernel's neighbour table are, for every live
non-extreme point, the `M` nearest live points in ascending order of distance (`IsNearest`); removing the pruned
point and re-inserting every live candidate (`c_calc_mnn_iter`) re-establishes that (`refill_near`); rows that did
not list the pruned point already are the `M` nearest of the smaller live set; the product over such a row is the
product of the order statistics 1..M of the definition's distance row (`cMnn_eq_prod`).
-/
import PymoodeProofs.C13h
import PymoodeProofs.C15b
import Mathlib.Data.Rat.Defs
import Mathlib.Algebra.Order.Field.Rat

set_option linter.unusedSectionVars false
set_option linter.unusedVariables false
set_option linter.unusedSimpArgs false

namespace Pymoode
namespace C13

variable {α : Type} [Field α] [LinearOrder α] [IsStrictOrderedRing α] [Inhabited α]

/-- strictly ascending in distance -/
def SortedBy (dist : Nat → α) (vals : List Nat) : Prop := vals.Pairwise (fun a b => dist a < dist b)

theorem SortedBy.nodup {dist : Nat → α} {vals : List Nat} (h : SortedBy dist vals) : vals.Nodup := by
  unfold SortedBy at h
  exact h.imp (fun hab heq => by subst heq; exact lt_irrefl _ hab)

/-- `vals` (with `z` unassigned slots behind them) are the members of `pool` nearest to the row's point: ascending,
and whatever is in the pool but not in the row is farther than everything in the row — which is then complete -/
structure NearSpec (dist : Nat → α) (pool vals : List Nat) (z : Nat) : Prop where
  sorted : SortedBy dist vals
  sub : ∀ v ∈ vals, v ∈ pool
  far : ∀ v ∈ pool, v ∉ vals → z = 0 ∧ ∀ c ∈ vals, dist c < dist v

theorem mem_take_lt {vals : List Nat} {q c : Nat} (h : c ∈ vals.take q) :
    ∃ p, ∃ (hp : p < vals.length), p < q ∧ vals[p] = c := by
  obtain ⟨p, hp, e⟩ := List.mem_iff_getElem.mp h
  rw [List.length_take] at hp
  rw [List.getElem_take] at e
  exact ⟨p, by omega, by omega, e⟩

theorem mem_drop_ge {vals : List Nat} {q c : Nat} (h : c ∈ vals.drop q) :
    ∃ p, ∃ (hp : p < vals.length), q ≤ p ∧ vals[p] = c := by
  obtain ⟨p, hp, e⟩ := List.mem_iff_getElem.mp h
  rw [List.length_drop] at hp
  rw [List.getElem_drop] at e
  exact ⟨q + p, by omega, by omega, e⟩

theorem sortedBy_get_lt {dist : Nat → α} {vals : List Nat} (hs : SortedBy dist vals) {p q : Nat} (hpq : p < q)
    (hq : q < vals.length) : dist (vals[p]'(by omega)) < dist vals[q] := by
  unfold SortedBy at hs
  exact List.pairwise_iff_getElem.mp hs p q (by omega) hq hpq

/-- the walk of `c_calc_mnn_iter` over the slots of one ascending row for a candidate that is not listed and ties
with nobody: it is inserted at its rank -/
theorem insertAt_exact (dist : Nat → α) (j : Nat) (vals : List Nat) (z : Nat) (hs : SortedBy dist vals)
    (hj : j ∉ vals) (hne : ∀ c ∈ vals, dist c ≠ dist j) :
    ∀ (fuel m : Nat), m + fuel = vals.length + z → m ≤ vals.length →
      (∀ p (hp : p < vals.length), p < m → dist vals[p] < dist j) →
      (z = 0 → ∃ p, ∃ (hp : p < vals.length), m ≤ p ∧ dist j < dist vals[p]) →
      ∃ q, q ≤ vals.length ∧ (z = 0 → q < vals.length) ∧
        (∀ c ∈ vals.take q, dist c < dist j) ∧ (∀ c ∈ vals.drop q, dist j < dist c) ∧
        mnnInsertAt dist j fuel m (vals.map some ++ List.replicate z none) =
          ((vals.take q ++ [j]) ++ (if z = 0 then (vals.drop q).dropLast else vals.drop q)).map some ++
            List.replicate (z - 1) none
  | 0, m, hm, hle, hpre, hz => by
    exfalso
    have hz0 : z = 0 := by omega
    obtain ⟨p, hp, hmp, _⟩ := hz hz0
    omega
  | fuel + 1, m, hm, hle, hpre, hz => by
    unfold mnnInsertAt
    rcases Nat.lt_or_ge m vals.length with hlt | hge
    · rw [getD_shape_lt vals z m hlt]
      simp only []
      have hcj : vals[m] ≠ j := fun h => hj (h ▸ List.getElem_mem hlt)
      rw [if_neg hcj]
      by_cases hd : (!decide (dist vals[m] < dist j)) = true
      · rw [if_pos hd]
        have hlt' : dist j < dist vals[m] := by
          have h1 : ¬ dist vals[m] < dist j := by simpa using hd
          exact lt_of_le_of_ne (not_lt.mp h1) (fun h => hne _ (List.getElem_mem hlt) h.symm)
        refine ⟨m, hle, fun _ => hlt, ?_, ?_, ?_⟩
        · intro c hc
          obtain ⟨p, hp, hpm, e⟩ := mem_take_lt hc
          rw [← e]; exact hpre p hp hpm
        · intro c hc
          obtain ⟨p, hp, hpm, e⟩ := mem_drop_ge hc
          rw [← e]
          rcases Nat.eq_or_lt_of_le hpm with h | h
          · subst h; exact hlt'
          · exact lt_trans hlt' (sortedBy_get_lt hs h hp)
        · cases z with
          | zero =>
            simp only [List.replicate_zero, List.append_nil, List.map_append, List.map_take, List.map_cons,
              List.map_nil, List.map_dropLast, List.map_drop, ↓reduceIte, Nat.zero_sub]
          | succ z0 =>
            have e1 : List.take m (List.map some vals ++ List.replicate (z0 + 1) none) = (vals.take m).map some := by
              rw [List.take_append_of_le_length (by simpa using le_of_lt hlt), List.map_take]
            have e2 : List.drop m (List.map some vals ++ List.replicate (z0 + 1) none) =
                (vals.drop m).map some ++ List.replicate (z0 + 1) none := by
              rw [List.drop_append_of_le_length (by simpa using le_of_lt hlt), List.map_drop]
            rw [e1, e2, List.replicate_succ', ← List.append_assoc, List.dropLast_concat]
            simp [List.append_assoc]
      · rw [if_neg hd]
        have hlt' : dist vals[m] < dist j := by simpa using hd
        apply insertAt_exact dist j vals z hs hj hne fuel (m + 1) (by omega) (by omega)
        · intro p hp hpm
          rcases Nat.eq_or_lt_of_le (Nat.le_of_lt_succ hpm) with h | h
          · subst h; exact hlt'
          · exact hpre p hp h
        · intro hz0
          obtain ⟨p, hp, hmp, hjp⟩ := hz hz0
          refine ⟨p, hp, ?_, hjp⟩
          rcases Nat.eq_or_lt_of_le hmp with h | h
          · subst h; exact absurd hjp (not_lt.mpr (le_of_lt hlt'))
          · exact h
    · have hmv : m = vals.length := by omega
      have hzpos : 0 < z := by omega
      rw [getD_shape_ge vals z m hge]
      simp only []
      refine ⟨vals.length, le_refl _, fun h => by omega, ?_, ?_, ?_⟩
      · intro c hc
        obtain ⟨p, hp, hpm, e⟩ := mem_take_lt hc
        rw [← e]; exact hpre p hp (by omega)
      · intro c hc
        simp at hc
      · cases z with
        | zero => omega
        | succ z0 =>
          subst hmv
          have : (List.map some vals).length ≤ vals.length := by simp
          rw [List.set_append_right _ _ this]
          simp [List.replicate_succ]


theorem mem_dropLast_drop {vals : List Nat} {q c : Nat} (h : c ∈ (vals.drop q).dropLast) :
    ∃ p, ∃ (hp : p < vals.length), q ≤ p ∧ p + 1 < vals.length ∧ vals[p] = c := by
  rw [List.dropLast_eq_take] at h
  obtain ⟨p, hp, e⟩ := List.mem_iff_getElem.mp h
  rw [List.length_take, List.length_drop] at hp
  rw [List.getElem_take, List.getElem_drop] at e
  exact ⟨q + p, by omega, by omega, by omega, e⟩

theorem get_mem_dropLast_drop {vals : List Nat} {q p : Nat} (hq : q ≤ p) (hp : p + 1 < vals.length) :
    vals[p]'(by omega) ∈ (vals.drop q).dropLast := by
  rw [List.dropLast_eq_take, List.mem_iff_getElem]
  refine ⟨p - q, by rw [List.length_take, List.length_drop]; omega, ?_⟩
  rw [List.getElem_take, List.getElem_drop]
  congr 1; omega

theorem get_mem_take {vals : List Nat} {q p : Nat} (hq : p < q) (hp : p < vals.length) :
    vals[p] ∈ vals.take q := by
  rw [List.mem_iff_getElem]
  exact ⟨p, by rw [List.length_take]; omega, by rw [List.getElem_take]⟩

theorem get_mem_drop {vals : List Nat} {q p : Nat} (hq : q ≤ p) (hp : p < vals.length) :
    vals[p] ∈ vals.drop q := by
  rw [List.mem_iff_getElem]
  refine ⟨p - q, by rw [List.length_drop]; omega, ?_⟩
  rw [List.getElem_drop]
  congr 1; omega

/-- inserting a new candidate at its rank (and letting the farthest fall off a complete row) keeps `NearSpec`,
for the pool enlarged by the candidate -/
theorem insert_near (dist : Nat → α) (j : Nat) (pool vals : List Nat) (z : Nat) (h : NearSpec dist pool vals z)
    (hj : j ∉ vals) (q : Nat) (hq : q ≤ vals.length) (hqz : z = 0 → q < vals.length)
    (hlo : ∀ c ∈ vals.take q, dist c < dist j) (hhi : ∀ c ∈ vals.drop q, dist j < dist c) :
    NearSpec dist (j :: pool) ((vals.take q ++ [j]) ++ (if z = 0 then (vals.drop q).dropLast else vals.drop q))
      (z - 1) := by
  have htail_sub : ∀ c ∈ (if z = 0 then (vals.drop q).dropLast else vals.drop q), c ∈ vals.drop q := by
    intro c hc
    split at hc
    · exact List.mem_of_mem_dropLast hc
    · exact hc
  refine ⟨?_, ?_, ?_⟩
  · unfold SortedBy
    rw [List.pairwise_append]
    refine ⟨?_, ?_, ?_⟩
    · rw [List.pairwise_append]
      refine ⟨h.sorted.sublist (List.take_sublist _ _), List.pairwise_singleton _ _, ?_⟩
      intro a ha b hb
      rw [List.mem_singleton] at hb; subst hb
      exact hlo a ha
    · have : (if z = 0 then (vals.drop q).dropLast else vals.drop q).Sublist vals := by
        split
        · exact (List.dropLast_sublist _).trans (List.drop_sublist _ _)
        · exact List.drop_sublist _ _
      exact h.sorted.sublist this
    · intro a ha b hb
      have hb' := htail_sub b hb
      rw [List.mem_append, List.mem_singleton] at ha
      rcases ha with ha | ha
      · obtain ⟨p, hp, hpq, e⟩ := mem_take_lt ha
        obtain ⟨p', hp', hpq', e'⟩ := mem_drop_ge hb'
        rw [← e, ← e']
        exact sortedBy_get_lt h.sorted (by omega) hp'
      · subst ha; exact hhi b hb'
  · intro v hv
    rw [List.mem_append, List.mem_append, List.mem_singleton] at hv
    rcases hv with (hv | hv) | hv
    · exact List.mem_cons_of_mem _ (h.sub v (List.mem_of_mem_take hv))
    · subst hv; exact List.mem_cons_self
    · exact List.mem_cons_of_mem _ (h.sub v (List.mem_of_mem_drop (htail_sub v hv)))
  · intro v hv hvn
    rw [List.mem_append, List.mem_append, List.mem_singleton] at hvn
    simp only [not_or] at hvn
    obtain ⟨⟨hv1, hv2⟩, hv3⟩ := hvn
    rw [List.mem_cons] at hv
    rcases hv with hv | hv
    · exact absurd hv hv2
    by_cases hz : z = 0
    · refine ⟨by omega, ?_⟩
      rw [if_pos hz] at hv3
      have hqlt := hqz hz
      have hjq : dist j < dist vals[q] := hhi _ (get_mem_drop (le_refl _) hqlt)
      by_cases hvv : v ∈ vals
      · -- `v` is the entry that fell off: the last one
        obtain ⟨pv, hpv, epv⟩ := List.mem_iff_getElem.mp hvv
        have hlast : pv + 1 = vals.length := by
          by_contra hne
          rcases Nat.lt_or_ge pv q with h1 | h1
          · exact hv1 (epv ▸ get_mem_take h1 hpv)
          · exact hv3 (epv ▸ get_mem_dropLast_drop h1 (by omega))
        intro c hc
        rw [if_pos hz, List.mem_append, List.mem_append, List.mem_singleton] at hc
        rw [← epv]
        rcases hc with (hc | hc) | hc
        · obtain ⟨p, hp, hpq, e⟩ := mem_take_lt hc
          rw [← e]; exact sortedBy_get_lt h.sorted (by omega) hpv
        · subst hc
          exact hhi _ (get_mem_drop (by omega) hpv)
        · obtain ⟨p, hp, hpq, hpl, e⟩ := mem_dropLast_drop hc
          rw [← e]; exact sortedBy_get_lt h.sorted (by omega) hpv
      · obtain ⟨_, hfar⟩ := h.far v hv hvv
        intro c hc
        rw [if_pos hz, List.mem_append, List.mem_append, List.mem_singleton] at hc
        rcases hc with (hc | hc) | hc
        · exact hfar c (List.mem_of_mem_take hc)
        · subst hc
          exact lt_trans hjq (hfar _ (List.getElem_mem hqlt))
        · exact hfar c (List.mem_of_mem_drop (List.mem_of_mem_dropLast hc))
    · exfalso
      rw [if_neg hz] at hv3
      have hvv : v ∉ vals := by
        intro hvv
        rw [← List.take_append_drop q vals, List.mem_append] at hvv
        rcases hvv with h1 | h1
        · exact hv1 h1
        · exact hv3 h1
      exact hz (h.far v hv hvv).1


/-- a candidate that the ascending row already lists is found before anything is moved -/
theorem insertAt_member (dist : Nat → α) (vals : List Nat) (z : Nat) (hs : SortedBy dist vals) (p0 : Nat)
    (hp0 : p0 < vals.length) :
    ∀ (fuel m : Nat), m ≤ p0 → p0 < m + fuel →
      mnnInsertAt dist vals[p0] fuel m (vals.map some ++ List.replicate z none) =
        vals.map some ++ List.replicate z none
  | 0, m, h1, h2 => by omega
  | fuel + 1, m, h1, h2 => by
    unfold mnnInsertAt
    rw [getD_shape_lt vals z m (by omega)]
    simp only []
    by_cases hcj : vals[m] = vals[p0]
    · rw [if_pos hcj]
    · rw [if_neg hcj]
      have hmp : m < p0 := by
        rcases Nat.eq_or_lt_of_le h1 with h | h
        · subst h; exact absurd rfl hcj
        · exact h
      have hlt : dist vals[m] < dist vals[p0] := sortedBy_get_lt hs hmp hp0
      have hd : ¬ ((!decide (dist vals[m] < dist vals[p0])) = true) := by simp [hlt]
      rw [if_neg hd]
      exact insertAt_member dist vals z hs p0 hp0 fuel (m + 1) (by omega) (by omega)

theorem NearSpec.mono_pool {dist : Nat → α} {pool pool' vals : List Nat} {z : Nat} (h : NearSpec dist pool vals z)
    (hp : ∀ v, v ∈ pool' ↔ v ∈ pool) : NearSpec dist pool' vals z :=
  ⟨h.sorted, fun v hv => (hp v).mpr (h.sub v hv), fun v hv hvn => h.far v ((hp v).mp hv) hvn⟩

theorem getLast_shape_full (vals : List Nat) (hne : vals ≠ []) :
    (vals.map some ++ List.replicate 0 none).getLast?.getD none = some (vals[vals.length - 1]'(by
      have := List.length_pos_iff.mpr hne; omega)) := by
  have e : (vals.map some ++ List.replicate 0 none) = vals.map some := by simp
  rw [e, List.getLast?_map, List.getLast?_eq_getElem?]
  have hl := List.length_pos_iff.mpr hne
  rw [List.getElem?_eq_getElem (by omega)]
  rfl

/-- **one candidate of `c_calc_mnn_iter`**: the row stays the nearest members, of the pool enlarged by the candidate -/
theorem insertStep_near (dist : Nat → α) (i j : Nat) (pool vals : List Nat) (z : Nat)
    (h : NearSpec dist pool vals z) (hne : ∀ c ∈ vals, c ≠ j → dist c ≠ dist j) :
    ∃ (vals' : List Nat) (z' : Nat),
      mnnInsertStep dist i j (vals.map some ++ List.replicate z none) = vals'.map some ++ List.replicate z' none ∧
      vals'.length + z' = vals.length + z ∧
      NearSpec dist (if j = i then pool else j :: pool) vals' z' := by
  unfold mnnInsertStep
  by_cases hji : j = i
  · rw [if_pos hji, if_pos hji]
    exact ⟨vals, z, rfl, rfl, h⟩
  rw [if_neg hji, if_neg hji]
  simp only []
  have hlen : (vals.map some ++ List.replicate z none).length = vals.length + z := by simp
  have hsame : NearSpec dist (j :: pool) vals z → ∃ (vals' : List Nat) (z' : Nat),
      vals.map some ++ List.replicate z none = vals'.map some ++ List.replicate z' none ∧
      vals'.length + z' = vals.length + z ∧ NearSpec dist (j :: pool) vals' z' :=
    fun hn => ⟨vals, z, rfl, rfl, hn⟩
  by_cases hjv : j ∈ vals
  · -- already listed: nothing moves
    have hn : NearSpec dist (j :: pool) vals z :=
      ⟨h.sorted, fun v hv => List.mem_cons_of_mem _ (h.sub v hv), fun v hv hvn => by
        rw [List.mem_cons] at hv
        rcases hv with hv | hv
        · subst hv; exact absurd hjv hvn
        · exact h.far v hv hvn⟩
    obtain ⟨p0, hp0, e0⟩ := List.mem_iff_getElem.mp hjv
    have hmem := insertAt_member dist vals z h.sorted p0 hp0 (vals.length + z) 0 (by omega) (by omega)
    rw [e0] at hmem
    split
    · rw [hlen, hmem]; exact hsame hn
    · split
      · rw [hlen, hmem]; exact hsame hn
      · exact hsame hn
  · have hne' : ∀ c ∈ vals, dist c ≠ dist j := fun c hc => hne c hc (fun e => hjv (e ▸ hc))
    by_cases hM : vals.length + z = 0
    · -- a row without slots
      have hv0 : vals = [] := List.eq_nil_of_length_eq_zero (by omega)
      have hz0 : z = 0 := by omega
      subst hv0; subst hz0
      have hn : NearSpec dist (j :: pool) [] 0 :=
        ⟨List.Pairwise.nil, fun v hv => absurd hv List.not_mem_nil, fun v _ _ => ⟨rfl, fun c hc => absurd hc List.not_mem_nil⟩⟩
      refine ⟨[], 0, ?_, rfl, hn⟩
      simp [mnnInsertAt]
    -- does the candidate enter?
    by_cases hz : z = 0
    · subst hz
      have hvne : vals ≠ [] := by intro h0; subst h0; simp at hM
      have hl := List.length_pos_iff.mpr hvne
      rw [getLast_shape_full vals hvne]
      simp only []
      by_cases hd : (!decide (dist (vals[vals.length - 1]'(by omega)) < dist j)) = true
      · rw [if_pos hd, hlen]
        have hlt' : dist j < dist (vals[vals.length - 1]'(by omega)) := by
          have h1 : ¬ dist (vals[vals.length - 1]'(by omega)) < dist j := by simpa using hd
          exact lt_of_le_of_ne (not_lt.mp h1) (fun h => hne' _ (List.getElem_mem _) h.symm)
        obtain ⟨q, hq, hqz, hlo, hhi, e⟩ := insertAt_exact dist j vals 0 h.sorted hjv hne' (vals.length + 0) 0
          (by omega) (by omega) (fun p hp hp0 => by omega) (fun _ => ⟨vals.length - 1, by omega, by omega, hlt'⟩)
        rw [e]
        refine ⟨_, _, rfl, ?_, insert_near dist j pool vals 0 h hjv q hq hqz hlo hhi⟩
        simp only [↓reduceIte, List.length_append, List.length_take, List.length_cons, List.length_nil,
          List.length_dropLast, List.length_drop]
        have := hqz rfl
        omega
      · rw [if_neg hd]
        have hlt' : dist (vals[vals.length - 1]'(by omega)) < dist j := by simpa using hd
        apply hsame
        refine ⟨h.sorted, fun v hv => List.mem_cons_of_mem _ (h.sub v hv), fun v hv hvn => ?_⟩
        rw [List.mem_cons] at hv
        rcases hv with hv | hv
        · subst hv
          refine ⟨rfl, fun c hc => ?_⟩
          obtain ⟨p, hp, e⟩ := List.mem_iff_getElem.mp hc
          rw [← e]
          rcases Nat.eq_or_lt_of_le (Nat.le_sub_one_of_lt hp) with h1 | h1
          · simp only [h1]; exact hlt'
          · exact lt_trans (sortedBy_get_lt h.sorted h1 (by omega)) hlt'
        · exact h.far v hv hvn
    · have hlast : (vals.map some ++ List.replicate z none).getLast?.getD none = none := by
        rcases getLast_shape vals z with hl | ⟨hz0, _⟩
        · exact hl
        · exact absurd hz0 hz
      rw [hlast]
      simp only [↓reduceIte, hlen]
      obtain ⟨q, hq, hqz, hlo, hhi, e⟩ := insertAt_exact dist j vals z h.sorted hjv hne' (vals.length + z) 0
        (by omega) (by omega) (fun p hp hp0 => by omega) (fun h0 => absurd h0 hz)
      rw [e]
      refine ⟨_, _, rfl, ?_, insert_near dist j pool vals z h hjv q hq hqz hlo hhi⟩
      simp only [if_neg hz, List.length_append, List.length_take, List.length_cons, List.length_nil, List.length_drop]
      omega


/-- the pool after the candidates `h` (all but the row's own point) have been offered -/
def addCands (i : Nat) (h pool : List Nat) : List Nat := h.foldl (fun p j => if j = i then p else j :: p) pool

theorem mem_addCands (i v : Nat) : ∀ (h pool : List Nat), v ∈ addCands i h pool ↔ v ∈ pool ∨ (v ∈ h ∧ v ≠ i)
  | [], pool => by simp [addCands]
  | a :: t, pool => by
    unfold addCands
    simp only [List.foldl_cons]
    have ih := mem_addCands i v t (if a = i then pool else a :: pool)
    unfold addCands at ih
    rw [ih]
    by_cases hai : a = i
    · subst hai
      simp only [if_true, List.mem_cons]
      constructor
      · rintro (h | ⟨h1, h2⟩)
        · exact Or.inl h
        · exact Or.inr ⟨Or.inr h1, h2⟩
      · rintro (h | ⟨h1 | h1, h2⟩)
        · exact Or.inl h
        · exact absurd h1 h2
        · exact Or.inr ⟨h1, h2⟩
    · simp only [if_neg hai, List.mem_cons]
      constructor
      · rintro ((h | h) | ⟨h1, h2⟩)
        · exact Or.inr ⟨Or.inl h, h ▸ hai⟩
        · exact Or.inl h
        · exact Or.inr ⟨Or.inr h1, h2⟩
      · rintro (h | ⟨h1 | h1, h2⟩)
        · exact Or.inl (Or.inr h)
        · exact Or.inl (Or.inl h1)
        · exact Or.inr ⟨h1, h2⟩

/-- **`c_calc_mnn_iter` for one row** (no two candidates at the same distance): after all candidates have been
offered the row lists the nearest members of the initial pool and the candidates -/
theorem refill_near (dist : Nat → α) (n : Nat) (hinj : ∀ a b, a < n → b < n → a ≠ b → dist a ≠ dist b) (i : Nat) :
    ∀ (h pool vals : List Nat) (z : Nat), (∀ j ∈ h, j < n) → (∀ v ∈ pool, v < n) → NearSpec dist pool vals z →
      ∃ (vals' : List Nat) (z' : Nat),
        mnnRefill dist i h (vals.map some ++ List.replicate z none) = vals'.map some ++ List.replicate z' none ∧
        vals'.length + z' = vals.length + z ∧ NearSpec dist (addCands i h pool) vals' z'
  | [], pool, vals, z, _, _, hn => ⟨vals, z, rfl, rfl, hn⟩
  | a :: t, pool, vals, z, hh, hp, hn => by
    unfold mnnRefill addCands
    simp only [List.foldl_cons]
    have ha : a < n := hh a (by simp)
    obtain ⟨v1, z1, e1, l1, n1⟩ := insertStep_near dist i a pool vals z hn
      (fun c hc hca => hinj c a (hp c (hn.sub c hc)) ha hca)
    rw [e1]
    have hp1 : ∀ v ∈ (if a = i then pool else a :: pool), v < n := by
      intro v hv
      split at hv
      · exact hp v hv
      · rw [List.mem_cons] at hv
        rcases hv with hv | hv
        · subst hv; exact ha
        · exact hp v hv
    obtain ⟨v2, z2, e2, l2, n2⟩ := refill_near dist n hinj i t _ v1 z1
      (fun j hj => hh j (List.mem_cons_of_mem _ hj)) hp1 n1
    unfold mnnRefill at e2
    unfold addCands at n2
    exact ⟨v2, z2, e2, by omega, n2⟩

/-- `vals` are the `M` live points nearest to point `i`, in ascending order of distance -/
def IsNearest (dist : Nat → α) (M i : Nat) (live vals : List Nat) : Prop :=
  vals.length = M ∧ NearSpec dist (live.filter (· != i)) vals 0

/-- **a refilled row is the list of the `M` nearest live points** -/
theorem refill_isNearest (dist : Nat → α) (n : Nat) (hinj : ∀ a b, a < n → b < n → a ≠ b → dist a ≠ dist b)
    (i : Nat) (h : List Nat) (hnd : h.Nodup) (hlt : ∀ j ∈ h, j < n) (vals : List Nat) (z : Nat)
    (hs : SortedBy dist vals) (hsub : ∀ v ∈ vals, v ∈ h ∧ v ≠ i)
    (hcount : vals.length + z ≤ (h.filter (· != i)).length) :
    ∃ vals' : List Nat, mnnRefill dist i h (vals.map some ++ List.replicate z none) = vals'.map some ∧
      IsNearest dist (vals.length + z) i h vals' := by
  have h0 : NearSpec dist vals vals z := ⟨hs, fun v hv => hv, fun v hv hvn => absurd hv hvn⟩
  obtain ⟨vals', z', e, hl, hn⟩ := refill_near dist n hinj i h vals vals z hlt (fun v hv => hlt v (hsub v hv).1) h0
  have hpool : ∀ v, v ∈ h.filter (· != i) ↔ v ∈ addCands i h vals := by
    intro v
    rw [mem_addCands, List.mem_filter]
    simp only [bne_iff_ne, ne_eq, decide_not, Bool.not_eq_eq_eq_not, Bool.not_true, decide_eq_false_iff_not]
    constructor
    · intro hv; exact Or.inr hv
    · rintro (hv | hv)
      · exact hsub v hv
      · exact hv
  have hn' := hn.mono_pool hpool
  have hz : z' = 0 := by
    by_contra hz'
    have hsubset : h.filter (· != i) ⊆ vals' := by
      intro v hv
      by_contra hvn
      exact hz' (hn'.far v hv hvn).1
    have := (List.subperm_of_subset (hnd.filter _) hsubset).length_le
    omega
  subst hz
  exact ⟨vals', by simpa using e, by omega, hn'⟩


/-! ### the definition's side: the product of the order statistics 1..M of a distance row -/

theorem sqDist_comm (a b : List α) : sqDist a b = sqDist b a := by
  unfold sqDist
  have : ∀ (a b : List α), List.zipWith (fun x y => (y - x) * (y - x)) a b =
      List.zipWith (fun x y => (y - x) * (y - x)) b a := by
    intro a
    induction a with
    | nil => intro b; cases b <;> rfl
    | cons x t ih =>
      intro b
      cases b with
      | nil => rfl
      | cons y u =>
        simp only [List.zipWith_cons_cons, ih u]
        congr 1
        ring
  rw [this]

theorem sqDist_self (a : List α) : sqDist a a = 0 := by
  unfold sqDist
  have : ∀ (a : List α) (acc : α), (List.zipWith (fun x y => (y - x) * (y - x)) a a).foldl (· + ·) acc = acc := by
    intro a
    induction a with
    | nil => intro acc; rfl
    | cons x t ih =>
      intro acc
      simp only [List.zipWith_cons_cons, List.foldl_cons, sub_self, mul_zero, add_zero]
      exact ih acc
  exact this a 0

theorem dmAt_eq (xs : List (List α)) (i j : Nat) : dmAt xs i j = sqDist (xs.getD i []) (xs.getD j []) := by
  unfold dmAt
  by_cases hij : i = j
  · subst hij; rw [if_pos rfl, sqDist_self]
  · rw [if_neg hij]
    simp only []
    by_cases hlt : i < j
    · simp only [if_pos hlt]
    · simp only [if_neg hlt]
      exact sqDist_comm _ _

theorem dmAt_self (xs : List (List α)) (i : Nat) : dmAt xs i i = 0 := by
  unfold dmAt; rw [if_pos rfl]

theorem dmAt_nonneg (xs : List (List α)) (i j : Nat) : 0 ≤ dmAt xs i j := by
  rw [dmAt_eq]; exact sqDist_nonneg _ _

/-- no row of the distance matrix has two equal entries (the point's own zero included) -/
def NoTies (xs : List (List α)) (n : Nat) : Prop :=
  ∀ i j j', i < n → j < n → j' < n → j ≠ j' → dmAt xs i j ≠ dmAt xs i j'

theorem prod_fst (dist : Nat → α) : ∀ (vals : List Nat) (acc : α × Bool),
    ((vals.map some).foldl (fun (acc : α × Bool) nb => match nb with
      | some c => (acc.1 * dist c, acc.2)
      | none => (acc.1, false)) acc).1 = vals.foldl (fun a c => a * dist c) acc.1
  | [], acc => rfl
  | a :: t, acc => by
    simp only [List.map_cons, List.foldl_cons]
    exact prod_fst dist t _

theorem mnnProd_fst (dist : Nat → α) (vals : List Nat) :
    (mnnProd dist (vals.map some)).1 = vals.foldl (fun a c => a * dist c) 1 := by
  unfold mnnProd
  exact prod_fst dist vals (1, true)

theorem foldl_fin_prod (dist : Nat → α) : ∀ (vals : List Nat) (a : α),
    (vals.map fun c => Ext.fin (dist c)).foldl (fun acc x => match acc, x with
        | Ext.fin a, Ext.fin b => Ext.fin (a * b)
        | _, _ => Ext.top) (Ext.fin a) = Ext.fin (vals.foldl (fun a c => a * dist c) a)
  | [], a => rfl
  | c :: t, a => by
    simp only [List.map_cons, List.foldl_cons]
    exact foldl_fin_prod dist t _

theorem extLe_antisymm (a b : Ext α) (h1 : extLe a b = true) (h2 : extLe b a = true) : a = b := by
  cases a <;> cases b <;> simp_all [extLe, Ext.lt]
  exact le_antisymm h1 h2

theorem extLe_fin_fin (a b : α) : extLe (Ext.fin a) (Ext.fin b) = true ↔ a ≤ b := by
  simp [extLe, Ext.lt]

/-- **the crowding the definition assigns to a live point is the product of the distances to its `M` nearest live
points** (no ties in the point's distance row) -/
theorem cMnn_eq_prod (x : List (List α)) (mNb n : Nat) (live : List Nat) (i : Nat) (hi : i < n) (hil : i ∈ live)
    (hinj : ∀ a b, a < n → b < n → a ≠ b → dmAt x i a ≠ dmAt x i b)
    (vals : List Nat) (hnear : IsNearest (dmAt x i) mNb i live vals) (hvn : ∀ v ∈ vals, v < n) :
    C15.cMnn x mNb n live i = Ext.fin (vals.foldl (fun a c => a * dmAt x i c) 1) := by
  obtain ⟨hlen, hn⟩ := hnear
  set dist := dmAt x i with hdist
  set g : Nat → Ext α := fun j =>
    if live.contains j then Ext.fin (sqDist (x.getD i []) (x.getD j [])) else Ext.top with hg
  have hgd : ∀ j, live.contains j = true → g j = Ext.fin (dist j) := by
    intro j hj
    simp only [hg, hj, if_true, hdist, dmAt_eq]
  have hvals_live : ∀ v ∈ vals, v ∈ live ∧ v ≠ i := by
    intro v hv
    have := hn.sub v hv
    rw [List.mem_filter] at this
    exact ⟨this.1, by simpa using this.2⟩
  -- the row, split into the point itself, its nearest points and the rest
  set rest := (List.range n).filter (fun j => !(i :: vals).contains j) with hrest
  have hnd1 : (i :: vals).Nodup := by
    rw [List.nodup_cons]
    exact ⟨fun h => (hvals_live i h).2 rfl, hn.sorted.nodup⟩
  have hperm : (List.range n).Perm ((i :: vals) ++ rest) := by
    have h1 : ((List.range n).filter (fun j => (i :: vals).contains j)).Perm (i :: vals) := by
      rw [List.perm_ext_iff_of_nodup (List.nodup_range.filter _) hnd1]
      intro a
      rw [List.mem_filter, List.mem_range]
      simp only [List.contains_iff_mem, List.mem_cons]
      constructor
      · exact fun h => h.2
      · intro h
        refine ⟨?_, h⟩
        rcases h with h | h
        · subst h; exact hi
        · exact hvn a h
    exact (List.filter_append_perm (fun j => (i :: vals).contains j) (List.range n)).symm.trans
      (List.Perm.append h1 (List.Perm.refl _))
  have hgi : g i = Ext.fin 0 := by
    rw [hgd i (by simpa using hil), hdist, dmAt_self]
  have hgv : vals.map g = vals.map (fun c => Ext.fin (dist c)) := by
    apply List.map_congr_left
    intro c hc
    exact hgd c (by simpa using (hvals_live c hc).1)
  set L : List (Ext α) := (Ext.fin 0 :: vals.map (fun c => Ext.fin (dist c))) ++ (rest.map g).mergeSort extLe with hL
  have hrowperm : ((List.range n).map g).Perm L := by
    have := hperm.map g
    rw [List.map_append, List.map_cons, hgi, hgv] at this
    exact this.trans (List.Perm.append (List.Perm.refl _) (List.mergeSort_perm _ _).symm)
  have hpos : ∀ c, c < n → c ≠ i → 0 < dist c := by
    intro c hc hci
    have h0 : 0 ≤ dist c := dmAt_nonneg x i c
    have hne : dist c ≠ dist i := hinj c i hc hi hci
    rw [show dist i = 0 from dmAt_self x i] at hne
    exact lt_of_le_of_ne h0 (Ne.symm hne)
  have hrest_far : ∀ e ∈ rest.map g, ∀ c ∈ vals, extLe (Ext.fin (dist c)) e = true := by
    intro e he c hc
    obtain ⟨j, hj, rfl⟩ := List.mem_map.mp he
    rw [hrest, List.mem_filter, List.mem_range] at hj
    have hjn : j ∉ i :: vals := by
      intro h
      have : (i :: vals).contains j = true := by simpa using h
      rw [this] at hj; simp at hj
    rw [List.mem_cons, not_or] at hjn
    by_cases hjl : live.contains j = true
    · rw [hgd j hjl, extLe_fin_fin]
      have hjp : j ∈ live.filter (· != i) := by
        rw [List.mem_filter]
        exact ⟨by simpa using hjl, by simpa using hjn.1⟩
      exact le_of_lt ((hn.far j hjp hjn.2).2 c hc)
    · simp only [hg, hjl, Bool.false_eq_true, if_false]
      exact C15.extLe_top _
  have hsortedL : L.Pairwise (fun a b => extLe a b = true) := by
    rw [hL, List.pairwise_append]
    refine ⟨?_, ?_, ?_⟩
    · rw [List.pairwise_cons]
      refine ⟨?_, ?_⟩
      · intro e he
        obtain ⟨c, hc, rfl⟩ := List.mem_map.mp he
        rw [extLe_fin_fin]
        exact dmAt_nonneg x i c
      · rw [List.pairwise_map]
        exact hn.sorted.imp (fun hab => (extLe_fin_fin _ _).mpr (le_of_lt hab))
    · exact List.pairwise_mergeSort (le := extLe) (fun a b c => C15.extLe_trans a b c)
        (fun a b => C15.extLe_total a b) _
    · intro a ha b hb
      have hb' : b ∈ rest.map g := (List.mergeSort_perm _ _).subset hb
      rw [List.mem_cons] at ha
      rcases ha with ha | ha
      · subst ha
        obtain ⟨j, hj, rfl⟩ := List.mem_map.mp hb'
        by_cases hjl : live.contains j = true
        · rw [hgd j hjl, extLe_fin_fin]; exact dmAt_nonneg x i j
        · simp only [hg, hjl, Bool.false_eq_true, if_false]
          exact C15.extLe_top _
      · obtain ⟨c, hc, rfl⟩ := List.mem_map.mp ha
        exact hrest_far b hb' c hc
  have hsorted_row := List.pairwise_mergeSort (le := extLe) (fun a b c => C15.extLe_trans a b c)
    (fun a b => C15.extLe_total a b) ((List.range n).map g)
  have heq : ((List.range n).map g).mergeSort extLe = L := by
    apply List.Perm.eq_of_pairwise (fun a b _ _ h1 h2 => extLe_antisymm a b h1 h2) hsorted_row hsortedL
    exact (List.mergeSort_perm _ _).trans hrowperm
  unfold C15.cMnn nnProduct
  simp only []
  change (if (List.take mNb (List.drop 1 (((List.range n).map g).mergeSort extLe))).length < mNb then Ext.top
    else (List.take mNb (List.drop 1 (((List.range n).map g).mergeSort extLe))).foldl _ (Ext.fin 1)) = _
  rw [heq, hL]
  have hdrop : List.take mNb (List.drop 1 ((Ext.fin 0 :: vals.map (fun c => Ext.fin (dist c))) ++
      (rest.map g).mergeSort extLe)) = vals.map (fun c => Ext.fin (dist c)) := by
    simp only [List.cons_append, List.drop_succ_cons, List.drop_zero]
    rw [List.take_append_of_le_length (by simp [hlen]), List.take_of_length_le (by simp [hlen])]
  rw [hdrop]
  rw [if_neg (by simp [hlen])]
  exact foldl_fin_prod dist vals 1


/-! ### the neighbour table -/

theorem rowRemove_notin (k : Nat) (vals : List Nat) (z : Nat) (hk : k ∉ vals) : ∀ (fuel m : Nat) (hit : Bool),
    mnnRowRemove k fuel m (vals.map some ++ List.replicate z none) hit = (vals.map some ++ List.replicate z none, hit)
  | 0, m, hit => rfl
  | fuel + 1, m, hit => by
    unfold mnnRowRemove
    have : ¬ (vals.map some ++ List.replicate z none).getD m none = some k := by
      rcases Nat.lt_or_ge m vals.length with hlt | hge
      · rw [getD_shape_lt vals z m hlt]
        intro h
        exact hk (Option.some.inj h ▸ List.getElem_mem hlt)
      · rw [getD_shape_ge vals z m hge]
        intro h; cases h
    rw [if_neg this]
    exact rowRemove_notin k vals z hk fuel (m + 1) hit

/-- `c_get_calc_items` on a duplicate-free row that lists `k`: `k` is taken out, the rest keeps its order -/
theorem rowRemove_hit (k : Nat) (vals : List Nat) (z : Nat) (hnd : vals.Nodup) (pk : Nat) (hpk : pk < vals.length)
    (hk : vals[pk] = k) : ∀ (fuel m : Nat) (hit : Bool), m ≤ pk → pk < m + fuel →
      ∃ vals' : List Nat,
        mnnRowRemove k fuel m (vals.map some ++ List.replicate z none) hit =
          (vals'.map some ++ List.replicate (z + 1) none, true) ∧
        vals'.Sublist vals ∧ k ∉ vals' ∧ vals'.length + 1 = vals.length
  | 0, m, hit, h1, h2 => by omega
  | fuel + 1, m, hit, h1, h2 => by
    unfold mnnRowRemove
    have hm : m < vals.length := by omega
    rw [getD_shape_lt vals z m hm]
    by_cases hmk : vals[m] = k
    · rw [if_pos (by rw [hmk])]
      have e : (List.take m (vals.map some ++ List.replicate z none) ++
          List.drop (m + 1) (vals.map some ++ List.replicate z none)) ++ [none]
          = (vals.take m ++ vals.drop (m + 1)).map some ++ List.replicate (z + 1) none := by
        rw [List.take_append_of_le_length (by simpa using le_of_lt hm),
          List.drop_append_of_le_length (by simp; omega), List.replicate_succ']
        simp [List.map_take, List.map_drop, List.append_assoc]
      rw [e]
      have herase : vals.take m ++ vals.drop (m + 1) = vals.eraseIdx m := (List.eraseIdx_eq_take_drop_succ vals m).symm
      have hnotin : k ∉ vals.take m ++ vals.drop (m + 1) := by
        rw [herase]
        intro hmem
        obtain ⟨p, hp, e⟩ := List.mem_iff_getElem.mp hmem
        rw [List.getElem_eraseIdx] at e
        have hpl : p < vals.length - 1 := by rwa [List.length_eraseIdx_of_lt hm] at hp
        split at e
        · have := (List.Nodup.getElem_inj_iff hnd).mp (e.trans hmk.symm)
          omega
        · have := (List.Nodup.getElem_inj_iff hnd).mp (e.trans hmk.symm)
          omega
      refine ⟨vals.take m ++ vals.drop (m + 1), rowRemove_notin k _ (z + 1) hnotin fuel (m + 1) true, ?_, hnotin, ?_⟩
      · rw [herase]; exact List.eraseIdx_sublist _ _
      · rw [herase, List.length_eraseIdx_of_lt hm]; omega
    · rw [if_neg (by intro h; exact hmk (Option.some.inj h))]
      have hne : m ≠ pk := fun h => hmk (h ▸ hk)
      exact rowRemove_hit k vals z hnd pk hpk hk fuel (m + 1) hit (by omega) (by omega)

/-- the row `c_get_calc_items` leaves, and whether it listed `k` -/
def rowQ (k : Nat) (T : List (List (Option Nat))) (i : Nat) : List (Option Nat) × Bool :=
  mnnRowRemove k (T.getD i []).length 0 (T.getD i []) false

theorem rowQ_out (k : Nat) (T : List (List (Option Nat))) (i : Nat) (hi : T.length ≤ i) : rowQ k T i = ([], false) := by
  unfold rowQ
  have : T.getD i [] = [] := by
    rw [List.getD_eq_getElem?_getD, List.getElem?_eq_none hi]; rfl
  rw [this]; rfl

/-- `c_get_calc_items` over duplicate-free live rows, row by row -/
theorem removeAll_get (k : Nat) : ∀ (l : List Nat) (T : List (List (Option Nat))) (S : List Nat), l.Nodup →
    (l.foldl (removeStep k) (T, S)).1.length = T.length ∧
    (∀ i, (l.foldl (removeStep k) (T, S)).1.getD i [] =
      if i ∈ l ∧ (rowQ k T i).2 = true then (rowQ k T i).1 else T.getD i []) ∧
    (∀ i, i ∈ (l.foldl (removeStep k) (T, S)).2 ↔ i ∈ S ∨ (i ∈ l ∧ (rowQ k T i).2 = true))
  | [], T, S, _ => ⟨rfl, fun i => by simp, fun i => by simp⟩
  | a :: t, T, S, hnd => by
    simp only [List.foldl_cons]
    rw [List.nodup_cons] at hnd
    have hstep : removeStep k (T, S) a = if (rowQ k T a).2 = true then (T.set a (rowQ k T a).1, insertSorted a S) else (T, S) := rfl
    by_cases hq : (rowQ k T a).2 = true
    · rw [hstep, if_pos hq]
      have han : a < T.length := by
        by_contra h
        rw [rowQ_out k T a (by omega)] at hq
        cases hq
      obtain ⟨h1, h2, h3⟩ := removeAll_get k t (T.set a (rowQ k T a).1) (insertSorted a S) hnd.2
      have hq' : ∀ i, i ≠ a → rowQ k (T.set a (rowQ k T a).1) i = rowQ k T i := by
        intro i hia
        unfold rowQ
        rw [getD_set_table, if_neg (fun h => hia h.1.symm)]
      refine ⟨by rw [h1, List.length_set], fun i => ?_, fun i => ?_⟩
      · rw [h2 i]
        by_cases hia : i = a
        · subst hia
          have : ¬ (i ∈ t ∧ (rowQ k (T.set i (rowQ k T i).1) i).2 = true) := fun h => hnd.1 h.1
          rw [if_neg this, getD_set_table, if_pos ⟨rfl, han⟩, if_pos ⟨by simp, hq⟩]
        · rw [hq' i hia, getD_set_table]
          have hne : ¬ (a = i ∧ a < T.length) := fun h => hia h.1.symm
          rw [if_neg hne]
          simp only [List.mem_cons, hia, false_or]
      · rw [h3 i, mem_insertSorted]
        by_cases hia : i = a
        · subst hia
          simp only [List.mem_cons, true_or, hq, and_self, or_true, true_or, iff_true]
        · rw [hq' i hia]
          simp only [List.mem_cons, hia, false_or]
    · rw [hstep, if_neg hq]
      obtain ⟨h1, h2, h3⟩ := removeAll_get k t T S hnd.2
      refine ⟨h1, fun i => ?_, fun i => ?_⟩
      · rw [h2 i]
        by_cases hia : i = a
        · subst hia
          rw [if_neg (fun h => hnd.1 h.1), if_neg (fun h => hq h.2)]
        · simp only [List.mem_cons, hia, false_or]
      · rw [h3 i]
        by_cases hia : i = a
        · subst hia
          have hqf : (rowQ k T i).2 = false := by simpa using hq
          simp only [List.mem_cons, true_or, true_and, hqf, Bool.false_eq_true, and_false, or_false]
        · simp only [List.mem_cons, hia, false_or]


/-- a row that `c_calc_mnn_iter` can start from: ascending, live members other than the row's own point -/
def PreRow (xs : List (List α)) (mNb : Nat) (live : List Nat) (i : Nat) (row : List (Option Nat)) : Prop :=
  ∃ (vals : List Nat) (z : Nat), row = vals.map some ++ List.replicate z none ∧ vals.length + z = mNb ∧
    SortedBy (dmAt xs i) vals ∧ ∀ v ∈ vals, v ∈ live ∧ v ≠ i

/-- a row that lists the `mNb` nearest live points in ascending order of distance -/
def NearRow (xs : List (List α)) (mNb : Nat) (live : List Nat) (i : Nat) (row : List (Option Nat)) : Prop :=
  ∃ vals : List Nat, row = vals.map some ∧ IsNearest (dmAt xs i) mNb i live vals

theorem isNearest_mem {dist : Nat → α} {M i : Nat} {live vals : List Nat} (h : IsNearest dist M i live vals) :
    ∀ v ∈ vals, v ∈ live ∧ v ≠ i := by
  intro v hv
  have := h.2.sub v hv
  rw [List.mem_filter] at this
  exact ⟨this.1, by simpa using this.2⟩

theorem nearRow_pre {xs : List (List α)} {mNb : Nat} {live : List Nat} {i : Nat} {row : List (Option Nat)}
    (h : NearRow xs mNb live i row) : PreRow xs mNb live i row := by
  obtain ⟨vals, e, hn⟩ := h
  exact ⟨vals, 0, by simpa using e, by simpa using hn.1, hn.2.sorted, isNearest_mem hn⟩

theorem refill_nearRow (xs : List (List α)) (n mNb : Nat) (hnt : NoTies xs n) (h : List Nat) (hnd : h.Nodup)
    (hlt : ∀ j ∈ h, j < n) (i : Nat) (hi : i < n) (hcount : mNb ≤ (h.filter (· != i)).length)
    (row : List (Option Nat)) (hpre : PreRow xs mNb h i row) :
    NearRow xs mNb h i (mnnRefill (dmAt xs i) i h row) := by
  obtain ⟨vals, z, e, hl, hs, hsub⟩ := hpre
  obtain ⟨vals', e', hn⟩ := refill_isNearest (dmAt xs i) n (fun a b ha hb hab => hnt i a b hi ha hb hab) i h hnd hlt
    vals z hs hsub (by omega)
  rw [hl] at hn
  exact ⟨vals', by rw [e, e'], hn⟩

/-- `c_calc_mnn_iter` over the items: every item's row becomes the list of its nearest live points -/
theorem refillAll_near (xs : List (List α)) (n mNb : Nat) (hnt : NoTies xs n) (h : List Nat) (hnd : h.Nodup)
    (hlt : ∀ j ∈ h, j < n) (hcount : ∀ i, mNb ≤ (h.filter (· != i)).length) :
    ∀ (items : List Nat) (T : List (List (Option Nat))), T.length = n →
      (∀ i ∈ items, i < n ∧ PreRow xs mNb h i (T.getD i [])) →
      (items.foldl (fun t i => t.set i (mnnRefill (dmAt xs i) i h (t.getD i []))) T).length = n ∧
      (∀ i ∈ items, NearRow xs mNb h i
        ((items.foldl (fun t i => t.set i (mnnRefill (dmAt xs i) i h (t.getD i []))) T).getD i [])) ∧
      (∀ i, i ∉ items →
        (items.foldl (fun t i => t.set i (mnnRefill (dmAt xs i) i h (t.getD i []))) T).getD i [] = T.getD i []) ∧
      (∀ i, i < n → NearRow xs mNb h i (T.getD i []) → NearRow xs mNb h i
        ((items.foldl (fun t i => t.set i (mnnRefill (dmAt xs i) i h (t.getD i []))) T).getD i []))
  | [], T, hT, _ => ⟨hT, fun i hi => absurd hi List.not_mem_nil, fun _ _ => rfl, fun _ _ h => h⟩
  | a :: t, T, hT, hitems => by
    simp only [List.foldl_cons]
    obtain ⟨han, hprea⟩ := hitems a (by simp)
    have hnear_a := refill_nearRow xs n mNb hnt h hnd hlt a han (hcount a) _ hprea
    set T1 := T.set a (mnnRefill (dmAt xs a) a h (T.getD a [])) with hT1def
    have hT1 : T1.length = n := by rw [hT1def, List.length_set]; exact hT
    have hT1a : T1.getD a [] = mnnRefill (dmAt xs a) a h (T.getD a []) := by
      rw [hT1def, getD_set_table, if_pos ⟨rfl, by rw [hT]; exact han⟩]
    have hT1o : ∀ i, i ≠ a → T1.getD i [] = T.getD i [] := by
      intro i hia
      rw [hT1def, getD_set_table, if_neg (fun h => hia h.1.symm)]
    have hitems1 : ∀ i ∈ t, i < n ∧ PreRow xs mNb h i (T1.getD i []) := by
      intro i hi
      obtain ⟨hin, hp⟩ := hitems i (List.mem_cons_of_mem _ hi)
      refine ⟨hin, ?_⟩
      by_cases hia : i = a
      · subst hia; rw [hT1a]; exact nearRow_pre hnear_a
      · rw [hT1o i hia]; exact hp
    obtain ⟨h1, h2, h3, h4⟩ := refillAll_near xs n mNb hnt h hnd hlt hcount t T1 hT1 hitems1
    refine ⟨h1, ?_, ?_, ?_⟩
    · intro i hi
      rw [List.mem_cons] at hi
      rcases hi with hi | hi
      · subst hi
        apply h4 i han
        rw [hT1a]; exact hnear_a
      · exact h2 i hi
    · intro i hi
      rw [List.mem_cons, not_or] at hi
      rw [h3 i hi.2, hT1o i hi.1]
    · intro i hin hnear
      apply h4 i hin
      by_cases hia : i = a
      · subst hia; rw [hT1a]; exact hnear_a
      · rw [hT1o i hia]; exact hnear

/-- `c_calc_d` over the items, entry by entry -/
theorem calcD_get (v : Nat → Ext α) (b : Nat → Bool) : ∀ (items : List Nat) (d : List (Ext α)) (ok : Bool),
    (items.foldl (fun (acc : List (Ext α) × Bool) i => (acc.1.set i (v i), acc.2 && b i)) (d, ok)).1.length = d.length ∧
    ∀ j, (items.foldl (fun (acc : List (Ext α) × Bool) i => (acc.1.set i (v i), acc.2 && b i)) (d, ok)).1.getD j Ext.top =
      if j ∈ items ∧ j < d.length then v j else d.getD j Ext.top
  | [], d, ok => ⟨rfl, fun j => by simp⟩
  | a :: t, d, ok => by
    simp only [List.foldl_cons]
    obtain ⟨h1, h2⟩ := calcD_get v b t (d.set a (v a)) (ok && b a)
    refine ⟨by rw [h1, List.length_set], fun j => ?_⟩
    rw [h2 j, List.length_set, getD_set_table]
    by_cases hjt : j ∈ t ∧ j < d.length
    · rw [if_pos hjt, if_pos ⟨List.mem_cons_of_mem _ hjt.1, hjt.2⟩]
    · rw [if_neg hjt]
      by_cases haj : a = j ∧ a < d.length
      · rw [if_pos haj, if_pos ⟨by simp [haj.1], by omega⟩, haj.1]
      · rw [if_neg haj]
        have : ¬ (j ∈ a :: t ∧ j < d.length) := by
          rintro ⟨hm, hl⟩
          rw [List.mem_cons] at hm
          rcases hm with hm | hm
          · exact haj ⟨hm.symm, by omega⟩
          · exact hjt ⟨hm, hl⟩
        rw [if_neg this]


/-! ### the simulation -/

theorem isNearest_filter {dist : Nat → α} {M i : Nat} {live vals : List Nat} (h : IsNearest dist M i live vals)
    (r : Nat) (hr : r ∉ vals) : IsNearest dist M i (live.filter (· != r)) vals := by
  refine ⟨h.1, h.2.sorted, fun v hv => ?_, fun v hv hvn => ?_⟩
  · have := h.2.sub v hv
    rw [List.mem_filter] at this ⊢
    refine ⟨?_, this.2⟩
    rw [List.mem_filter]
    exact ⟨this.1, by
      simp only [bne_iff_ne, ne_eq]
      intro e; subst e; exact hr hv⟩
  · apply h.2.far v _ hvn
    rw [List.mem_filter] at hv ⊢
    exact ⟨(List.mem_filter.mp hv.1).1, hv.2⟩

theorem dropLast_some (d : List (Ext α)) (live : List Nat) (hne : live ≠ []) : ∃ r, dropLast d live = some r := by
  unfold dropLast
  have key : ∀ (l : List Nat) (b : Nat), ∃ r, l.foldl (fun best i =>
      match best with
      | none => some i
      | some b => if Ext.lt (d.getD b Ext.top) (d.getD i Ext.top) then some b else some i) (some b) = some r := by
    intro l
    induction l with
    | nil => intro b; exact ⟨b, rfl⟩
    | cons a t ih =>
      intro b
      simp only [List.foldl_cons]
      split
      · exact ih b
      · exact ih a
  cases live with
  | nil => exact absurd rfl hne
  | cons a t =>
    simp only [List.foldl_cons]
    exact key t a

theorem ext_getD_top {l l' : List (Ext α)} (n : Nat) (h1 : l.length = n) (h2 : l'.length = n)
    (h : ∀ j, j < n → l.getD j Ext.top = l'.getD j Ext.top) : l = l' := by
  apply List.ext_getElem (by omega)
  intro j hj hj'
  have := h j (by omega)
  rw [List.getD_eq_getElem?_getD, List.getD_eq_getElem?_getD, List.getElem?_eq_getElem hj,
    List.getElem?_eq_getElem hj'] at this
  exact this

/-- the kernel's state and the definition's state agree, and the neighbour table lists nearest live points -/
structure Sim (xs : List (List α)) (n mNb : Nat) (ex : List Nat) (st : MnnState α) (d : List (Ext α))
    (live : List Nat) : Prop where
  hh : st.h = live
  hd : st.d = d
  len : st.mnn.length = n
  dlen : d.length = n
  nodup : live.Nodup
  lt : ∀ i ∈ live, i < n
  near : ∀ i ∈ live, i ∉ ex → NearRow xs mNb live i (st.mnn.getD i [])
  exTop : ∀ i ∈ ex, i < n → d.getD i Ext.top = Ext.top
  vals : ∀ i ∈ live, i ∉ ex → d.getD i Ext.top = Ext.fin (mnnProd (dmAt xs i) (st.mnn.getD i [])).1

/-- the value the definition assigns to a live point whose row lists its nearest live points -/
theorem cMnn_of_nearRow (xs : List (List α)) (n mNb : Nat) (hnt : NoTies xs n) (live : List Nat)
    (hlt : ∀ i ∈ live, i < n) (i : Nat) (hil : i ∈ live) (row : List (Option Nat))
    (hnear : NearRow xs mNb live i row) :
    C15.cMnn xs mNb n live i = Ext.fin (mnnProd (dmAt xs i) row).1 := by
  obtain ⟨vals, e, hn⟩ := hnear
  have hi := hlt i hil
  rw [e, mnnProd_fst]
  exact cMnn_eq_prod xs mNb n live i hi hil (fun a b ha hb hab => hnt i a b hi ha hb hab) vals hn
    (fun v hv => hlt v (isNearest_mem hn v hv).1)

/-- **one pass of the kernel's loop is one step of the definition** -/
theorem sim_step (xs : List (List α)) (n mNb : Nat) (hnt : NoTies xs n) (ex : List Nat) (st : MnnState α)
    (d : List (Ext α)) (live : List Nat) (hsim : Sim xs n mNb ex st d live) (hbig : mNb + 2 ≤ live.length)
    (r : Nat) (hr : dropLast d live = some r) :
    Sim xs n mNb ex (mnnStepF xs ex st) (mnnScratch xs (live.filter (· != r)) mNb ex n d) (live.filter (· != r)) := by
  rw [mnnStepF_eq]
  simp only []
  have hk : (dropLast st.d st.h).getD 0 = r := by rw [hsim.hd, hsim.hh, hr]; rfl
  rw [hk, hsim.hh]
  set live' := live.filter (· != r) with hlive'
  have hnd' : live'.Nodup := hsim.nodup.filter _
  have hlt' : ∀ i ∈ live', i < n := fun i hi => hsim.lt i (List.mem_filter.mp hi).1
  have hsub' : ∀ i ∈ live', i ∈ live ∧ i ≠ r := by
    intro i hi
    rw [hlive', List.mem_filter] at hi
    exact ⟨hi.1, by simpa using hi.2⟩
  have hcount : ∀ i, mNb ≤ (live'.filter (· != i)).length := by
    intro i
    have h1 : live.length - 1 ≤ live'.length := filter_ne_length_ge live hsim.nodup r
    have h2 : live'.length - 1 ≤ (live'.filter (· != i)).length := filter_ne_length_ge live' hnd' i
    omega
  obtain ⟨g1, g2, g3⟩ := removeAll_get r live' st.mnn [] hnd'
  set upd := live'.foldl (removeStep r) (st.mnn, []) with hupd
  set items := upd.2.filter (fun i => !ex.contains i) with hitems
  have hitem_iff : ∀ i, i ∈ items ↔ i ∈ live' ∧ (rowQ r st.mnn i).2 = true ∧ i ∉ ex := by
    intro i
    rw [hitems, List.mem_filter, g3 i]
    simp only [List.not_mem_nil, false_or, Bool.not_eq_eq_eq_not, Bool.not_true, List.contains_eq_mem,
      decide_eq_false_iff_not]
    tauto
  -- a live non-extreme row either lists `r` (and is reported) or does not (and stays what it was)
  have hrow : ∀ i ∈ live', i ∉ ex → ∃ vals, st.mnn.getD i [] = vals.map some ∧
      IsNearest (dmAt xs i) mNb i live vals ∧ ((rowQ r st.mnn i).2 = true ↔ r ∈ vals) := by
    intro i hi hie
    obtain ⟨vals, e, hn⟩ := hsim.near i (hsub' i hi).1 hie
    refine ⟨vals, e, hn, ?_⟩
    have e0 : st.mnn.getD i [] = vals.map some ++ List.replicate 0 none := by simpa using e
    unfold rowQ
    rw [e0]
    by_cases hrv : r ∈ vals
    · obtain ⟨pk, hpk, ek⟩ := List.mem_iff_getElem.mp hrv
      obtain ⟨vals', e', _⟩ := rowRemove_hit r vals 0 hn.2.sorted.nodup pk hpk ek
        (vals.map some ++ List.replicate 0 none).length 0 false (by omega) (by simp; omega)
      rw [e']
      simp [hrv]
    · rw [rowRemove_notin r vals 0 hrv]
      simp [hrv]
  have hpre : ∀ i ∈ items, i < n ∧ PreRow xs mNb live' i (upd.1.getD i []) := by
    intro i hi
    obtain ⟨hil, hq, hie⟩ := (hitem_iff i).mp hi
    refine ⟨hlt' i hil, ?_⟩
    obtain ⟨vals, e, hn, hiff⟩ := hrow i hil hie
    have hrv := hiff.mp hq
    rw [g2 i, if_pos ⟨hil, hq⟩]
    have e0 : st.mnn.getD i [] = vals.map some ++ List.replicate 0 none := by simpa using e
    obtain ⟨pk, hpk, ek⟩ := List.mem_iff_getElem.mp hrv
    obtain ⟨vals', e', hsl, hrn, hl'⟩ := rowRemove_hit r vals 0 hn.2.sorted.nodup pk hpk ek
      (vals.map some ++ List.replicate 0 none).length 0 false (by omega) (by simp; omega)
    unfold rowQ
    rw [e0, e']
    refine ⟨vals', 1, rfl, by have := hn.1; omega, hn.2.sorted.sublist hsl, fun v hv => ?_⟩
    have hvv := hsl.subset hv
    obtain ⟨hvl, hvi⟩ := isNearest_mem hn v hvv
    refine ⟨?_, hvi⟩
    rw [hlive', List.mem_filter]
    exact ⟨hvl, by simp only [bne_iff_ne, ne_eq]; intro e; subst e; exact hrn hv⟩
  obtain ⟨r1, r2, r3, r4⟩ := refillAll_near xs n mNb hnt live' hnd' hlt' hcount items upd.1 (by rw [g1]; exact hsim.len) hpre
  set mnn' := items.foldl (fun t i => t.set i (mnnRefill (dmAt xs i) i live' (t.getD i []))) upd.1 with hmnn'
  -- the new table
  have hnear' : ∀ i ∈ live', i ∉ ex → NearRow xs mNb live' i (mnn'.getD i []) ∧
      (i ∉ items → mnn'.getD i [] = st.mnn.getD i []) := by
    intro i hi hie
    by_cases hit : i ∈ items
    · exact ⟨r2 i hit, fun h => absurd hit h⟩
    · obtain ⟨vals, e, hn, hiff⟩ := hrow i hi hie
      have hq : ¬ (rowQ r st.mnn i).2 = true := fun h => hit ((hitem_iff i).mpr ⟨hi, h, hie⟩)
      have hrv : r ∉ vals := fun h => hq (hiff.mpr h)
      have hsame : mnn'.getD i [] = st.mnn.getD i [] := by
        rw [r3 i hit, g2 i, if_neg (fun h => hq h.2)]
      refine ⟨?_, fun _ => hsame⟩
      rw [hsame]
      exact ⟨vals, e, isNearest_filter hn r hrv⟩
  -- the new crowding array, entry by entry
  obtain ⟨c1, c2⟩ := calcD_get (fun i => Ext.fin (mnnProd (dmAt xs i) (mnn'.getD i [])).1)
    (fun i => (mnnProd (dmAt xs i) (mnn'.getD i [])).2) items d st.ok
  have hkey : ∀ j, j < n →
      (items.foldl (fun (acc : List (Ext α) × Bool) i =>
        let p := mnnProd (dmAt xs i) (mnn'.getD i [])
        (acc.1.set i (Ext.fin p.1), acc.2 && p.2)) (d, st.ok)).1.getD j Ext.top =
      if ex.contains j then Ext.top
      else if live'.contains j then Ext.fin (mnnProd (dmAt xs j) (mnn'.getD j [])).1 else d.getD j Ext.top := by
    intro j hj
    have := c2 j
    simp only [] at this ⊢
    rw [this]
    by_cases hje : j ∈ ex
    · have hni : ¬ (j ∈ items ∧ j < d.length) := fun h => ((hitem_iff j).mp h.1).2.2 hje
      rw [if_neg hni, if_pos ((contains_iff ex j).mpr hje)]
      exact hsim.exTop j hje hj
    · have hce : ¬ ex.contains j = true := fun h => hje ((contains_iff ex j).mp h)
      rw [if_neg hce]
      by_cases hjl : j ∈ live'
      · rw [if_pos ((contains_iff live' j).mpr hjl)]
        by_cases hit : j ∈ items
        · rw [if_pos ⟨hit, by rw [hsim.dlen]; exact hj⟩]
        · rw [if_neg (fun h => hit h.1), hsim.vals j (hsub' j hjl).1 hje, (hnear' j hjl hje).2 hit]
      · have hni : ¬ (j ∈ items ∧ j < d.length) := fun h => hjl ((hitem_iff j).mp h.1).1
        have hcl : ¬ live'.contains j = true := fun h => hjl ((contains_iff live' j).mp h)
        rw [if_neg hni, if_neg hcl]
  have hd_eq : (items.foldl (fun (acc : List (Ext α) × Bool) i =>
        let p := mnnProd (dmAt xs i) (mnn'.getD i [])
        (acc.1.set i (Ext.fin p.1), acc.2 && p.2)) (d, st.ok)).1 = mnnScratch xs live' mNb ex n d := by
    apply ext_getD_top n
    · have := c1; simp only [] at this ⊢; rw [this, hsim.dlen]
    · exact C15.mnnScratch_length _ _ _ _ _ _
    · intro j hj
      rw [hkey j hj, C15.mnnScratch_get xs live' mNb ex n d j hj]
      by_cases hce : ex.contains j = true
      · rw [if_pos hce, if_pos hce]
      · rw [if_neg hce, if_neg hce]
        by_cases hcl : live'.contains j = true
        · rw [if_pos hcl, if_pos hcl]
          have hjl : j ∈ live' := (contains_iff live' j).mp hcl
          have hje : j ∉ ex := fun h => hce ((contains_iff ex j).mpr h)
          exact (cMnn_of_nearRow xs n mNb hnt live' hlt' j hjl _ (hnear' j hjl hje).1).symm
        · rw [if_neg hcl, if_neg hcl]
  rw [hsim.hd]
  refine ⟨rfl, hd_eq, r1, C15.mnnScratch_length _ _ _ _ _ _, hnd', hlt',
    fun i hi hie => (hnear' i hi hie).1, fun i hie hi => ?_, fun i hi hie => ?_⟩
  · rw [C15.mnnScratch_get xs live' mNb ex n d i hi, if_pos ((contains_iff ex i).mpr hie)]
  · have hce : ¬ ex.contains i = true := fun h => hie ((contains_iff ex i).mp h)
    rw [← hd_eq, hkey i (hlt' i hi), if_neg hce, if_pos ((contains_iff live' i).mpr hi)]


/-- the table `np.argpartition(D, range(1, M+1))[:, 1:M+1]` starts with: each row lists the `M` nearest points -/
theorem init_nearRow (xs : List (List α)) (n mNb : Nat) (hnt : NoTies xs n) (hbig : mNb < n) (i : Nat) (hi : i < n) :
    NearRow xs mNb (List.range n) i
      ((((argsortStable ((List.range n).map fun j => dmAt xs i j)).drop 1).take mNb).map some) := by
  set row := (List.range n).map fun j => dmAt xs i j with hrow
  have hrl : row.length = n := by simp [hrow]
  have hget : ∀ a, a < n → row.getD a default = dmAt xs i a := by
    intro a ha
    simp only [hrow, List.getD_eq_getElem?_getD, List.getElem?_map, List.getElem?_range ha, Option.map_some,
      Option.getD_some]
  set A := argsortStable row with hA
  have hperm : A.Perm (List.range n) := by have := argsort_perm row; rwa [hrl] at this
  have hndA : A.Nodup := hperm.nodup_iff.mpr List.nodup_range
  have hmemA : ∀ a, a ∈ A ↔ a < n := fun a => by rw [hperm.mem_iff, List.mem_range]
  have hle : A.Pairwise (fun a b => row.getD a default ≤ row.getD b default) := by
    have := argsort_sorted row
    rwa [List.pairwise_map] at this
  have hsortA : SortedBy (dmAt xs i) A := by
    unfold SortedBy
    refine (hle.and hndA).imp_of_mem ?_
    intro a b ha hb hab
    have han := (hmemA a).mp ha
    have hbn := (hmemA b).mp hb
    rw [hget a han, hget b hbn] at hab
    exact lt_of_le_of_ne hab.1 (hnt i a b hi han hbn hab.2)
  -- the point itself comes first
  have hAlen : A.length = n := by rw [hperm.length_eq, List.length_range]
  cases hAc : A with
  | nil => rw [hAc] at hAlen; simp at hAlen; omega
  | cons hd tl =>
    have hiA : i ∈ A := (hmemA i).mpr hi
    rw [hAc] at hiA hsortA hndA hAlen
    have hhd : hd = i := by
      rw [List.mem_cons] at hiA
      rcases hiA with h | h
      · exact h.symm
      · exfalso
        have h1 : dmAt xs i hd < dmAt xs i i := (List.pairwise_cons.mp hsortA).1 i h
        rw [dmAt_self] at h1
        exact absurd (dmAt_nonneg xs i hd) (not_le.mpr h1)
    subst hhd
    have htl_sorted : SortedBy (dmAt xs hd) tl := (List.pairwise_cons.mp hsortA).2
    have hmemtl : ∀ v, v ∈ tl ↔ v < n ∧ v ≠ hd := by
      intro v
      have h1 := hmemA v
      rw [hAc, List.mem_cons] at h1
      have hnd := List.nodup_cons.mp hndA
      constructor
      · intro hv
        exact ⟨h1.mp (Or.inr hv), fun e => hnd.1 (e ▸ hv)⟩
      · rintro ⟨hv1, hv2⟩
        rcases h1.mpr hv1 with h | h
        · exact absurd h hv2
        · exact h
    simp only [List.drop_succ_cons, List.drop_zero]
    have htll : tl.length = n - 1 := by simp at hAlen; omega
    refine ⟨tl.take mNb, rfl, by rw [List.length_take]; omega, htl_sorted.sublist (List.take_sublist _ _), ?_, ?_⟩
    · intro v hv
      have := (hmemtl v).mp (List.mem_of_mem_take hv)
      rw [List.mem_filter, List.mem_range]
      exact ⟨this.1, by simpa using this.2⟩
    · intro v hv hvn
      rw [List.mem_filter, List.mem_range] at hv
      have hvtl : v ∈ tl := (hmemtl v).mpr ⟨hv.1, by simpa using hv.2⟩
      rw [← List.take_append_drop mNb tl, List.mem_append] at hvtl
      refine ⟨rfl, fun c hc => ?_⟩
      rcases hvtl with h | h
      · exact absurd h hvn
      · have hs := htl_sorted
        unfold SortedBy at hs
        rw [← List.take_append_drop mNb tl, List.pairwise_append] at hs
        exact hs.2.2 c hc v h

/-- the state on entry to the loop simulates the definition's first crowding array -/
theorem init_sim (f : List (List α)) (nObj mNb : Nat) (hbig : mNb < f.length)
    (hnt : NoTies (normalizeCols f nObj) f.length) :
    Sim (normalizeCols f nObj) f.length mNb (extremesFirst f nObj) (mnnInitF f nObj mNb)
      (mnnScratch (normalizeCols f nObj) (List.range f.length) mNb (extremesFirst f nObj) f.length
        (f.map fun _ => Ext.top)) (List.range f.length) := by
  set n := f.length with hn
  set xs := normalizeCols f nObj with hxs
  set ex := extremesFirst f nObj with hex
  set T : List (List (Option Nat)) := (List.range n).map fun i =>
    ((argsortStable ((List.range n).map fun j => dmAt xs i j)).drop 1).take mNb |>.map some with hT
  have hTlen : T.length = n := by simp [hT]
  have hTget : ∀ i, i < n → T.getD i [] =
      (((argsortStable ((List.range n).map fun j => dmAt xs i j)).drop 1).take mNb).map some := by
    intro i hi
    rw [hT, List.getD_eq_getElem?_getD, List.getElem?_map, List.getElem?_range hi]
    rfl
  have hnearT : ∀ i, i < n → NearRow xs mNb (List.range n) i (T.getD i []) := by
    intro i hi
    rw [hTget i hi]
    exact init_nearRow xs n mNb hnt hbig i hi
  set items := (List.range n).filter fun i => !ex.contains i with hitems
  have hinit : mnnInitF f nObj mNb =
      { mnn := T,
        d := (items.foldl
          (fun (acc : List (Ext α) × Bool) i =>
            let p := mnnProd (dmAt xs i) (T.getD i [])
            (acc.1.set i (Ext.fin p.1), acc.2 && p.2)) (List.replicate n Ext.top, true)).1,
        h := List.range n,
        ok := (items.foldl
          (fun (acc : List (Ext α) × Bool) i =>
            let p := mnnProd (dmAt xs i) (T.getD i [])
            (acc.1.set i (Ext.fin p.1), acc.2 && p.2)) (List.replicate n Ext.top, true)).2 } := rfl
  rw [hinit]
  obtain ⟨c1, c2⟩ := calcD_get (fun i => Ext.fin (mnnProd (dmAt xs i) (T.getD i [])).1)
    (fun i => (mnnProd (dmAt xs i) (T.getD i [])).2) items (List.replicate n Ext.top) true
  have hlt : ∀ i ∈ List.range n, i < n := fun i hi => List.mem_range.mp hi
  have hkey : ∀ j, j < n →
      (items.foldl (fun (acc : List (Ext α) × Bool) i =>
        let p := mnnProd (dmAt xs i) (T.getD i [])
        (acc.1.set i (Ext.fin p.1), acc.2 && p.2)) (List.replicate n Ext.top, true)).1.getD j Ext.top =
      if ex.contains j then Ext.top else Ext.fin (mnnProd (dmAt xs j) (T.getD j [])).1 := by
    intro j hj
    have := c2 j
    simp only [] at this ⊢
    rw [this, List.length_replicate]
    by_cases hce : ex.contains j = true
    · have hni : ¬ (j ∈ items ∧ j < n) := by
        rintro ⟨h, _⟩
        rw [hitems, List.mem_filter, hce] at h
        simp at h
      rw [if_neg hni, if_pos hce, List.getD_eq_getElem?_getD, List.getElem?_replicate]
      simp [hj]
    · have hin : j ∈ items := by
        rw [hitems, List.mem_filter, List.mem_range]
        exact ⟨hj, by simpa using hce⟩
      rw [if_pos ⟨hin, hj⟩, if_neg hce]
  have hd_eq : (items.foldl (fun (acc : List (Ext α) × Bool) i =>
        let p := mnnProd (dmAt xs i) (T.getD i [])
        (acc.1.set i (Ext.fin p.1), acc.2 && p.2)) (List.replicate n Ext.top, true)).1 =
      mnnScratch xs (List.range n) mNb ex n (f.map fun _ => Ext.top) := by
    apply ext_getD_top n
    · have := c1; simp only [] at this ⊢; rw [this, List.length_replicate]
    · exact C15.mnnScratch_length _ _ _ _ _ _
    · intro j hj
      rw [hkey j hj, C15.mnnScratch_get xs (List.range n) mNb ex n _ j hj]
      by_cases hce : ex.contains j = true
      · rw [if_pos hce, if_pos hce]
      · rw [if_neg hce, if_neg hce, if_pos (by simpa using hj)]
        exact (cMnn_of_nearRow xs n mNb hnt (List.range n) hlt j (List.mem_range.mpr hj) _ (hnearT j hj)).symm
  refine ⟨rfl, hd_eq, hTlen, C15.mnnScratch_length _ _ _ _ _ _, List.nodup_range, hlt,
    fun i hi _ => hnearT i (List.mem_range.mp hi), fun i hie hi => ?_, fun i hi hie => ?_⟩
  · rw [C15.mnnScratch_get xs (List.range n) mNb ex n _ i hi, if_pos ((contains_iff ex i).mpr hie)]
  · have hce : ¬ ex.contains i = true := fun h => hie ((contains_iff ex i).mp h)
    rw [← hd_eq, hkey i (List.mem_range.mp hi), if_neg hce]

/-- the whole loop -/
theorem loop_sim_mnn (xs : List (List α)) (n mNb : Nat) (hnt : NoTies xs n) (ex : List Nat) :
    ∀ (fuel : Nat) (st : MnnState α) (d : List (Ext α)) (live : List Nat), Sim xs n mNb ex st d live →
      mNb + 1 + fuel ≤ live.length →
      (mnnLoopF xs ex fuel st).d = pruneLoop (fun lv old => mnnScratch xs lv mNb ex n old) fuel live d
  | 0, st, d, live, h, _ => h.hd
  | fuel + 1, st, d, live, h, hb => by
    have hne : live ≠ [] := by intro e; rw [e] at hb; simp at hb
    obtain ⟨r, hr⟩ := dropLast_some d live hne
    unfold mnnLoopF pruneLoop
    rw [hr]
    simp only []
    have hlen : live.length - 1 ≤ (live.filter (· != r)).length := filter_ne_length_ge live h.nodup r
    exact loop_sim_mnn xs n mNb hnt ex fuel _ _ _ (sim_step xs n mNb hnt ex st d live h (by omega) r hr) (by omega)

/-- **C13 / C14 (the compiled mnn / 2nn kernel computes the definition)**: on every front whose distance rows have
no ties, for every number of removals, the kernel `mnn.pyx` returns exactly the values of the published definition
(= the pure-Python engine) and every neighbour slot it uses as an index is assigned -/
theorem mnnKernelF_refines (f : List (List α)) (nObj : Nat) (nRemove : Int) (twonn : Bool)
    (h2 : (if twonn then 2 else nObj) ≤ nObj) (hnt : NoTies (normalizeCols f nObj) f.length) :
    mnnKernelF f nObj nRemove twonn = (mnnFallback f nObj nRemove twonn, true) := by
  have hsafe := mnnKernelF_safe f nObj nRemove twonn h2
  have hval : (mnnKernelF f nObj nRemove twonn).1 = mnnFallback f nObj nRemove twonn := by
    unfold mnnKernelF mnnFallback
    simp only []
    generalize (if twonn then 2 else nObj) = mNb at h2 ⊢
    by_cases hle : f.length ≤ mNb
    · rw [if_pos hle, if_pos hle]
    · rw [if_neg hle, if_neg hle]
      have hbig : mNb < f.length := by omega
      have hcl : clampRemove nRemove f.length nObj ≤ (f.length : Int) - nObj ∨ clampRemove nRemove f.length nObj ≤ 0 := by
        unfold clampRemove
        split
        · split
          · exact Or.inr (le_refl _)
          · left; omega
        · exact Or.inl (le_refl _)
      apply loop_sim_mnn (normalizeCols f nObj) f.length mNb hnt (extremesFirst f nObj) _ _ _ _
        (init_sim f nObj mNb hbig hnt)
      rw [List.length_range]
      generalize clampRemove nRemove f.length nObj = cl at hcl
      omega
  exact Prod.ext hval hsafe


/-- **C14 (engine independence of mnn / 2nn)**: without distance ties the compiled kernel and the pure-Python engine
return the same crowding values, for any number of removals -/
theorem mnn_engine_independent (f : List (List α)) (nObj : Nat) (nRemove : Int) (twonn : Bool)
    (h2 : (if twonn then 2 else nObj) ≤ nObj) (hnt : NoTies (normalizeCols f nObj) f.length) :
    (mnnKernelF f nObj nRemove twonn).1 = mnnFallback f nObj nRemove twonn := by
  rw [mnnKernelF_refines f nObj nRemove twonn h2 hnt]

/-- **C15 (one-at-a-time pruning, compiled mnn / 2nn kernel)**: in the array the compiled kernel returns every pruned
point keeps a value ≤ that of every point still alive (through the refinement theorem) -/
theorem mnnKernel_stale_le_live (f : List (List α)) (nObj : Nat) (nRemove : Int) (twonn : Bool)
    (h2 : (if twonn then 2 else nObj) ≤ nObj) (hnt : NoTies (normalizeCols f nObj) f.length)
    (hbig : (if twonn then 2 else nObj) < f.length) :
    ∃ live : List Nat, (∀ i ∈ live, i < f.length) ∧
      ∀ k, k < f.length → live.contains k = false → ∀ i, i < f.length → live.contains i = true →
        extLe ((mnnKernelF f nObj nRemove twonn).1.getD k Ext.top)
              ((mnnKernelF f nObj nRemove twonn).1.getD i Ext.top) = true := by
  rw [mnn_engine_independent f nObj nRemove twonn h2 hnt]
  exact C15.mnnFallback_stale_le_live f nObj nRemove twonn hbig

/-! ### well-formedness of the compiled kernel's values, with or without ties -/

theorem prod_nonneg_aux (dist : Nat → α) (hd : ∀ c, 0 ≤ dist c) : ∀ (row : List (Option Nat)) (acc : α × Bool),
    0 ≤ acc.1 → 0 ≤ (row.foldl (fun (acc : α × Bool) nb => match nb with
      | some c => (acc.1 * dist c, acc.2)
      | none => (acc.1, false)) acc).1
  | [], acc, h => h
  | some c :: t, acc, h => by
    simp only [List.foldl_cons]
    exact prod_nonneg_aux dist hd t _ (mul_nonneg h (hd c))
  | none :: t, acc, h => by
    simp only [List.foldl_cons]
    exact prod_nonneg_aux dist hd t _ h

theorem mnnProd_nonneg (xs : List (List α)) (i : Nat) (row : List (Option Nat)) : 0 ≤ (mnnProd (dmAt xs i) row).1 := by
  unfold mnnProd
  exact prod_nonneg_aux (dmAt xs i) (dmAt_nonneg xs i) row (1, true) zero_le_one

/-- `c_calc_d` keeps the array well-formed and never touches an entry that is not an item -/
theorem calcD_wf (v : Nat → Ext α) (b : Nat → Bool) (hv : ∀ i, WF (v i)) : ∀ (items : List Nat) (d : List (Ext α)) (ok : Bool),
    (∀ e ∈ d, WF e) →
    ∀ e ∈ (items.foldl (fun (acc : List (Ext α) × Bool) i => (acc.1.set i (v i), acc.2 && b i)) (d, ok)).1, WF e
  | [], d, ok, h => h
  | a :: t, d, ok, h => by
    simp only [List.foldl_cons]
    apply calcD_wf v b hv t
    intro e he
    rcases List.mem_or_eq_of_mem_set he with h1 | h1
    · exact h e h1
    · rw [h1]; exact hv a

/-- the two facts the loop keeps about the crowding array whatever the ties: values are non-negative or infinite, and
the extremes stay infinite -/
structure DInv (ex : List Nat) (d : List (Ext α)) : Prop where
  wf : ∀ e ∈ d, WF e
  exTop : ∀ i ∈ ex, d.getD i Ext.top = Ext.top

theorem dinv_step (xs : List (List α)) (ex : List Nat) (st : MnnState α) (h : DInv ex st.d) :
    DInv ex (mnnStepF xs ex st).d := by
  rw [mnnStepF_eq]
  simp only []
  set k := (dropLast st.d st.h).getD 0
  set h' := st.h.filter (· != k)
  set upd := h'.foldl (removeStep k) (st.mnn, [])
  set items := upd.2.filter (fun i => !ex.contains i) with hitems
  set mnn' := items.foldl (fun t i => t.set i (mnnRefill (dmAt xs i) i h' (t.getD i []))) upd.1
  refine ⟨?_, ?_⟩
  · exact calcD_wf (fun i => Ext.fin (mnnProd (dmAt xs i) (mnn'.getD i [])).1)
      (fun i => (mnnProd (dmAt xs i) (mnn'.getD i [])).2) (fun i => mnnProd_nonneg xs i _) items st.d st.ok h.wf
  · intro i hi
    obtain ⟨_, c2⟩ := calcD_get (fun i => Ext.fin (mnnProd (dmAt xs i) (mnn'.getD i [])).1)
      (fun i => (mnnProd (dmAt xs i) (mnn'.getD i [])).2) items st.d st.ok
    refine Eq.trans (c2 i) ?_
    have hni : ¬ (i ∈ items ∧ i < st.d.length) := by
      rintro ⟨hm, _⟩
      rw [hitems, List.mem_filter, (contains_iff ex i).mpr hi] at hm
      exact absurd hm.2 (by decide)
    rw [if_neg hni]
    exact h.exTop i hi

theorem dinv_loop (xs : List (List α)) (ex : List Nat) : ∀ (fuel : Nat) (st : MnnState α), DInv ex st.d →
    DInv ex (mnnLoopF xs ex fuel st).d
  | 0, st, h => h
  | fuel + 1, st, h => dinv_loop xs ex fuel _ (dinv_step xs ex st h)

theorem dinv_init (f : List (List α)) (nObj mNb : Nat) : DInv (extremesFirst f nObj) (mnnInitF f nObj mNb).d := by
  set n := f.length
  set xs := normalizeCols f nObj
  set ex := extremesFirst f nObj
  set T : List (List (Option Nat)) := (List.range n).map fun i =>
    ((argsortStable ((List.range n).map fun j => dmAt xs i j)).drop 1).take mNb |>.map some
  set items := (List.range n).filter fun i => !ex.contains i with hitems
  have hd : (mnnInitF f nObj mNb).d = (items.foldl
      (fun (acc : List (Ext α) × Bool) i =>
        let p := mnnProd (dmAt xs i) (T.getD i [])
        (acc.1.set i (Ext.fin p.1), acc.2 && p.2)) (List.replicate n Ext.top, true)).1 := rfl
  rw [hd]
  refine ⟨?_, ?_⟩
  · apply calcD_wf (fun i => Ext.fin (mnnProd (dmAt xs i) (T.getD i [])).1)
      (fun i => (mnnProd (dmAt xs i) (T.getD i [])).2) (fun i => mnnProd_nonneg xs i _) items _ true
    intro e he
    rw [List.mem_replicate] at he
    rw [he.2]; trivial
  · intro i hi
    obtain ⟨_, c2⟩ := calcD_get (fun i => Ext.fin (mnnProd (dmAt xs i) (T.getD i [])).1)
      (fun i => (mnnProd (dmAt xs i) (T.getD i [])).2) items (List.replicate n Ext.top) true
    refine Eq.trans (c2 i) ?_
    have hni : ¬ (i ∈ items ∧ i < (List.replicate n (Ext.top : Ext α)).length) := by
      rintro ⟨hm, _⟩
      rw [hitems, List.mem_filter, (contains_iff ex i).mpr hi] at hm
      exact absurd hm.2 (by decide)
    rw [if_neg hni, List.getD_eq_getElem?_getD, List.getElem?_replicate]
    split <;> rfl

/-- **C13 (compiled mnn / 2nn kernel, every front — ties and duplicates included — and every `n_remove`)**: every value
is non-negative or `+inf` (never NaN: the model's `Ext` has no such value and the product is of non-negative distances) -/
theorem mnnKernelF_wellformed (f : List (List α)) (nObj : Nat) (nRemove : Int) (twonn : Bool) :
    ∀ e ∈ (mnnKernelF f nObj nRemove twonn).1, WF e := by
  unfold mnnKernelF
  simp only []
  generalize (if twonn then 2 else nObj) = mNb
  by_cases hle : f.length ≤ mNb
  · rw [if_pos hle]
    intro e he
    rw [List.mem_map] at he
    obtain ⟨_, _, rfl⟩ := he
    trivial
  · rw [if_neg hle]
    exact (dinv_loop _ _ _ _ (dinv_init f nObj _)).wf

/-- … and the first holder of the minimum and of the maximum of every objective keeps `+inf` -/
theorem mnnKernelF_extremes_top (f : List (List α)) (nObj : Nat) (nRemove : Int) (twonn : Bool) :
    ∀ i ∈ extremesFirst f nObj, (mnnKernelF f nObj nRemove twonn).1.getD i Ext.top = Ext.top := by
  unfold mnnKernelF
  simp only []
  generalize (if twonn then 2 else nObj) = mNb
  by_cases hle : f.length ≤ mNb
  · rw [if_pos hle]
    intro i _
    rw [List.getD_eq_getElem?_getD, List.getElem?_map]
    cases f[i]? <;> rfl
  · rw [if_neg hle]
    exact (dinv_loop _ _ _ _ (dinv_init f nObj _)).exTop

/-- the compiled pcd kernel, wherever it is defined (every maximum attained once, removal budget): values are
non-negative or `+inf` and the extremes are `+inf` — through the refinement theorem -/
theorem pcdKernelF_wellformed (f : List (List α)) (M : Nat) (c : α) (nRemove : Int) (hne : f ≠ []) (hc : 0 < c)
    (hmax : AllMaxOnce f M) (hb : Budget f M nRemove) :
    (∀ e ∈ (pcdKernelF f M c nRemove).1, WF e) ∧
    ∀ i, i < f.length → i ∈ extremesFirst f M → (pcdKernelF f M c nRemove).1.getD i (Ext.fin 0) = Ext.top := by
  rw [pcdKernelF_refines f M c nRemove hne hc hmax hb]
  exact ⟨pcdFallback_wellformed f M c hc nRemove, fun i hi hex => pcdFallback_extremes_top f M c nRemove i hi hex⟩

/-- non-vacuity: a concrete 4-point bi-objective front over ℚ has no distance ties, so on it the compiled kernel
equals the definition for every `n_remove`, with `mnn` and with `2nn` -/
theorem noTies_example :
    NoTies (normalizeCols ([[0, 8], [1, 4], [3, 1], [8, 0]] : List (List ℚ)) 2) 4 := by
  have h : ∀ i < 4, ∀ j < 4, ∀ j' < 4, j ≠ j' →
      dmAt (normalizeCols ([[0, 8], [1, 4], [3, 1], [8, 0]] : List (List ℚ)) 2) i j ≠
      dmAt (normalizeCols ([[0, 8], [1, 4], [3, 1], [8, 0]] : List (List ℚ)) 2) i j' := by
    decide +kernel
  intro i j j' hi hj hj' hne
  exact h i hi j hj j' hj' hne

example (nRemove : Int) (twonn : Bool) :
    mnnKernelF ([[0, 8], [1, 4], [3, 1], [8, 0]] : List (List ℚ)) 2 nRemove twonn =
      (mnnFallback ([[0, 8], [1, 4], [3, 1], [8, 0]] : List (List ℚ)) 2 nRemove twonn, true) :=
  mnnKernelF_refines _ 2 nRemove twonn (by cases twonn <;> simp) noTies_example

end C13
end Pymoode
