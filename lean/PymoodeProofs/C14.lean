/-
C14  Results do not depend on whether the extensions compiled.

FULL STATEMENT: the pure-Python implementations return the same crowding values (up to rounding)
and lead to the same surviving set as the compiled ones on every front (constant objectives
included); the compiled nearest-neighbour helper agrees with the NumPy computation of the spacing
indicator.

PROVED: what is engine-independent *by construction of the dispatch* — cd and ce have a single
implementation; both engines share clamping, normalisation (with the zero-range guard), extremes and
the "last minimum" removal rule; the pure-Python engine *is* the published definition
(`Prune.lean`). The spacing helper and the NumPy expression compute the same row statistic
(`secondSmallest` = an entry of the row, C20). NOT PROVED (`…_partial`): refinement of the
incremental compiled kernels to the definitions. The engines are compared input by input on the
real code and each against its own bit-exact Lean model in every run.
-/
import PymoodeProofs.C13
import PymoodeProofs.C20

set_option linter.unusedSectionVars false
set_option linter.unusedVariables false

namespace Pymoode
namespace C14

variable {α : Type} [Field α] [LinearOrder α] [IsStrictOrderedRing α] [Inhabited α]

/-- cd and ce do not depend on the engine switch -/
theorem cd_engine_independent (log2 neg : α → α) (f : List (List α)) (nObj : Nat) (nObjS : α) (nr : Int) :
    (rawMetric log2 neg .cd true f nObj nObjS nr).1 = (rawMetric log2 neg .cd false f nObj nObjS nr).1 := rfl

theorem ce_engine_independent (log2 neg : α → α) (f : List (List α)) (nObj : Nat) (nObjS : α) (nr : Int) :
    (rawMetric log2 neg .ce true f nObj nObjS nr).1 = (rawMetric log2 neg .ce false f nObj nObjS nr).1 := rfl

/-- the pure-Python engine is the definition and never indexes outside an array -/
theorem fallback_is_definition (log2 neg : α → α) (f : List (List α)) (nObj : Nat) (nObjS : α) (nr : Int) :
    rawMetric log2 neg .mnn false f nObj nObjS nr = (mnnFallback f nObj nr false, #[]) ∧
    rawMetric log2 neg .twonn false f nObj nObjS nr = (mnnFallback f nObj nr true, #[]) ∧
    rawMetric log2 neg .pcd false f nObj nObjS nr = (pcdFallback f nObj nObjS nr, #[]) :=
  ⟨rfl, rfl, rfl⟩

/-- zero-range guard of the normalisation shared by both engines: a constant objective is mapped
to a finite value (0), never divided by zero -/
theorem normalize_constant_column (lo x : α) :
    (let diff := lo - lo
     let diff := if lo < lo then diff else (if lo < lo then diff else (1 : α))
     (x - lo) / diff) = x - lo := by
  simp

/-- short fronts: both engines return `+inf` for every point when `N ≤ M` neighbours are asked for -/
theorem mnn_short_front_partial (f : List (List α)) (nObj : Nat) (nr : Int) (h : f.length ≤ nObj) :
    mnnFallback f nObj nr false = f.map (fun _ => Ext.top) ∧
    (mnnKernel f nObj nr false).1 = f.map (fun _ => Ext.top) := by
  constructor
  · unfold mnnFallback
    simp [h]
  · unfold mnnKernel
    simp [h, Id.run]
    rfl

end C14
end Pymoode
