/-
C19, continued: **randomly drawn parents are uniform over the admissible individuals**, by counting over the candidate
streams of the re-selection loop (each candidate uniform on the population): the streams that end up with `v` are as many
as those that end up with `w`, for admissible `v`, `w` (`uniform_parent_count`, from `first_admissible_exchange`).
-/
import PymoodeProofs.C19b
import Mathlib.Logic.Equiv.Basic
import Mathlib.Data.Fintype.Perm

set_option linter.unusedSectionVars false
set_option linter.unusedVariables false

namespace Pymoode
namespace C19

/-- exchange of two individuals -/
def swapNat (v w x : Nat) : Nat := if x = v then w else if x = w then v else x

theorem swapNat_invol (v w x : Nat) : swapNat v w (swapNat v w x) = x := by
  unfold swapNat
  by_cases h1 : x = v
  · subst h1
    by_cases h2 : w = x
    · subst h2; simp
    · simp [h2]
  · by_cases h2 : x = w
    · subst h2; simp [h1]
    · simp [h1, h2]

theorem swapNat_lt (n v w x : Nat) (hv : v < n) (hw : w < n) (hx : x < n) : swapNat v w x < n := by
  unfold swapNat; split
  · exact hw
  · split
    · exact hv
    · exact hx

/-- **randomly drawn parents are uniform over the admissible individuals**: among the `n^L` candidate streams of length
`L` (each candidate uniform on the population, as `np.random.choice(n_pop, …)` draws it), the streams whose first
admissible candidate — the one the re-selection loop ends up with (`redraw_keeps_admissible`) — is `v` are exactly as many
as those for which it is `w`, for any two admissible individuals `v`, `w` -/
theorem uniform_parent_count (n L : Nat) (adm : Nat → Bool) (v w : Nat) (hv : v < n) (hw : w < n)
    (hav : adm v = true) (haw : adm w = true) :
    (Finset.univ.filter fun s : Fin L → Fin n => (List.ofFn fun j => (s j : Nat)).find? adm = some v).card =
    (Finset.univ.filter fun s : Fin L → Fin n => (List.ofFn fun j => (s j : Nat)).find? adm = some w).card := by
  have hinv : ∀ x, adm (swapNat v w x) = adm x := by
    intro x
    unfold swapNat
    by_cases h1 : x = v
    · subst h1; simp [hav, haw]
    · by_cases h2 : x = w
      · subst h2; simp [h1, hav, haw]
      · simp [h1, h2]
  let sw : Fin n → Fin n := fun a => ⟨swapNat v w a, swapNat_lt n v w a hv hw a.isLt⟩
  have hsw : ∀ a, sw (sw a) = a := fun a => Fin.ext (swapNat_invol v w a)
  have hmap : ∀ s : Fin L → Fin n, (List.ofFn fun j => ((sw (s j) : Fin n) : Nat)) =
      (List.ofFn fun j => (s j : Nat)).map (swapNat v w) := by
    intro s
    rw [List.map_ofFn]
    rfl
  apply Finset.card_bij (fun s _ => fun j => sw (s j))
  · intro s hs
    rw [Finset.mem_filter] at hs ⊢
    refine ⟨Finset.mem_univ _, ?_⟩
    rw [hmap s, first_admissible_exchange adm (swapNat v w) hinv, hs.2]
    simp [swapNat]
  · intro s _ t _ hst
    funext j
    have := congrFun hst j
    have h2 := congrArg sw this
    rwa [hsw, hsw] at h2
  · intro t ht
    rw [Finset.mem_filter] at ht
    refine ⟨fun j => sw (t j), ?_, ?_⟩
    · rw [Finset.mem_filter]
      refine ⟨Finset.mem_univ _, ?_⟩
      rw [hmap t, first_admissible_exchange adm (swapNat v w) hinv, ht.2]
      simp only [Option.map_some, swapNat]
      by_cases hwv : w = v
      · simp [hwv]
      · simp [hwv]
    · funext j
      exact hsw (t j)

end C19
end Pymoode
