/-
C11  Repair touches only violating coordinates, as each strategy says.
Property theorems only; the scalar is any linearly ordered field.
-/
import PymoodeModel.Repair
import Mathlib.Algebra.Order.Field.Basic
import Mathlib.Tactic.Linarith
import Mathlib.Tactic.FieldSimp
import Mathlib.Tactic.Ring

set_option linter.unusedSectionVars false

namespace Pymoode
namespace C11

variable {α : Type} [Field α] [LinearOrder α] [IsStrictOrderedRing α]

/-- A coordinate that violates no bound is returned as the identical value. -/
theorem repair_noop (s : RepairKind) (c : RCoord α) (h1 : c.xl ≤ c.v) (h2 : c.v ≤ c.xu) :
    repair1 s c = c.v := by
  unfold repair1 upPass lowPass
  rw [if_neg (not_lt.mpr h1), if_neg (not_lt.mpr h2)]

/-- Which branch fired, for a well-formed coordinate (`xl ≤ xu`). -/
theorem repair_cases (s : RepairKind) (c : RCoord α) (hb : c.xl ≤ c.xu)
    (hxb : c.xl ≤ c.xb ∧ c.xb ≤ c.xu) (hrl : 0 ≤ c.rl ∧ c.rl < 1) :
    (c.v < c.xl ∧ repair1 s c = repairLow s c.xl c.xu c.xb c.rl) ∨
    (c.xu < c.v ∧ repair1 s c = repairUp s c.xl c.xu c.xb c.ru) ∨
    (c.xl ≤ c.v ∧ c.v ≤ c.xu ∧ repair1 s c = c.v) := by
  obtain ⟨hxb1, hxb2⟩ := hxb
  obtain ⟨hr0, hr1⟩ := hrl
  by_cases hl : c.v < c.xl
  · left
    refine ⟨hl, ?_⟩
    unfold repair1 upPass lowPass
    rw [if_pos hl]
    have : ¬ c.xu < repairLow s c.xl c.xu c.xb c.rl := by
      rw [not_lt]
      cases s <;> simp only [repairLow]
      · nlinarith
      · linarith
      · nlinarith
      · exact hb
    rw [if_neg this]
  · right
    by_cases hu : c.xu < c.v
    · left
      refine ⟨hu, ?_⟩
      unfold repair1 upPass lowPass
      rw [if_neg hl, if_pos hu]
    · right
      exact ⟨not_lt.mp hl, not_lt.mp hu, repair_noop s c (not_lt.mp hl) (not_lt.mp hu)⟩

/-- bounce-back, lower violation: the result lies between the violated bound and the base coordinate -/
theorem bounce_low_between (xl xu xb r : α) (hxb : xl ≤ xb) (hr0 : 0 ≤ r) (hr1 : r < 1) :
    xl ≤ repairLow .bounceBack xl xu xb r ∧ repairLow .bounceBack xl xu xb r ≤ xb := by
  simp only [repairLow]; constructor <;> nlinarith

/-- bounce-back, upper violation -/
theorem bounce_up_between (xl xu xb r : α) (hxb : xb ≤ xu) (hr0 : 0 ≤ r) (hr1 : r < 1) :
    xb ≤ repairUp .bounceBack xl xu xb r ∧ repairUp .bounceBack xl xu xb r ≤ xu := by
  simp only [repairUp]; constructor <;> nlinarith

/-- midway: exactly halfway between the violated bound and the base coordinate -/
theorem midway_low_exact (xl xu xb r : α) : repairLow .midway xl xu xb r = (xl + xb) / 2 := by
  simp only [repairLow]; ring

theorem midway_up_exact (xl xu xb r : α) : repairUp .midway xl xu xb r = (xu + xb) / 2 := by
  simp only [repairUp]; ring

/-- to-bounds: exactly on the violated bound -/
theorem to_bounds_low_exact (xl xu xb r : α) : repairLow .toBounds xl xu xb r = xl := rfl
theorem to_bounds_up_exact (xl xu xb r : α) : repairUp .toBounds xl xu xb r = xu := rfl

/-- rand-init: anywhere inside the variable's range -/
theorem rand_init_low_in_range (xl xu xb r : α) (hb : xl ≤ xu) (hr0 : 0 ≤ r) (hr1 : r < 1) :
    xl ≤ repairLow .randInit xl xu xb r ∧ repairLow .randInit xl xu xb r ≤ xu := by
  simp only [repairLow]; constructor <;> nlinarith

theorem rand_init_up_in_range (xl xu xb r : α) (hb : xl ≤ xu) (hr0 : 0 ≤ r) (hr1 : r < 1) :
    xl ≤ repairUp .randInit xl xu xb r ∧ repairUp .randInit xl xu xb r ≤ xu := by
  simp only [repairUp]; constructor <;> nlinarith

/-- Matrix version: every entry of the repaired (flattened) matrix that violated nothing
is the identical input value, and the output has one entry per input entry. -/
theorem repairAll_length (s : RepairKind) (cs : List (RCoord α)) :
    (repairAll s cs).length = cs.length := by
  simp [repairAll]

theorem repairAll_noop (s : RepairKind) (cs : List (RCoord α)) (i : Nat) (h : i < cs.length)
    (h1 : cs[i].xl ≤ cs[i].v) (h2 : cs[i].v ≤ cs[i].xu) :
    (repairAll s cs)[i]'(by simpa [repairAll] using h) = cs[i].v := by
  simp [repairAll, repair_noop s cs[i] h1 h2]

/-- non-vacuity: a concrete coordinate (over ℚ-like literals in any ordered field) meets the hypotheses -/
example : (0:α) ≤ 1 ∧ (1:α) ≤ 2 := ⟨by norm_num, by norm_num⟩

end C11
end Pymoode
