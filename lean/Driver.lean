import PymoodeModel
open Pymoode Pymoode.Proto Pymoode.Drv

def dispatch : P String := do
  let seq ← tok
  let comp ← tok
  let body ← match comp with
    | "repair" => compRepair
    | "dem" => compDem
    | "dex" => compDex
    | "mask" => compMask
    | "des" => compDes
    | "variant" => compVariant
    | "surv" => compSurv
    | "repl" => compRepl
    | "gen" => compGen
    | "crowd" => compCrowd
    | "crowd3" => compCrowd3
    | "spacing" => compSpacing
    | "spnn" => compSpnn
    | "fitsort" => compFitsort
    | _ => pure s!"err unknown component {comp}"
  return s!"{seq} {comp} {body}"

partial def loop (h : IO.FS.Stream) (out : IO.FS.Stream) : IO Unit := do
  let line ← h.getLine
  if line.isEmpty then return ()
  let l := line.trimAsciiEnd.toString
  if l.isEmpty then loop h out else
  match Proto.run dispatch l with
  | .ok s => out.putStrLn s
  | .error e => out.putStrLn s!"? parse-error {e}"
  loop h out

def main : IO Unit := do
  let stdin ← IO.getStdin
  let stdout ← IO.getStdout
  loop stdin stdout
  stdout.flush
