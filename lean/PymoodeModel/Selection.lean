/-
Model of `DES` parent selection (`pymoode/operators/des.py`).
A parent matrix is a list of rows; `targets[i] = i`. Random columns are filled from the
recorded `np.random.choice` vectors: the first vector fills the column, every further
vector re-draws the rows flagged by `get_reselect`, until no row is flagged.
-/
namespace Pymoode

/-- `get_reselect` for one row: the candidate equals the target or an earlier column -/
def needRe (target : Nat) (prev : List Nat) (x : Nat) : Bool :=
  x == target || prev.contains x

/-- no row of the column is flagged -/
def noRe : List (Nat × List Nat) → List Nat → Bool
  | (t, p) :: tps, x :: xs => !needRe t p x && noRe tps xs
  | _, _ => true

/-- `P[reselect, j] = choice(n_pop, reselect.sum())`: flagged rows take the next value -/
def redraw : List (Nat × List Nat) → List Nat → List Nat → List Nat
  | (t, p) :: tps, x :: xs, e =>
      if needRe t p x then
        match e with
        | v :: vs => v :: redraw tps xs vs
        | [] => x :: redraw tps xs []
      else x :: redraw tps xs e
  | _, _, _ => []

def flagged : List (Nat × List Nat) → List Nat → Nat
  | (t, p) :: tps, x :: xs => (if needRe t p x then 1 else 0) + flagged tps xs
  | _, _ => 0

/-- the `while np.any(reselect)` loop on the remaining recorded vectors; `none` when the
recorded stream ends before the loop does -/
def fillCol (tp : List (Nat × List Nat)) (col : List Nat) : List (List Nat) → Option (List Nat × List (List Nat))
  | [] => if noRe tp col then some (col, []) else none
  | e :: es => if noRe tp col then some (col, e :: es) else fillCol tp (redraw tp col e) es

/-- append one more random column to every row -/
def addCol (rows : List (List Nat)) (col : List Nat) : List (List Nat) :=
  List.zipWith (fun r x => r ++ [x]) rows col

def targetsOf (rows : List (List Nat)) : List Nat := List.range rows.length

/-- `k` random columns appended to `rows`, consuming the recorded vectors in order -/
def fillCols (rows : List (List Nat)) : Nat → List (List Nat) → Option (List (List Nat) × List (List Nat))
  | 0, evs => some (rows, evs)
  | _ + 1, [] => none
  | k + 1, e :: es =>
      if e.length ≠ rows.length then none else   -- `choice(n_pop, n_select)`: one candidate per row
      match fillCol (List.zip (targetsOf rows) rows) e es with
      | none => none
      | some (col, rest) => fillCols (addCol rows col) k rest

/-- `[t₀, t_last, t₁, t_{last-1}, …]`: the order in which `rank_sort` lays out the sorted
non-base parents (`P[2j-1] = S[j]`, `P[2j] = S[-j]`) -/
def interleaveEnds {β : Type} : List β → List β
  | [] => []
  | [a] => [a]
  | a :: b :: t => a :: (b :: t).getLast (by simp) :: interleaveEnds ((b :: t).dropLast)
termination_by l => l.length
decreasing_by simp; omega

/-- `rank_sort` on one row (the repaired `_ranked`): stable sort by rank, then
`P[0] = S[0]`, `P[2j-1] = S[j]`, `P[2j] = S[-j]` -/
def rankSortRow (rank : Nat → Nat) (row : List Nat) : List Nat :=
  match row.mergeSort (fun a b => decide (rank a ≤ rank b)) with
  | [] => []
  | s0 :: t => s0 :: interleaveEnds t

inductive SelKind where
  | rand | best | currentToBest | currentToRand | randToBest | ranked
  deriving DecidableEq, Repr, Inhabited

/-- the selections whose name contains "-to-" carry one extra (directional) difference -/
def SelKind.isTo : SelKind → Bool
  | .currentToBest | .currentToRand | .randToBest => true
  | _ => false

/-- variant-string parsing of `DifferentialVariant.__init__`:
`n_diffs = y (+1 for '-to-' selections)`, `n_parents = 1 + 2 * n_diffs` -/
def nDiffs (k : SelKind) (y : Nat) : Nat := if k.isTo then y + 1 else y

def nParents (k : SelKind) (y : Nat) : Nat := 1 + 2 * nDiffs k y

def swap01 : List Nat → List Nat
  | a :: b :: r => b :: a :: r
  | r => r

/-- whole selection: `n` targets, `nPar` parents each -/
def select (kind : SelKind) (rank : Nat → Nat) (n nPar : Nat) (evs : List (List Nat)) :
    Option (List (List Nat) × List (List Nat)) :=
  let empty := List.replicate n ([] : List Nat)
  let idx := List.range n
  match kind with
  | .rand => fillCols empty nPar evs
  | .ranked =>
      match fillCols empty nPar evs with
      | none => none
      | some (rows, rest) => some (rows.map (rankSortRow rank), rest)
  | .best => fillCols (idx.map fun _ => [0]) (nPar - 1) evs
  | .randToBest =>
      match fillCols (idx.map fun _ => [0]) (nPar - 1) evs with
      | none => none
      | some (rows, rest) => some (rows.map swap01, rest)
  | .currentToBest => fillCols (idx.map fun i => [i, 0, i]) (nPar - 3) evs
  | .currentToRand =>
      match fillCols (idx.map fun i => [i]) 1 evs with
      | none => none
      | some (rows, rest) => fillCols (List.zipWith (fun r i => r ++ [i]) rows idx) (nPar - 3) rest

end Pymoode
