/-
Model of the generation step of the algorithms (`pymoode/algorithms`): what `_advance` hands to the
survival operator, and `_set_optimum`.
-/
import PymoodeModel.Dominance
import PymoodeModel.RankCrowd
import PymoodeModel.Replacement
namespace Pymoode

/-- what the multi-objective algorithms read of an individual -/
structure IndM (α : Type) where
  id   : Nat
  f    : List α
  cv   : α
  feas : Bool
  deriving Repr, Inhabited

section
variable {α : Type} [LT α] [DecidableLT α]

/-- `GDE3._advance`: per slot, `get_relation(parent, off)`: 0 → both compete, −1 → offspring only,
otherwise parent only -/
def gde3Slot (p o : IndM α) : List (IndM α) :=
  let rel := getRelation p.cv o.cv p.f o.f
  if rel = 0 then [p, o] else if rel = -1 then [o] else [p]

def gde3Candidates : List (IndM α) → List (IndM α) → List (IndM α)
  | p :: ps, o :: os => gde3Slot p o ++ gde3Candidates ps os
  | _, _ => []

/-- `NSDE._advance` / `EvolutionaryAlgorithm._advance`: `Population.merge(pop, infills)` -/
def mergeCandidates (pop off : List (IndM α)) : List (IndM α) := pop ++ off

/-- the individuals at the surviving positions: `pop[survivors]` -/
def pick (cand : List (IndM α)) (positions : List Nat) : List (IndM α) :=
  positions.filterMap (cand[·]?)

/-- `survival.do(problem, candidates, n_survive = popSize)` for the rank-and-crowding survival -/
def advanceRnc (cand : List (IndM α)) (popSize : Nat) (constr : Bool) (feas infeas : List Nat)
    (fronts : List (List Nat × List Nat)) : List (IndM α) :=
  pick cand (survivalDo cand.length popSize constr feas infeas fronts)

/-- first position of a minimal CV (`np.argmin`) -/
def argminCv : List (IndM α) → Option (IndM α)
  | [] => none
  | a :: t => match argminCv t with
    | none => some a
    | some b => if b.cv < a.cv then some b else some a

/-- `_set_optimum`: the least-CV member if nothing is feasible, else the members with `rank == 0`
(`rank i` = the attribute the individual carries, `none` if unset) -/
def setOptimum (pop : List (IndM α)) (rank : Nat → Option Nat) : List (IndM α) :=
  if pop.any (·.feas) then pop.filter (fun i => rank i.id == some 0)
  else (argminCv pop).toList

end
end Pymoode
