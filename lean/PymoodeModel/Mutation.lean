/-
Model of `DEM.de_mutation` / `get_diffs` / scale-factor and jitter helpers
(`pymoode/operators/dem.py`), one coordinate of one mating at a time.
-/
namespace Pymoode

/-- one scaled difference `F * (Xi - Xj)` as `get_diff` computes it for one coordinate:
`F` is the per-(mating, pair) scale factor, `jit = some (γ, r)` when `_diff_jitter` is active. -/
structure DiffTerm (α : Type) where
  F   : α
  jit : Option (α × α)
  xi  : α
  xj  : α
  deriving Repr, Inhabited

section
variable {α : Type} [Add α] [Sub α] [Mul α] [Div α] [OfNat α 0] [OfNat α 1] [OfNat α 2]

/-- `_randomize_scale_factor`: `F[0] + r * (F[1] - F[0])` -/
def scaleDither (lo hi r : α) : α := lo + r * (hi - lo)

/-- `1 + gamma * (r - 0.5)` -/
def jitterFactor (γ r : α) : α := 1 + γ * (r - 1 / 2)

/-- `_diff_simple` / `_diff_jitter` -/
def diffTerm (t : DiffTerm α) : α :=
  match t.jit with
  | none => t.F * (t.xi - t.xj)
  | some (γ, r) => (t.F * jitterFactor γ r) * (t.xi - t.xj)

/-- `diffs = zeros; for each pair: diffs = diffs + diff` -/
def sumDiffs (ts : List (DiffTerm α)) : α :=
  ts.foldl (fun acc t => acc + diffTerm t) 0

/-- `V = X[0] + diffs` -/
def mutant (x0 : α) (ts : List (DiffTerm α)) : α := x0 + sumDiffs ts

end

/-- `pairs = (arange(n_parents - 1) + 1).reshape(-1, 2)` -/
def pairs (nPar : Nat) : List (Nat × Nat) :=
  (List.range ((nPar - 1) / 2)).map fun k => (2 * k + 1, 2 * k + 2)

end Pymoode
