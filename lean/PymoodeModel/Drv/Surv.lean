import PymoodeModel.RankCrowd
import PymoodeModel.Metrics.Diversity
import PymoodeModel.Drv.Common
namespace Pymoode.Drv
open Pymoode Pymoode.Proto

structure NdsCall where
  m : Nat
  nStop : Nat
  fronts : List (List Nat)
  f : List (List Float)   -- the matrix the sorter was called on

structure CrowdCall where
  len : Nat
  nRemove : Int
  vals : List Float

structure SortCall where
  desc : Bool
  a : List Float
  idx : List Nat

def parseNds : P NdsCall := do
  let m ← nat
  let nStop ← nat
  let fronts ← listOf (listOf nat)
  let f ← matOf flt
  return { m, nStop, fronts, f }

def sameMatrix (a b : List (List Float)) : Bool :=
  a.length == b.length && (List.zip a b).all fun (x, y) =>
    x.length == y.length && (List.zip x y).all fun (u, v) => u == v

def parseCrowd : P CrowdCall := do
  let nRemove ← int
  let vals ← listOf flt
  return { len := vals.length, nRemove, vals }

def parseSort : P SortCall := do
  let desc ← bool
  let a ← listOf flt
  let idx ← listOf nat
  return { desc, a, idx }

def isPermOfRange (idx : List Nat) (n : Nat) : Bool :=
  idx.length == n && (List.range n).all fun i => idx.contains i

/-- contract of `randomized_argsort`: a permutation, values monotone in the requested order -/
def sortOk (c : SortCall) : Bool :=
  isPermOfRange c.idx c.a.length &&
  let vs := c.idx.map fun i => c.a.getD i 0.0
  let rec mono : List Float → Bool
    | x :: y :: r => (if c.desc then !(x < y) else !(y < x)) && mono (y :: r)
    | _ => true
  mono vs

/-- contract of `split_by_feasibility`: partition by the `feasible` flags, `infeas` ascending in CV -/
def splitOk (feasFlag : List Bool) (cv : List Float) (feas infeas : List Nat) : Bool :=
  let n := feasFlag.length
  feas == (List.range n).filter (fun i => feasFlag.getD i false) &&
  isPermOfRange (feas ++ infeas) n &&
  infeas.all (fun i => !(feasFlag.getD i true)) &&
  let rec mono : List Float → Bool
    | x :: y :: r => !(y < x) && mono (y :: r)
    | _ => true
  mono (infeas.map fun i => cv.getD i 0.0)

def domOn (fs : List (List Float)) (j i : Nat) : Bool :=
  dominates (fs.getD j []) (fs.getD i [])

structure SurvRec where
  metric : Option Metric      -- crowding metric of the survival (none: not checked)
  compiled : Bool
  cls : String
  n : Nat
  nSurvive : Nat
  constr : Bool
  f : List (List Float)
  g : List (List Float)
  h : List (List Float)
  cv : List Float
  feasFlag : List Bool
  splits : List (List Nat × List Nat)
  nds : List NdsCall
  crowd : List CrowdCall
  sorts : List SortCall

def parseMetricOpt (s : String) : Option Metric :=
  match s with
  | "cd" => some .cd
  | "pcd" => some .pcd
  | "ce" => some .ce
  | "mnn" => some .mnn
  | "2nn" => some .twonn
  | _ => none

def distTies (f : List (List Float)) (nObj : Nat) : Bool :=
  let xs := normalizeCols f nObj
  let n := xs.length
  (List.range n).any fun i =>
    let row := (List.range n).filter (· != i) |>.map fun j =>
      if i < j then sqDist (xs.getD i []) (xs.getD j []) else sqDist (xs.getD j []) (xs.getD i [])
    let s := row.mergeSort fun a b => !(b < a)
    let rec dup : List Float → Bool
      | a :: b :: r => a == b || dup (b :: r)
      | _ => false
    dup s

/-- do the crowding values recorded for one front equal the model's? -/
def crowdValuesOk (metric : Metric) (compiled : Bool) (ff : List (List Float)) (nRemove : Int)
    (vals : List Float) : Bool :=
  let nObj := match ff with | [] => 0 | r :: _ => r.length
  let neg (x : Float) : Float := -x
  let (d, errs) := crowding Float.log2 neg metric compiled ff nObj (Float.ofNat nObj) nRemove
  if compiled && metric == .pcd && !errs.isEmpty then true      -- undefined behaviour (known finding)
  else if compiled && (metric == .mnn || metric == .twonn) && distTies ff nObj then true
  else
    d.length == vals.length && (List.zip d vals).all fun (m, v) =>
      let mv := m.toFloat
      if metric == .ce then
        (mv == v) || (Float.abs (mv - v) <= 1e-9 * (if Float.abs mv < 1.0 then 1.0 else Float.abs mv))
      else mv == v

def parseSurv : P SurvRec := do
  let mtok ← tok
  let compiled ← bool
  let metric := parseMetricOpt mtok
  let cls ← tok
  let n ← nat
  let nSurvive ← nat
  let constr ← bool
  let f ← matOf flt
  let g ← matOf flt
  let h ← matOf flt
  let cv ← listOf flt
  let feasFlag ← listOf bool
  kw "SPLITS"
  let splits ← listOf (do let a ← listOf nat; let b ← listOf nat; pure (a, b))
  kw "NDS"
  let nds ← listOf parseNds
  kw "CROWD"
  let crowd ← listOf parseCrowd
  kw "SORTS"
  let sorts ← listOf parseSort
  return { metric, compiled, cls, n, nSurvive, constr, f, g, h, cv, feasFlag, splits, nds, crowd, sorts }

/-- run one `RankAndCrowding._do` on the sub-population `sub` (positions of the input population):
checks the oracle contracts and the arguments the oracles were called with -/
def rncInner (r : SurvRec) (sub : List Nat) (nS : Nat) (nds : NdsCall) (crowd : List CrowdCall)
    (sorts : List SortCall) : Except String (List Nat × List (Nat × Nat) × Nat × Nat) := do
  -- returns (survivors as positions in sub, (position in sub, rank), crowd calls used, sort calls used)
  let m := sub.length
  let fsub := sub.map fun i => r.f.getD i []
  if nds.m != m then throw s!"pre: NDS called on {nds.m} points, the model hands {m} to _do"
  if !sameMatrix nds.f fsub then throw "non-dominated sorting was called on a matrix that is not the objectives of the sub-population"
  if nds.nStop != nS then throw s!"pre: NDS called with n_stop_if_ranked={nds.nStop}, model expects {nS}"
  if !isFrontsb (domOn fsub) m nS nds.fronts then throw "pre: NDS result violates the IsFronts contract"
  let nrem := nRemoveSeq nS nds.fronts 0
  if crowd.length < nds.fronts.length then throw "pre: fewer crowding calls than fronts"
  let used := crowd.take nds.fronts.length
  let mut k := 0
  let mut sortedFronts : Array (List Nat) := #[]
  let mut sUsed := 0
  for (fr, c, nr) in List.zip nds.fronts (List.zip used nrem) do
    if c.len != fr.length then throw s!"pre: crowding function called on {c.len} points for a front of {fr.length}"
    if c.nRemove != Int.ofNat nr then
      throw s!"crowding function called with n_remove={c.nRemove} for front {k}, model forwards {nr}"
    match r.metric with
    | some metric =>
      let ff := fr.map fun i => fsub.getD i []
      if !crowdValuesOk metric r.compiled ff c.nRemove c.vals then
        throw s!"crowding values recorded for front {k} ({fr.length} points, n_remove={c.nRemove}) differ from the model's metric"
    | none => pure ()
    if nr > 0 then
      match sorts[sUsed]? with
      | none => throw "pre: no recorded argsort for a front that does not fit"
      | some s =>
        if !s.desc then throw "argsort of the split front is not descending"
        if !sortOk s then throw "pre: argsort result violates its contract (permutation, monotone)"
        if s.a.length != fr.length then throw "pre: argsort called on an array of the wrong length"
        -- the array that was sorted must be the crowding values of this front
        if (s.a.map Float.toBits) != (c.vals.map Float.toBits) then
          throw "the array sorted for the split front is not the crowding of that front"
        sortedFronts := sortedFronts.push (s.idx.map fun j => fr.getD j 0)
        sUsed := sUsed + 1
    k := k + 1
  let surv : List Nat := []
  let ranks := (List.range m).filterMap fun i => (rankOf nds.fronts i).map fun k => (i, k)
  return (surv, ranks, nds.fronts.length, sUsed)

def survRun (r : SurvRec) : Except String (List Nat × List Int) := do
  let nS := min r.nSurvive r.n
  let rankArr (ranks : List (Nat × Nat)) (sub : List Nat) : List Int :=
    (List.range r.n).map fun i =>
      match sub.idxOf? i with
      | none => -1
      | some p => match ranks.find? (fun q => q.1 == p) with
        | some q => Int.ofNat q.2
        | none => -1
  if r.n == 0 then return ([], [])
  if r.cls == "rnc" then
    if r.constr then
      match r.splits with
      | [(feas, infeas)] =>
        if !splitOk r.feasFlag r.cv feas infeas then throw "pre: split_by_feasibility result violates its contract"
        if feas.isEmpty then
          if !r.nds.isEmpty then throw "NDS called although no individual is feasible"
          return (survivalDo r.n r.nSurvive true feas infeas [], (List.range r.n).map fun _ => -1)
        match r.nds with
        | [nds] =>
          let (_, ranks, cu, su) ← rncInner r feas (min feas.length nS) nds r.crowd r.sorts
          if cu != r.crowd.length || su != r.sorts.length then throw "more crowding / argsort calls than the model makes"
          let paired := sortedOf nds r.crowd r.sorts (min feas.length nS)
          return (survivalDo r.n r.nSurvive true feas infeas paired, rankArr ranks feas)
        | _ => throw "pre: expected exactly one NDS call"
      | _ => throw "pre: expected exactly one split_by_feasibility call"
    else
      if !r.splits.isEmpty then throw "split_by_feasibility called on an unconstrained problem"
      match r.nds with
      | [nds] =>
        let all := List.range r.n
        let (_, ranks, cu, su) ← rncInner r all nS nds r.crowd r.sorts
        if cu != r.crowd.length || su != r.sorts.length then throw "more crowding / argsort calls than the model makes"
        let paired := sortedOf nds r.crowd r.sorts nS
        return (survivalDo r.n r.nSurvive false [] [] paired, rankArr ranks all)
      | _ => throw "pre: expected exactly one NDS call"
  else if r.cls == "constr" then
    if !r.constr then
      -- unconstrained branch: delegates to the internal RankAndCrowding
      if !r.splits.isEmpty then throw "split_by_feasibility called on an unconstrained problem"
      match r.nds with
      | [nds] =>
        let all := List.range r.n
        let (_, ranks, cu, su) ← rncInner r all nS nds r.crowd r.sorts
        if cu != r.crowd.length || su != r.sorts.length then throw "more crowding / argsort calls than the model makes"
        let paired := sortedOf nds r.crowd r.sorts nS
        return (constrSurvival r.n r.nSurvive false [] [] paired [], rankArr ranks all)
      | _ => throw "pre: expected exactly one NDS call"
    else
      match r.splits with
      | (feas, infeas) :: moreSplits =>
        if !splitOk r.feasFlag r.cv feas infeas then throw "pre: split_by_feasibility result violates its contract"
        let nFeasKeep := min feas.length nS
        -- feasible part
        let (inner, ranks, ndsRest, crowdRest, sortsRest, paired) ←
          if feas.isEmpty then
            pure (([] : List Nat), ([] : List (Nat × Nat)), r.nds, r.crowd, r.sorts, ([] : List (List Nat × List Nat)))
          else
            match moreSplits, r.nds with
            | [(f2, i2)], nds :: ndsRest =>
              if f2 != List.range feas.length || !i2.isEmpty then
                throw "inner split_by_feasibility of the feasible sub-population is not (all, none)"
              let (_, ranks, cu, su) ← rncInner r feas nFeasKeep nds r.crowd r.sorts
              let paired := sortedOf nds r.crowd r.sorts nFeasKeep
              pure (frontLoop nFeasKeep paired [], ranks, ndsRest, r.crowd.drop cu, r.sorts.drop su, paired)
            | _, _ => throw "pre: expected the inner split and NDS calls of the feasible part"
        if !crowdRest.isEmpty then throw "more crowding calls than the model makes"
        let room := nS - inner.length
        if room == 0 then
          if !ndsRest.isEmpty || !sortsRest.isEmpty then throw "infeasible individuals ranked although no place is left"
          return (constrSurvival r.n r.nSurvive true feas infeas paired [], rankArr ranks feas)
        match ndsRest with
        | [cn] =>
          let c := infeas.map fun i => violationVec (r.g.getD i []) (r.h.getD i [])
          if cn.m != infeas.length then throw s!"violation-space NDS called on {cn.m} points, model hands {infeas.length}"
          if !sameMatrix cn.f c then throw "violation-space NDS was called on a matrix that is not [max(G,0), |H|] of the infeasible individuals"
          if cn.nStop != room then throw s!"violation-space NDS called with n_stop_if_ranked={cn.nStop}, model expects {room}"
          if !isFrontsb (domOn c) infeas.length room cn.fronts then
            throw "pre: violation-space NDS result violates the IsFronts contract on [max(G,0), |H|]"
          -- sorted orders for the fronts that do not fit
          let mut have_ := 0
          let mut sUsed := 0
          let mut cs : Array (List Nat × List Nat) := #[]
          for fr in cn.fronts do
            if have_ + fr.length > room then
              match sortsRest[sUsed]? with
              | none => throw "pre: no recorded argsort for an infeasible front that does not fit"
              | some s =>
                if s.desc then throw "infeasible front is not cut by ascending CV"
                if !sortOk s then throw "pre: argsort result violates its contract"
                let cvs := fr.map fun j => r.cv.getD (infeas.getD j 0) 0.0
                if (s.a.map Float.toBits) != (cvs.map Float.toBits) then
                  throw "the array sorted for the infeasible split front is not the CV of that front"
                cs := cs.push (fr, s.idx.map fun j => fr.getD j 0)
                sUsed := sUsed + 1
                have_ := room
            else
              cs := cs.push (fr, fr)
              have_ := have_ + fr.length
          if sUsed != sortsRest.length then throw "more argsort calls than the model makes"
          return (constrSurvival r.n r.nSurvive true feas infeas paired cs.toList, rankArr ranks feas)
        | _ => throw "pre: expected exactly one violation-space NDS call"
      | [] => throw "pre: expected a split_by_feasibility call"
  else throw s!"unknown survival class {r.cls}"
where
  /-- every front paired with its crowding-sorted order (the front itself when it fits) -/
  sortedOf (nds : NdsCall) (_crowd : List CrowdCall) (sorts : List SortCall) (nS : Nat) :
      List (List Nat × List Nat) := Id.run do
    let nrem := nRemoveSeq nS nds.fronts 0
    let mut out : Array (List Nat × List Nat) := #[]
    let mut k := 0
    for (fr, nr) in List.zip nds.fronts nrem do
      if nr > 0 then
        match sorts[k]? with
        | some s => out := out.push (fr, s.idx.map fun j => fr.getD j 0)
        | none => out := out.push (fr, fr)
        k := k + 1
      else out := out.push (fr, fr)
    return out.toList

def compSurv : P String := do
  let r ← parseSurv
  match survRun r with
  | .error e => return s!"err {e}"
  | .ok (surv, ranks) => return s!"ok {listOut toString surv} {listOut toString ranks}"

end Pymoode.Drv
