import PymoodeModel.Mutation
import PymoodeModel.Crossover
import PymoodeModel.Selection
import PymoodeModel.Drv.Repair
namespace Pymoode.Drv
open Pymoode Pymoode.Proto

/-- scale factor configuration as the harness sends it -/
inductive FCfg where
  | none                    -- F=None -> DEM default (0, 1)
  | scalar (f : Float)
  | range (lo hi : Float)

def parseF : P FCfg := do
  let t ← tok
  match t with
  | "none" => return .none
  | "scalar" => return .scalar (← flt)
  | "range" => return .range (← flt) (← flt)
  | _ => fail s!"bad F config {t}"

def nth {β : Type} [Inhabited β] (xs : List β) (i : Nat) : β := xs.getD i default

/-- `DEM.de_mutation`: X is `(n_parents, n_matings, n_var)` -/
def demMutation (f : FCfg) (gamma : Option Float) (x : List (List (List Float))) :
    EvM (List (List Float) × List (List Float)) := do
  let nPar := x.length
  let x0 := nth x 0
  let nMat := x0.length
  let nVar := (nth x0 0).length
  let mut terms : Array (List (List (DiffTerm Float))) := #[]   -- per pair: matrix of terms
  for (i, j) in pairs nPar do
    let fs ← match f with
      | .scalar v => pure (List.replicate nMat v)
      | .none => do
          let rs ← takeRandom nMat "dithered scale factor"
          pure (rs.map (scaleDither 0.0 1.0))
      | .range lo hi => do
          let rs ← takeRandom nMat "dithered scale factor"
          pure (rs.map (scaleDither lo hi))
    let js ← match gamma with
      | Option.none => pure (List.replicate nMat (List.replicate nVar (Option.none : Option (Float × Float))))
      | some g => do
          let rs ← takeRandom (nMat * nVar) "jitter"
          pure ((chunks nVar rs).map fun row => row.map fun r => some (g, r))
    let xi := nth x i
    let xj := nth x j
    let m := (List.range nMat).map fun a =>
      (List.range nVar).map fun b =>
        ({ F := nth fs a, jit := nth (nth js a) b, xi := nth (nth xi a) b, xj := nth (nth xj a) b } : DiffTerm Float)
    terms := terms.push m
  let tl := terms.toList
  let termsAt (a b : Nat) : List (DiffTerm Float) := tl.map fun m => nth (nth m a) b
  let v := (List.range nMat).map fun a => (List.range nVar).map fun b => mutant (nth (nth x0 a) b) (termsAt a b)
  let d := (List.range nMat).map fun a => (List.range nVar).map fun b => sumDiffs (termsAt a b)
  return (v, d)

/-- `DifferentialMutation.do`: mutation, then repair against the bounds with `X[0]` as reference -/
def demDo (f : FCfg) (gamma : Option Float) (rep : Option (RepairKind × List Float × List Float))
    (x : List (List (List Float))) : EvM (List (List Float)) := do
  let (v, _) ← demMutation f gamma x
  match rep with
  | Option.none => return v
  | some (s, xl, xu) => repairMatrix s xl xu (nth x 0) v

def takeRandomScalar (what : String) : EvM Float := do
  let e ← nextEvent what
  if e.name != "random" || e.args != [-1] || e.fvals.length != 1 then
    throw s!"model expects a scalar random() for {what}, log has {e.name}{e.args}"
  return nth e.fvals 0

/-- `row_at_least_once_true` -/
def atLeastOnce (d : Nat) (m : List (List Bool)) : EvM (List (List Bool)) :=
  m.mapM fun row => do
    if row.any id then return row
    else
      let k ← takeRandint 0 (Int.ofNat d) Option.none "forced crossover coordinate"
      return forceOne row (nth k 0)

def crossMask (variant : String) (nMat nVar : Nat) (cr : Float) (alo : Bool) : EvM (List (List Bool)) := do
  let m ← match variant with
    | "bin" => do
        let rs ← takeRandom (nMat * nVar) "binomial crossover"
        pure ((chunks nVar rs).map (binRow cr))
    | "exp" => do
        let s ← takeRandint 0 (Int.ofNat nVar) (some nMat) "exponential crossover start"
        let mut rows : Array (List Bool) := #[]
        for i in [0:nMat] do
          -- draw while the loop of cross_exp would draw
          let mut rs : Array Float := #[]
          let mut go := true
          for _ in [0:nVar] do
            if go then
              let r ← takeRandomScalar "exponential crossover continuation"
              rs := rs.push r
              if !(r < cr) then go := false
          rows := rows.push (expRow cr nVar (nth s i) rs.toList)
        pure rows.toList
    | v => throw s!"unknown crossover variant {v}"
  if nMat * nVar == 0 then return m
  if alo then atLeastOnce nVar m else return m

def dexDo (variant : String) (cr : Float) (alo : Bool) (xt v : List (List Float)) :
    EvM (List (List Bool) × List (List Float)) := do
  let nMat := xt.length
  let nVar := (nth xt 0).length
  let m ← crossMask variant nMat nVar cr alo
  let u := (List.range nMat).map fun a => trialRow (nth m a) (nth xt a) (nth v a)
  return (m, u)

def parseSel (s : String) : Except String SelKind :=
  match s with
  | "rand" => .ok .rand
  | "best" => .ok .best
  | "current-to-best" => .ok .currentToBest
  | "current-to-rand" => .ok .currentToRand
  | "rand-to-best" => .ok .randToBest
  | "ranked" => .ok .ranked
  | _ => .error s!"unknown selection {s}"

/-- number of random columns a selection variant fills -/
def nRandCols (k : SelKind) (nPar : Nat) : Nat :=
  match k with
  | .rand | .ranked => nPar
  | .best | .randToBest => nPar - 1
  | .currentToBest => nPar - 3
  | .currentToRand => nPar - 2

/-- checks that the log is a sequence of `choice(n_pop, size)` events of the sizes the
`while np.any(reselect)` loops ask for, and hands the raw vectors to the pure model -/
def desDo (kind : SelKind) (ranks : List Int) (nPop nSel nPar : Nat) : EvM (List (List Nat)) := do
  if nSel != nPop && (kind == .currentToBest || kind == .currentToRand) then
    throw "current-to-* selection needs n_select = n_pop"
  if (kind == .currentToBest || kind == .currentToRand) && nPar < 3 then
    throw "current-to-* selection needs at least 3 parents"
  let rank (i : Nat) : Nat := match ranks[i]? with
    | some r => if r < 0 then i else r.toNat
    | Option.none => i
  -- collect the choice vectors the model will consume, validating their call signatures
  let all ← get
  let vecs ← all.mapM fun (e : Event) => do
    if e.name != "choice" then throw s!"selection: unexpected draw {e.name}{e.args}"
    match e.args with
    | [a, sz] =>
      if a != Int.ofNat nPop then throw s!"selection draws choice({a}, ..) but the population has {nPop} members"
      if sz != Int.ofNat e.ivals.length then throw "choice size/result mismatch"
      pure (e.ivals.map Int.toNat)
    | _ => throw "bad choice event"
  match select kind rank nSel nPar vecs with
  | Option.none => throw "selection: recorded draws end before the re-selection loop does"
  | some (rows, rest) =>
    -- the consumed prefix must have exactly the sizes the loops ask for: re-run with size checks
    let used := vecs.length - rest.length
    set (all.drop used)
    -- first vector of each column has n_sel entries; re-draw vectors have `flagged` entries:
    -- validated by re-running column by column
    let sizesOk := checkSizes kind nSel nPar (vecs.take used)
    if !sizesOk then throw "selection: a choice() call has a size the re-selection loop would not ask for"
    return rows
where
  checkSizes (kind : SelKind) (nSel nPar : Nat) (vecs : List (List Nat)) : Bool := Id.run do
    let idx := List.range nSel
    let mut rows : List (List Nat) := match kind with
      | .rand | .ranked => idx.map fun _ => []
      | .best | .randToBest => idx.map fun _ => [0]
      | .currentToBest => idx.map fun i => [i, 0, i]
      | .currentToRand => idx.map fun i => [i]
    let mut vs := vecs
    let mut ok := true
    for c in [0:nRandCols kind nPar] do
      if kind == .currentToRand && c == 1 then
        rows := List.zipWith (fun r i => r ++ [i]) rows idx
      match vs with
      | [] => ok := false
      | e :: es =>
        if e.length != nSel then ok := false
        let tp := List.zip idx rows
        let mut col := e
        let mut rest := es
        let mut fuel := es.length + 1
        while !(noRe tp col) && fuel > 0 do
          fuel := fuel - 1
          match rest with
          | [] => ok := false; fuel := 0
          | r :: rs =>
            if r.length != flagged tp col then ok := false
            col := redraw tp col r
            rest := rs
        rows := addCol rows col
        vs := rest
    return ok && vs.isEmpty

/-! ### components -/

def parseOptF : P (Option Float) := optOf flt

def parseTensor : P (List (List (List Float))) := do
  let a ← nat
  let b ← nat
  let c ← nat
  rep a (rep b (rep c flt))

def parseRep : P (Except String (Option (RepairKind × List Float × List Float))) := do
  let t ← tok
  if t == "nobounds" then return .ok Option.none
  let xl ← listOf flt
  let xu ← listOf flt
  match parseRepairKind t with
  | .ok s => return .ok (some (s, xl, xu))
  | .error e => return .error e

def runEv {β : Type} (m : EvM β) (evs : List Event) (out : β → String) : String :=
  match (m >>= fun r => do endOfLog; pure r).run evs with
  | .error e => s!"err {e}"
  | .ok (r, _) => s!"ok {out r}"

/-- `dem <F> <gamma> <repair|nobounds xl xu> <X tensor> <mode> DRAWS…` -/
def compDem : P String := do
  let f ← parseF
  let g ← parseOptF
  let rep ← parseRep
  let x ← parseTensor
  let mode ← tok      -- "do" | "mutation"
  let evs ← events
  match rep with
  | .error e => return s!"err {e}"
  | .ok rep =>
    let nMat := (nth x 0).length
    let nVar := (nth (nth x 0) 0).length
    if mode == "mutation" then
      return runEv (demMutation f g x) evs fun (v, d) => s!"{matOut fOut nMat nVar v} {matOut fOut nMat nVar d}"
    else
      return runEv (demDo f g rep x) evs fun v => matOut fOut nMat nVar v

/-- `dex <variant> <CR> <alo> <Xt> <V> DRAWS…` -/
def compDex : P String := do
  let variant ← tok
  let cr ← flt
  let alo ← bool
  let xt ← matOf flt
  let v ← matOf flt
  let evs ← events
  let nMat := xt.length
  let nVar := (nth xt 0).length
  return runEv (dexDo variant cr alo xt v) evs fun (m, u) =>
    s!"{matOut bOut nMat nVar m} {matOut fOut nMat nVar u}"

/-- `mask <variant> <nMat> <nVar> <CR> <alo> DRAWS…` -/
def compMask : P String := do
  let variant ← tok
  let nMat ← nat
  let nVar ← nat
  let cr ← flt
  let alo ← bool
  let evs ← events
  return runEv (crossMask variant nMat nVar cr alo) evs fun m => matOut bOut nMat nVar m

/-- `des <kind> <nPop> <nSel> <nPar> <ranks> DRAWS…` -/
def compDes : P String := do
  let kind ← tok
  let nPop ← nat
  let nSel ← nat
  let nPar ← nat
  let ranks ← listOf int
  let evs ← events
  match parseSel kind with
  | .error e => return s!"err {e}"
  | .ok k =>
    return runEv (desDo k ranks nPop nSel nPar) evs fun rows => matOut toString nSel nPar rows

/-- whole `DifferentialVariant._do` pipeline:
`variant <sel> <y> <cross> <CR> <F> <gamma> <repair…> <ranks> <popX> DRAWS…` -/
def compVariant : P String := do
  let sel ← tok
  let y ← nat
  let cross ← tok
  let cr ← flt
  let f ← parseF
  let g ← parseOptF
  let rep ← parseRep
  let ranks ← listOf int
  let px ← matOf flt
  let evs ← events
  match parseSel sel, rep with
  | .error e, _ => return s!"err {e}"
  | _, .error e => return s!"err {e}"
  | .ok k, .ok rep =>
    let n := px.length
    let nVar := (nth px 0).length
    let nPar := nParents k y
    let m : EvM (List (List Nat) × List (List Float) × List (List Float)) := do
      let p ← desDoPrefix k ranks n nPar
      let x := (List.range nPar).map fun c => p.map fun row => nth px (nth row c)
      let v ← demDo f g rep x
      let (_, u) ← dexDo cross cr true px v
      return (p, v, u)
    return runEv m evs fun (p, v, u) =>
      s!"{matOut toString n nPar p} {matOut fOut n nVar v} {matOut fOut n nVar u}"
where
  /-- like `desDo`, but the log continues after the selection: consume only the leading choice events -/
  desDoPrefix (k : SelKind) (ranks : List Int) (n nPar : Nat) : EvM (List (List Nat)) := do
    let all ← get
    let lead := all.takeWhile fun e => e.name == "choice"
    let tail := all.drop lead.length
    set lead
    let p ← desDo k ranks n n nPar
    let left ← get
    if !left.isEmpty then throw "selection: more choice() calls than the re-selection loops ask for"
    set tail
    return p

end Pymoode.Drv
