import PymoodeModel.Replacement
import PymoodeModel.Drv.Common
namespace Pymoode.Drv
open Pymoode Pymoode.Proto

def parseInds (idBase : Nat) : P (List (Ind1 Float)) := do
  let x ← matOf flt
  let f ← listOf flt
  let cv ← listOf flt
  let feas ← listOf bool
  return (List.range x.length).map fun i =>
    { id := idBase + i, x := x.getD i [], f := f.getD i 0.0, cv := cv.getD i 0.0, feas := feas.getD i false }

/-- `repl <constr> <pop: X F CV feas> <off: X F CV feas>` → mask, ids in result order -/
def compRepl : P String := do
  let constr ← bool
  let pop ← parseInds 0
  let off ← parseInds 100000
  if pop.length != off.length then return "err pop and off differ in length"
  let m := replaceMask constr pop off
  let r := replaceStep constr pop off
  let ids := r.map fun (i : Ind1 Float) => if i.id ≥ 100000 then pop.length + (i.id - 100000) else i.id
  return s!"ok {listOut bOut m} {listOut toString ids}"

/-- `fitsort <pop>` (the `off is None` path: fitness assignment only) -/
def compFitsort : P String := do
  let pop ← parseInds 0
  let r := fitnessSort pop
  return s!"ok {listOut (fun (i : Ind1 Float) => toString i.id) r}"

end Pymoode.Drv
