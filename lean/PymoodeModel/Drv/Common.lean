/-
Draw plumbing: how the recorded `numpy.random` events of one call are handed to the
pure model functions. Not part of any theorem; validated by the correspondence run.
-/
import PymoodeModel.Proto
namespace Pymoode.Drv
open Pymoode.Proto

abbrev EvM := StateT (List Event) (Except String)

def nextEvent (what : String) : EvM Event := do
  match (← get) with
  | [] => throw s!"draw log exhausted: model expects {what}"
  | e :: es => set es; return e

/-- the model expects `np.random.random(size)` with `n` values in total -/
def takeRandom (n : Nat) (what : String) : EvM (List Float) := do
  let e ← nextEvent what
  if e.name != "random" then throw s!"model expects random({n}) for {what}, log has {e.name}{e.args}"
  if e.fvals.length != n then throw s!"model expects random of {n} values for {what}, log has {e.fvals.length}"
  return e.fvals

/-- the model expects `np.random.choice(a, size)` -/
def takeChoice (a size : Nat) (what : String) : EvM (List Nat) := do
  let e ← nextEvent what
  if e.name != "choice" then throw s!"model expects choice({a},{size}) for {what}, log has {e.name}{e.args}"
  if e.args != [Int.ofNat a, Int.ofNat size] then
    throw s!"model expects choice({a},{size}) for {what}, log has choice{e.args}"
  if e.ivals.length != size then throw s!"choice result length {e.ivals.length} != {size}"
  return e.ivals.map Int.toNat

/-- the model expects `np.random.randint(low, high, size)`; `size = none` is a scalar draw -/
def takeRandint (low high : Int) (size : Option Nat) (what : String) : EvM (List Nat) := do
  let e ← nextEvent what
  if e.name != "randint" then throw s!"model expects randint({low},{high}) for {what}, log has {e.name}{e.args}"
  let sz : Int := match size with | none => -1 | some k => Int.ofNat k
  if e.args != [low, high, sz] then
    throw s!"model expects randint({low},{high},{sz}) for {what}, log has randint{e.args}"
  return e.ivals.map Int.toNat

def endOfLog : EvM Unit := do
  match (← get) with
  | [] => return ()
  | e :: _ => throw s!"draw log has an event the model does not consume: {e.name}{e.args}"

/-- give the next value of `vals` to every position where `mask` is true, `dflt` elsewhere -/
def scatter {β : Type} (mask : List Bool) (vals : List β) (dflt : β) : List β :=
  match mask, vals with
  | [], _ => []
  | true :: ms, v :: vs => v :: scatter ms vs dflt
  | true :: ms, [] => dflt :: scatter ms [] dflt
  | false :: ms, vs => dflt :: scatter ms vs dflt

def countTrue (mask : List Bool) : Nat := (mask.filter id).length

def chunks {β : Type} (k : Nat) (xs : List β) : List (List β) :=
  if h : k = 0 ∨ xs = [] then [] else
    have : (xs.drop k).length < xs.length := by
      have hk : 0 < k := by omega
      have hx : 0 < xs.length := by
        cases xs with
        | nil => simp at h
        | cons _ _ => simp
      simp [List.length_drop]; omega
    xs.take k :: chunks k (xs.drop k)
termination_by xs.length

end Pymoode.Drv
