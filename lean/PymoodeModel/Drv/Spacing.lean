import PymoodeModel.Spacing
import PymoodeModel.Drv.Common
namespace Pymoode.Drv
open Pymoode Pymoode.Proto

/-- `spacing <metric> <zero_to_one> <ideal?> <nadir?> <pf?> <F>` -/
def compSpacing : P String := do
  let metric ← tok
  let z ← bool
  let ideal ← optOf (listOf flt)
  let nadir ← optOf (listOf flt)
  let pf ← optOf (matOf flt)
  let f ← matOf flt
  -- derive_ideal_and_nadir_from_pf
  let ideal := match ideal, pf with
    | some i, _ => some i
    | none, some p => some (colFold minOf p)
    | none, none => none
  let nadir := match nadir, pf with
    | some i, _ => some i
    | none, some p => some (colFold maxOf p)
    | none, none => none
  let pts ← if z then
      match ideal, nadir with
      | some i, some n => pure (f.map (normPoint i n))
      | _, _ => return "err zero_to_one without ideal/nadir"
    else pure f
  let dist : List Float → List Float → Float := match metric with
    | "cityblock" => cityblock
    | "chebyshev" => chebyshev
    | "euclidean" => fun a b => Float.sqrt (sqEuclid a b)
    | _ => cityblock
  if metric != "cityblock" && metric != "chebyshev" && metric != "euclidean" then
    return s!"err unknown metric {metric}"
  let d := nnDists dist pts
  if d.any Option.isNone then return "err fewer than two points"
  let dv := d.filterMap id
  let s := spacing Float.sqrt (Float.ofNat pts.length) dv
  return s!"ok {fOut s} {listOut fOut dv}"

/-- `spnn <F>`: the compiled helper `calc_spacing_distances` = row-wise nearest cityblock neighbour -/
def compSpnn : P String := do
  let f ← matOf flt
  let d := nnDists cityblock f
  if d.any Option.isNone then return "err fewer than two points"
  return s!"ok {listOut fOut (d.filterMap id)}"

end Pymoode.Drv
