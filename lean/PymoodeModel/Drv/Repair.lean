import PymoodeModel.Repair
import PymoodeModel.Drv.Common
namespace Pymoode.Drv
open Pymoode Pymoode.Proto

def parseRepairKind (s : String) : Except String RepairKind :=
  match s with
  | "bounce-back" => .ok .bounceBack
  | "midway" => .ok .midway
  | "rand-init" => .ok .randInit
  | "to-bounds" => .ok .toBounds
  | _ => .error s!"unknown repair '{s}'"

def usesDraws : RepairKind → Bool
  | .bounceBack | .randInit => true
  | _ => false

/-- Plumbing for `repair(X, Xb, xl, xu)`: the lower-violation pass draws
`random(len(i))` for the entries with `X < XL` in row-major order (only when there is
one), then the upper-violation pass does the same on the updated matrix. -/
def repairMatrix (s : RepairKind) (xl xu : List Float) (xb v : List (List Float)) :
    EvM (List (List Float)) := do
  let d := xl.length
  let flat (m : List (List Float)) := m.flatten
  let xlF := (v.map fun _ => xl).flatten
  let xuF := (v.map fun _ => xu).flatten
  let xbF := flat xb
  let vF := flat v
  let lowMask := List.zipWith (fun a b => decide (a < b)) vF xlF
  let nLow := countTrue lowMask
  let rl ← if usesDraws s && nLow > 0 then takeRandom nLow "lower-bound repair" else pure []
  let rlF := scatter lowMask rl 0.0
  -- coordinates after the first pass
  let mk (xl xu xb v rl ru : Float) : RCoord Float := { xl, xu, xb, v, rl, ru }
  let cs1 := List.zipWith (fun (p : (Float × Float) × (Float × Float)) rl =>
      mk p.1.1 p.1.2 p.2.1 p.2.2 rl 0.0)
    (List.zip (List.zip xlF xuF) (List.zip xbF vF)) rlF
  let v1 := cs1.map (lowPass s)
  let upMask := List.zipWith (fun a b => decide (a < b)) xuF v1
  let nUp := countTrue upMask
  let ru ← if usesDraws s && nUp > 0 then takeRandom nUp "upper-bound repair" else pure []
  let ruF := scatter upMask ru 0.0
  let cs := List.zipWith (fun (c : RCoord Float) ru => { c with ru := ru }) cs1 ruF
  return chunks d (repairAll s cs)

def compRepair : P String := do
  let kind ← tok
  let xl ← listOf flt
  let xu ← listOf flt
  let xb ← matOf flt
  let v ← matOf flt
  let evs ← events
  match parseRepairKind kind with
  | .error e => return s!"err {e}"
  | .ok s =>
    match ((repairMatrix s xl xu xb v) >>= fun r => do endOfLog; pure r).run evs with
    | .error e => return s!"err {e}"
    | .ok (r, _) => return s!"ok {matOut fOut v.length xl.length r}"

end Pymoode.Drv
