import PymoodeModel.Algo
import PymoodeModel.Drv.Surv
import PymoodeModel.Drv.Repl
namespace Pymoode.Drv
open Pymoode Pymoode.Proto

def parseIndM : P (List (IndM Float)) := do
  let ids ← listOf nat
  let f ← matOf flt
  let cv ← listOf flt
  let feas ← listOf bool
  return (List.range ids.length).map fun i =>
    { id := ids.getD i 0, f := f.getD i [], cv := cv.getD i 0.0, feas := feas.getD i false }

def sameRow (a b : List Float) : Bool := a.length == b.length && (List.zip a b).all fun (u, v) => u == v

/-- one generation: `gen <algo> <popSize> POP … RANKS … OFF … (SURV <surv record> | DE <constr> popX offX | ORACLE ids…) ` -/
def compGen : P String := do
  let algo ← tok
  let popSize ← nat
  kw "POP"
  let pop ← parseIndM
  kw "OFF"
  let off ← parseIndM
  let mode ← tok
  if mode == "DE" then
    let constr ← bool
    let px ← matOf flt
    let ox ← matOf flt
    let mk (l : List (IndM Float)) (x : List (List Float)) : List (Ind1 Float) :=
      (List.range l.length).map fun i =>
        let m := l.getD i default
        { id := m.id, x := x.getD i [], f := m.f.getD 0 0.0, cv := m.cv, feas := m.feas }
    let isInit := algo.startsWith "init-"
    if !isInit && pop.length != off.length then return "err DE: pop and infills differ in length"
    -- first generation: `survival.do(problem, infills, None)` is the fitness assignment alone
    let newPop := if isInit then fitnessSort (mk off ox) else replaceStep constr (mk pop px) (mk off ox)
    let asM := newPop.map fun (i : Ind1 Float) => ({ id := i.id, f := [i.f], cv := i.cv, feas := i.feas } : IndM Float)
    -- FitnessSurvival: rank = position
    let rk (id : Nat) : Option Nat := (newPop.findIdx? fun (i : Ind1 Float) => i.id == id)
    let opt := setOptimum asM rk
    let ids := newPop.map fun (i : Ind1 Float) => i.id
    return s!"ok {listOut toString ((pop ++ off).map (·.id))} {listOut toString ids} {listOut (fun (i : IndM Float) => toString i.id) opt}"
  -- first generation (`_initialize_advance`): the sampled population alone is handed to the survival
  let cand := if algo.startsWith "init-" then off
              else if algo == "gde3" then gde3Candidates pop off else mergeCandidates pop off
  if mode == "ORACLE" then
    -- NSDE-R: the reference-direction survival is an oracle; its contract is checked here
    let surv ← listOf nat
    let optIds ← listOf nat
    let candIds := cand.map (·.id)
    let nS := min popSize cand.length
    if surv.length != nS then return s!"err oracle survival returned {surv.length} members, contract says {nS}"
    if !surv.all (candIds.contains ·) then return "err oracle survival returned a non-candidate"
    if !(decide surv.Nodup) then return "err oracle survival returned a member twice"
    let newPop := surv.filterMap fun id => cand.find? (·.id == id)
    -- `survival.opt` is an oracle too: first-front niche representatives of the (feasible) candidates
    let optInds := cand.filter (fun i => optIds.contains i.id)
    if newPop.any (·.feas) then
      if optInds.length != optIds.length then return "err oracle optimum contains a non-candidate"
      if !optInds.all (·.feas) then return "err oracle optimum contains an infeasible candidate"
      if optInds.any (fun o => cand.any fun c => c.feas && dominates c.f o.f) then
        return "err oracle optimum contains a candidate dominated by a feasible candidate"
    let opt := if newPop.any (·.feas) then optInds else (argminCv newPop).toList
    return s!"ok {listOut toString candIds} {listOut toString surv} {listOut (fun (i : IndM Float) => toString i.id) opt}"
  if mode != "SURV" then return s!"err unknown mode {mode}"
  let r ← parseSurv
  -- the survival operator must have been handed exactly the model's candidates, in order
  if r.n != cand.length then
    return s!"err survival was handed {r.n} candidates, the model's candidate list has {cand.length}"
  if r.nSurvive != popSize then
    return s!"err survival was asked for n_survive={r.nSurvive}, model expects {popSize}"
  let okAttrs := (List.range cand.length).all fun i =>
    let c := cand.getD i default
    sameRow (r.f.getD i []) c.f && (r.cv.getD i 0.0 == c.cv) && (r.feasFlag.getD i false == c.feas)
  if !okAttrs then return "err survival was handed individuals that are not the model's candidates"
  match survRun r with
  | .error e => return s!"err {e}"
  | .ok (surv, ranks) =>
    let newPop := pick cand surv
    let rk (id : Nat) : Option Nat :=
      match cand.findIdx? (·.id == id) with
      | none => none
      | some p => match ranks.getD p (-1) with
        | Int.ofNat k => some k
        | _ => none
    let opt := setOptimum newPop rk
    return s!"ok {listOut toString (cand.map (·.id))} {listOut toString (newPop.map (·.id))} {listOut (fun (i : IndM Float) => toString i.id) opt}"

end Pymoode.Drv
