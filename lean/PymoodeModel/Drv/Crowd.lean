import PymoodeModel.Metrics.Diversity
import PymoodeModel.Drv.Common
namespace Pymoode.Drv
open Pymoode Pymoode.Proto

def parseMetric (s : String) : Except String Metric :=
  match s with
  | "cd" => .ok .cd
  | "pcd" => .ok .pcd
  | "pruning-cd" => .ok .pcd
  | "callable-cd" => .ok .cd
  | "instance-cd" => .ok .cd
  | "ce" => .ok .ce
  | "mnn" => .ok .mnn
  | "2nn" => .ok .twonn
  | _ => .error s!"unknown metric {s}"

def hasDistanceTies (f : List (List Float)) (nObj : Nat) : Bool :=
  let xs := normalizeCols f nObj
  let n := xs.length
  (List.range n).any fun i =>
    let row := (List.range n).filter (· != i) |>.map fun j =>
      if i < j then sqDist (xs.getD i []) (xs.getD j []) else sqDist (xs.getD j []) (xs.getD i [])
    let s := row.mergeSort fun a b => !(b < a)
    let rec dup : List Float → Bool
      | a :: b :: r => a == b || dup (b :: r)
      | _ => false
    dup s

/-- `crowd <label> <compiled 0/1> <wrapped 0/1> <n_remove> <F>` -/
def compCrowd : P String := do
  let label ← tok
  let compiled ← bool
  let wrapped ← bool
  let nRemove ← int
  let f ← matOf flt
  match parseMetric label with
  | .error e => return s!"err {e}"
  | .ok metric =>
    let nObj := match f with | [] => 0 | r :: _ => r.length
    let neg (x : Float) : Float := -x
    let (d, errs) :=
      if wrapped then crowding Float.log2 neg metric compiled f nObj (Float.ofNat nObj) nRemove
      else rawMetric Float.log2 neg metric compiled f nObj (Float.ofNat nObj) nRemove
    let ties := (metric == .mnn || metric == .twonn) && hasDistanceTies f nObj
    let sites := errs.toList.map fun (e : Oob) => (e.site.replace " " "_") ++ s!"@{e.i},{e.j}"
    return s!"ok {listOut (fun (x : Ext Float) => fOut x.toFloat) d} {bOut ties} {sites.length} {String.intercalate " " sites}"

end Pymoode.Drv

namespace Pymoode.Drv
open Pymoode Pymoode.Proto

def crowdOne (label : String) (metric : Metric) (compiled wrapped : Bool) (nRemove : Int) (f : List (List Float)) : String :=
  let nObj := match f with | [] => 0 | r :: _ => r.length
  let neg (x : Float) : Float := -x
  let (d, errs) :=
    if wrapped then
      if label == "callable-cd" then
        -- a user callable is wrapped with duplicate filtering
        crowdingCallable (fun sub => rawMetric Float.log2 neg .cd compiled sub nObj (Float.ofNat nObj) nRemove) f nObj
      else crowding Float.log2 neg metric compiled f nObj (Float.ofNat nObj) nRemove
    else rawMetric Float.log2 neg metric compiled f nObj (Float.ofNat nObj) nRemove
  let sites := errs.toList.map fun (e : Oob) => (e.site.replace " " "_") ++ s!"@{e.i},{e.j}"
  s!"{listOut (fun (x : Ext Float) => fOut x.toFloat) d} {sites.length} {String.intercalate " " sites}"

/-- executable `MaxOnce` (hypothesis of `C13.pcd_first_pass_safe_partial`) for every objective -/
def maxOnceAll (f : List (List Float)) (nObj : Nat) : Bool :=
  (List.range nObj).all fun m =>
    let col := column f m
    let mx := col.getD (argmaxFirst col) 0.0
    (col.filter fun x => !(x < mx)).length ≤ 1

/-- `crowd3 <label> <n_remove> <F>` → compiled raw | fallback raw | wrapped compiled | wrapped fallback -/
def compCrowd3 : P String := do
  let label ← tok
  let nRemove ← int
  let f ← matOf flt
  match parseMetric label with
  | .error e => return s!"err {e}"
  | .ok metric =>
    let nObj := match f with | [] => 0 | r :: _ => r.length
    let ties := (metric == .mnn || metric == .twonn) && hasDistanceTies f nObj
    -- theorem/interpreter consistency: under MaxOnce the first pass must stay in range
    if metric == .pcd && nRemove ≤ 1 && maxOnceAll f nObj then
      let (_, errs) := rawMetric Float.log2 (fun x => -x) .pcd true f nObj (Float.ofNat nObj) nRemove
      if !errs.isEmpty then
        return "err kernel interpreter reports an out-of-bounds access although every maximum is attained once (contradicts C13.pcd_first_pass_safe_partial)"
    return s!"ok {bOut ties} | {crowdOne label metric true false nRemove f} | {crowdOne label metric false false nRemove f} | {crowdOne label metric true true nRemove f} | {crowdOne label metric false true nRemove f}"

end Pymoode.Drv
