import PymoodeModel.Metrics.Diversity
import PymoodeModel.Metrics.KernelF
import PymoodeModel.Metrics.KernelM
import PymoodeModel.Drv.Common
namespace Pymoode.Drv
open Pymoode Pymoode.Proto

def parseMetric (s : String) : Except String Metric :=
  match s with
  | "cd" => .ok .cd
  | "pcd" => .ok .pcd
  | "pruning-cd" => .ok .pcd
  | "callable-cd" => .ok .cd
  | "instance-cd" => .ok .cd
  | "ce" => .ok .ce
  | "mnn" => .ok .mnn
  | "2nn" => .ok .twonn
  | _ => .error s!"unknown metric {s}"

def hasDistanceTies (f : List (List Float)) (nObj : Nat) : Bool :=
  let xs := normalizeCols f nObj
  let n := xs.length
  (List.range n).any fun i =>
    let row := (List.range n).filter (· != i) |>.map fun j =>
      if i < j then sqDist (xs.getD i []) (xs.getD j []) else sqDist (xs.getD j []) (xs.getD i [])
    let s := row.mergeSort fun a b => !(b < a)
    let rec dup : List Float → Bool
      | a :: b :: r => a == b || dup (b :: r)
      | _ => false
    dup s

/-- `crowd <label> <compiled 0/1> <wrapped 0/1> <n_remove> <F>` -/
def compCrowd : P String := do
  let label ← tok
  let compiled ← bool
  let wrapped ← bool
  let nRemove ← int
  let f ← matOf flt
  match parseMetric label with
  | .error e => return s!"err {e}"
  | .ok metric =>
    let nObj := match f with | [] => 0 | r :: _ => r.length
    let neg (x : Float) : Float := -x
    let (d, errs) :=
      if wrapped then crowding Float.log2 neg metric compiled f nObj (Float.ofNat nObj) nRemove
      else rawMetric Float.log2 neg metric compiled f nObj (Float.ofNat nObj) nRemove
    let ties := (metric == .mnn || metric == .twonn) && hasDistanceTies f nObj
    let sites := errs.toList.map fun (e : Oob) => (e.site.replace " " "_") ++ s!"@{e.i},{e.j}"
    return s!"ok {listOut (fun (x : Ext Float) => fOut x.toFloat) d} {bOut ties} {sites.length} {String.intercalate " " sites}"

end Pymoode.Drv

namespace Pymoode.Drv
open Pymoode Pymoode.Proto

def crowdOne (label : String) (metric : Metric) (compiled wrapped : Bool) (nRemove : Int) (f : List (List Float)) : String :=
  let nObj := match f with | [] => 0 | r :: _ => r.length
  let neg (x : Float) : Float := -x
  let (d, errs) :=
    if wrapped then
      if label == "callable-cd" then
        -- a user callable is wrapped with duplicate filtering
        crowdingCallable (fun sub => rawMetric Float.log2 neg .cd compiled sub nObj (Float.ofNat nObj) nRemove) f nObj
      else crowding Float.log2 neg metric compiled f nObj (Float.ofNat nObj) nRemove
    else rawMetric Float.log2 neg metric compiled f nObj (Float.ofNat nObj) nRemove
  let sites := errs.toList.map fun (e : Oob) => (e.site.replace " " "_") ++ s!"@{e.i},{e.j}"
  s!"{listOut (fun (x : Ext Float) => fOut x.toFloat) d} {sites.length} {String.intercalate " " sites}"

/-- executable `MaxOnce` (hypothesis of `C13.pcd_first_pass_safe_partial`) for every objective -/
def maxOnceAll (f : List (List Float)) (nObj : Nat) : Bool :=
  (List.range nObj).all fun m =>
    let col := column f m
    let mx := col.getD (argmaxFirst col) 0.0
    (col.filter fun x => !(x < mx)).length ≤ 1

/-- executable hypotheses of `C13.pcdKernelF_safe`: rectangular front, every maximum attained once,
and no more removals than there are non-extreme points -/
def pcdSafeHyp (f : List (List Float)) (nObj : Nat) (nRemove : Int) : Bool :=
  let n := f.length
  let ex := extremesFirst f nObj
  let nonEx := ((List.range n).filter fun i => !ex.contains i).length
  f.all (fun r => r.length == nObj) && maxOnceAll f nObj &&
    decide ((clampRemove nRemove n nObj - 1).toNat ≤ nonEx)

/-- executable `C13.NoTies` (hypothesis of `C13.mnnKernelF_refines`): in every row of the distance matrix, the point's own
zero included, no two entries are equal -/
def noTiesHyp (f : List (List Float)) (nObj : Nat) : Bool :=
  let xs := normalizeCols f nObj
  let n := f.length
  (List.range n).all fun i =>
    let row := (List.range n).map fun j => dmAt xs i j
    let s := row.mergeSort fun a b => !(b < a)
    let rec dup : List Float → Bool
      | a :: b :: r => !(a < b) || dup (b :: r)
      | _ => false
    !dup s

/-- `crowd3 <label> <n_remove> <F>` → compiled raw | fallback raw | wrapped compiled | wrapped fallback -/
def compCrowd3 : P String := do
  let label ← tok
  let nRemove ← int
  let f ← matOf flt
  match parseMetric label with
  | .error e => return s!"err {e}"
  | .ok metric =>
    let nObj := match f with | [] => 0 | r :: _ => r.length
    let ties := (metric == .mnn || metric == .twonn) && hasDistanceTies f nObj
    -- theorem/interpreter consistency: under MaxOnce the first pass must stay in range
    if metric == .pcd && nRemove ≤ 1 && maxOnceAll f nObj then
      let (_, errs) := rawMetric Float.log2 (fun x => -x) .pcd true f nObj (Float.ofNat nObj) nRemove
      if !errs.isEmpty then
        return "err kernel interpreter reports an out-of-bounds access although every maximum is attained once (contradicts C13.pcd_first_pass_safe_partial)"
    -- the functional kernel (the one the theorems of C13d are about) against the array interpreter:
    -- same values bit for bit, and `ok` exactly when no out-of-bounds access was logged
    if metric == .pcd then
      let (dI, errs) := pcdKernel f nObj (Float.ofNat nObj) nRemove
      let (dF, okF) := pcdKernelF f nObj (Float.ofNat nObj) nRemove
      if okF != errs.isEmpty then
        return s!"err functional pcd kernel ok={okF} but the interpreter logged {errs.size} out-of-bounds accesses"
      if okF && (dF.map fun (x : Ext Float) => x.toFloat.toBits) != (dI.map fun (x : Ext Float) => x.toFloat.toBits) then
        return "err functional pcd kernel and array interpreter disagree on the crowding values"
      -- hypotheses of C13.pcdKernelF_safe ⇒ ok
      if pcdSafeHyp f nObj nRemove && !okF then
        return "err functional pcd kernel leaves its arrays although MaxOnce and the removal budget hold (contradicts C13.pcdKernelF_safe)"
    -- the functional mnn / 2nn kernel (C13h.mnnKernelF_safe) against the array interpreter: same values bit for bit;
    -- the only out-of-bounds access the interpreter may log is the F4 site mnn.pyx:207, and `ok` must hold
    if metric == .mnn || metric == .twonn then
      let tw := metric == .twonn
      let (dI, errs) := mnnKernel f nObj nRemove tw
      let (dF, okF) := mnnKernelF f nObj nRemove tw
      let other := errs.toList.filter fun (e : Oob) => !(e.site.startsWith "mnn.pyx:207")
      if (dF.map fun (x : Ext Float) => x.toFloat.toBits) != (dI.map fun (x : Ext Float) => x.toFloat.toBits) then
        return "err functional mnn kernel and array interpreter disagree on the crowding values"
      if okF != other.isEmpty then
        return s!"err functional mnn kernel ok={okF} but the interpreter logged {other.length} out-of-bounds accesses besides mnn.pyx:207"
      if (2 ≤ nObj || !tw) && !okF then
        return "err functional mnn kernel uses an unassigned neighbour slot (contradicts C13.mnnKernelF_safe)"
      -- hypotheses of C13.mnnKernelF_refines ⇒ the kernel returns the definition's values
      if (2 ≤ nObj || !tw) && f.all (fun r => r.length == nObj) && noTiesHyp f nObj then
        let dD := mnnFallback f nObj nRemove tw
        if (dF.map fun (x : Ext Float) => x.toFloat.toBits) != (dD.map fun (x : Ext Float) => x.toFloat.toBits) then
          return "err functional mnn kernel differs from the definition although no distance row has ties (contradicts C13.mnnKernelF_refines)"
    return s!"ok {bOut ties} | {crowdOne label metric true false nRemove f} | {crowdOne label metric false false nRemove f} | {crowdOne label metric true true nRemove f} | {crowdOne label metric false true nRemove f}"

end Pymoode.Drv
