/-
Pareto / constraint domination as pymoo computes it, and the contract of the
non-dominated-sorting oracle (`IsFronts`), decidable so that the driver evaluates it on every
recorded NDS result and the theorems take it as a hypothesis.
-/
namespace Pymoode

section
variable {α : Type} [LT α] [DecidableLT α]

/-- `np.any(a < b)` over paired coordinates -/
def anyLt : List α → List α → Bool
  | a :: as, b :: bs => decide (a < b) || anyLt as bs
  | _, _ => false

/-- `a` Pareto-dominates `b` (pymoo `calc_domination_matrix`: somewhere smaller, nowhere larger) -/
def dominates (a b : List α) : Bool := anyLt a b && !anyLt b a

/-- `pymoo.util.dominator.get_relation(parent, off)`: CV first, then Pareto. `1` = first wins. -/
def getRelation (cva cvb : α) (a b : List α) : Int :=
  if cva < cvb then 1
  else if cvb < cva then -1
  else if anyLt a b then (if anyLt b a then 0 else 1)
  else (if anyLt b a then -1 else 0)

end

/-- members of the fronts before front `k` -/
def earlier (fronts : List (List Nat)) (k : Nat) : List Nat := (fronts.take k).flatten

/-- front `k` is exactly the set of not-yet-ranked points all of whose dominators are ranked earlier -/
def FrontOK (dom : Nat → Nat → Bool) (m : Nat) (fronts : List (List Nat)) (k : Nat) : Prop :=
  ∀ i, i < m → (i ∈ fronts.getD k [] ↔
    (i ∉ earlier fronts k ∧ ∀ j, j < m → dom j i = true → j ∈ earlier fronts k))

/-- Contract of `NonDominatedSorting.do(F, n_stop_if_ranked = nStop)` on `m` points. -/
structure IsFronts (dom : Nat → Nat → Bool) (m nStop : Nat) (fronts : List (List Nat)) : Prop where
  valid : ∀ f, f ∈ fronts → ∀ i, i ∈ f → i < m
  nodup : ∀ f, f ∈ fronts → f.Nodup
  nonempty : ∀ f, f ∈ fronts → f ≠ []
  peel : ∀ k, k < fronts.length → FrontOK dom m fronts k
  stop : fronts.flatten.length = m ∨
         (nStop ≤ fronts.flatten.length ∧ (fronts.dropLast).flatten.length < nStop)

/-- executable version of the contract (used by the driver on recorded NDS results) -/
def frontOKb (dom : Nat → Nat → Bool) (m : Nat) (fronts : List (List Nat)) (k : Nat) : Bool :=
  (List.range m).all fun i =>
    let e := earlier fronts k
    decide (i ∈ fronts.getD k []) ==
      (!(e.contains i) && (List.range m).all fun j => !(dom j i) || e.contains j)

def isFrontsb (dom : Nat → Nat → Bool) (m nStop : Nat) (fronts : List (List Nat)) : Bool :=
  fronts.all (fun f => f.all (· < m)) &&
  fronts.all (fun f => decide f.Nodup) &&
  fronts.all (fun f => !f.isEmpty) &&
  (List.range fronts.length).all (frontOKb dom m fronts) &&
  (fronts.flatten.length == m ||
    (decide (nStop ≤ fronts.flatten.length) && decide ((fronts.dropLast).flatten.length < nStop)))

end Pymoode
