/-
Model of `ImprovementReplacement` + `FitnessSurvival` (`pymoode/survival/replacement.py`,
`fitness.py`): one-to-one replacement of single-objective DE, then the fitness sort.
-/
namespace Pymoode

/-- what the replacement reads of an individual -/
structure Ind1 (α : Type) where
  id   : Nat
  x    : List α
  f    : α
  cv   : α
  feas : Bool
  deriving Repr, Inhabited

section
variable {α : Type} [LT α] [DecidableLT α] [BEq α]

/-- `ImprovementReplacement._do`: the three feasibility cases with strict `<`
(`constr = problem.has_constraints()`) -/
def improves (constr : Bool) (p o : Ind1 α) : Bool :=
  if constr then
    (!p.feas && !o.feas && decide (o.cv < p.cv)) || (!p.feas && o.feas) ||
    (p.feas && o.feas && decide (o.f < p.f))
  else decide (o.f < p.f)

def sameX (a b : List α) : Bool := a == b

/-- `DefaultDuplicateElimination(epsilon=0).do(off, pop)`: offspring `o` (with the offspring
before it, `earlierOff`) is a duplicate if an earlier offspring or a current member has the same X -/
def isDuplicate (pop earlierOff : List (Ind1 α)) (o : Ind1 α) : Bool :=
  earlierOff.any (fun e => sameX e.x o.x) || pop.any (fun p => sameX p.x o.x)

/-- replacement mask, slot by slot -/
def replaceMaskAux (constr : Bool) (pop : List (Ind1 α)) :
    List (Ind1 α) → List (Ind1 α) → List (Ind1 α) → List Bool
  | p :: ps, o :: os, seen =>
      (improves constr p o && !isDuplicate pop seen o) :: replaceMaskAux constr pop ps os (seen ++ [o])
  | _, _, _ => []

def replaceMask (constr : Bool) (pop off : List (Ind1 α)) : List Bool :=
  replaceMaskAux constr pop pop off []

/-- `pop[I] = off[I]` on a copy -/
def slotChoice : List Bool → List (Ind1 α) → List (Ind1 α) → List (Ind1 α)
  | m :: ms, p :: ps, o :: os => (if m then o else p) :: slotChoice ms ps os
  | _, _, _ => []

/-- `np.lexsort([F, cv])` order: by cv, then by F -/
def lexLeB (a b : Ind1 α) : Bool :=
  decide (a.cv < b.cv) || (!decide (b.cv < a.cv) && !decide (b.f < a.f))

/-- `FitnessSurvival._do`: stable sort; the `rank` attribute is the position in the result -/
def fitnessSort (pop : List (Ind1 α)) : List (Ind1 α) := pop.mergeSort lexLeB

/-- one DE generation: `ImprovementReplacement.do(problem, pop, off)` -/
def replaceStep (constr : Bool) (pop off : List (Ind1 α)) : List (Ind1 α) :=
  fitnessSort (slotChoice (replaceMask constr pop off) pop off)

end
end Pymoode
