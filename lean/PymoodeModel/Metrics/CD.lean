/-
`calc_crowding_distance` and `calc_crowding_entropy` (NumPy, one shot).
-/
import PymoodeModel.Metrics.Basic
namespace Pymoode

section
variable {α : Type} [Add α] [Sub α] [Mul α] [Div α] [LT α] [DecidableLT α] [OfNat α 0] [Inhabited α]

/-- contribution of one objective to the crowding distance, by *sorted position*:
`dist_to_last/norm + dist_to_next/norm`, `+inf` at both ends; a constant objective
(`norm == 0 → nan → 0`) contributes `0` everywhere -/
def cdSorted (s : List α) : List (Ext α) :=
  match s.head?, s.getLast? with
  | some lo, some hi =>
    if lo < hi then
      let norm := hi - lo
      (List.range s.length).map fun p =>
        if p = 0 ∨ p + 1 = s.length then Ext.top
        else Ext.fin ((s.getD p default - s.getD (p - 1) default) / norm +
                      (s.getD (p + 1) default - s.getD p default) / norm)
    else s.map fun _ => Ext.fin 0
  | _, _ => []

/-- the same, re-ordered from sorted position back to the points (`J = argsort(I)`) -/
def cdObj (col : List α) : List (Ext α) :=
  let order := argsortStable col
  let contrib := cdSorted (order.map fun i => col.getD i default)
  (List.range col.length).map fun i => contrib.getD (order.idxOf i) (Ext.fin 0)

/-- row-wise sum over the objectives, left to right (`np.sum(axis=1)`, fewer than 8 columns) -/
def sumExt (rows : List (List (Ext α))) (n : Nat) : List (Ext α) :=
  (List.range n).map fun i => rows.foldl (fun acc r => Ext.add acc (r.getD i (Ext.fin 0))) (Ext.fin 0)

/-- `calc_crowding_distance(F)`: `nObj` is `n_obj` as a scalar -/
def crowdingDistance (f : List (List α)) (nObjNat : Nat) (nObj : α) : List (Ext α) :=
  let cols := (List.range nObjNat).map fun m => cdObj (column f m)
  (sumExt cols f.length).map (Ext.mapFin (· / nObj))

/-- crowding entropy, by sorted position. `log2` is a parameter (`Float.log2` in the driver). -/
def ceSorted (log2 : α → α) (neg : α → α) (s : List α) : List (Ext α) :=
  match s.head?, s.getLast? with
  | some lo, some hi =>
    if lo < hi then
      let norm := hi - lo
      (List.range s.length).map fun p =>
        if p = 0 ∨ p + 1 = s.length then Ext.top
        else
          let dl := s.getD p default - s.getD (p - 1) default
          let du := s.getD (p + 1) default - s.getD p default
          let cd := dl + du
          -- `0 * log2(0)` and `0/0` are NaN in NumPy and the NaN is replaced by 0
          if (0 : α) < dl ∧ (0 : α) < du then
            let pl := dl / cd
            let pu := du / cd
            Ext.fin (cd * neg (pl * log2 pl + pu * log2 pu) / norm)
          else Ext.fin 0
    else s.map fun _ => Ext.fin 0
  | _, _ => []

def ceObj (log2 : α → α) (neg : α → α) (col : List α) : List (Ext α) :=
  let order := argsortStable col
  let contrib := ceSorted log2 neg (order.map fun i => col.getD i default)
  (List.range col.length).map fun i => contrib.getD (order.idxOf i) (Ext.fin 0)

def crowdingEntropy (log2 : α → α) (neg : α → α) (f : List (List α)) (nObjNat : Nat) : List (Ext α) :=
  sumExt ((List.range nObjNat).map fun m => ceObj log2 neg (column f m)) f.length

end
end Pymoode
