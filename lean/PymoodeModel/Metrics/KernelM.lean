/-
The compiled mnn / 2nn kernel `pymoode/cython/mnn.pyx` as a *pure functional program* (the companion of
`KernelF.lean` for pcd): the nearest-neighbour table `Mnn` (an unassigned slot `-1` is `none`), the removal of
the pruned point from every live row with the left shift, the re-insertion loop of `c_calc_mnn_iter`, the
products of `c_calc_d`. `ok` is cleared when an unassigned slot is used as a column index of `D`
(`D[i, Mnn[i, m]]` with `Mnn[i, m] == -1`) at mnn.pyx:224 or mnn.pyx:243. The read at mnn.pyx:207,
`D[i, Mnn[i, M-1]]` evaluated before `or (Mnn[i, M-1] == -1)`, is known finding F4: its value is never used, and
the model evaluates the condition as `Mnn[i, M-1] == -1 ∨ D[i, j] ≤ D[i, Mnn[i, M-1]]`.
`PymoodeProofs/C13h.lean` proves `ok = true` for every front and every number of removals.
The driver runs this model and the array interpreter `mnnKernel` on every record and requires equal values and
`ok ⇔ no access logged other than the F4 site`.
-/
import PymoodeModel.Metrics.Kernel
namespace Pymoode

section
variable {α : Type} [Add α] [Sub α] [Mul α] [Div α] [LT α] [DecidableLT α] [OfNat α 0] [OfNat α 1]
  [Inhabited α]

/-- `D[i, j]`: squared distance of the normalised rows (filled for `i < j` and mirrored) -/
def dmAt (xs : List (List α)) (i j : Nat) : α :=
  if i = j then 0 else
    let a := if i < j then xs.getD i [] else xs.getD j []
    let b := if i < j then xs.getD j [] else xs.getD i []
    sqDist a b

/-- `c_get_calc_items` on one row: `for m in range(M): if Mnn[i, m] == k: Mnn[i, m:-1] = Mnn[i, m+1:]; Mnn[i, M-1] = -1`.
Returns the row and whether `k` was found. -/
def mnnRowRemove (k : Nat) : Nat → Nat → List (Option Nat) → Bool → List (Option Nat) × Bool
  | 0, _, row, hit => (row, hit)
  | fuel + 1, m, row, hit =>
    if row.getD m none = some k then
      mnnRowRemove k fuel (m + 1) ((row.take m ++ row.drop (m + 1)) ++ [none]) true
    else mnnRowRemove k fuel (m + 1) row hit

/-- inner loop of `c_calc_mnn_iter` over `m` for one candidate `j`; `ok` is cleared never here: the comparison
`D[i, j] <= D[i, Mnn[i, m]]` is only reached with `Mnn[i, m] != -1` -/
def mnnInsertAt (dist : Nat → α) (j : Nat) : Nat → Nat → List (Option Nat) → List (Option Nat)
  | 0, _, row => row
  | fuel + 1, m, row =>
    match row.getD m none with
    | none => row.set m (some j)
    | some cur =>
      if cur = j then row
      else if !(dist cur < dist j) then
        -- Mnn[i, m + 1:] = Mnn[i, m:-1] ; Mnn[i, m] = j
        (row.take m ++ [some j]) ++ (row.drop m).dropLast
      else mnnInsertAt dist j fuel (m + 1) row

/-- one candidate `j` for row `i` (`dist c = D[i, c]`) -/
def mnnInsertStep (dist : Nat → α) (i j : Nat) (row : List (Option Nat)) : List (Option Nat) :=
  if j = i then row
  else
    let enter := match row.getLast?.getD none with
      | none => true
      | some last => !(dist last < dist j)
    if enter then mnnInsertAt dist j row.length 0 row else row

/-- `c_calc_mnn_iter` for one row: all live candidates in ascending order -/
def mnnRefill (dist : Nat → α) (i : Nat) (h : List Nat) (row : List (Option Nat)) : List (Option Nat) :=
  h.foldl (fun r j => mnnInsertStep dist i j r) row

/-- `c_calc_d` for one row: the product and whether every slot was assigned -/
def mnnProd (dist : Nat → α) (row : List (Option Nat)) : α × Bool :=
  row.foldl (fun acc nb => match nb with
    | some c => (acc.1 * dist c, acc.2)
    | none => (acc.1, false)) (1, true)

structure MnnState (α : Type) where
  mnn : List (List (Option Nat))
  d : List (Ext α)
  h : List Nat
  ok : Bool

/-- one pass of the `while` loop -/
def mnnStepF (xs : List (List α)) (extremes : List Nat) (st : MnnState α) : MnnState α :=
  let k := (dropLast st.d st.h).getD 0
  let h' := st.h.filter (· != k)
  -- c_get_calc_items: every live row that lists k
  let upd := h'.foldl (fun (acc : List (List (Option Nat)) × List Nat) i =>
      let row := acc.1.getD i []
      let r := mnnRowRemove k row.length 0 row false
      if r.2 then (acc.1.set i r.1, insertSorted i acc.2) else acc) (st.mnn, [])
  let items := upd.2.filter fun i => !extremes.contains i
  -- c_calc_mnn_iter
  let mnn' := items.foldl (fun t i => t.set i (mnnRefill (dmAt xs i) i h' (t.getD i []))) upd.1
  -- c_calc_d
  let res := items.foldl (fun (acc : List (Ext α) × Bool) i =>
      let p := mnnProd (dmAt xs i) (mnn'.getD i [])
      (acc.1.set i (Ext.fin p.1), acc.2 && p.2)) (st.d, st.ok)
  { mnn := mnn', d := res.1, h := h', ok := res.2 }

def mnnLoopF (xs : List (List α)) (extremes : List Nat) : Nat → MnnState α → MnnState α
  | 0, st => st
  | fuel + 1, st => mnnLoopF xs extremes fuel (mnnStepF xs extremes st)

/-- state on entry to the loop; `mNb` = number of neighbours (`M`, or 2 for 2nn) -/
def mnnInitF (f : List (List α)) (nObj mNb : Nat) : MnnState α :=
  let n := f.length
  let extremes := extremesFirst f nObj
  let xs := normalizeCols f nObj
  -- np.argpartition(D, range(1, M+1), axis=1)[:, 1:M+1] (stable order on ties)
  let mnn : List (List (Option Nat)) := (List.range n).map fun i =>
    let row := (List.range n).map fun j => dmAt xs i j
    ((argsortStable row).drop 1).take mNb |>.map some
  let items := (List.range n).filter fun i => !extremes.contains i
  let res := items.foldl (fun (acc : List (Ext α) × Bool) i =>
      let p := mnnProd (dmAt xs i) (mnn.getD i [])
      (acc.1.set i (Ext.fin p.1), acc.2 && p.2)) (List.replicate n Ext.top, true)
  { mnn := mnn, d := res.1, h := List.range n, ok := res.2 }

/-- `calc_mnn(X, n_remove)` / `calc_2nn(X, n_remove)` of `mnn.pyx` -/
def mnnKernelF (f : List (List α)) (nObj : Nat) (nRemove : Int) (twonn : Bool) : List (Ext α) × Bool :=
  let n := f.length
  let nr := clampRemove nRemove n nObj
  let mNb := if twonn then 2 else nObj
  if n ≤ mNb then (f.map fun _ => Ext.top, true)
  else
    let st := mnnLoopF (normalizeCols f nObj) (extremesFirst f nObj) (nr - 1).toNat (mnnInitF f nObj mNb)
    (st.d, st.ok)

end
end Pymoode
