/-
The compiled pcd kernel `pymoode/cython/pruning_cd.pyx` once more, this time as a *pure functional
program* (structural recursion and folds over lists, no `while`, no state monad), so that theorems
can be stated about it: `PymoodeProofs/C13d.lean` proves that under the hypotheses whose negations are
the known findings F2 / F3 every index it computes is in range (`ok = true`) and its result equals the
published definition `pcdFallback` for any number of removals.

It is the same algorithm as the array interpreter `pcdKernel` of `Kernel.lean`, statement by
statement: the per-objective sorted index table `I` with its *stale tail* (`I[n:-1, m] = I[n+1:, m]`
leaves the last row in place), the scan `for n in range(N): if I[n, m] == k` that continues on the
column it has just shifted, the lazily updated gap matrix `D`, the `std::set` of items to recompute.
Instead of logging an out-of-bounds access it clears the flag `ok`. The driver runs both on every
record and requires equal values and `ok = (no access logged)`.
-/
import PymoodeModel.Metrics.Kernel
namespace Pymoode

section
variable {α : Type} [Add α] [Sub α] [Mul α] [Div α] [LT α] [DecidableLT α] [OfNat α 0] [OfNat α 1]
  [Inhabited α]

/-- `I[n:-1, m] = I[n+1:, m]` on one column: rows `n … N-2` take the values of rows `n+1 … N-1`,
the last row keeps its value -/
def shiftAt (col : List Nat) (n : Nat) : List Nat :=
  col.take n ++ (col.drop (n + 1) ++ col.drop (col.length - 1))

/-- entry `X[u, m]` -/
def xAt (x : List (List α)) (u m : Nat) : α := (x.getD u []).getD m default

/-- `c_calc_pcd_iter`, innermost loop for one point `i` and one objective `m`:
`for n in range(N): if i == I[n, m]: l = I[n-1, m]; u = I[n+1, m]; D[i, m] = (X[u, m] - X[l, m]) / M` -/
def pcdCell (x : List (List α)) (nObjS : α) (col : List Nat) (m i : Nat) (cur : Ext α × Bool) :
    Ext α × Bool :=
  (List.range col.length).foldl (fun acc n =>
    if col.getD n 0 = i then
      let l := col.getD (n - 1) 0
      let u := col.getD (n + 1) 0
      (Ext.fin ((xAt x u m - xAt x l m) / nObjS),
        acc.2 && decide (0 < n ∧ n + 1 < col.length ∧ l < x.length ∧ u < x.length))
    else acc) cur

/-- `c_calc_pcd_iter` for one point: all objectives -/
def pcdRow (x : List (List α)) (nObjS : α) (cols : List (List Nat)) (i : Nat)
    (cur : List (Ext α) × Bool) : List (Ext α) × Bool :=
  (List.range cols.length).foldl (fun acc m =>
    let r := pcdCell x nObjS (cols.getD m []) m i (acc.1.getD m Ext.top, acc.2)
    (acc.1.set m r.1, r.2)) cur

/-- `c_calc_pcd_iter`: all items to recompute -/
def pcdIter (x : List (List α)) (nObjS : α) (cols : List (List Nat)) (items : List Nat)
    (st : List (List (Ext α)) × Bool) : List (List (Ext α)) × Bool :=
  items.foldl (fun st i =>
    let r := pcdRow x nObjS cols i (st.1.getD i [], st.2)
    (st.1.set i r.1, r.2)) st

/-- `c_calc_d`: `d[i] = 0; for m: d[i] = d[i] + D[i, m]` -/
def pcdCalcD (dmat : List (List (Ext α))) (items : List Nat) (d : List (Ext α)) : List (Ext α) :=
  items.foldl (fun d i => d.set i ((dmat.getD i []).foldl Ext.add (Ext.fin 0))) d

/-- `c_get_calc_items` on one column: the scan over `n = 0 … N-1` with the in-place shift -/
def pcdScanCol (k : Nat) : Nat → Nat → List Nat → List Nat × Bool → List Nat × (List Nat × Bool)
  | 0, _, col, acc => (col, acc)
  | fuel + 1, n, col, acc =>
    if col.getD n 0 = k then
      pcdScanCol k fuel (n + 1) (shiftAt col n)
        (insertSorted (col.getD (n - 1) 0) (insertSorted (col.getD (n + 1) 0) acc.1),
          acc.2 && decide (0 < n ∧ n + 1 < col.length))
    else pcdScanCol k fuel (n + 1) col acc

/-- `c_get_calc_items(I, k, M, N)`: all columns; returns the updated table, the set of neighbours
(ascending, as `std::set` iterates) and the range flag -/
def pcdGetCalcItems (k : Nat) (cols : List (List Nat)) : List (List Nat) × (List Nat × Bool) :=
  cols.foldl (fun acc col =>
    let r := pcdScanCol k col.length 0 col acc.2
    (acc.1 ++ [r.1], r.2)) ([], ([], true))

structure PcdState (α : Type) where
  cols : List (List Nat)
  dmat : List (List (Ext α))
  d : List (Ext α)
  h : List Nat
  ok : Bool

/-- the `while n_removed < n_remove - 1` loop; `fuel` = `n_remove − 1` -/
def pcdLoopF (x : List (List α)) (nObjS : α) (extremes : List Nat) : Nat → PcdState α → PcdState α
  | 0, st => st
  | fuel + 1, st =>
    let k := (dropLast st.d st.h).getD 0
    let h' := st.h.filter (· != k)
    let r := pcdGetCalcItems k st.cols
    let items := r.2.1.filter fun i => !extremes.contains i
    let it := pcdIter x nObjS r.1 items (st.dmat, st.ok && r.2.2)
    let d' := pcdCalcD it.1 items st.d
    pcdLoopF x nObjS extremes fuel { cols := r.1, dmat := it.1, d := d', h := h', ok := it.2 }

/-- state of the kernel on entry to the `while` loop -/
def pcdInitF (f : List (List α)) (nObj : Nat) (nObjS : α) : PcdState α :=
  let n := f.length
  let extremes := extremesFirst f nObj
  let cols := (List.range nObj).map fun c => argsortStable (column f c)
  let x := normalizeCols f nObj
  let items := (List.range n).filter fun i => !extremes.contains i
  let it := pcdIter x nObjS cols items (List.replicate n (List.replicate nObj Ext.top), true)
  { cols := cols, dmat := it.1, d := pcdCalcD it.1 items (List.replicate n Ext.top),
    h := List.range n, ok := it.2 }

/-- `calc_pcd(X, n_remove)` of `pruning_cd.pyx`: crowding values and "every index was in range" -/
def pcdKernelF (f : List (List α)) (nObj : Nat) (nObjS : α) (nRemove : Int) : List (Ext α) × Bool :=
  let nr := clampRemove nRemove f.length nObj
  let st := pcdLoopF (normalizeCols f nObj) nObjS (extremesFirst f nObj) (nr - 1).toNat
    (pcdInitF f nObj nObjS)
  (st.d, st.ok)

end
end Pymoode
