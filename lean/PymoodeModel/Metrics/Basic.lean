/-
Crowding metrics of `pymoode/survival/rank_and_crowding/metrics.py`: values are finite scalars or
`+inf`; `Ext α` keeps the infinite sentinel out of the arithmetic so that no theorem depends on
IEEE infinities.
-/
namespace Pymoode

inductive Ext (α : Type) where
  | fin (a : α)
  | top
  deriving Repr, Inhabited, DecidableEq

namespace Ext
variable {α : Type}

def isTop : Ext α → Bool
  | top => true
  | fin _ => false

def add [Add α] : Ext α → Ext α → Ext α
  | fin a, fin b => fin (a + b)
  | _, _ => top

def mapFin (f : α → α) : Ext α → Ext α
  | fin a => fin (f a)
  | top => top

/-- `a < b` with `top` above everything finite (and not below itself) -/
def lt [LT α] [DecidableLT α] : Ext α → Ext α → Bool
  | fin a, fin b => decide (a < b)
  | fin _, top => true
  | top, _ => false

def toFloat : Ext Float → Float
  | fin a => a
  | top => 1.0 / 0.0

end Ext

section
variable {α : Type} [LT α] [DecidableLT α]

/-- `np.argsort(col, kind='mergesort')`: stable ascending argsort of a column -/
def argsortStable [Inhabited α] (col : List α) : List Nat :=
  (List.range col.length).mergeSort fun i j => !decide (col.getD j default < col.getD i default)

/-- first index of the minimum (`np.argmin`, `c_get_argmin`: strict `<`) -/
def argminFirst : List α → Nat
  | [] => 0
  | a :: t =>
    let rec go (best : α) (bi : Nat) (i : Nat) : List α → Nat
      | [] => bi
      | x :: xs => if x < best then go x i (i + 1) xs else go best bi (i + 1) xs
    go a 0 1 t

/-- first index of the maximum (`np.argmax`, `c_get_argmax`: strict `>`) -/
def argmaxFirst : List α → Nat
  | [] => 0
  | a :: t =>
    let rec go (best : α) (bi : Nat) (i : Nat) : List α → Nat
      | [] => bi
      | x :: xs => if best < x then go x i (i + 1) xs else go best bi (i + 1) xs
    go a 0 1 t

/-- last index of the maximum (the repaired pure-Python pcd) -/
def argmaxLast : List α → Nat
  | [] => 0
  | a :: t =>
    let rec go (best : α) (bi : Nat) (i : Nat) : List α → Nat
      | [] => bi
      | x :: xs => if x < best then go best bi (i + 1) xs else go x i (i + 1) xs
    go a 0 1 t

def column (f : List (List α)) [Inhabited α] (m : Nat) : List α := f.map fun r => r.getD m default

end
end Pymoode
