/-
`CrowdingDiversity.do` / `FunctionalDiversity` / `FuncionalDiversityMNN` wrappers of
`metrics.py`: short fronts, duplicate filtering, dispatch by label and engine.
-/
import PymoodeModel.Metrics.Kernel
namespace Pymoode

inductive Metric where
  | cd | pcd | ce | mnn | twonn
  deriving DecidableEq, Repr, Inhabited

section
variable {α : Type} [Add α] [Sub α] [Mul α] [Div α] [LT α] [DecidableLT α] [OfNat α 0] [OfNat α 1]
  [Inhabited α] [BEq α]

/-- `find_duplicates(F, epsilon=1e-32)`: a row equal to an earlier row -/
def isDupRow (f : List (List α)) (i : Nat) : Bool :=
  (List.range i).any fun j => f.getD j [] == f.getD i []

/-- the raw metric function on a (duplicate-free) front; `compiled` selects the engine for the
pruning metrics -/
def rawMetric (log2 neg : α → α) (metric : Metric) (compiled : Bool) (f : List (List α)) (nObj : Nat)
    (nObjS : α) (nRemove : Int) : List (Ext α) × Array Oob :=
  match metric with
  | .cd => (crowdingDistance f nObj nObjS, #[])
  | .ce => (crowdingEntropy log2 neg f nObj, #[])
  | .pcd => if compiled then pcdKernel f nObj nObjS nRemove else (pcdFallback f nObj nObjS nRemove, #[])
  | .mnn => if compiled then mnnKernel f nObj nRemove false else (mnnFallback f nObj nRemove false, #[])
  | .twonn => if compiled then mnnKernel f nObj nRemove true else (mnnFallback f nObj nRemove true, #[])

/-- `FunctionalDiversity._do` / `FuncionalDiversityMNN._do` around a raw metric function:
short fronts are all-infinite, duplicates (when filtered) get 0 and are hidden from the function -/
def crowdingWith (filter isMnn : Bool) (raw : List (List α) → List (Ext α) × Array Oob)
    (f : List (List α)) (nObj : Nat) : List (Ext α) × Array Oob :=
  let n := f.length
  if isMnn && n ≤ nObj then (f.map fun _ => Ext.top, #[])
  else if n ≤ 2 then (f.map fun _ => Ext.top, #[])
  else
    let uniq := (List.range n).filter fun i => !(filter && isDupRow f i)
    let sub := uniq.map fun i => f.getD i []
    let (dv, errs) := raw sub
    ((List.range n).map fun i =>
      match uniq.idxOf? i with
      | some p => dv.getD p (Ext.fin 0)
      | none => Ext.fin 0, errs)

/-- `get_crowding_function(label).do(F, n_remove)` for the five string labels
(`'pruning-cd'` is an alias of `'pcd'`) -/
def crowding (log2 neg : α → α) (metric : Metric) (compiled : Bool) (f : List (List α)) (nObj : Nat)
    (nObjS : α) (nRemove : Int) : List (Ext α) × Array Oob :=
  crowdingWith (metric != .cd) (metric == .mnn || metric == .twonn)
    (fun sub => rawMetric log2 neg metric compiled sub nObj nObjS nRemove) f nObj

/-- `get_crowding_function(fun)` for a user callable: wrapped with duplicate filtering -/
def crowdingCallable (raw : List (List α) → List (Ext α) × Array Oob) (f : List (List α)) (nObj : Nat) :
    List (Ext α) × Array Oob :=
  crowdingWith true false raw f nObj

end
end Pymoode
