/-
`CrowdingDiversity.do` / `FunctionalDiversity` / `FuncionalDiversityMNN` wrappers of
`metrics.py`: short fronts, duplicate filtering, dispatch by label and engine.
-/
import PymoodeModel.Metrics.Kernel
namespace Pymoode

inductive Metric where
  | cd | pcd | ce | mnn | twonn
  deriving DecidableEq, Repr, Inhabited

section
variable {α : Type} [Add α] [Sub α] [Mul α] [Div α] [LT α] [DecidableLT α] [OfNat α 0] [OfNat α 1]
  [Inhabited α] [BEq α]

/-- `find_duplicates(F, epsilon=1e-32)`: a row equal to an earlier row -/
def isDupRow (f : List (List α)) (i : Nat) : Bool :=
  (List.range i).any fun j => f.getD j [] == f.getD i []

/-- the raw metric function on a (duplicate-free) front; `compiled` selects the engine for the
pruning metrics -/
def rawMetric (log2 neg : α → α) (metric : Metric) (compiled : Bool) (f : List (List α)) (nObj : Nat)
    (nObjS : α) (nRemove : Int) : List (Ext α) × Array Oob :=
  match metric with
  | .cd => (crowdingDistance f nObj nObjS, #[])
  | .ce => (crowdingEntropy log2 neg f nObj, #[])
  | .pcd => if compiled then pcdKernel f nObj nObjS nRemove else (pcdFallback f nObj nObjS nRemove, #[])
  | .mnn => if compiled then mnnKernel f nObj nRemove false else (mnnFallback f nObj nRemove false, #[])
  | .twonn => if compiled then mnnKernel f nObj nRemove true else (mnnFallback f nObj nRemove true, #[])

/-- `get_crowding_function(label).do(F, n_remove)` -/
def crowding (log2 neg : α → α) (metric : Metric) (compiled : Bool) (f : List (List α)) (nObj : Nat)
    (nObjS : α) (nRemove : Int) : List (Ext α) × Array Oob :=
  let n := f.length
  let isMnn := metric == .mnn || metric == .twonn
  if isMnn && n ≤ nObj then (f.map fun _ => Ext.top, #[])
  else if n ≤ 2 then (f.map fun _ => Ext.top, #[])
  else
    let filter := metric != .cd
    let uniq := (List.range n).filter fun i => !(filter && isDupRow f i)
    let sub := uniq.map fun i => f.getD i []
    let (dv, errs) := rawMetric log2 neg metric compiled sub nObj nObjS nRemove
    ((List.range n).map fun i =>
      match uniq.idxOf? i with
      | some p => dv.getD p (Ext.fin 0)
      | none => Ext.fin 0, errs)

end
end Pymoode
