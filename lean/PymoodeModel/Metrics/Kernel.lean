/-
The compiled kernels `pymoode/cython/pruning_cd.pyx` and `pymoode/cython/mnn.pyx` transcribed
statement by statement over arrays with *checked* indexing: the modules are compiled with
`boundscheck=False, wraparound=False`, so `A[i, j]` is raw pointer arithmetic and is safe iff
`0 ≤ i < shape₀ ∧ 0 ≤ j < shape₁`. Every such read/write here goes through `rd`/`wr`, which log
the source site and the offending index instead of wrapping around. `std::set<int>` iterates in
ascending order; slices are clamped and slice assignment copies through a temporary.
-/
import PymoodeModel.Metrics.Prune
namespace Pymoode

/-- one out-of-bounds access: source site, row index, column index -/
structure Oob where
  site : String
  i : Int
  j : Int
  deriving Repr, Inhabited

abbrev KM := StateM (Array Oob)

def oob (site : String) (i j : Int) : KM Unit := modify (·.push { site, i, j })

section
variable {β : Type} [Inhabited β]

def rd (a : Array (Array β)) (i j : Int) (site : String) : KM β := do
  if i < 0 ∨ j < 0 then oob site i j; return default
  match a[i.toNat]? with
  | none => oob site i j; return default
  | some row => match row[j.toNat]? with
    | none => oob site i j; return default
    | some v => return v

def wr (a : Array (Array β)) (i j : Int) (v : β) (site : String) : KM (Array (Array β)) := do
  if i < 0 ∨ j < 0 then oob site i j; return a
  match a[i.toNat]? with
  | none => oob site i j; return a
  | some row =>
    if j.toNat < row.size then return a.set! i.toNat (row.set! j.toNat v)
    else oob site i j; return a

end

section
variable {α : Type} [Add α] [Sub α] [Mul α] [Div α] [LT α] [DecidableLT α] [OfNat α 0] [OfNat α 1]
  [Inhabited α]

/-- `c_get_drop(d, H)`: `min_d = HUGE_VAL; min_i = 0; for i in H: if d[i] <= min_d: …` -/
def cGetDrop (d : Array (Ext α)) (h : List Nat) : Nat := Id.run do
  let mut minD : Ext α := Ext.top
  let mut minI := 0
  for i in h do
    let di := d.getD i Ext.top
    if !Ext.lt minD di then
      minD := di
      minI := i
  return minI

def insertSorted (x : Nat) : List Nat → List Nat
  | [] => [x]
  | y :: ys => if x < y then x :: y :: ys else if x = y then y :: ys else y :: insertSorted x ys

/-- `calc_pcd` of `pruning_cd.pyx`. Returns the crowding array and the out-of-bounds accesses. -/
def pcdKernel (f : List (List α)) (nObj : Nat) (nObjS : α) (nRemove : Int) :
    List (Ext α) × Array Oob := Id.run do
  let n := f.length
  let m := nObj
  let nr := clampRemove nRemove n m
  let exMin := (List.range m).map fun c => argminFirst (column f c)
  let exMax := (List.range m).map fun c => argmaxFirst (column f c)
  let extremes := (exMin ++ exMax).foldl (fun s x => insertSorted x s) []
  -- `_I = np.argsort(X, axis=0, kind='mergesort')`, before the normalisation
  let orders := (List.range m).map fun c => argsortStable (column f c)
  let mut ia : Array (Array Int) := Array.ofFn (n := n) fun r =>
    Array.ofFn (n := m) fun c => Int.ofNat ((orders.getD c.val []).getD r.val 0)
  let x : Array (Array α) := (normalizeCols f m).toArray.map List.toArray
  let run : KM (List (Ext α)) := do
    let mut ia := ia
    let mut dmat : Array (Array (Ext α)) := Array.replicate n (Array.replicate m Ext.top)
    let mut d : Array (Ext α) := Array.replicate n Ext.top
    let mut calcItems := (List.range n).filter fun i => !extremes.contains i
    let mut h := List.range n
    let mut nRemoved : Int := 0
    let mut first := true
    let mut go := true
    let mut fuel := n + 2
    while go && fuel > 0 do
      fuel := fuel - 1
      if !first then
        if nRemoved < nr - 1 then
          let k := cGetDrop d h
          h := h.filter (· != k)
          nRemoved := nRemoved + 1
          -- c_get_calc_items(I, k, M, N)
          let mut items : List Nat := []
          for c in [0:m] do
            for r in [0:n] do
              let v ← rd ia r c "pruning_cd.pyx:186 I[n, m]"
              if v == Int.ofNat k then
                let lo ← rd ia ((r : Int) - 1) c "pruning_cd.pyx:189 I[n - 1, m]"
                let hi ← rd ia ((r : Int) + 1) c "pruning_cd.pyx:190 I[n + 1, m]"
                items := insertSorted lo.toNat (insertSorted hi.toNat items)
                -- I[n:-1, m] = I[n + 1:, m]  (through a temporary)
                let src := (List.range (n - 1 - r)).map fun t => (ia.getD (r + 1 + t) #[]).getD c 0
                let mut t := 0
                for v2 in src do
                  ia := ia.set! (r + t) ((ia.getD (r + t) #[]).set! c v2)
                  t := t + 1
          calcItems := items.filter fun i => !extremes.contains i
        else
          go := false
      first := false
      if go then
        -- c_calc_pcd_iter
        for i in calcItems do
          for c in [0:m] do
            for r in [0:n] do
              let v ← rd ia r c "pruning_cd.pyx:148 I[n, m]"
              if v == Int.ofNat i then
                let l ← rd ia ((r : Int) - 1) c "pruning_cd.pyx:152 I[n - 1, m]"
                let u ← rd ia ((r : Int) + 1) c "pruning_cd.pyx:153 I[n + 1, m]"
                let xu ← rd x u c "pruning_cd.pyx:155 X[u, m]"
                let xl ← rd x l c "pruning_cd.pyx:155 X[l, m]"
                dmat ← wr dmat i c (Ext.fin ((xu - xl) / nObjS)) "pruning_cd.pyx:155 D[i, m]"
        -- c_calc_d
        for i in calcItems do
          let mut s : Ext α := Ext.fin 0
          for c in [0:m] do
            let v ← rd dmat i c "pruning_cd.pyx:167 D[i, m]"
            s := Ext.add s v
          if i < d.size then d := d.set! i s else oob "pruning_cd.pyx:165 d[i]" i 0
    return d.toList
  let (r, errs) := run.run #[]
  return (r, errs)

/-- `calc_mnn` / `calc_2nn` of `mnn.pyx` (`twonn` ⇒ `M = 2` neighbours). -/
def mnnKernel (f : List (List α)) (nObj : Nat) (nRemove : Int) (twonn : Bool) :
    List (Ext α) × Array Oob := Id.run do
  let n := f.length
  let nr := clampRemove nRemove n nObj
  let exMin := (List.range nObj).map fun c => argminFirst (column f c)
  let exMax := (List.range nObj).map fun c => argmaxFirst (column f c)
  let extremes := (exMin ++ exMax).foldl (fun s x => insertSorted x s) []
  let xs := normalizeCols f nObj
  let m := if twonn then 2 else nObj
  if n ≤ m then return (f.map fun _ => Ext.top, #[])
  -- full distance matrix, `dij = dij + (X[j,mm] - X[i,mm]) * (X[j,mm] - X[i,mm])`
  let dm : Array (Array α) := Array.ofFn (n := n) fun i => Array.ofFn (n := n) fun j =>
    if i.val = j.val then 0 else
      let a := if i.val < j.val then xs.getD i.val [] else xs.getD j.val []
      let b := if i.val < j.val then xs.getD j.val [] else xs.getD i.val []
      sqDist a b
  -- `np.argpartition(D, range(1, M+1), axis=1)[:, 1:M+1]`: indices of the order statistics 1..M
  -- (tie order unspecified in NumPy: the model takes the stable order)
  let mut mnn : Array (Array Int) := Array.ofFn (n := n) fun i =>
    let row := (dm.getD i.val #[]).toList
    let order := argsortStable row
    ((order.drop 1).take m).map Int.ofNat |>.toArray
  let run : KM (List (Ext α)) := do
    let mut mnn := mnn
    let mut d : Array (Ext α) := Array.replicate n Ext.top
    let mut calcItems := (List.range n).filter fun i => !extremes.contains i
    let mut h := List.range n
    let mut nRemoved : Int := 0
    let mut first := true
    let mut go := true
    let mut fuel := n + 2
    while go && fuel > 0 do
      fuel := fuel - 1
      if !first then
        if nRemoved < nr - 1 then
          let k := cGetDrop d h
          h := h.filter (· != k)
          nRemoved := nRemoved + 1
          -- c_get_calc_items(Mnn, H, k, M)
          let mut items : List Nat := []
          for i in h do
            for c in [0:m] do
              let v ← rd mnn i c "mnn.pyx:262 Mnn[i, m]"
              if v == Int.ofNat k then
                -- Mnn[i, m:-1] = Mnn[i, m + 1:] ; Mnn[i, M-1] = -1
                let row := mnn.getD i #[]
                let src := (List.range (m - 1 - c)).map fun t => row.getD (c + 1 + t) 0
                let mut row' := row
                let mut t := 0
                for v2 in src do
                  row' := row'.set! (c + t) v2
                  t := t + 1
                row' := row'.set! (m - 1) (-1)
                mnn := mnn.set! i row'
                items := insertSorted i items
          calcItems := items.filter fun i => !extremes.contains i
          -- c_calc_mnn_iter
          for i in calcItems do
            for j in h do
              if j != i then
                let last ← rd mnn i ((m : Int) - 1) "mnn.pyx:207 Mnn[i, M-1]"
                let dij ← rd dm i j "mnn.pyx:207 D[i, j]"
                let dlast ← rd dm i last "mnn.pyx:207 D[i, Mnn[i, M-1]]"
                if !(dlast < dij) || last == -1 then
                  let mut c := 0
                  let mut brk := false
                  while c < m && !brk do
                    let cur ← rd mnn i c "mnn.pyx:213 Mnn[i, m]"
                    if cur == -1 then
                      mnn ← wr mnn i c (Int.ofNat j) "mnn.pyx:216 Mnn[i, m]"
                      brk := true
                    else if cur == Int.ofNat j then
                      brk := true
                    else
                      let dcur ← rd dm i cur "mnn.pyx:224 D[i, Mnn[i, m]]"
                      if !(dcur < dij) then
                        -- Mnn[i, m + 1:] = Mnn[i, m:-1] ; Mnn[i, m] = j
                        let row := mnn.getD i #[]
                        let src := (List.range (m - 1 - c)).map fun t => row.getD (c + t) 0
                        let mut row' := row
                        let mut t := 0
                        for v2 in src do
                          row' := row'.set! (c + 1 + t) v2
                          t := t + 1
                        row' := row'.set! c (Int.ofNat j)
                        mnn := mnn.set! i row'
                        brk := true
                    c := c + 1
        else
          go := false
      first := false
      if go then
        -- c_calc_d
        for i in calcItems do
          let mut p : α := 1
          for c in [0:m] do
            let nb ← rd mnn i c "mnn.pyx:243 Mnn[i, m]"
            let v ← rd dm i nb "mnn.pyx:243 D[i, Mnn[i, m]]"
            p := p * v
          if i < d.size then d := d.set! i (Ext.fin p) else oob "mnn.pyx:241 d[i]" i 0
    return d.toList
  let (r, errs) := run.run #[]
  return (r, errs)

end
end Pymoode
