/-
The pruning metrics `mnn`, `2nn`, `pcd` as the pure-Python engine computes them
(`pymoode/misc/mnn.py`, `pymoode/misc/pruning_cd.py`): crowding re-computed from scratch on the
live set after each removal. These functions are at the same time the *published definitions*
("remove the most crowded point, re-compute, repeat n_remove − 1 times").
-/
import PymoodeModel.Metrics.CD
namespace Pymoode

section
variable {α : Type} [Add α] [Sub α] [Mul α] [Div α] [LT α] [DecidableLT α] [OfNat α 0] [OfNat α 1]
  [Inhabited α]

/-- `n_remove` clamping shared by all pruning kernels (may become negative when `N < M`) -/
def clampRemove (nRemove : Int) (n m : Nat) : Int :=
  if nRemove ≤ (n : Int) - (m : Int) then (if nRemove < 0 then 0 else nRemove) else (n : Int) - (m : Int)

/-- column-wise normalisation `(X − min) / (max − min)` with the zero-range guard (`0 → 1`) -/
def normalizeCols (f : List (List α)) (nObj : Nat) : List (List α) :=
  let mins := (List.range nObj).map fun m => let c := column f m; c.getD (argminFirst c) default
  let maxs := (List.range nObj).map fun m => let c := column f m; c.getD (argmaxFirst c) default
  f.map fun row => (List.range nObj).map fun m =>
    let lo := mins.getD m default
    let hi := maxs.getD m default
    let diff := hi - lo
    let diff := if lo < hi then diff else (if hi < lo then diff else 1)
    (row.getD m default - lo) / diff

def sqDist (a b : List α) : α :=
  (List.zipWith (fun x y => (y - x) * (y - x)) a b).foldl (· + ·) 0

def extLe (a b : Ext α) : Bool := !Ext.lt b a

/-- product of the order statistics 1..M of a row of the distance matrix (position 0 is the
point itself); `top` when fewer than `M` live neighbours remain -/
def nnProduct (row : List (Ext α)) (mNb : Nat) : Ext α :=
  let s := (row.mergeSort extLe).drop 1 |>.take mNb
  if s.length < mNb then Ext.top
  else s.foldl (fun acc x => match acc, x with
    | Ext.fin a, Ext.fin b => Ext.fin (a * b)
    | _, _ => Ext.top) (Ext.fin 1)

/-- extremes: first arg-min and first arg-max of every objective -/
def extremesFirst (f : List (List α)) (nObj : Nat) : List Nat :=
  ((List.range nObj).map fun m => argminFirst (column f m)) ++
  ((List.range nObj).map fun m => argmaxFirst (column f m))

/-- last index of the live set holding the minimal value (`c_get_drop`'s `<=`, and the repaired
fallback) -/
def dropLast (d : List (Ext α)) (live : List Nat) : Option Nat :=
  live.foldl (fun best i =>
    match best with
    | none => some i
    | some b => if Ext.lt (d.getD b Ext.top) (d.getD i Ext.top) then some b else some i) none

/-- crowding of every live point from scratch: the M-nearest-neighbour product -/
def mnnScratch (x : List (List α)) (live : List Nat) (mNb : Nat) (extremes : List Nat) (n : Nat)
    (old : List (Ext α)) : List (Ext α) :=
  (List.range n).map fun i =>
    if extremes.contains i then Ext.top
    else if live.contains i then
      nnProduct ((List.range n).map fun j =>
        if live.contains j then Ext.fin (sqDist (x.getD i []) (x.getD j [])) else Ext.top) mNb
    else old.getD i Ext.top

/-- the removal loop: `fuel` = `n_remove − 1` removals -/
def pruneLoop (recompute : List Nat → List (Ext α) → List (Ext α)) :
    Nat → List Nat → List (Ext α) → List (Ext α)
  | 0, _, d => d
  | k + 1, live, d =>
    match dropLast d live with
    | none => d
    | some r =>
      let live' := live.filter (· != r)
      pruneLoop recompute k live' (recompute live' d)

/-- `calc_mnn(X, n_remove, twonn)` of the pure-Python engine -/
def mnnFallback (f : List (List α)) (nObj : Nat) (nRemove : Int) (twonn : Bool) : List (Ext α) :=
  let n := f.length
  let nr := clampRemove nRemove n nObj
  let mNb := if twonn then 2 else nObj
  if n ≤ mNb then f.map fun _ => Ext.top
  else
    let ex := extremesFirst f nObj
    let x := normalizeCols f nObj
    let live := List.range n
    let d0 := mnnScratch x live mNb ex n (f.map fun _ => Ext.top)
    pruneLoop (fun lv old => mnnScratch x lv mNb ex n old) (nr - 1).toNat live d0

/-- crowding-distance sum (not yet divided by M) of the live points from scratch, for `pcd` -/
def pcdScratch (x : List (List α)) (live : List Nat) (nObj : Nat) (extremes : List Nat) (n : Nat)
    (old : List (Ext α)) : List (Ext α) :=
  let sub := live.map fun i => x.getD i []
  let per : List (List (Ext α)) := (List.range nObj).map fun m =>
    let col := column sub m
    let order := argsortStable col
    let s := order.map fun i => col.getD i default
    -- a missing neighbour at either end of the sorted order counts as a zero gap
    let contrib : List (Ext α) := (List.range s.length).map fun p =>
      let dl : α := if p = 0 then 0 else s.getD p default - s.getD (p - 1) default
      let dn : α := if p + 1 = s.length then 0 else s.getD (p + 1) default - s.getD p default
      Ext.fin (dl + dn)
    (List.range col.length).map fun i => contrib.getD (order.idxOf i) (Ext.fin 0)
  let summed := sumExt per live.length
  (List.range n).map fun i =>
    if extremes.contains i then Ext.top
    else match live.idxOf? i with
      | some p => summed.getD p Ext.top
      | none => old.getD i Ext.top


/-- `calc_pcd(X, n_remove)` of the pure-Python engine; `nObjS` is `M` as a scalar -/
def pcdFallback (f : List (List α)) (nObj : Nat) (nObjS : α) (nRemove : Int) : List (Ext α) :=
  let n := f.length
  let nr := clampRemove nRemove n nObj
  let ex := extremesFirst f nObj
  let x := normalizeCols f nObj
  let live := List.range n
  let d0 := pcdScratch x live nObj ex n (f.map fun _ => Ext.top)
  let d := pruneLoop (fun lv old => pcdScratch x lv nObj ex n old) (nr - 1).toNat live d0
  d.map (Ext.mapFin (· / nObjS))

end
end Pymoode
