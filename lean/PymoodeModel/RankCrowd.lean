/-
Model of pymoo `Survival.do` (feasibility split, clamping), `RankAndCrowding._do` (front loop)
and `ConstrRankAndCrowding._do` (`pymoode/survival/rank_and_crowding/rnc.py`).

Individuals are positions `0 … n-1` of the input population. Library results are inputs
(checked oracles): `fronts` from non-dominated sorting, `sorted` = the split front re-ordered by
the (randomised) descending argsort of its crowding values, `feas` / `infeas` from
`split_by_feasibility`.
-/
import PymoodeModel.Dominance
namespace Pymoode

/-- front loop of `RankAndCrowding._do`: whole fronts while they fit; the front that does not fit
keeps the first `len - n_remove` members of its crowding-sorted order (`I[:-n_remove]`).
Every front comes paired with that sorted order (only read when the front does not fit). -/
def frontLoop (nS : Nat) : List (List Nat × List Nat) → List Nat → List Nat
  | [], acc => acc
  | (f, s) :: fs, acc =>
      if acc.length + f.length > nS then
        frontLoop nS fs (acc ++ s.take (f.length - (acc.length + f.length - nS)))
      else frontLoop nS fs (acc ++ f)

/-- `n_remove` handed to the crowding function for each front, in order: the number to drop for a
front that does not fit, `0` for one that does -/
def nRemoveSeq (nS : Nat) : List (List Nat) → Nat → List Nat
  | [], _ => []
  | f :: fs, have_ =>
      if have_ + f.length > nS then (have_ + f.length - nS) :: nRemoveSeq nS fs nS
      else 0 :: nRemoveSeq nS fs (have_ + f.length)

/-- `rank` attribute written by `_do`: member of front `k` gets `k` -/
def rankOf (fronts : List (List Nat)) (i : Nat) : Option Nat :=
  (fronts.findIdx? (fun f => f.contains i))

/-- pymoo `Survival.do` around `RankAndCrowding._do` (`filter_infeasible = True`).
`fronts` (paired with their sorted orders) refer to positions *within the sub-population handed
to `_do`* (`pop[feas]` when the problem has constraints, the whole population otherwise). -/
def survivalDo (n nSurvive : Nat) (constr : Bool) (feas infeas : List Nat)
    (fronts : List (List Nat × List Nat)) : List Nat :=
  let nS := min nSurvive n
  if constr then
    let inner := if feas.isEmpty then []
                 else (frontLoop (min feas.length nS) fronts []).map (fun j => feas.getD j 0)
    inner ++ infeas.take (nS - inner.length)
  else frontLoop nS fronts []

/-- the infeasible fill of `ConstrRankAndCrowding._do`: fronts of the violation matrix; the
front that does not fit is cut to the `n_survive - len(survivors)` members of smallest CV
(paired list = that front in ascending-CV order) -/
def fillLoop (room : Nat) : List (List Nat × List Nat) → List Nat → List Nat
  | [], acc => acc
  | (f, s) :: fs, acc =>
      if acc.length + f.length > room then fillLoop room fs (acc ++ s.take (room - acc.length))
      else fillLoop room fs (acc ++ f)

/-- `ConstrRankAndCrowding._do` on a constrained problem: feasible part by the internal
`RankAndCrowding` (a full `Survival.do` on `pop[feas]`, which is all-feasible), the remaining
places from `infeas` by violation-space fronts (positions within `pop[infeas]`). -/
def constrDo (n nSurvive : Nat) (feas infeas : List Nat)
    (fronts cFronts : List (List Nat × List Nat)) : List Nat :=
  let nS := min nSurvive n
  let inner := if feas.isEmpty then []
               else (frontLoop (min feas.length nS) fronts []).map (fun j => feas.getD j 0)
  let room := nS - inner.length
  if room > 0 then inner ++ (fillLoop room cFronts []).map (fun j => infeas.getD j 0)
  else inner

/-- `ConstrRankAndCrowding._do`: the constrained branch above, or — `problem.n_constr == 0` —
plain delegation to the internal `RankAndCrowding` -/
def constrSurvival (n nSurvive : Nat) (constr : Bool) (feas infeas : List Nat)
    (fronts cFronts : List (List Nat × List Nat)) : List Nat :=
  if constr then constrDo n nSurvive feas infeas fronts cFronts
  else survivalDo n nSurvive false [] [] fronts

section
variable {α : Type} [LT α] [DecidableLT α] [OfNat α 0] [Neg α]

/-- violation vector `[max(G, 0), |H|]` of one individual -/
def violationVec (g h : List α) : List α :=
  g.map (fun x => if x < 0 then 0 else x) ++ h.map (fun x => if x < 0 then -x else x)

end
end Pymoode
