/-
Line protocol shared by all driver components (no proofs; plumbing only).
One record per line, whitespace-separated tokens. Floats travel as the decimal value
of their IEEE-754 binary64 bit pattern, never as decimal text.
-/
namespace Pymoode.Proto

/-- one recorded call of a `numpy.random` primitive -/
structure Event where
  name  : String
  args  : List Int
  fvals : List Float := []
  ivals : List Int := []
  deriving Inhabited

abbrev P := ReaderT (Array String) (StateT Nat (Except String))

def fail {β : Type} (msg : String) : P β := do
  let pos ← get
  throw s!"{msg} at token {pos}"

def tok : P String := do
  let ts ← read
  let pos ← get
  if h : pos < ts.size then
    set (pos + 1)
    return ts[pos]
  else fail "unexpected end of record"

def peek? : P (Option String) := do
  let ts ← read
  let pos ← get
  return ts[pos]?

def kw (s : String) : P Unit := do
  let t ← tok
  if t == s then return () else fail s!"expected '{s}', got '{t}'"

def nat : P Nat := do
  let t ← tok
  match t.toNat? with
  | some n => return n
  | none => fail s!"expected natural number, got '{t}'"

def int : P Int := do
  let t ← tok
  match t.toInt? with
  | some n => return n
  | none => fail s!"expected integer, got '{t}'"

def flt : P Float := do
  let n ← nat
  return Float.ofBits n.toUInt64

def bool : P Bool := do
  let n ← nat
  return n != 0

def rep {β : Type} (n : Nat) (p : P β) : P (List β) := do
  let mut acc : Array β := Array.mkEmpty n
  for _ in [0:n] do
    acc := acc.push (← p)
  return acc.toList

/-- `len v₁ … vₙ` -/
def listOf {β : Type} (p : P β) : P (List β) := do
  let n ← nat
  rep n p

/-- `rows cols v…` (row-major) -/
def matOf {β : Type} (p : P β) : P (List (List β)) := do
  let r ← nat
  let c ← nat
  rep r (rep c p)

def optOf {β : Type} (p : P β) : P (Option β) := do
  let t ← tok
  if t == "none" then return none
  else if t == "some" then return some (← p)
  else fail s!"expected none/some, got '{t}'"

def event : P Event := do
  kw "E"
  let name ← tok
  let args ← listOf int
  if name == "random" then
    let fv ← listOf flt
    return { name, args, fvals := fv }
  else
    let iv ← listOf int
    return { name, args, ivals := iv }

def events : P (List Event) := do
  kw "DRAWS"
  listOf event

def run {β : Type} (p : P β) (line : String) : Except String β :=
  let ts := (line.splitOn " ").filter (· ≠ "") |>.toArray
  match (p.run ts).run 0 with
  | .ok (b, _) => .ok b
  | .error e => .error e

/-! output helpers -/

def fOut (x : Float) : String := toString x.toBits.toNat

def listOut {β : Type} (f : β → String) (xs : List β) : String :=
  String.intercalate " " (toString xs.length :: xs.map f)

def matOut {β : Type} (f : β → String) (rows cols : Nat) (xs : List (List β)) : String :=
  String.intercalate " " (toString rows :: toString cols :: (xs.map (fun r => r.map f)).flatten)

def bOut (b : Bool) : String := if b then "1" else "0"

end Pymoode.Proto
