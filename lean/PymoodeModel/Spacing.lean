/-
Model of `SpacingIndicator` (`pymoode/performance/_spacing.py`) with pymoo's zero-to-one
pre-normalisation, and of the compiled nearest-neighbour helper
(`pymoode/cython/spacing_neighbors.pyx`).
-/
namespace Pymoode

section
variable {α : Type} [Add α] [Sub α] [Mul α] [Div α] [LT α] [DecidableLT α] [OfNat α 0]

def absDiff (a b : α) : α := if a < b then b - a else a - b

def maxOf (a b : α) : α := if a < b then b else a

/-- `cityblock`: Σ |aₖ − bₖ| -/
def cityblock (a b : List α) : α := (List.zipWith absDiff a b).foldl (· + ·) 0

/-- `chebyshev`: max |aₖ − bₖ| -/
def chebyshev (a b : List α) : α := (List.zipWith absDiff a b).foldl maxOf 0

/-- squared euclidean distance (the `euclidean` metric is its square root) -/
def sqEuclid (a b : List α) : α := (List.zipWith (fun x y => (x - y) * (x - y)) a b).foldl (· + ·) 0

/-- row `i` of `squareform(pdist(F))`, the diagonal entry included -/
def distRow (dist : List α → List α → α) (pts : List (List α)) (p : List α) : List α :=
  pts.map (dist p)

def leB (a b : α) : Bool := !decide (b < a)

/-- `np.partition(D, 1, axis=1)[:, 1]`: the second smallest entry of a row -/
def secondSmallest (l : List α) : Option α := (l.mergeSort leB)[1]?

/-- smallest entry of a list (`none` when empty) -/
def minOfList : List α → Option α
  | [] => none
  | a :: t => match minOfList t with
    | none => some a
    | some m => some (if m < a then m else a)

/-- nearest-neighbour distance of every point -/
def nnDists (dist : List α → List α → α) (pts : List (List α)) : List (Option α) :=
  pts.map fun p => secondSmallest (distRow dist pts p)

def sumL (l : List α) : α := l.foldl (· + ·) 0

/-- mean squared deviation of `d` from its mean; `cnt` is the number of points as a scalar -/
def spacingSq (cnt : α) (d : List α) : α :=
  let dm := sumL d / cnt
  sumL (d.map fun x => (x - dm) * (x - dm)) / cnt

/-- `S = sqrt(sum((d - mean)^2) / n)` -/
def spacing (sqrt : α → α) (cnt : α) (d : List α) : α := sqrt (spacingSq cnt d)

/-- pymoo `ZeroToOneNormalization.forward`, one coordinate: `(x − ideal)/(nadir − ideal)`, or
`x − ideal` when `nadir = ideal` -/
def normCoord (ideal nadir x : α) : α :=
  if ideal < nadir then (x - ideal) / (nadir - ideal)
  else if nadir < ideal then (x - ideal) / (nadir - ideal)
  else x - ideal

def normPoint : List α → List α → List α → List α
  | i :: is, n :: ns, x :: xs => normCoord i n x :: normPoint is ns xs
  | _, _, _ => []

/-- column-wise minimum / maximum of a front (ideal / nadir derived from `pf`) -/
def colFold (f : α → α → α) : List (List α) → List α
  | [] => []
  | [r] => r
  | r :: rs => List.zipWith f r (colFold f rs)

def minOf (a b : α) : α := if b < a then b else a

end
end Pymoode
