/-
Abstract run model for C17 / C18: a run is a fold of a pure generation step over the stream of
random draws. `σ` is the abstract state the correspondence run compares with the real algorithm
object after every generation (population identities, X, F, G, CV, rank, n_gen, n_eval, survival
state); `δ` is what one generation consumes (its recorded draws and oracle results).
-/
namespace Pymoode

/-- `minimize` / `while has_next(): next()` -/
def runSteps {σ δ : Type} (step : σ → δ → σ) (s : σ) (ds : List δ) : σ := ds.foldl step s

/-- ask / evaluate externally / tell: one generation split into its three phases -/
structure Phases (σ δ χ υ : Type) where
  ask  : σ → δ → List χ                 -- offspring decision vectors proposed
  eval : χ → υ                          -- the problem: a pure function of X
  tell : σ → δ → List (χ × υ) → σ       -- survival / replacement on evaluated offspring

def Phases.step {σ δ χ υ : Type} (p : Phases σ δ χ υ) (s : σ) (d : δ) : σ :=
  let xs := p.ask s d
  p.tell s d (xs.map fun x => (x, p.eval x))

/-- external evaluation of the offspring one at a time in the order `order` (positions), each
result stored with its individual; unevaluated slots stay `none` -/
def evalInOrder {χ υ : Type} (eval : χ → υ) (xs : List χ) (order : List Nat) : List (Option υ) :=
  order.foldl (fun acc i => match xs[i]? with
    | some x => acc.set i (some (eval x))
    | none => acc) (xs.map fun _ => none)

/-- a run that additionally records a history (a copy of the state per generation) -/
def runWithHistory {σ δ : Type} (step : σ → δ → σ) (s : σ) (ds : List δ) : σ × List σ :=
  ds.foldl (fun (acc : σ × List σ) d => let s' := step acc.1 d; (s', acc.2 ++ [s'])) (s, [])

end Pymoode
