/-
Model of `cross_binomial`, `cross_exp`, `row_at_least_once_true` and `DEX._do`
(`pymoode/operators/dex.py`), one mating (row) at a time.
-/
namespace Pymoode

section
variable {α : Type} [LT α] [DecidableLT α]

/-- `np.random.random((n_matings, n_var)) < prob`, one row -/
def binRow (cr : α) (rs : List α) : List Bool := rs.map fun r => decide (r < cr)

/-- the loop of `cross_exp` for one row, written as the code writes it:
`steps` iterations remain, `j` is the loop counter, the mask entry `(start + j) % n`
is set while the draw is `< prob`, the first failing draw breaks. -/
def expFill (cr : α) (n start : Nat) : Nat → Nat → List α → List Bool → List Bool
  | 0, _, _, m => m
  | _ + 1, _, [], m => m
  | k + 1, j, r :: rs, m =>
      if r < cr then expFill cr n start k (j + 1) rs (m.set ((start + j) % n) true) else m

def expRow (cr : α) (n start : Nat) (rs : List α) : List Bool :=
  expFill cr n start n 0 rs (List.replicate n false)

/-- block length: number of leading draws `< prob`, at most `n` -/
def expLen (cr : α) : Nat → List α → Nat
  | 0, _ => 0
  | _ + 1, [] => 0
  | k + 1, r :: rs => if r < cr then expLen cr k rs + 1 else 0

/-- how many draws the loop consumes for one row -/
def expConsumed (cr : α) (n : Nat) (rs : List α) : Nat :=
  let l := expLen cr n rs
  if l < n then l + 1 else n

end

/-- `row_at_least_once_true` for one row: `k` is the `randint(d)` drawn for it (only read
when the row has no `True`). -/
def forceOne (m : List Bool) (k : Nat) : List Bool :=
  if m.any id then m else m.set k true

/-- `U = copy(X_); U[M] = V[M]`, one coordinate -/
def trialCoord {α : Type} (m : Bool) (x v : α) : α := if m then v else x

def trialRow {α : Type} : List Bool → List α → List α → List α
  | m :: ms, x :: xs, v :: vs => trialCoord m x v :: trialRow ms xs vs
  | _, _, _ => []

end Pymoode
