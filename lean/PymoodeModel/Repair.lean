/-
Model of the four built-in repair strategies of `pymoode/operators/dem.py`
(`bounce_back`, `midway`, `rand_init`, `to_bounds`), one coordinate at a time.

The scalar type is generic: the same definitions are executed at `Float` by the
driver (bit-for-bit the IEEE operations NumPy performs, in the same order) and
reasoned about over an arbitrary ordered field in `PymoodeProofs`.
No Mathlib import here.
-/
namespace Pymoode

inductive RepairKind where
  | bounceBack | midway | randInit | toBounds
  deriving DecidableEq, Repr, Inhabited

/-- Everything the repair of one matrix entry `X[i,j]` reads:
`xl[j]`, `xu[j]`, the reference `Xb[i,j]`, the mutant entry `X[i,j]`, and the two
uniform draws that `np.random.random(len(i))` would hand to this entry in the
lower-violation pass and in the upper-violation pass (unused when the entry does
not violate). -/
structure RCoord (α : Type) where
  xl : α
  xu : α
  xb : α
  v  : α
  rl : α
  ru : α
  deriving Repr, Inhabited

section
variable {α : Type} [Add α] [Sub α] [Mul α] [Div α] [LT α] [DecidableLT α] [OfNat α 2]

/-- value assigned by the `i, j = np.where(X < XL)` branch -/
def repairLow (s : RepairKind) (xl xu xb r : α) : α :=
  match s with
  | .bounceBack => xl + r * (xb - xl)
  | .midway     => xl + (xb - xl) / 2
  | .randInit   => xl + r * (xu - xl)
  | .toBounds   => xl

/-- value assigned by the `i, j = np.where(X > XU)` branch -/
def repairUp (s : RepairKind) (xl xu xb r : α) : α :=
  match s with
  | .bounceBack => xu - r * (xu - xb)
  | .midway     => xu - (xu - xb) / 2
  | .randInit   => xu - r * (xu - xl)
  | .toBounds   => xu

/-- first pass: entries below the lower bound are overwritten -/
def lowPass (s : RepairKind) (c : RCoord α) : α :=
  if c.v < c.xl then repairLow s c.xl c.xu c.xb c.rl else c.v

/-- second pass, on the result of the first: entries above the upper bound are overwritten -/
def upPass (s : RepairKind) (c : RCoord α) (v1 : α) : α :=
  if c.xu < v1 then repairUp s c.xl c.xu c.xb c.ru else v1

/-- the repair function applied to one entry -/
def repair1 (s : RepairKind) (c : RCoord α) : α :=
  upPass s c (lowPass s c)

/-- a whole (flattened) matrix -/
def repairAll (s : RepairKind) (cs : List (RCoord α)) : List α :=
  cs.map (repair1 s)

end
end Pymoode
