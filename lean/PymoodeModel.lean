import PymoodeModel.Repair
import PymoodeModel.Proto
import PymoodeModel.Drv.Common
import PymoodeModel.Drv.Repair
