import PymoodeModel.Repair
import PymoodeModel.Mutation
import PymoodeModel.Crossover
import PymoodeModel.Selection
import PymoodeModel.Proto
import PymoodeModel.Drv.Common
import PymoodeModel.Drv.Repair
import PymoodeModel.Drv.Ops
