import Mathlib.Data.List.Nodup
#check @List.erase_eq_eraseIdx_of_idxOf
#check @List.erase_eq_eraseIdx
#check @List.Nodup.erase_eq_filter
#check @List.getElem_eraseIdx
#check @List.Nodup.idxOf_getElem
