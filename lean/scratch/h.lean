import PymoodeProofs.C13f
import Mathlib.Tactic.Ring
import PymoodeProofs.C15b
set_option linter.unusedSectionVars false
set_option linter.unusedVariables false
namespace Pymoode
namespace C13
variable {α : Type} [Field α] [LinearOrder α] [IsStrictOrderedRing α] [Inhabited α]

/-- one pass of the kernel's `while` loop (the body of `pcdLoopF`) -/
def pcdStepF (x : List (List α)) (c : α) (ex : List Nat) (st : PcdState α) : PcdState α :=
  let k := (dropLast st.d st.h).getD 0
  let h' := st.h.filter (· != k)
  let r := pcdGetCalcItems k st.cols
  let items := r.2.1.filter fun i => !ex.contains i
  let it := pcdIter x c r.1 items (st.dmat, st.ok && r.2.2)
  let d' := pcdCalcD it.1 items st.d
  { cols := r.1, dmat := it.1, d := d', h := h', ok := it.2 }

theorem pcdLoopF_succ (x : List (List α)) (c : α) (ex : List Nat) (fuel : Nat) (st : PcdState α) :
    pcdLoopF x c ex (fuel + 1) st = pcdLoopF x c ex fuel (pcdStepF x c ex st) := rfl

/-- the definition's (undivided) crowding sum of a live non-extreme point -/
def sumF (f : List (List α)) (M : Nat) (live : List Nat) (i : Nat) : Ext α :=
  (List.range M).foldl (fun acc m => Ext.add acc (Ext.fin (gapF f M live i m))) (Ext.fin 0)

/-- the columns the kernel maintains -/
def colsOf (f : List (List α)) (M : Nat) (live : List Nat) : List (List Nat) :=
  (List.range M).map fun m => padLast (Scol f m live) f.length

/-- the kernel's row of gaps of point `i` -/
def rowK (f : List (List α)) (M : Nat) (c : α) (live : List Nat) (i : Nat) : List (Ext α) :=
  rowOf (normalizeCols f M) c (fun m => Scol f m live) M i

theorem rowK_length (f : List (List α)) (M : Nat) (c : α) (live : List Nat) (i : Nat) : (rowK f M c live i).length = M := by
  simp [rowK, rowOf]

/-- what the kernel sums for a point = the definition's sum divided by `c` -/
theorem rowK_sum (f : List (List α)) (M : Nat) (c : α) (live : List Nat) (i : Nat) :
    (rowK f M c live i).foldl Ext.add (Ext.fin 0) = Ext.mapFin (· / c) (sumF f M live i) := by
  unfold rowK rowOf sumF
  rw [List.foldl_map, div_fold]
  have : Ext.mapFin (· / c) (Ext.fin (0 : α)) = Ext.fin 0 := by simp [Ext.mapFin]
  rw [this]
  apply List.foldl_ext
  intro acc m hm
  congr 2
  unfold gapF
  simp only []
  ring

/-- removing a point that is not adjacent to `i` in column `m` leaves the neighbours of `i` unchanged -/
theorem neighbours_stable (f : List (List α)) (M : Nat) (live : List Nat) (hl : LiveOK f M live) (hmax : AllMaxOnce f M)
    (r : Nat) (hr : r ∈ live) (hrne : r ∉ extremesFirst f M) (i : Nat) (hi : i ∈ live) (hir : i ≠ r)
    (hine : i ∉ extremesFirst f M) (m : Nat) (hm : m < M)
    (h1 : i ≠ prevOf (Scol f m live) r) (h2 : i ≠ nextOf (Scol f m live) r) :
    prevOf (Scol f m (live.filter (· != r))) i = prevOf (Scol f m live) i ∧
      nextOf (Scol f m (live.filter (· != r))) i = nextOf (Scol f m live) i := by
  obtain ⟨hnd, _, _, himem, hi0, hi1⟩ := col_facts f M live hl hmax i hi hine m hm
  obtain ⟨_, _, _, hrmem, hr0, hr1⟩ := col_facts f M live hl hmax r hr hrne m hm
  have hS : Scol f m (live.filter (· != r)) = (Scol f m live).filter (· != r) :=
    (sortedLive_filter (vf f m) live hl.pw _).symm
  rw [hS]
  have hp : prevOf (Scol f m live) i ≠ r := by
    intro h
    apply h2
    rw [← h, next_of_prev _ hnd i himem hi0]
  have hn : nextOf (Scol f m live) i ≠ r := by
    intro h
    apply h1
    rw [← h, prev_of_next _ hnd i himem hi1]
  obtain ⟨a, b, _⟩ := neighbours_erase (Scol f m live) hnd r i hrmem himem hir ⟨hi0, hi1⟩ hp hn
  exact ⟨a, b⟩


/-- simulation invariant between the kernel state and the definition's crowding array `dF` -/
structure KInv (f : List (List α)) (M : Nat) (c : α) (st : PcdState α) (live : List Nat) (dF : List (Ext α)) : Prop where
  h_eq : st.h = live
  cols_eq : st.cols = colsOf f M live
  dmat_len : st.dmat.length = f.length
  dmat_rows : ∀ i, i < st.dmat.length → (st.dmat.getD i []).length = M
  dmat_live : ∀ i ∈ live, i ∉ extremesFirst f M → st.dmat.getD i [] = rowK f M c live i
  d_eq : st.d = dF.map (Ext.mapFin (· / c))
  dF_scratch : ∃ old, dF = pcdScratch (normalizeCols f M) live M (extremesFirst f M) f.length old
  ok : st.ok = true

theorem scratch_length (x : List (List α)) (live : List Nat) (M : Nat) (ex : List Nat) (n : Nat) (old : List (Ext α)) :
    (pcdScratch x live M ex n old).length = n := by
  simp [pcdScratch]

theorem contains_iff (ex : List Nat) (i : Nat) : ex.contains i = true ↔ i ∈ ex := by simp

theorem liveOK_filter (f : List (List α)) (M : Nat) (live : List Nat) (hl : LiveOK f M live) (r : Nat)
    (hr : r ∉ extremesFirst f M) : LiveOK f M (live.filter (· != r)) := by
  refine ⟨hl.pw.filter _, fun i hi => hl.lt i (List.mem_filter.mp hi).1, fun e he => ?_⟩
  rw [List.mem_filter]
  refine ⟨hl.ex_in e he, ?_⟩
  simp only [bne_iff_ne, ne_eq]
  intro h; subst h; exact hr he

/-- **one pass of the loop keeps the simulation**: the kernel and the definition remove the same point,
the kernel's index arithmetic stays in range, and its lazily updated arrays agree with the
definition's from-scratch recomputation -/
theorem step_inv (f : List (List α)) (M : Nat) (c : α) (hc : 0 < c) (hmax : AllMaxOnce f M)
    (st : PcdState α) (live : List Nat) (dF : List (Ext α)) (hl : LiveOK f M live)
    (hinv : KInv f M c st live dF) (j : Nat) (hj : j ∈ live) (hjne : j ∉ extremesFirst f M) :
    ∃ r, dropLast dF live = some r ∧ r ∈ live ∧ r ∉ extremesFirst f M ∧
      KInv f M c (pcdStepF (normalizeCols f M) c (extremesFirst f M) st) (live.filter (· != r))
        (pcdScratch (normalizeCols f M) (live.filter (· != r)) M (extremesFirst f M) f.length dF) := by
  set x := normalizeCols f M with hx
  set ex := extremesFirst f M with hex
  set n := f.length with hn
  obtain ⟨old, hold⟩ := hinv.dF_scratch
  have hxlen : x.length = n := normalize_length f M
  -- values of the definition's array
  have hdF : ∀ i, i < n → dF.getD i Ext.top =
      if ex.contains i then Ext.top else if i ∈ live then sumF f M live i else old.getD i Ext.top := by
    intro i hi; rw [hold]; exact scratch_get f M live hl hmax old i hi
  -- the point to drop
  have hsome : ∃ r, dropLast dF live = some r := by
    cases hd : dropLast dF live with
    | some r => exact ⟨r, rfl⟩
    | none =>
      exfalso
      unfold dropLast at hd
      cases live with
      | nil => cases hj
      | cons a t =>
        simp only [List.foldl_cons] at hd
        have : ∀ (l : List Nat) (b : Nat), l.foldl (fun best i => match best with
            | none => some i
            | some b => if Ext.lt (dF.getD b Ext.top) (dF.getD i Ext.top) then some b else some i) (some b) ≠ none := by
          intro l
          induction l with
          | nil => intro b; simp
          | cons y ys ih =>
            intro b
            simp only [List.foldl_cons]
            split <;> exact ih _
        exact this t a hd
  obtain ⟨r, hr⟩ := hsome
  obtain ⟨hrl, hrmin⟩ := C15.dropLast_spec dF live r hr
  have hrne : r ∉ ex := by
    intro hre
    have h1 := hrmin j hj
    rw [hdF r (hl.lt r hrl), hdF j (hl.lt j hj)] at h1
    have e1 : ex.contains r = true := (contains_iff ex r).mpr hre
    have e2 : ex.contains j = false := by
      cases h : ex.contains j
      · rfl
      · exact absurd ((contains_iff ex j).mp h) hjne
    rw [e1, e2] at h1
    simp only [↓reduceIte, Bool.false_eq_true, hj] at h1
    obtain ⟨w, hw⟩ := fold_fin_isFin (fun m => gapF f M live j m) (List.range M) 0
    unfold sumF at h1
    rw [hw] at h1
    simp [extLe, Ext.lt] at h1
  refine ⟨r, hr, hrl, hrne, ?_⟩
  have hl' := liveOK_filter f M live hl r hrne
  set live' := live.filter (· != r) with hlive'
  -- the kernel picks the same point
  have hk : (dropLast st.d live).getD 0 = r := by
    rw [hinv.d_eq, dropLast_map c hc, hr]; rfl
  -- columns of the removed point
  have hrcols : ∀ m ∈ List.range M, (Scol f m live).Nodup ∧ (Scol f m live).length ≤ n ∧ r ∈ Scol f m live ∧
      Interior (Scol f m live) r := by
    intro m hm
    obtain ⟨a1, a2, _, a4, a5⟩ := col_facts f M live hl hmax r hrl hrne m (List.mem_range.mp hm)
    exact ⟨a1, a2, a4, a5⟩
  obtain ⟨its, hits, hmemits⟩ := getCalcItems_eval (fun m => Scol f m live) n r (List.range M) [] [] true hrcols
  have hScol' : ∀ m, (Scol f m live).filter (· != r) = Scol f m live' := fun m =>
    sortedLive_filter (vf f m) live hl.pw _
  have hgci : pcdGetCalcItems r st.cols = (colsOf f M live', (its, true)) := by
    unfold pcdGetCalcItems
    rw [hinv.cols_eq]
    unfold colsOf
    rw [hits]
    simp only [List.nil_append, hScol']
    rfl
  -- items to recompute
  set items := its.filter (fun i => !ex.contains i) with hitems
  have hitem_facts : ∀ i ∈ items, i ∈ live' ∧ i ∉ ex := by
    intro i hi
    rw [hitems, List.mem_filter] at hi
    obtain ⟨hi1, hi2⟩ := hi
    have hie : i ∉ ex := by
      intro h; rw [(contains_iff ex i).mpr h] at hi2; simp at hi2
    refine ⟨?_, hie⟩
    rw [hmemits] at hi1
    rcases hi1 with hi1 | ⟨m, hm, hi1⟩
    · cases hi1
    · obtain ⟨a1, a2, a3, a4, a5, a6⟩ := col_facts f M live hl hmax r hrl hrne m (List.mem_range.mp hm)
      rw [hlive', List.mem_filter]
      rcases hi1 with rfl | rfl
      · exact ⟨(sortedLive_mem _ _ _).mp (prevOf_mem _ r a4), by simpa using prevOf_ne _ a1 r a4 a5⟩
      · exact ⟨(sortedLive_mem _ _ _).mp (nextOf_mem _ r a6), by simpa using nextOf_ne _ a1 r a4 a6⟩
  have hiter := iter_eval x c (fun m => Scol f m live') n M (st.ok && true) hxlen items st.dmat hinv.dmat_rows
    (by
      intro i hi
      obtain ⟨h1, h2⟩ := hitem_facts i hi
      refine ⟨by rw [hinv.dmat_len]; exact hl'.lt i h1, fun m hm => ?_⟩
      exact col_facts f M live' hl' hmax i h1 h2 m hm)
  -- unfold the step
  have hstep : pcdStepF x c ex st =
      { cols := colsOf f M live',
        dmat := items.foldl (fun dm i => dm.set i (rowK f M c live' i)) st.dmat,
        d := pcdCalcD (items.foldl (fun dm i => dm.set i (rowK f M c live' i)) st.dmat) items st.d,
        h := live', ok := st.ok && true } := by
    unfold pcdStepF
    simp only [hinv.h_eq, hk, hgci]
    rw [show (List.filter (fun i => !ex.contains i) its) = items from rfl]
    unfold colsOf
    rw [hiter]
    rfl
  rw [hstep]
  obtain ⟨hdl, hdg⟩ := foldl_set_getD (fun i => rowK f M c live' i) ([] : List (Ext α)) items st.dmat
  set dmat' := items.foldl (fun dm i => dm.set i (rowK f M c live' i)) st.dmat with hdmat'
  -- rows of live non-extreme points after the pass
  have hrows' : ∀ i ∈ live', i ∉ ex → dmat'.getD i [] = rowK f M c live' i := by
    intro i hi hie
    rw [hdg i]
    have hil : i ∈ live := (List.mem_filter.mp hi).1
    have hir : i ≠ r := by simpa using (List.mem_filter.mp hi).2
    by_cases hit : i ∈ items
    · rw [if_pos ⟨hit, by rw [hinv.dmat_len]; exact hl.lt i hil⟩]
    · rw [if_neg (fun h => hit h.1), hinv.dmat_live i hil hie]
      unfold rowK rowOf
      apply List.map_congr_left
      intro m hm
      have hnotits : i ∉ its := by
        intro h
        apply hit
        rw [hitems, List.mem_filter]
        refine ⟨h, ?_⟩
        cases hcc : ex.contains i
        · rfl
        · exact absurd ((contains_iff ex i).mp hcc) hie
      have hna : i ≠ prevOf (Scol f m live) r ∧ i ≠ nextOf (Scol f m live) r := by
        constructor
        · intro h; apply hnotits; rw [hmemits]; exact Or.inr ⟨m, hm, Or.inl h⟩
        · intro h; apply hnotits; rw [hmemits]; exact Or.inr ⟨m, hm, Or.inr h⟩
      obtain ⟨e1, e2⟩ := neighbours_stable f M live hl hmax r hrl hrne i hil hir hie m (List.mem_range.mp hm) hna.1 hna.2
      rw [hlive', e1, e2]
  refine ⟨rfl, rfl, by rw [hdl]; exact hinv.dmat_len, ?_, hrows', ?_, ⟨dF, rfl⟩, by simp [hinv.ok]⟩
  · intro i hi
    rw [hdl] at hi
    rw [hdg i]
    split
    · exact rowK_length f M c live' i
    · exact hinv.dmat_rows i hi
  · -- the crowding arrays
    unfold pcdCalcD
    obtain ⟨hcl, hcg⟩ := foldl_set_getD (fun i => (dmat'.getD i []).foldl Ext.add (Ext.fin 0)) (Ext.top : Ext α) items st.d
    have hdlen : st.d.length = n := by
      rw [hinv.d_eq, List.length_map, hold]; exact scratch_length _ _ _ _ _ _
    apply ext_getD (Ext.top : Ext α)
    · rw [hcl, hdlen, List.length_map]; exact (scratch_length _ _ _ _ _ _).symm
    · intro i hi
      rw [hcl, hdlen] at hi
      rw [hcg i, getD_map_mapFin, scratch_get f M live' hl' hmax dF i hi]
      by_cases hit : i ∈ items
      · obtain ⟨h1, h2⟩ := hitem_facts i hit
        rw [if_pos ⟨hit, by rw [hdlen]; exact hi⟩, hrows' i h1 h2, rowK_sum]
        have : ex.contains i = false := by
          cases hcc : ex.contains i
          · rfl
          · exact absurd ((contains_iff ex i).mp hcc) h2
        rw [this]
        simp only [Bool.false_eq_true, ↓reduceIte, h1]
        rfl
      · rw [if_neg (fun h => hit h.1), hinv.d_eq, getD_map_mapFin, hdF i hi]
        by_cases hie : i ∈ ex
        · rw [(contains_iff ex i).mpr hie]; simp [Ext.mapFin]
        · have hcf : ex.contains i = false := by
            cases hcc : ex.contains i
            · rfl
            · exact absurd ((contains_iff ex i).mp hcc) hie
          rw [hcf]
          simp only [Bool.false_eq_true, ↓reduceIte]
          by_cases hil' : i ∈ live'
          · have hil : i ∈ live := (List.mem_filter.mp hil').1
            have hir : i ≠ r := by simpa using (List.mem_filter.mp hil').2
            rw [if_pos hil, if_pos hil']
            congr 1
            -- same neighbours in every column: the point was not adjacent to the removed one
            unfold sumF
            apply List.foldl_ext
            intro acc m hm
            congr 2
            have hnotits : i ∉ its := by
              intro h
              apply hit
              rw [hitems, List.mem_filter]
              exact ⟨h, by rw [hcf]; rfl⟩
            have hna : i ≠ prevOf (Scol f m live) r ∧ i ≠ nextOf (Scol f m live) r := by
              constructor
              · intro h; apply hnotits; rw [hmemits]; exact Or.inr ⟨m, hm, Or.inl h⟩
              · intro h; apply hnotits; rw [hmemits]; exact Or.inr ⟨m, hm, Or.inr h⟩
            obtain ⟨e1, e2⟩ := neighbours_stable f M live hl hmax r hrl hrne i hil hir hie m (List.mem_range.mp hm) hna.1 hna.2
            unfold gapF
            simp only []
            rw [hlive', e1, e2]
          · rw [if_neg hil']

end C13
end Pymoode
