import PymoodeProofs.C13f
namespace Pymoode
namespace C13
variable {α : Type} [Field α] [LinearOrder α] [IsStrictOrderedRing α] [Inhabited α]

theorem idxOf?_of_mem_nodup (l : List Nat) (hl : l.Nodup) (i : Nat) (hi : i ∈ l) : l.idxOf? i = some (l.idxOf i) := by
  rw [List.idxOf?_eq_some_iff]
  have hp := List.idxOf_lt_length_iff.mpr hi
  refine ⟨hp, List.getElem_idxOf hp, ?_⟩
  intro j hj heq
  have := idxOf_getElem_nodup l hl j (by omega)
  rw [heq] at this; omega

theorem scratch_get (f : List (List α)) (M : Nat) (live : List Nat) (hl : LiveOK f M live)
    (hmax : AllMaxOnce f M) (old : List (Ext α)) (i : Nat) (hi : i < f.length) :
    (pcdScratch (normalizeCols f M) live M (extremesFirst f M) f.length old).getD i Ext.top =
      if (extremesFirst f M).contains i then Ext.top
      else if i ∈ live then
        (List.range M).foldl (fun acc m => Ext.add acc (Ext.fin (gapF f M live i m))) (Ext.fin 0)
      else old.getD i Ext.top := by
  unfold pcdScratch
  simp only []
  rw [List.getD_eq_getElem?_getD, List.getElem?_map, List.getElem?_range hi]
  simp only [Option.map_some, Option.getD_some]
  split
  · rfl
  · rename_i hex
    by_cases hil : i ∈ live
    · rw [if_pos hil, idxOf?_of_mem_nodup live (live_nodup hl) i hil]
      simp only []
      have hpos := List.idxOf_lt_length_iff.mpr hil
      unfold sumExt
      rw [List.getD_eq_getElem?_getD, List.getElem?_map, List.getElem?_range hpos]
      simp only [Option.map_some, Option.getD_some, List.foldl_map]
      apply List.foldl_ext
      intro acc m hm
      have hm' := List.mem_range.mp hm
      congr 1
      have hne : i ∉ extremesFirst f M := by simpa using hex
      have hcl : (column (live.map fun j => (normalizeCols f M).getD j []) m).length = live.length := by simp [column]
      rw [List.getD_eq_getElem?_getD, List.getElem?_map, List.getElem?_range (by rw [hcl]; exact hpos)]
      simp only [Option.map_some, Option.getD_some]
      exact scratch_cell f M m hm' live hl hmax i hil hne
    · rw [if_neg hil]
      have : live.idxOf? i = none := List.idxOf?_eq_none_iff.mpr hil
      rw [this]

/-! ### algebra: dividing the sum of the gaps = summing the divided gaps; order is kept by `/ c` -/

theorem div_fold (c : α) (a : Nat → α) : ∀ (l : List Nat) (acc : Ext α),
    Ext.mapFin (· / c) (l.foldl (fun acc m => Ext.add acc (Ext.fin (a m))) acc) =
      l.foldl (fun acc m => Ext.add acc (Ext.fin (a m / c))) (Ext.mapFin (· / c) acc)
  | [], acc => rfl
  | m :: t, acc => by
    simp only [List.foldl_cons]
    rw [div_fold c a t]
    congr 1
    cases acc <;> simp [Ext.add, Ext.mapFin, add_div]

theorem fold_fin_isFin (a : Nat → α) : ∀ (l : List Nat) (v : α),
    ∃ w, l.foldl (fun acc m => Ext.add acc (Ext.fin (a m))) (Ext.fin v) = Ext.fin w
  | [], v => ⟨v, rfl⟩
  | m :: t, v => by simp only [List.foldl_cons, Ext.add]; exact fold_fin_isFin a t _

theorem lt_mapFin (c : α) (hc : 0 < c) (a b : Ext α) :
    Ext.lt (Ext.mapFin (· / c) a) (Ext.mapFin (· / c) b) = Ext.lt a b := by
  cases a <;> cases b <;> simp [Ext.lt, Ext.mapFin, div_lt_div_iff_of_pos_right hc]

theorem getD_map_mapFin (c : α) (d : List (Ext α)) (j : Nat) :
    (d.map (Ext.mapFin (· / c))).getD j Ext.top = Ext.mapFin (· / c) (d.getD j Ext.top) := by
  rw [List.getD_eq_getElem?_getD, List.getD_eq_getElem?_getD, List.getElem?_map]
  cases d[j]? <;> simp [Ext.mapFin]

theorem dropLast_map (c : α) (hc : 0 < c) (d : List (Ext α)) (live : List Nat) :
    dropLast (d.map (Ext.mapFin (· / c))) live = dropLast d live := by
  unfold dropLast
  congr 1
  funext best i
  cases best with
  | none => rfl
  | some b => simp only [getD_map_mapFin, lt_mapFin c hc]

theorem ext_getD {β : Type} (dflt : β) (l₁ l₂ : List β) (hlen : l₁.length = l₂.length)
    (h : ∀ i, i < l₁.length → l₁.getD i dflt = l₂.getD i dflt) : l₁ = l₂ := by
  apply List.ext_getElem hlen
  intro i h1 h2
  have := h i h1
  rw [List.getD_eq_getElem?_getD, List.getD_eq_getElem?_getD, List.getElem?_eq_getElem h1,
    List.getElem?_eq_getElem h2] at this
  simpa using this

theorem prevOf_ne (s : List Nat) (hs : s.Nodup) (k : Nat) (hk : k ∈ s) (h0 : 0 < s.idxOf k) : prevOf s k ≠ k := by
  have hp := List.idxOf_lt_length_iff.mpr hk
  intro h
  unfold prevOf at h
  rw [getD_of_lt s _ (by omega)] at h
  have := idxOf_getElem_nodup s hs (s.idxOf k - 1) (by omega)
  rw [h] at this; omega

theorem nextOf_ne (s : List Nat) (hs : s.Nodup) (k : Nat) (hk : k ∈ s) (h1 : s.idxOf k + 1 < s.length) : nextOf s k ≠ k := by
  intro h
  unfold nextOf at h
  rw [getD_of_lt s _ h1] at h
  have := idxOf_getElem_nodup s hs (s.idxOf k + 1) h1
  rw [h] at this; omega

end C13
end Pymoode
