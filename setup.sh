#!/bin/sh
# Offline build of the Lean model, proofs and driver; then the axiom audit (cached for the checks).
cd "$(dirname "$0")" || exit 2
set -e
(cd lean && rm -rf .lake/build && lake build 2>&1 | grep -v "^✔\|^ℹ" | tail -40)
/venv/bin/python harness/audit.py --force 2>&1 | grep -v conda
# obligations generated from the current source of /repo (warm the cache; the checks re-generate on every run)
/venv/bin/python harness/translate.py 2>&1 | grep -v conda
