#!/bin/sh
# usage: tools/with_patch.sh <patch.diff> <command...>   -- applies the patch to /repo, runs the command, reverts
p="$1"; shift
git -C /repo apply "$p" || { echo "patch does not apply"; exit 3; }
"$@"; rc=$?
git -C /repo checkout -- . 
exit $rc
