#!/usr/bin/env python3
"""usage: tools/import_seeds.py <seed-dir> <verify-log> <round> : copies verified changes <seed-dir>/Cxx/<V>/ into
/verif/seeded/Cxx-<V>/ with a meta.json (only entries whose verify line shows demo_pristine=0 demo_patched=1 suite=0)."""
import json, os, re, shutil, sys
src, log, rnd = sys.argv[1], sys.argv[2], int(sys.argv[3])
ok = []
for l in open(log):
    m = re.match(r'%s/(C\d\d)/([A-Z]): (.*)' % re.escape(src.rstrip('/')), l.strip())
    if not m:
        continue
    pid, x, res = m.groups()
    if not ('demo_pristine=0' in res and 'demo_patched=1' in res and 'suite=0' in res):
        print('REJECTED', pid, x, res)
        continue
    s = '%s/%s/%s' % (src, pid, x)
    d = '/verif/seeded/%s-%s' % (pid, x)
    os.makedirs(d, exist_ok=True)
    for fn in ('patch.diff', 'demo.py', 'notes.md'):
        shutil.copy(s + '/' + fn, d + '/' + fn)
    notes = open(s + '/notes.md').read()
    files = sorted(set(re.findall(r'^diff --git a/(\S+)', open(s + '/patch.diff').read(), re.M)))
    meta = {"id": "%s-%s" % (pid, x), "property": pid, "files": files, "round": rnd,
            "source": "written by an independent sub-agent that was given only the text of the property and a scratch worktree (nothing from /verif), plus one line per earlier change to avoid",
            "needs_to_manifest": notes[:1800],
            "verified_by_me": {"how": "tools/verify_seed.sh: scratch worktree of /repo HEAD: demo.py on the pristine tree (expect exit 0), git apply patch.diff, demo.py (expect exit 1), the 69-test suite with the two always-failing perf tests deselected (expect pass), git checkout", "result": res}}
    json.dump(meta, open(d + '/meta.json', 'w'), indent=1)
    ok.append("%s-%s" % (pid, x))
print(' '.join(ok))
