#!/bin/sh
# usage: tools/verify_seed.sh <worktree> <dir-with patch.diff demo.py> : confirms a seeded change in a scratch worktree
# (demo passes pristine, fails patched, the 69-test suite passes patched). Prints one summary line.
wt=$1; d=$(readlink -f $2)
cd $wt || exit 2
git checkout -q -- . ; 
PYTHONPATH=$wt timeout 600 /venv/bin/python $d/demo.py > /tmp/vs.$$.p 2>&1; p0=$?
if ! git apply $d/patch.diff 2>/dev/null; then echo "$d: DOES-NOT-APPLY"; exit 1; fi
PYTHONPATH=$wt timeout 600 /venv/bin/python $d/demo.py > /tmp/vs.$$.q 2>&1; p1=$?
PYTHONPATH=$wt timeout 1500 /venv/bin/python -m pytest -q -p no:cacheprovider --timeout=900 -x --deselect tests/test_many.py::test_many_perf --deselect tests/test_multi.py::test_multi_perf > /tmp/vs.$$.t 2>&1; t=$?
git checkout -q -- .
echo "$d: demo_pristine=$p0 demo_patched=$p1 suite=$t $(tail -1 /tmp/vs.$$.t)"
rm -f /tmp/vs.$$.*
