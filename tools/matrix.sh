#!/bin/sh
# usage: tools/matrix.sh [REPO] : every seeded change x every claimed check (quick tier). Prints one line per pair.
# REPO defaults to /repo; with another path the checks import pymoode from there (PYTHONPATH) - used by `vp run --with-repo`.
REPO=${1:-/repo}
cd "$(dirname "$0")/.." || exit 2
if [ "$REPO" != "/repo" ]; then
  cp /repo/pymoode/cython/*.so "$REPO/pymoode/cython/" 2>/dev/null
  export PYTHONPATH="$REPO"
fi
props=$(python3 -c "import json;print(' '.join(c['property_id'] for c in json.load(open('MANIFEST.json'))['checks']))")
for d in seeded/*/; do
  id=$(basename $d)
  git -C $REPO checkout -q -- .
  if ! git -C $REPO apply "$(pwd)/$d/patch.diff" 2>/dev/null; then echo "$id DOES-NOT-APPLY"; continue; fi
  line="$id:"
  for p in $props; do
    ./check $p > /tmp/matrix.$$.out 2>&1; rc=$?
    if [ $rc -eq 1 ]; then
      if grep -q "no-failing-input-found" /tmp/matrix.$$.out && ! grep "^VIOLATION" /tmp/matrix.$$.out | grep -qv "no-failing-input-found"; then line="$line $p=corr"; else line="$line $p=VIOL"; fi
    elif [ $rc -ne 0 ]; then line="$line $p=rc$rc"; fi
  done
  git -C $REPO checkout -q -- .
  echo "$line"
done
rm -f /tmp/matrix.$$.out
