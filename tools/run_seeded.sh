#!/bin/sh
# usage: tools/run_seeded.sh <dir-with-<pid>/<variant>/patch.diff> [pid ...]
# applies every seeded change to /repo in turn, runs the property's quick check, reverts.
base=$(readlink -f ${1:-/verif/seeded}); shift
cd /verif
pids=${*:-$(ls $base)}
for pid in $pids; do
  for d in $base/$pid*; do
    for pd in $(find $d -name patch.diff | sort); do
      prop=$(echo $pid | cut -c1-3)
      git -C /repo checkout -q -- .
      if ! git -C /repo apply $pd 2>/dev/null; then echo "$pd: DOES NOT APPLY"; continue; fi
      ./check $prop > /tmp/run_seeded.out 2>&1; rc=$?
      git -C /repo checkout -q -- .
      echo "$pd: check $prop exit=$rc $(grep -c '^VIOLATION' /tmp/run_seeded.out) violation line(s); $(grep -m1 '^VIOLATION' /tmp/run_seeded.out | grep -o 'no-failing-input-found')"
    done
  done
done
