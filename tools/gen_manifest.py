#!/usr/bin/env python3
"""Regenerates MANIFEST.json from harness/plan.py (claimed = properties with a plan entry)."""
import json, sys, os
sys.path.insert(0, os.path.join(os.path.dirname(__file__), "..", "harness"))
import plan
props = [json.loads(l) for l in open('/verif/properties.jsonl')]
claimed = set(plan.PROPERTIES)
NA = getattr(plan, "NOT_APPLICABLE", {})
checks = []
for p in props:
    pid = p['id']
    if pid not in claimed:
        continue
    spec = plan.PROPERTIES[pid]
    checks.append({
        "property_id": pid,
        "quick_cmd": "./check %s --tier quick" % pid,
        "thorough_cmd": "./check %s --tier thorough" % pid,
        "evidence_file": "evidence/%s.json" % pid,
        "replay_cmd_template": "./check %s --replay {path}" % pid,
        "engine": "lean-proof+correspondence",
        "level_claimed": {"category": "proof",
                          "text": spec.get("level_text", "Lean 4 theorems about a scalar-generic model of the anchored code (all inputs, sizes and draws), tied to /repo on every run by executing the same definitions at Float on the recorded draws and comparing with the implementation; ") + spec.get("explanation", ""),
                          "design_ref": "DESIGN.md §5-" + pid},
        "level_note": "trusted: Lean kernel, axioms {propext, Classical.choice, Quot.sound}, hand-written model validated by differential execution on generated inputs, ordered-field arithmetic instead of IEEE rounding; " + "; ".join(spec.get("assumptions", [])),
        "technique": spec.get("technique", "Lean 4 machine-checked proof over a hand-written model + correspondence run (differential execution on recorded draws) against the implementation")})
m = {"version": 1, "setup_cmd": "./setup.sh",
     "hooks": {"guard": "PYMOODE_VERIF", "enable": "none needed: instrumentation is applied from the harness by wrapping numpy.random attributes and passing proxy objects", "baseline_off_cmd": "cd /repo && /venv/bin/python -m pytest -ra -q -p no:cacheprovider --timeout=900 --continue-on-collection-errors", "source_commits": [], "add_only": True},
     "engines": [{"name": "lean-proof+correspondence", "path": "lean/ harness/", "serves_properties": sorted(claimed), "kind_free_text": "Lean 4 theorems (lean/PymoodeProofs) about an executable model (lean/PymoodeModel), correspondence harness in Python (harness/)"}],
     "checks": checks,
     "notes": "fix: commits in /repo: 4164f17 (C09), 6497982 (C12), 97940a9 (C14), 0b0dc59 + 0962223 (C15), fc29a84 (C13); known findings F2-F4 (C13) and F9 (C14) in known_findings.json; seeded changes and what catches them: DESIGN.md section 11",
     "not_applicable": [{"property_id": p['id'], "reason": NA.get(p['id'], "check under construction in this round (model and correspondence not yet registered); see DESIGN.md §12 build order")} for p in props if p['id'] not in claimed]}
json.dump(m, open('/verif/MANIFEST.json', 'w'), indent=1)
print("claimed", sorted(claimed))
