#!/bin/sh
# usage: tools/run_seeded_par.sh [N [id ...]] : every seeded change against the check of its own property, on N scratch
# worktrees of /repo HEAD (under /tmp, removed afterwards) so that /repo itself stays untouched. One line per change.
N=${1:-4}
[ $# -gt 0 ] && shift
cd "$(dirname "$0")/.." || exit 2
VERIF=$(pwd)
export VERIF_NO_EVIDENCE=1      # runs against changed trees must not overwrite the evidence files
if [ $# -gt 0 ]; then for x in "$@"; do echo $x; done > /tmp/rsp.all; else ls seeded | sort > /tmp/rsp.all; fi
i=0
while [ $i -lt $N ]; do
  wt=/tmp/rsp_wt$i
  git -C /repo worktree remove --force $wt 2>/dev/null
  git -C /repo worktree add -q --detach $wt HEAD && cp /repo/pymoode/cython/*.so $wt/pymoode/cython/
  awk -v n=$N -v k=$i 'NR % n == k' /tmp/rsp.all > /tmp/rsp.list$i
  (
    export PYTHONPATH=$wt PYMOODE_REPO=$wt
    for id in $(cat /tmp/rsp.list$i); do
      prop=$(echo $id | cut -c1-3)
      git -C $wt checkout -q -- .
      if ! git -C $wt apply $VERIF/seeded/$id/patch.diff 2>/dev/null; then echo "$id DOES-NOT-APPLY"; continue; fi
      ./check $prop > /tmp/rsp.out$i 2>&1; rc=$?
      git -C $wt checkout -q -- .
      echo "$id check $prop exit=$rc viol=$(grep -c '^VIOLATION' /tmp/rsp.out$i) $(grep -m1 '^VIOLATION' /tmp/rsp.out$i | grep -o 'no-failing-input-found')"
    done
    git -C /repo worktree remove --force $wt
  ) &
  i=$((i+1))
done
wait
rm -f /tmp/rsp.*
