"""Component `stats` (C19): exact finite-sample tests of the operators' sampling laws on the real code.

Every test has a guaranteed false-alarm bound: counts use the exact two-sided binomial tail, empirical
distribution functions use the Dvoretzky-Kiefer-Wolfowitz inequality P(sup|F_n - F| > e) <= 2 exp(-2 n e^2).
Each individual comparison is run at level ALPHA_EACH = 1e-13; a quick run makes < 2000 comparisons, a
thorough one < 10^4, so the whole check has false-alarm probability <= 1e-9."""
import math
import numpy as np
from scipy import stats as st
from core import Record

NAME = "stats"
ALPHA_EACH = 1e-13

TESTS = ["bin-marginal", "bin-pair", "bin-forced", "exp-length", "exp-start", "dither", "dither-per-mating",
         "jitter", "parents-column", "parents-tuple", "bounce-back", "rand-init", "default-F"]


def gen(rng, n_cases, n_samples=20000):
    for t in range(n_cases):
        yield {"test": TESTS[t % len(TESTS)], "n": n_samples, "seed": int(rng.randint(1, 2**31 - 1)),
               "CR": float(rng.choice([0.1, 0.3, 0.5, 0.8, 0.95])), "d": int(rng.choice([1, 2, 3, 5, 8])),
               "lo": float(rng.choice([0.0, 0.3, 0.5])), "w": float(rng.choice([0.4, 1.0, 1.5])),
               "gamma": float(rng.choice([1e-4, 0.5, 1.0, 1.9])), "n_pop": int(rng.choice([5, 6, 8])),
               "kind": ["rand", "best", "current-to-rand", "rand-to-best", "ranked"][rng.randint(5)]}


def case_from_record(rec):
    return dict(rec.cfg)


def binom_bad(k, n, p):
    """exact two-sided binomial test at ALPHA_EACH"""
    if p <= 0:
        return k != 0
    if p >= 1:
        return k != n
    lo = st.binom.cdf(k, n, p)
    hi = st.binom.sf(k - 1, n, p)
    return 2 * min(lo, hi) < ALPHA_EACH


def dkw_bad(sample, cdf):
    """DKW: sup |F_n - F| against the bound for level ALPHA_EACH"""
    x = np.sort(np.asarray(sample, dtype=float))
    n = len(x)
    F = cdf(x)
    d = max(np.max(np.arange(1, n + 1) / n - F), np.max(F - np.arange(0, n) / n))
    eps = math.sqrt(math.log(2 / ALPHA_EACH) / (2 * n))
    return d > eps, d, eps


def unif_cdf(a, b):
    return lambda x: np.clip((x - a) / (b - a), 0, 1)


def run(c, replay=None):
    from pymoode.operators import dex, dem
    from pymoode.operators.dem import DEM
    from pymoode.operators.des import DES
    import comp_ops
    rec = Record(NAME, dict(c), {})
    bad = []
    n, d, CR = c["n"], c["d"], c["CR"]
    np.random.seed(c["seed"])
    t = c["test"]
    ncmp = 0
    try:
        if t == "bin-marginal":
            M = dex.cross_binomial(n, d, CR, at_least_once=False)
            for j in range(d):
                ncmp += 1
                if binom_bad(int(M[:, j].sum()), n, CR):
                    bad.append("binomial crossover: coordinate %d taken with frequency %.4f, CR = %r (n=%d)" % (j, M[:, j].mean(), CR, n))
        elif t == "bin-pair":
            dd = max(d, 2)
            M = dex.cross_binomial(n, dd, CR, at_least_once=False)
            for j in range(dd - 1):
                ncmp += 1
                k = int((M[:, j] & M[:, j + 1]).sum())
                if binom_bad(k, n, CR * CR):
                    bad.append("binomial crossover: coordinates %d,%d taken together with frequency %.4f, CR^2 = %.4f" % (j, j + 1, k / n, CR * CR))
        elif t == "bin-forced":
            dd = max(d, 2)
            M = dex.cross_binomial(n, dd, 0.0, at_least_once=True)
            cnt = M.sum(axis=1)
            if (cnt != 1).any():
                bad.append("CR = 0: %d of %d rows do not take exactly one coordinate" % (int((cnt != 1).sum()), n))
            else:
                pos = M.argmax(axis=1)
                for j in range(dd):
                    ncmp += 1
                    if binom_bad(int((pos == j).sum()), n, 1.0 / dd):
                        bad.append("forced coordinate %d chosen with frequency %.4f, expected 1/%d" % (j, (pos == j).mean(), dd))
        elif t in ("exp-length", "exp-start"):
            dd = max(d, 2)
            nn = min(n, 20000)      # python loop inside cross_exp
            M = dex.cross_exp(nn, dd, CR, at_least_once=False)
            L = M.sum(axis=1)
            if t == "exp-length":
                for k in range(dd + 1):
                    p = CR ** k * (1 - CR) if k < dd else CR ** dd
                    ncmp += 1
                    if binom_bad(int((L == k).sum()), nn, p):
                        bad.append("exponential crossover: block length %d has frequency %.4f, geometric law gives %.4f (CR=%r, n_var=%d)" % (
                            k, (L == k).mean(), p, CR, dd))
            else:
                rows = [i for i in range(nn) if 0 < L[i] < dd]
                starts = []
                for i in rows:
                    r = M[i]
                    s = [j for j in range(dd) if r[j] and not r[(j - 1) % dd]]
                    if len(s) != 1:
                        bad.append("exponential crossover: a mask row is not one circular block")
                        break
                    starts.append(s[0])
                starts = np.array(starts)
                for j in range(dd):
                    ncmp += 1
                    if len(starts) and binom_bad(int((starts == j).sum()), len(starts), 1.0 / dd):
                        bad.append("exponential crossover: block starts at %d with frequency %.4f, expected 1/%d" % (j, (starts == j).mean(), dd))
        elif t in ("dither", "dither-per-mating", "default-F"):
            lo, hi = (c["lo"], c["lo"] + c["w"]) if t != "default-F" else (0.0, 1.0)
            op = DEM(F=None if t == "default-F" else (lo, hi), gamma=None)
            dd = max(d, 2)
            X = np.zeros((3, n, dd))
            X[1] = 1.0
            V, diffs = op.de_mutation(X, return_differentials=True)
            f = diffs[:, 0]
            ncmp += 1
            b, dist, eps = dkw_bad(f, unif_cdf(lo, hi))
            if b or f.min() < lo or f.max() > hi:
                bad.append("dithered scale factor is not uniform over [%r, %r]: KS distance %.4f > %.4f (min %.4f max %.4f mean %.4f)" % (
                    lo, hi, dist, eps, f.min(), f.max(), f.mean()))
            if t == "dither-per-mating" and not (diffs == diffs[:, [0]]).all():
                bad.append("dithered scale factor differs between the coordinates of one mating")
            if t == "dither-per-mating":
                X5 = np.zeros((5, n, 1))
                X5[1] = 1.0
                X5[3] = 1.0
                V5, d5 = DEM(F=(lo, hi), gamma=None, n_diffs=2).de_mutation(X5, return_differentials=True)
                ncmp += 1
                b, dist, eps = dkw_bad(d5[:, 0] / 2, lambda x: np.clip(np.where(x < (lo + hi) / 2,
                                        2 * ((x - lo) / (hi - lo)) ** 2, 1 - 2 * ((hi - x) / (hi - lo)) ** 2), 0, 1))
                if b:
                    bad.append("two difference vectors do not use independent uniform scale factors (KS %.4f > %.4f)" % (dist, eps))
        elif t == "jitter":
            g = c["gamma"]
            op = DEM(F=1.0, gamma=g)
            dd = max(d, 2)
            X = np.zeros((3, n, dd))
            X[1] = 1.0
            V, diffs = op.de_mutation(X, return_differentials=True)
            for j in range(min(dd, 2)):
                ncmp += 1
                b, dist, eps = dkw_bad(diffs[:, j], unif_cdf(1 - g / 2, 1 + g / 2))
                if b:
                    bad.append("jitter factor is not uniform on [1 - g/2, 1 + g/2], g = %r: KS distance %.4f > %.4f, mean %.5f" % (g, dist, eps, diffs[:, j].mean()))
            ncmp += 1
            k = int(((diffs[:, 0] > 1) & (diffs[:, 1] > 1)).sum())
            if binom_bad(k, n, 0.25):
                bad.append("jitter of two coordinates is not independent (both above 1 with frequency %.4f)" % (k / n))
        elif t in ("parents-column", "parents-tuple"):
            n_pop, kind = c["n_pop"], c["kind"]
            n_par = 3
            pop = comp_ops.Des.make_pop(n_pop, list(range(n_pop)) if kind == "ranked" else None)
            reps = max(1, n // n_pop)
            import warnings
            Ps = []
            with warnings.catch_warnings():
                warnings.simplefilter("ignore")
                for _ in range(reps):
                    Ps.append(DES(kind)._do(None, pop, n_pop, n_par))
            P = np.stack(Ps)        # reps x n_pop x n_par
            if t == "parents-column":
                # a randomly drawn column, per target: uniform over the admissible individuals
                col = {"rand": 0, "best": 1, "current-to-rand": 1, "rand-to-best": 0, "ranked": None}[kind]
                for i in range(n_pop):
                    adm = [v for v in range(n_pop) if v != i and not (kind in ("best", "rand-to-best") and v == 0)]
                    if kind == "ranked":
                        vals = P[:, i, :].reshape(-1)      # the multiset of drawn parents
                        tot = len(vals)
                    else:
                        vals = P[:, i, col]
                        tot = reps
                    for v in range(n_pop):
                        ncmp += 1
                        p = (1.0 / len(adm)) if v in adm else 0.0
                        if binom_bad(int((vals == v).sum()), tot, p):
                            bad.append("%s: individual %d drawn as parent of target %d with frequency %.4f, expected %.4f" % (
                                kind, v, i, (vals == v).mean(), p))
            else:
                if kind == "rand":
                    i = 1
                    tuples = [tuple(r) for r in P[:, i, :]]
                    from collections import Counter
                    cnt = Counter(tuples)
                    adm = [v for v in range(n_pop) if v != i]
                    import itertools
                    allt = list(itertools.permutations(adm, 3))
                    for tp in allt:
                        ncmp += 1
                        if binom_bad(cnt.get(tp, 0), reps, 1.0 / len(allt)):
                            bad.append("rand: parent triple %s of target %d has frequency %.5f, expected %.5f" % (tp, i, cnt.get(tp, 0) / reps, 1.0 / len(allt)))
                            break
        elif t in ("bounce-back", "rand-init"):
            fn = dem.bounce_back if t == "bounce-back" else dem.rand_init
            xl, xu = np.array([-1.0, 2.0]), np.array([3.0, 7.0])
            Xb = np.tile(np.array([[0.5, 4.0]]), (n, 1))
            X = np.column_stack([np.full(n, -5.0), np.full(n, 9.0)])      # col 0 below, col 1 above
            R = fn(X.copy(), Xb, xl, xu)
            if t == "bounce-back":
                u0 = (R[:, 0] - xl[0]) / (Xb[:, 0] - xl[0])
                u1 = (xu[1] - R[:, 1]) / (xu[1] - Xb[:, 1])
            else:
                u0 = (R[:, 0] - xl[0]) / (xu[0] - xl[0])
                u1 = (xu[1] - R[:, 1]) / (xu[1] - xl[1])
            for nm, u in (("lower", u0), ("upper", u1)):
                ncmp += 1
                b, dist, eps = dkw_bad(u, unif_cdf(0.0, 1.0))
                if b:
                    bad.append("%s: coordinates repaired at the %s bound are not uniform on their segment (KS %.4f > %.4f, mean position %.4f)" % (
                        t, nm, dist, eps, u.mean()))
    except Exception as e:
        import traceback
        rec.err = "%s: %s | %s" % (type(e).__name__, e, traceback.format_exc()[-400:])
    rec.out["bad"] = bad
    rec.out["comparisons"] = ncmp
    rec.tags.add("test:" + t)
    return rec


def encode(rec):
    raise ValueError("skipped")


def compare(rec, ans):
    return []


def nontrivial(rec):
    return rec.err is None and rec.out.get("comparisons", 0) > 0


def oracle_C19(rec):
    if rec.err is not None:
        return ["operator raised: " + rec.err]
    return rec.out["bad"][:3]


ORACLES = {"C19": oracle_C19}
