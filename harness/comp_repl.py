"""Component `repl`: ImprovementReplacement().do(problem, pop, off) (single-objective one-to-one replacement)."""
import numpy as np
import proto
from core import Record, bits_equal
from rng import Recorder

NAME = "repl"


def gen(rng, n_cases):
    for t in range(n_cases):
        n = int(rng.randint(1, 11))
        d = int(rng.randint(1, 4))
        n_ieq = int(rng.choice([0, 0, 1, 2]))
        n_eq = int(rng.choice([0, 0, 0, 1]))
        levels = int(rng.choice([2, 3, 5, 50]))
        X = rng.randint(0, levels, size=(2 * n, d)).astype(float) / max(levels - 1, 1)
        if rng.randint(3) == 0:
            X = rng.random_sample((2 * n, d))
        # injected duplicates: offspring equal to a parent / to an earlier offspring
        for _ in range(rng.randint(0, 3)):
            a, b = rng.randint(n, 2 * n), rng.randint(0, 2 * n)
            X[a] = X[b]
        # numerically equal but not bitwise equal decision vectors: signed zeros
        if rng.randint(3) == 0:
            X = np.where((X == 0) & (rng.random_sample(X.shape) < 0.5), -0.0, X)
        # decision variables in very small units: distinct vectors closer to each other than 1e-16
        unit = 1.0
        if rng.randint(8) == 0:
            unit = float(rng.choice([1e-17, 1e-20, 1e-30]))
            X = X * unit
        # integer-coded parents (integer dtype) against float offspring
        int_pop = bool(rng.randint(6) == 0 and np.all(X[:n] == np.round(X[:n])))
        # individuals carrying a feasibility tolerance (config["cv_eps"] > 0, as under pymoo's epsilon constraint handling)
        cv_eps = float(rng.choice([0.02, 0.2, 1.0])) if rng.randint(5) == 0 else 0.0
        yield {"unit": unit, "X": X[:n], "Xo": X[n:], "int_pop": int_pop, "cv_eps": cv_eps, "n_ieq": n_ieq, "n_eq": n_eq, "pseed": int(rng.randint(1000)),
               "grid": [None, 0.5, 0.1][rng.randint(3)], "shift": float(rng.choice([-1.0, 0.0, 1.0, 3.0])),
               "warm": bool(rng.randint(3) == 0), "shared_default": bool(rng.randint(2)),
               "mode": ["normal", "normal", "normal", "off-none", "inplace"][rng.randint(5)],
               # offspring whose objective is undefined (NaN) where they landed: never "strictly better" than anything
               "nan_off": [int(i) for i in np.nonzero(rng.random_sample(n) < 0.4)[0]] if rng.randint(5) == 0 else [],
               "seed": int(rng.randint(2**31 - 1))}


def case_from_record(rec):
    c = dict(rec.cfg)
    c.update({"X": rec.inp["X"], "Xo": rec.inp["Xo"]})
    return c


def _problem(d, n_ieq, n_eq, pseed, grid, shift, unit=1.0):
    from problems import GenProblem
    return GenProblem(d, 1, n_ieq, n_eq, xl=np.zeros(d), xu=np.ones(d) * unit, seed=pseed, grid=grid if unit == 1.0 else None, shift=shift)


def run(case, replay=None):
    from pymoo.core.population import Population
    from pymoo.core.evaluator import Evaluator
    from pymoode.survival.replacement import ImprovementReplacement
    cfgk = ("n_ieq", "n_eq", "pseed", "grid", "shift", "warm", "shared_default", "seed")
    case = dict(case, nan_off=list(case.get("nan_off") or []))
    rec = Record(NAME, dict({k: case[k] for k in cfgk}, int_pop=bool(case.get("int_pop")), cv_eps=float(case.get("cv_eps") or 0.0), nan_off=list(case.get("nan_off") or [])), {"X": np.array(case["X"], dtype=float), "Xo": np.array(case["Xo"], dtype=float)})
    mode = case.get("mode", "normal")
    rec.cfg["mode"] = mode
    if mode == "single":
        rec.inp["X"], rec.inp["Xo"] = rec.inp["X"][:1], rec.inp["Xo"][:1]
    X, Xo = rec.inp["X"], rec.inp["Xo"]
    n, d = X.shape
    prob = _problem(d, case["n_ieq"], case["n_eq"], case["pseed"], case["grid"], case["shift"], float(case.get("unit") or 1.0))
    if float(case.get("unit") or 1.0) != 1.0:
        rec.tags.add("tiny-units")
    rec.cfg["unit"] = float(case.get("unit") or 1.0)
    pop = Population.new("X", X.astype(np.int64) if case.get("int_pop") else X.copy())
    if case.get("int_pop"):
        rec.tags.add("int-dtype-parents")
    if (np.signbit(X) & (X == 0)).any() or (np.signbit(Xo) & (Xo == 0)).any():
        rec.tags.add("signed-zero")
    off = Population.new("X", Xo.copy())
    Evaluator().eval(prob, pop)
    Evaluator().eval(prob, off)
    if case.get("nan_off") and mode != "single" and not prob.has_constraints():
        # (unconstrained problems only: a NaN-objective offspring that legitimately enters by becoming feasible would leave
        # the best-first order of the population undefined)
        for i in case["nan_off"]:
            if i < len(off):
                off[i].F = np.array([np.nan])
        rec.tags.add("nan-objective-offspring")
    if case.get("cv_eps"):
        for P in (pop, off):
            for ind in P:
                ind.config = dict(ind.config)
                ind.config["cv_eps"] = float(case["cv_eps"])
        rec.tags.add("cv_eps>0")
    for nm, P in (("pop", pop), ("off", off)):
        rec.inp[nm + "_F"] = np.array(P.get("F"), dtype=float).reshape(n)
        rec.inp[nm + "_CV"] = np.array(P.get("CV"), dtype=float).reshape(n)
        rec.inp[nm + "_feas"] = np.array(P.get("feasible"), dtype=bool).reshape(n)
    rec.cfg["constr"] = bool(prob.has_constraints())
    snap = [np.array(P.get(k), copy=True) for P in (pop, off) for k in ("X", "F")]
    np.random.seed(case["seed"])
    with Recorder("replay" if replay is not None else "record", replay) as R:
        try:
            if case["shared_default"]:
                # the operator object every DE() built with default arguments shares
                from pymoode.algorithms import DE
                import inspect
                op = inspect.signature(DE.__init__).parameters["survival"].default
            else:
                op = ImprovementReplacement()
            if case["warm"]:
                # history: the same operator object served a problem of the other kind before
                other = _problem(d, 0 if prob.has_constraints() else 1, 0, case["pseed"] + 1, None, 0.0)
                p2, o2 = Population.new("X", X.copy()), Population.new("X", Xo.copy())
                Evaluator().eval(other, p2)
                Evaluator().eval(other, o2)
                op.do(other, p2, o2)
                rec.tags.add("warm")
            pos = {id(ind): i for i, ind in enumerate(pop)}
            pos.update({id(ind): n + i for i, ind in enumerate(off)})
            if mode == "off-none":
                # no offspring: fitness assignment only
                out = op.do(prob, pop, None)
                rec.out["mask"] = np.zeros(n, dtype=bool)
            elif mode == "int-k":
                # used as a traditional survival: merged population, the offspring start at position k
                merged = Population.merge(pop, off)
                rec.out["mask"] = np.array(op.do(prob, merged, n, return_indices=True), dtype=bool)
                out = op.do(prob, merged, n)
            elif mode == "inplace":
                rec.out["mask"] = np.array(op.do(prob, pop, off, return_indices=True), dtype=bool)
                pop2 = pop.copy()
                out = op.do(prob, pop2, off, inplace=True)
                exp = [n + i if rec.out["mask"][i] else i for i in range(n)]
                if [pos.get(id(ind), -1) for ind in pop2] != exp:
                    rec.frames.append("inplace=True did not write the accepted offspring into the given population")
            elif mode == "single":
                rec.out["mask"] = np.atleast_1d(np.array(op.do(prob, pop[0], off[0], return_indices=True), dtype=bool))
                out = op.do(prob, pop[0], off[0])
            else:
                mask = op.do(prob, pop, off, return_indices=True)
                rec.out["mask"] = np.array(mask, dtype=bool)
                out = op.do(prob, pop, off)
            rec.out["ids"] = np.array([pos.get(id(ind), -1) for ind in out], dtype=int)
            rec.out["rank"] = np.array([-1 if r is None else int(r) for r in out.get("rank")], dtype=int)
            rec.out["pop_after"] = np.array([pos.get(id(ind), -1) for ind in pop], dtype=int)
        except Exception as e:
            rec.err = "%s: %s" % (type(e).__name__, e)
    rec.draws = R.log if replay is None else list(replay)
    rec.foreign = list(R.foreign)
    if rec.draws:
        rec.frames.append("replacement consumed random draws")
    now = [np.array(P.get(k)) for P in (pop, off) for k in ("X", "F")]
    for a, b, nm in zip(snap, now, ("pop X", "pop F", "off X", "off F")):
        if not bits_equal(a, b):
            rec.frames.append("%s modified by replacement" % nm)
    if rec.err is None and list(rec.out["pop_after"]) != list(range(n)):
        rec.frames.append("input population object was modified (inplace=False)")
    rec.tags.add("constr:%d" % int(rec.cfg["constr"]))
    if rec.err is None:
        if rec.out["mask"].any():
            rec.tags.add("replaced")
        if (~rec.out["mask"]).any():
            rec.tags.add("kept")
    return rec


def _inds(rec, who):
    X = rec.inp["X"] if who == "pop" else rec.inp["Xo"]
    return proto.fmat(X) + proto.flist(rec.inp[who + "_F"]) + proto.flist(rec.inp[who + "_CV"]) \
        + proto.ilist(rec.inp[who + "_feas"].astype(int))


def encode(rec):
    if rec.cfg.get("mode") == "off-none":
        return " ".join(["fitsort"] + _inds(rec, "pop"))
    return " ".join([NAME, "1" if rec.cfg["constr"] else "0"] + _inds(rec, "pop") + _inds(rec, "off"))


def compare(rec, ans):
    status = ans.tok()
    if status == "err":
        return [] if rec.err is not None else ["model rejects the record: " + ans.rest()]
    if rec.err is not None:
        return ["implementation raised %s" % rec.err]
    if rec.cfg.get("mode") == "off-none":
        ids = ans.ilist()
        return [] if ids == list(rec.out["ids"]) else ["fitness-sorted population differs: impl %s model %s" % (list(rec.out["ids"]), ids)]
    mask = [bool(x) for x in ans.ilist()]
    ids = ans.ilist()
    out = []
    if mask != [bool(x) for x in rec.out["mask"]]:
        out.append("replacement mask differs: impl %s model %s" % (rec.out["mask"].astype(int).tolist(), [int(x) for x in mask]))
    if ids != list(rec.out["ids"]):
        out.append("next population differs: impl %s model %s" % (list(rec.out["ids"]), ids))
    return out


def nontrivial(rec):
    return rec.err is None and "replaced" in rec.tags and "kept" in rec.tags


def better(constr, pf, pcv, pfeas, of, ocv, ofeas):
    if not constr:
        return of < pf
    if not pfeas and not ofeas:
        return ocv < pcv
    if not pfeas and ofeas:
        return True
    if pfeas and ofeas:
        return of < pf
    return False


def oracle_C02(rec):
    if rec.err is not None:
        return ["replacement raised: " + rec.err]
    X, Xo = rec.inp["X"], rec.inp["Xo"]
    n = len(X)
    bad = list(rec.frames)
    ids = [int(i) for i in rec.out["ids"]]
    if len(ids) != n:
        bad.append("population size changed: %d -> %d" % (n, len(ids)))
        return bad
    pf, pcv, pfe = rec.inp["pop_F"], rec.inp["pop_CV"], rec.inp["pop_feas"]
    of, ocv, ofe = rec.inp["off_F"], rec.inp["off_CV"], rec.inp["off_feas"]
    S = set(ids)
    for k in range(n if rec.cfg.get("mode") != "off-none" else 0):
        has_p, has_o = k in S, (n + k) in S
        if has_p == has_o:
            bad.append("slot %d holds %s" % (k, "both parent and offspring" if has_p else "neither its parent nor its offspring"))
            continue
        dup = any((Xo[j] == Xo[k]).all() for j in range(k)) or any((X[j] == Xo[k]).all() for j in range(n))
        want = better(rec.cfg["constr"], pf[k], pcv[k], pfe[k], of[k], ocv[k], ofe[k]) and not dup
        if want != has_o:
            bad.append("slot %d: offspring %s but it is %sstrictly better and %sa duplicate" % (
                k, "entered" if has_o else "was rejected", "" if want or dup else "not ", "" if dup else "not "))
    if rec.cfg.get("cv_eps"):
        # with a feasibility tolerance the final ordering (raw CV first) and the better-relation (tolerant feasibility
        # first) are two different orders: only the slot rule is judged on these records
        if list(rec.out["rank"]) != list(range(n)):
            bad.append("rank attributes %s are not the positions" % list(rec.out["rank"]))
        return bad
    # best-first order and rank = position
    F = np.concatenate([pf, of])
    CV = np.concatenate([pcv, ocv])
    keys = [(CV[i], F[i]) for i in ids]
    if any(keys[k] > keys[k + 1] for k in range(n - 1)):
        bad.append("resulting population is not ordered best-first by (CV, F)")
    if list(rec.out["rank"]) != list(range(n)):
        bad.append("rank attributes %s are not the positions" % list(rec.out["rank"]))
    # never loses ground
    old_best = min((pcv[k], pf[k]) for k in range(n))
    if keys and keys[0] > old_best:
        bad.append("best solution got worse: %s -> %s" % (old_best, keys[0]))
    return bad


ORACLES = {"C02": oracle_C02}


def shrink_candidates(rec):
    c = case_from_record(rec)
    c["mode"] = rec.cfg.get("mode", "normal")
    n = len(c["X"])
    for i in range(n):
        if n > 1:
            keep = [j for j in range(n) if j != i]
            yield dict(c, X=c["X"][keep], Xo=c["Xo"][keep])
