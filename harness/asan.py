"""AddressSanitizer cross-check of the compiled kernels (thorough tier of C13, supporting evidence only).

The generated C++ of the *working tree* (pymoode/cython/*.cpp) is rebuilt outside /repo with
-fsanitize=address and loaded in a child interpreter under LD_PRELOAD=libasan; the kernel model's
out-of-bounds predictions are compared with what ASan reports on the same fronts."""
import glob
import hashlib
import os
import pickle
import subprocess
import sys
import sysconfig

REPO = os.environ.get("PYMOODE_REPO", "/repo")
OUT = "/root/scratch/verif_asan"

CHILD = r'''
import sys, pickle, importlib.machinery, importlib.util, os
import numpy as np
so_dir, jobs_path = sys.argv[1], sys.argv[2]
def load(name):
    path = [p for p in os.listdir(so_dir) if p.startswith(name + ".")][0]
    full = "pymoode.cython." + name
    loader = importlib.machinery.ExtensionFileLoader(full, os.path.join(so_dir, path))
    spec = importlib.util.spec_from_loader(full, loader)
    m = importlib.util.module_from_spec(spec)
    loader.exec_module(m)
    return m
job = pickle.load(open(jobs_path, "rb"))
mod = load("pruning_cd" if job["fn"] == "c_pcd" else "mnn")
f = {"c_pcd": "calc_pcd", "c_mnn": "calc_mnn", "c_2nn": "calc_2nn"}[job["fn"]]
r = getattr(mod, f)(np.array(job["F"], dtype=float), int(job["n_remove"]))
print("RESULT-OK", len(np.asarray(r)))
'''


def build():
    """returns (dir with the ASan-instrumented extensions, note) or (None, reason)"""
    srcs = [os.path.join(REPO, "pymoode", "cython", n + ".cpp") for n in ("pruning_cd", "mnn")]
    if not all(os.path.exists(s) for s in srcs):
        return None, "generated .cpp not found"
    h = hashlib.sha1(b"".join(open(s, "rb").read() for s in srcs)).hexdigest()[:12]
    d = os.path.join(OUT, h)
    ext = sysconfig.get_config_var("EXT_SUFFIX")
    if all(os.path.exists(os.path.join(d, n + ext)) for n in ("pruning_cd", "mnn")):
        return d, "cached"
    os.makedirs(d, exist_ok=True)
    import numpy
    inc = [sysconfig.get_paths()["include"], numpy.get_include(), REPO]
    for s, n in zip(srcs, ("pruning_cd", "mnn")):
        cmd = ["g++", "-O1", "-g", "-fsanitize=address", "-fno-omit-frame-pointer", "-shared", "-fPIC", "-w", "-std=c++17"] \
            + ["-I" + i for i in inc] + [s, "-o", os.path.join(d, n + ext)]
        p = subprocess.run(cmd, stdout=subprocess.PIPE, stderr=subprocess.STDOUT)
        if p.returncode != 0:
            return None, "g++ failed: " + p.stdout.decode()[-300:]
    return d, "built"


def run_job(so_dir, job, timeout=120):
    libasan = subprocess.run(["g++", "-print-file-name=libasan.so"], stdout=subprocess.PIPE).stdout.decode().strip()
    os.makedirs(OUT, exist_ok=True)
    jp = os.path.join(OUT, "job_%d.pkl" % os.getpid())
    pickle.dump(job, open(jp, "wb"))
    env = dict(os.environ, LD_PRELOAD=libasan, ASAN_OPTIONS="detect_leaks=0:halt_on_error=1:abort_on_error=0")
    try:
        p = subprocess.run([sys.executable, "-c", CHILD, so_dir, jp], stdout=subprocess.PIPE, stderr=subprocess.PIPE, env=env, timeout=timeout)
    finally:
        try:
            os.remove(jp)
        except OSError:
            pass
    err = p.stderr.decode(errors="replace")
    rep = None
    if "ERROR: AddressSanitizer" in err:
        kind = err.split("ERROR: AddressSanitizer: ")[1].split()[0]
        frames = [l.split(" in ")[1].split()[0] for l in err.splitlines() if l.strip().startswith("#") and " in " in l][:4]
        rep = {"kind": kind, "frames": frames}
    return {"returncode": p.returncode, "asan": rep, "ok": "RESULT-OK" in p.stdout.decode()}
