"""Recording / replaying wrappers for the numpy.random primitives pymoode draws from.

Applied from outside the repository by replacing attributes of the `numpy.random`
module (pymoode and pymoo call `np.random.<fn>` at call time, so they pick the
wrappers up).  No repository hook is needed.
"""
import sys
import random as _pyrandom
import numpy as np

_WRAPPED = ["random", "choice", "randint", "permutation"]
# other entry points: recorded as 'foreign' events so that a draw taken through them
# is seen (the models do not expect them -> correspondence mismatch)
_TRIPWIRES = ["rand", "random_sample", "uniform", "shuffle", "normal", "randn", "sample", "ranf",
              "standard_normal", "default_rng"]
_PY_RANDOM = ["random", "randrange", "randint", "uniform", "choice", "shuffle", "sample", "gauss"]


class Event:
    __slots__ = ("name", "args", "vals", "caller")

    def __init__(self, name, args, vals, caller):
        self.name, self.args, self.vals, self.caller = name, list(args), vals, caller

    def tojson(self):
        return {"name": self.name, "args": self.args,
                "vals": [float(v) if self.name == "random" else int(v) for v in self.vals],
                "caller": self.caller}

    @staticmethod
    def fromjson(d):
        return Event(d["name"], d["args"], list(d["vals"]), d.get("caller", "?"))


def _caller(depth=2):
    try:
        f = sys._getframe(depth)
        fn = f.f_code.co_filename
        i = fn.find("site-packages/")
        if i >= 0:
            fn = fn[i + 14:]
        else:
            j = fn.find("pymoode/")
            if j >= 0:
                fn = fn[j:]
        return "%s:%s" % (fn, f.f_code.co_name)
    except Exception:
        return "?"


def _shape_args(size):
    if size is None:
        return [-1]
    if isinstance(size, (int, np.integer)):
        return [1, int(size)]
    size = tuple(int(s) for s in size)
    return [len(size)] + list(size)


MAX_EVENTS = 5000


class NonTermination(RuntimeError):
    pass


class _CappedLog(list):
    """a rejection loop that cannot succeed would draw for ever (and the log would grow without bound):
    after MAX_EVENTS draws in one recorded call the call is abandoned and reported"""

    def append(self, e):
        if len(self) >= MAX_EVENTS:
            raise NonTermination("more than %d random draws in one call: a redraw loop does not terminate" % MAX_EVENTS)
        list.append(self, e)


class Recorder:
    """Context manager. mode='record': call the real generator and log; mode='replay':
    return the logged values (falling back to the real generator, and flagging
    `diverged`, when the code asks for something the log does not have next)."""

    def __init__(self, mode="record", log=None):
        self.mode = mode
        self.log = _CappedLog() if mode == "record" else list(log)
        self.pos = 0
        self.diverged = None
        self.foreign = []
        self._saved = {}
        self.paused = False

    # -- wrappers --------------------------------------------------------------------------
    def _next(self, name, args, n):
        if self.diverged is None and self.pos < len(self.log):
            e = self.log[self.pos]
            if e.name == name and list(e.args) == list(args) and len(e.vals) == n:
                self.pos += 1
                return e.vals
            self.diverged = "at event %d: code asks %s%s (%d values), log has %s%s (%d values)" % (
                self.pos, name, args, n, e.name, e.args, len(e.vals))
        elif self.diverged is None:
            self.diverged = "log exhausted at event %d: code asks %s%s" % (self.pos, name, args)
        return None

    def _random(self, size=None):
        orig = self._saved["random"]
        if self.paused:
            return orig(size)
        args = _shape_args(size)
        if self.mode == "record":
            r = orig(size)
            self.log.append(Event("random", args, np.atleast_1d(r).ravel().tolist(), _caller()))
            return r
        n = 1 if size is None else int(np.prod(size))
        v = self._next("random", args, n)
        if v is None:
            return orig(size)
        if size is None:
            return float(v[0])
        return np.array(v, dtype=float).reshape(size)

    def _choice(self, a, size=None, replace=True, p=None):
        orig = self._saved["choice"]
        if self.paused:
            return orig(a, size, replace, p)
        if not isinstance(a, (int, np.integer)) or not replace or p is not None or size is None \
                or not isinstance(size, (int, np.integer)):
            r = orig(a, size, replace, p)
            self.foreign.append(("choice(non-standard)", _caller()))
            if self.mode == "record":
                self.log.append(Event("choice_other", [-1], [], _caller()))
            return r
        args = [int(a), int(size)]
        if self.mode == "record":
            r = orig(a, size)
            self.log.append(Event("choice", args, np.asarray(r).ravel().tolist(), _caller()))
            return r
        v = self._next("choice", args, int(size))
        if v is None:
            return orig(a, size)
        return np.array(v, dtype=int)

    def _randint(self, low, high=None, size=None, dtype=int):
        orig = self._saved["randint"]
        if self.paused:
            return orig(low, high, size, dtype)
        if size is not None and not isinstance(size, (int, np.integer)):
            r = orig(low, high, size, dtype)
            if self.mode == "record":
                self.log.append(Event("randint_other", [-1], [], _caller()))
            return r
        if high is None:
            lo, hi = 0, int(low)
        else:
            lo, hi = int(low), int(high)
        args = [lo, hi, -1 if size is None else int(size)]
        if self.mode == "record":
            r = orig(low, high, size, dtype)
            self.log.append(Event("randint", args, np.atleast_1d(r).ravel().tolist(), _caller()))
            return r
        n = 1 if size is None else int(size)
        v = self._next("randint", args, n)
        if v is None:
            return orig(low, high, size, dtype)
        if size is None:
            return int(v[0])
        return np.array(v, dtype=int)

    def _permutation(self, x):
        orig = self._saved["permutation"]
        if self.paused:
            return orig(x)
        if not isinstance(x, (int, np.integer)):
            # permutation of an array: record the index permutation
            n = len(x)
            if self.mode == "record":
                idx = orig(n)
                self.log.append(Event("permutation", [n], idx.tolist(), _caller()))
                return np.asarray(x)[idx]
            v = self._next("permutation", [n], n)
            if v is None:
                return orig(x)
            return np.asarray(x)[np.array(v, dtype=int)]
        n = int(x)
        if self.mode == "record":
            r = orig(n)
            self.log.append(Event("permutation", [n], r.tolist(), _caller()))
            return r
        v = self._next("permutation", [n], n)
        if v is None:
            return orig(n)
        return np.array(v, dtype=int)

    def _tripwire(self, name):
        orig = self._saved[name]

        def w(*a, **k):
            if self.paused:
                return orig(*a, **k)
            # another entry point of numpy's *global* generator: reproducible under the seed, but not
            # one of the primitives the operator models know -> logged as an event they cannot consume
            if name == "default_rng":
                self.foreign.append((name, _caller()))
            if self.mode == "record":
                self.log.append(Event("other_" + name, [-1], [], _caller()))
            return orig(*a, **k)
        return w

    def __enter__(self):
        for n in _WRAPPED + _TRIPWIRES:
            if hasattr(np.random, n):
                self._saved[n] = getattr(np.random, n)
        np.random.random = self._random
        np.random.choice = self._choice
        np.random.randint = self._randint
        np.random.permutation = self._permutation
        for n in _TRIPWIRES:
            if n in self._saved:
                setattr(np.random, n, self._tripwire(n))
        for n in _PY_RANDOM:
            self._saved["py_" + n] = getattr(_pyrandom, n)
            setattr(_pyrandom, n, self._py_tripwire(n))
        return self

    def _py_tripwire(self, n):
        orig = self._saved["py_" + n]

        def w(*a, **k):
            if not self.paused:
                self.foreign.append(("random." + n, _caller()))
                if self.mode == "record":
                    self.log.append(Event("foreign_pyrandom", [-1], [], _caller()))
            return orig(*a, **k)
        return w

    def _unused(self):
        return self

    def __exit__(self, *exc):
        for n, f in self._saved.items():
            if n.startswith("py_"):
                setattr(_pyrandom, n[3:], f)
            else:
                setattr(np.random, n, f)
        return False

    def exhausted(self):
        return self.pos == len(self.log)
