"""Component `crowd3`: every crowding metric on generated fronts, both engines, raw kernels and the
CrowdingDiversity wrappers; compiled pcd with >= 3 objectives runs in isolated workers and only on
inputs for which the Lean kernel model predicts no out-of-bounds access."""
import numpy as np
import proto
import isolate
from core import Record, bits_equal

NAME = "crowd3"
METRICS = ["cd", "pcd", "ce", "mnn", "2nn"]
# further ways to name a metric (glue of get_crowding_function): alias, user callable, CrowdingDiversity instance
LABELS = METRICS + ["pruning-cd", "callable-cd", "instance-cd"]
BASE = {"pruning-cd": "pcd", "callable-cd": "cd", "instance-cd": "cd"}


def user_cd(F, n_remove=None, **kwargs):
    from pymoode.survival.rank_and_crowding import metrics
    return metrics.calc_crowding_distance(F)


def label_object(label):
    """what is handed to get_crowding_function / RankAndCrowding(crowding_func=...)"""
    if label == "callable-cd":
        return user_cd
    if label == "instance-cd":
        from pymoode.survival.rank_and_crowding import metrics
        return metrics.FunctionalDiversity(metrics.calc_crowding_distance, filter_out_duplicates=False)
    return label


def nds_front(F):
    """non-dominated rows of F (vectorised)"""
    if len(F) == 0:
        return F
    less = (F[:, None, :] < F[None, :, :]).any(axis=2)       # less[i, j]: i better than j somewhere
    dom = less & ~less.T                                       # dom[i, j]: i dominates j
    return F[~dom.any(axis=0)]


def gen_front(rng, N, M):
    return gen_front_kind(rng, N, M, rng.randint(9))


def gen_front_kind(rng, N, M, k):
    if k == 0:                                    # simplex-like continuous front
        F = rng.random_sample((3 * N, M))
        F = F / F.sum(axis=1, keepdims=True)
    elif k == 1:                                  # sphere octant
        F = np.abs(rng.standard_normal((3 * N, M)))
        F = F / np.sqrt((F ** 2).sum(axis=1, keepdims=True))
    elif k == 2:                                  # grid-valued (ties)
        F = rng.randint(0, max(3, N // 2), size=(4 * N, M)).astype(float)
    elif k == 3:                                  # constant objective
        F = rng.random_sample((3 * N, M))
        F = F / F.sum(axis=1, keepdims=True)
        F[:, rng.randint(M)] = 0.25
    elif k == 4:                                  # tied extremes
        F = np.round(rng.random_sample((4 * N, M)) * 4) / 4
    elif k == 5:                                  # with duplicates (not NDS-filtered afterwards)
        F = rng.random_sample((N, M))
        F = F / F.sum(axis=1, keepdims=True)
        for _ in range(max(1, N // 5)):
            F[rng.randint(N)] = F[rng.randint(N)]
        return F
    elif k == 8:                                  # few distinct points, many clones (distinct points <= / just above M)
        u = int(rng.randint(1, M + 3))
        U = rng.random_sample((u, M))
        U = U / U.sum(axis=1, keepdims=True)
        return U[rng.randint(0, u, size=N)]
    elif k == 7:                                  # whole front at a tiny scale (distances below 1e-16)
        F = rng.random_sample((3 * N, M))
        F = F / F.sum(axis=1, keepdims=True) * float(rng.choice([1e-17, 1e-20, 1e-30]))
    else:                                         # badly scaled objectives, down to ranges of 1e-12
        F = rng.random_sample((3 * N, M))
        F = F / F.sum(axis=1, keepdims=True) * (10.0 ** rng.choice([-12, -10, -9, -6, -3, 0, 0, 3], size=M))
    F = nds_front(np.unique(F, axis=0))
    if len(F) > N:
        F = F[rng.choice(len(F), N, replace=False)]
    return F


def warm_front(label, M):
    """the front an operator object is used on before the recorded call: another number of objectives, tie-free"""
    M2 = 2 if (BASE.get(label, label) == "pcd" or M >= 3) else 5
    if M2 == M:
        M2 = 3 if BASE.get(label, label) != "pcd" else 2
    r = np.random.RandomState(97 * M + M2)
    return r.random_sample((9, M2))


def gen(rng, n_cases, max_n=40):
    for t in range(n_cases):
        label = LABELS[t % len(LABELS)]
        M = int(rng.choice([2, 2, 3, 3, 4, 5]))
        # sizes: anywhere up to max_n, or right around the number of objectives (where the short-front rules switch)
        N = int(rng.randint(1, max_n + 1)) if rng.randint(3) else int(rng.randint(1, M + 4))
        big = t % 97 == 11 and t < 97 * 6
        if big:
            # a few fronts just above the sizes at which blocked code paths usually switch (continuous, two / three objectives)
            M = int(rng.choice([2, 3]))
            N = int([130, 260, 140, 300, 135, 520][(t // 97) % 6] + rng.randint(0, 8))
            F = gen_front_kind(rng, N, M, 0)
        else:
            F = gen_front(rng, N, M)
        n = len(F)
        k = rng.randint(6) if not big else rng.randint(2)
        # removals: none, one, anything, (almost) everything, around N - M (where the clamping rules of the engines apply)
        n_remove = 0 if k == 0 else 1 if k == 1 else int(rng.randint(0, n + 1)) if k in (2, 3) else \
            max(0, n - int(rng.randint(0, 3))) if k == 4 else max(0, n - M + int(rng.randint(-1, 2)))
        # how the caller holds the objective matrix: C order, Fortran order, a strided view, integer dtype
        layout = ["C", "C", "C", "F", "strided", "int"][rng.randint(6)]
        # another crowding operator has just been evaluated on the same front with the same n_remove
        # ... and the operator object itself served a front with another number of objectives before (a survival object kept
        # across problems)
        yield {"label": label, "n_remove": n_remove, "F": F, "layout": layout, "rival": bool(rng.randint(3) == 0),
               "reuse": bool(rng.randint(3) == 0)}


def case_from_record(rec):
    return {"label": rec.cfg["label"], "n_remove": rec.cfg["n_remove"], "F": rec.inp["F"], "exact_ties": rec.cfg.get("exact_ties", False),
            "layout": rec.cfg.get("layout", "C")}


def as_layout(F, layout, wrapped):
    """the caller's array in the requested layout (values unchanged)"""
    if layout == "F":
        return np.asfortranarray(F.copy())
    if layout == "strided":
        big = np.full((2 * len(F), F.shape[1] + 1), np.nan)
        big[::2, :-1] = F
        return big[::2, :-1]
    if layout == "int" and wrapped and F.size and np.all(F == np.round(F)) and np.abs(F).max() < 2**40:
        return F.astype(np.int64)
    return F.copy()


W_TIED = np.array([[0., 2, 6], [0, 6, 3], [2, 1, 6], [3, 0, 2], [3, 6, 1], [4, 2, 0], [6, 0, 1]])      # tied maxima, 3 objectives
W_LINE = np.array([[i, 6. - i] for i in range(7)])                                                      # exact crowding ties
W_CONST = np.array([[0., 4, 1], [1, 3, 1], [2, 2, 1], [3, 1, 1], [4, 0, 1.], [1.5, 2.5, 1]])            # constant objective
W_F7 = np.array([[0., 3, 5], [0, 5, 4], [1, 2, 6], [1, 5, 3], [2, 1, 6], [3, 1, 1], [4, 2, 0], [6, 0, 3]])


W_F9 = np.array([[0., 0, 2], [0, 3, 1], [0, 4, 0], [1, 2, 1], [3, 0, 0]])                                # F9: equidistant neighbours


def corpus(pid):
    """regression witnesses: F2 / F3 / F4 (known findings, demonstrated on every run through the kernel
    model) and F5 / F7 (fixed: must stay fixed)"""
    r = np.random.RandomState(12345)
    F10 = np.abs(r.standard_normal((40, 3)))
    F10 = nds_front(F10 / np.sqrt((F10 ** 2).sum(axis=1, keepdims=True)))[:10]
    # point 0 is not an extreme, so the read of D[0, -1] falls before the buffer (visible to ASan)
    F8 = np.array([[0.48841119, 0.76145451], [0.76590786, 0.41338516], [0.87073231, 0.24182525], [0.51841799, 0.73124279],
                   [0.20671916, 0.95726719], [0.22199317, 0.95071903], [0.61174386, 0.62576945], [0.91861091, 0.156154]])
    out = [{"label": "pcd", "n_remove": 0, "F": W_TIED},            # F2
           {"label": "pcd", "n_remove": 8, "F": F10},               # F3
           {"label": "mnn", "n_remove": 5, "F": F8},                # F4
           {"label": "2nn", "n_remove": 5, "F": F8}]
    for lab in ("mnn", "2nn", "pcd"):
        for nr in (2, 3, 4):
            out.append({"label": lab, "n_remove": nr, "F": W_LINE, "exact_ties": True})     # F5 ties
        out.append({"label": lab, "n_remove": 0, "F": W_CONST})         # F5 zero range
        out.append({"label": lab, "n_remove": 2, "F": W_CONST})
    # clamping of n_remove around N - M on small fronts in 3 / 4 objectives on which at least two points are not extremes
    # (found by rejection from a fixed seed), with 2nn and mnn
    rs = np.random.RandomState(777)
    for M_ in (3, 4):
        for N_ in (M_ + 1, M_ + 2, M_ + 3):
            found = 0
            for _ in range(4000):
                Fs = nds_front(np.round(rs.random_sample((N_, M_)), 3))
                if len(Fs) != N_ or len(np.unique(Fs)) != Fs.size:
                    continue
                ex = set(np.argmin(Fs, axis=0)) | set(np.argmax(Fs, axis=0))
                if len(ex) > N_ - 2:
                    continue
                for nr in sorted({N_ - M_ + 1, N_ - 1, N_}):
                    for lab in ("2nn", "mnn"):
                        out.append({"label": lab, "n_remove": nr, "F": Fs})
                found += 1
                if found == 2:
                    break
    out.append({"label": "mnn", "n_remove": 2, "F": W_F9})               # F9 (known finding of C14)
    out.append({"label": "pcd", "n_remove": 0, "F": W_F7})               # F7
    out.append({"label": "pcd", "n_remove": 2, "F": W_F7})
    return out


def thorough_extras(pid):
    """thorough tier of C13: run the witnesses of the known findings F2 / F3 on the *real* compiled kernel in
    isolated worker processes and report what the binary did (a crash is an exit status, not a dead harness)"""
    if pid != "C13":
        return {}
    cs = corpus(pid)[:3]
    jobs = [{"kind": "raw", "fn": {"pcd": "c_pcd", "mnn": "c_mnn"}[c["label"]], "n_remove": int(c["n_remove"]), "F": np.array(c["F"], dtype=float)}
            for c in cs]
    out = []
    for name, c, job in zip(("F2", "F3", "F4"), cs, jobs):
        r = isolate.isolated_map([job], fallback=False, timeout=120)[0]
        if r is None:
            what = "no result"
        elif r[0] == "crash":
            what = "interpreter killed, exit status %s" % (r[1],)
        elif r[0] == "ok":
            v = np.asarray(r[1], dtype=float)
            what = "returned %d values (%d NaN, %d negative, %d infinite) - undefined behaviour need not crash" % (
                len(v), int(np.isnan(v).sum()), int((v < 0).sum()), int(np.isinf(v).sum()))
        else:
            what = str(r[1])
        out.append({"finding": name, "call": "%s(F %dx%d, n_remove=%d)" % (job["fn"], len(c["F"]), np.asarray(c["F"]).shape[1], c["n_remove"]),
                    "binary_outcome": what})
    extras = {"known_finding_witnesses_on_the_binary": out}
    # AddressSanitizer build of the working tree's generated C++: the same witnesses, and a sample of generated
    # 3-objective fronts on which the kernel model's out-of-bounds prediction is compared with ASan's report
    try:
        import asan
        d, note = asan.build()
        if d is None:
            extras["asan"] = {"available": False, "reason": note}
        else:
            rows = []
            for name, job in zip(("F2", "F3", "F4"), jobs):
                r = asan.run_job(d, job)
                rows.append({"finding": name, "asan_report": r["asan"], "returncode": r["returncode"]})
            rng = np.random.RandomState(2024)
            cases = []
            while len(cases) < 40:
                F = gen_front(rng, int(rng.randint(5, 20)), 3)
                if len(F) >= 4:
                    cases.append({"label": "pcd", "n_remove": int(rng.randint(0, len(F))), "F": F})
            preds = model_predict(cases)
            agree = disagree = 0
            examples = []
            for c, p in zip(cases, preds):
                model_oob = bool(p["c_raw"][1])
                r = asan.run_job(d, {"fn": "c_pcd", "n_remove": c["n_remove"], "F": c["F"]})
                asan_oob = r["asan"] is not None
                if model_oob == asan_oob:
                    agree += 1
                else:
                    disagree += 1
                    if len(examples) < 3:
                        examples.append({"model_sites": p["c_raw"][1][:2], "asan": r["asan"], "N": len(c["F"]), "n_remove": c["n_remove"]})
            extras["asan"] = {"available": True, "build": note, "witnesses": rows,
                              "pcd_fronts_compared": len(cases), "model_and_asan_agree": agree, "disagree": disagree,
                              "disagreements": examples,
                              "note": "a model-predicted access one element outside a row but inside the malloc'ed block is invisible to ASan"}
    except Exception as e:
        extras["asan"] = {"available": False, "reason": "%s: %s" % (type(e).__name__, e)}
    return extras


def model_predict(cases):
    lines = ["%d crowd3 %s %d %s" % (i, c["label"], c["n_remove"], " ".join(proto.fmat(np.asarray(c["F"], dtype=float).reshape(len(c["F"]), -1))))
             for i, c in enumerate(cases)]
    out = []
    for a in proto.run_driver(lines):
        out.append(parse_answer(proto.Tokens(a.split()[2:])))
    return out


def parse_answer(tk):
    status = tk.tok()
    if status != "ok":
        return {"err": tk.rest()}
    ties = bool(int(tk.tok()))
    res = {"ties": ties}
    for name in ("c_raw", "f_raw", "c_wrap", "f_wrap"):
        assert tk.tok() == "|"
        vals = tk.flist()
        k = tk.nat()
        sites = [tk.tok() for _ in range(k)]
        res[name] = (vals, sites)
    return res


def _raw_fn(label, compiled):
    label = BASE.get(label, label)
    if label in ("cd", "ce"):
        from pymoode.survival.rank_and_crowding import metrics
        f = metrics.calc_crowding_distance if label == "cd" else metrics.calc_crowding_entropy
        return lambda F, nr: f(F, n_remove=nr)
    if compiled:
        if label == "pcd":
            from pymoode.cython.pruning_cd import calc_pcd
            return lambda F, nr: np.array(calc_pcd(F, nr))
        from pymoode.cython import mnn
        g = mnn.calc_mnn if label == "mnn" else mnn.calc_2nn
        return lambda F, nr: np.array(g(F, nr))
    if label == "pcd":
        from pymoode.misc.pruning_cd import calc_pcd
        return lambda F, nr: calc_pcd(F, nr)
    from pymoode.misc.mnn import calc_mnn
    return lambda F, nr: calc_mnn(F, nr, twonn=(label == "2nn"))


UNSAFE_SITES = ("pruning_cd.pyx",)      # an out-of-bounds access in the pcd kernel feeds an index: undefined behaviour


def run_batch(cases):
    """two-phase: model prediction first, then the real code where it is defined"""
    preds = model_predict(cases)
    recs = []
    iso_jobs, iso_idx = [], []
    fb_jobs, fb_idx = [], []
    for i, (c, p) in enumerate(zip(cases, preds)):
        F = np.array(c["F"], dtype=float)
        rec = Record(NAME, {"label": c["label"], "n_remove": int(c["n_remove"]), "layout": c.get("layout", "C")}, {"F": F})
        rec.tags.add("layout:" + c.get("layout", "C"))
        if c.get("exact_ties"):
            rec.cfg["exact_ties"] = True
        rec.model = p
        rec.out = {"c_raw": None, "f_raw": None, "c_wrap": None, "f_wrap": None, "skipped": []}
        n, M = F.shape if F.ndim == 2 else (0, 0)
        rec.tags.add("label:" + c["label"])
        rec.tags.add("M:%d" % M)
        rec.tags.add("nrem:" + ("0" if c["n_remove"] == 0 else "1" if c["n_remove"] == 1 else "many"))
        if "err" in p:
            rec.err = "model: " + p["err"]
            recs.append(rec)
            continue
        if p["ties"]:
            rec.tags.add("distance-ties")
        for name, compiled, wrapped in (("c_raw", True, False), ("f_raw", False, False), ("c_wrap", True, True), ("f_wrap", False, True)):
            vals, sites = p[name]
            unsafe = [s for s in sites if s.startswith(UNSAFE_SITES)]
            if compiled and unsafe:
                rec.out["skipped"].append((name, unsafe[:3]))
                rec.tags.add("model-predicts-oob:" + unsafe[0].split("@")[0])
                continue
            if sites:
                rec.tags.add("model-predicts-oob:" + sites[0].split("@")[0])
            if wrapped and not compiled:
                fb_jobs.append({"kind": "wrapped", "label": c["label"], "n_remove": int(c["n_remove"]), "F": F,
                                "reuse": bool(c.get("reuse") and F.ndim == 2)})
                fb_idx.append((i, name))
                continue
            if compiled and BASE.get(c["label"], c["label"]) == "pcd" and M >= 3:
                if wrapped:
                    iso_jobs.append({"kind": "wrapped", "label": c["label"], "n_remove": int(c["n_remove"]), "F": F})
                else:
                    iso_jobs.append({"kind": "raw", "fn": "c_pcd", "n_remove": int(c["n_remove"]), "F": F})
                iso_idx.append((i, name))
                continue
            try:
                Fc = as_layout(F, c.get("layout", "C"), wrapped) if F.ndim == 2 else F.copy()
                if wrapped:
                    from pymoode.survival.rank_and_crowding import metrics
                    if c.get("rival") and F.ndim == 2:
                        base = BASE.get(c["label"], c["label"])
                        other = "ce" if base == "cd" else "cd"
                        metrics.get_crowding_function(other).do(F.copy(), n_remove=c["n_remove"])
                        if base in ("mnn", "2nn", "pcd") and F.shape[1] == 2:
                            metrics.get_crowding_function("2nn" if base != "2nn" else "mnn").do(F.copy(), n_remove=c["n_remove"])
                        rec.tags.add("rival-metric")
                    op_ = metrics.get_crowding_function(label_object(c["label"]))
                    if c.get("reuse") and F.ndim == 2 and hasattr(op_, "do"):
                        op_.do(warm_front(c["label"], F.shape[1]), n_remove=0)
                        rec.tags.add("operator-reused-across-objective-counts")
                    r_live = op_.do(Fc, n_remove=c["n_remove"])
                    r = np.array(r_live, dtype=float)
                    if c.get("reuse") and F.ndim == 2 and hasattr(op_, "do") and len(F) > 0:
                        # the same operator serves another front of the same shape while the caller still holds the result
                        op_.do(np.ascontiguousarray(F[::-1] * 0.5 + 0.25), n_remove=c["n_remove"])
                        if not bits_equal(np.array(r_live, dtype=float), r):
                            rec.frames.append("a result the crowding function had already returned changed when the operator was used again")
                    if not bits_equal(Fc, F):
                        rec.frames.append("the caller's array was modified by the crowding function")
                else:
                    if len(F) == 0:
                        continue
                    r = np.array(_raw_fn(c["label"], compiled)(Fc, int(c["n_remove"])), dtype=float)
                rec.out[name] = r
            except Exception as e:
                rec.out[name] = "raised %s: %s" % (type(e).__name__, e)
        recs.append(rec)
    for jobs, idx, fb in ((iso_jobs, iso_idx, False), (fb_jobs, fb_idx, True)):
        if not jobs:
            continue
        res = isolate.isolated_map(jobs, fallback=fb)
        for (i, name), r in zip(idx, res):
            rec = recs[i]
            if r is None:
                rec.out[name] = "worker produced no result"
            elif r[0] == "ok":
                rec.out[name] = r[1]
                if len(r) > 2 and not r[2]:
                    rec.frames.append("the caller's array was modified by the crowding function")
            elif r[0] == "crash":
                rec.out[name] = "interpreter crashed (exit status %s)" % (r[1],)
            else:
                rec.out[name] = "raised " + str(r[1])
    return recs


def run(case, replay=None):
    return run_batch([case])[0]


def encode(rec):
    F = rec.inp["F"]
    return " ".join([NAME, rec.cfg["label"], str(rec.cfg["n_remove"])] + proto.fmat(F.reshape(len(F), -1)))


def _vals_equal(label, impl, model, ties, name):
    impl = np.asarray(impl, dtype=float)
    model = np.asarray(model, dtype=float)
    if impl.shape != model.shape:
        return "shape %s vs model %s" % (impl.shape, model.shape)
    if np.isnan(impl).any():
        return "NaN in the implementation's values"
    if (np.isinf(impl) != np.isinf(model)).any():
        k = int(np.argmax(np.isinf(impl) != np.isinf(model)))
        return "point %d: impl %r model %r" % (k, impl[k], model[k])
    fin = ~np.isinf(impl)
    if label == "ce" or (name.startswith("c_") and ties and label in ("mnn", "2nn")):
        ok = np.abs(impl[fin] - model[fin]) <= 1e-9 * np.maximum(1.0, np.abs(model[fin]))
        if label != "ce":
            return None      # argpartition tie order is unspecified: values are not compared on distance ties
    else:
        ok = impl[fin].view(np.uint64) == model[fin].view(np.uint64)
        # -0.0 vs 0.0
        ok = ok | (impl[fin] == model[fin])
    if not ok.all():
        k = int(np.flatnonzero(fin)[np.argmin(ok)])
        return "point %d: impl %r model %r" % (k, impl[k], model[k])
    return None


def compare(rec, ans):
    if rec.err is not None:
        return ["model rejects the record: " + rec.err]
    p = parse_answer(ans)
    if "err" in p:
        return ["model rejects the record: " + p["err"]]
    out = []
    for name in ("c_raw", "f_raw", "c_wrap", "f_wrap"):
        impl = rec.out.get(name)
        if impl is None:
            continue
        if isinstance(impl, str):
            out.append("%s: implementation %s, model returns values" % (name, impl))
            continue
        d = _vals_equal(BASE.get(rec.cfg["label"], rec.cfg["label"]), impl, p[name][0], p["ties"], name)
        if d:
            out.append("%s crowding values differ from the model: %s" % (name, d))
    return out


def nontrivial(rec):
    return rec.err is None and len(rec.inp["F"]) > 2 and rec.cfg["n_remove"] > 1


# ---- reference definitions (independent, from scratch) -------------------------------------------

def ref_normalize(F):
    lo, hi = F.min(axis=0), F.max(axis=0)
    den = np.where(hi > lo, hi - lo, 1.0)
    return (F - lo) / den


def ref_mnn_values(X, live, k):
    out = {}
    for i in live:
        ds = sorted(((X[i] - X[j]) ** 2).sum() for j in live if j != i)
        out[i] = np.prod(ds[:k]) if len(ds) >= k else np.inf
    return out


def ref_pcd_values(X, live, M):
    out = {i: 0.0 for i in live}
    for m in range(M):
        order = sorted(live, key=lambda i: (X[i, m], i))
        for p, i in enumerate(order):
            if p == 0 or p == len(order) - 1:
                out[i] = np.inf
            else:
                out[i] += (X[order[p + 1], m] - X[order[p - 1], m]) / M
    return out


def ref_greedy(F, label, n_remove):
    """published definition: values after greedily removing the most crowded point n_remove-1 times;
    returns (values, tie_free, removed_order)"""
    N, M = F.shape
    X = ref_normalize(F)
    k = M if label == "mnn" else 2
    n_remove = min(max(n_remove, 0), N - M) if n_remove <= N - M else N - M
    if (N * N * max(n_remove, 1) > 400000 and label != "pcd") or N * N * max(n_remove, 1) > 8000000:
        # the from-scratch reference is cubic: not evaluated on the largest fronts (the bit-exact models are)
        return np.full(N, np.nan), False, []
    extremes = set(int(i) for i in np.argmin(F, axis=0)) | set(int(i) for i in np.argmax(F, axis=0))
    live = list(range(N))
    d = np.full(N, np.inf)
    tie_free = True
    removed = []

    def values(lv):
        v = ref_mnn_values(X, lv, k) if label in ("mnn", "2nn") else ref_pcd_values(X, lv, M)
        for e in extremes:
            if e in v:
                v[e] = np.inf
        return v
    v = values(live)
    for i in live:
        d[i] = v[i]
    for _ in range(max(n_remove - 1, 0)):
        cur = sorted((d[i], i) for i in live)
        if np.isinf(cur[0][0]):
            tie_free = False
            break
        if len(cur) > 1 and abs(cur[1][0] - cur[0][0]) <= 1e-9 * max(1.0, abs(cur[0][0])):
            tie_free = False
        r = cur[0][1]
        live.remove(r)
        removed.append(r)
        v = values(live)
        for i in live:
            d[i] = v[i]
    return d, tie_free, removed


def coordinate_ties(F):
    return any(len(np.unique(F[:, m])) < len(F) for m in range(F.shape[1]))


def oracle_C13(rec):
    if rec.err is not None:
        return ["model: " + rec.err]
    F = rec.inp["F"]
    label = BASE.get(rec.cfg["label"], rec.cfg["label"])
    bad = list(rec.frames)
    N = len(F)
    M = F.shape[1] if F.ndim == 2 else 0
    for name, unsafe in rec.out["skipped"]:
        bad.append("compiled %s kernel touches memory outside its arrays (%s): site %s" % (
            label, name, unsafe[0]))
    for name in ("c_raw", "f_raw", "c_wrap", "f_wrap"):
        sites = rec.model[name][1] if rec.model and name in rec.model else []
        for s in sites:
            if s.startswith("mnn.pyx") and name.startswith("c_"):
                bad.append("compiled %s kernel reads outside its arrays (%s): site %s" % (label, name, s))
                break
    for name in ("c_raw", "f_raw", "c_wrap", "f_wrap"):
        v = rec.out.get(name)
        if v is None:
            continue
        if isinstance(v, str):
            bad.append("%s %s: %s" % (label, name, v))
            continue
        if v.shape != (N,):
            bad.append("%s %s: returned shape %s for %d points" % (label, name, v.shape, N))
            continue
        if np.isnan(v).any() or (v < 0).any():
            bad.append("%s %s: a value is NaN or negative (%r)" % (label, name, v[np.isnan(v) | (v < 0)][0]))
        if N >= 1:
            for m in range(M):
                col = F[:, m]
                if col.max() > col.min():
                    if not np.isinf(v[col == col.min()]).any():
                        bad.append("%s %s: no point holding the minimum of objective %d is infinite" % (label, name, m))
                    if not np.isinf(v[col == col.max()]).any():
                        bad.append("%s %s: no point holding the maximum of objective %d is infinite" % (label, name, m))
        # published definitions on fronts without coordinate ties
        if label in ("mnn", "2nn", "pcd") and N > M and N > 2 and not coordinate_ties(F) \
                and len(np.unique(F, axis=0)) == N:
            ref, tie_free, _ = ref_greedy(F, label, rec.cfg["n_remove"])
            if tie_free:
                fin = ~np.isinf(ref)
                if (np.isinf(v) != np.isinf(ref)).any() or not np.allclose(v[fin], ref[fin], rtol=1e-7, atol=1e-12):
                    k = int(np.argmax((np.isinf(v) != np.isinf(ref)) | ~np.isclose(np.where(fin, v, 0), np.where(fin, ref, 0), rtol=1e-7, atol=1e-12)))
                    bad.append("%s %s: value of point %d is %r, the definition (greedy removal, n_remove=%d) gives %r" % (
                        label, name, k, v[k], rec.cfg["n_remove"], ref[k]))
        if name.endswith("wrap") and label in ("pcd", "cd") and 3 <= N and not coordinate_ties(F) and rec.cfg["n_remove"] <= 1:
            X = ref_normalize(F)
            ref = ref_pcd_values(X, list(range(N)), M)
            refv = np.array([ref[i] for i in range(N)])
            fin = ~np.isinf(refv)
            if (np.isinf(v) != np.isinf(refv)).any() or not np.allclose(v[fin], refv[fin], rtol=1e-7, atol=1e-12):
                bad.append("%s %s: values differ from the crowding-distance definition" % (label, name))
    return bad[:6]


def oracle_C14(rec):
    if rec.err is not None:
        return ["model: " + rec.err]
    label = BASE.get(rec.cfg["label"], rec.cfg["label"])
    if label in ("cd", "ce"):
        return []
    bad = []
    for a, b in (("c_raw", "f_raw"), ("c_wrap", "f_wrap")):
        va, vb = rec.out.get(a), rec.out.get(b)
        if va is None or vb is None:
            continue        # compiled side undefined on this input (known finding of C13)
        if isinstance(vb, str):
            bad.append("pure-Python %s: %s" % (label, vb))
            continue
        if isinstance(va, str):
            continue
        if np.isnan(vb).any():
            bad.append("pure-Python %s returns NaN where the compiled engine returns %r" % (label, va[np.isnan(vb)][0]))
            continue
        F = rec.inp["F"]
        # exact ties between pairwise distances: the M nearest *distances* of a point do not depend on which of
        # two equidistant neighbours is listed first, so the engines must still agree -- except that the
        # compiled mnn kernel (M >= 3 neighbours) can list one neighbour twice after a removal (known finding F9)
        f9 = bool(rec.model and rec.model.get("ties") and label == "mnn" and F.ndim == 2 and F.shape[1] >= 3
                  and rec.cfg["n_remove"] > 1)
        if rec.cfg["n_remove"] > 1 and not rec.cfg.get("exact_ties") and len(F) > F.shape[1] \
                and len(np.unique(F, axis=0)) == len(F):
            # the engines sum / divide in different orders: when two live points are tied up to rounding at
            # some removal step, either may legitimately be removed ("up to floating-point rounding");
            # exact ties that both engines compute identically are covered by the corpus witnesses
            _, tie_free, _ = ref_greedy(F, label, rec.cfg["n_remove"])
            if not tie_free:
                continue
        if va.shape != vb.shape or (np.isinf(va) != np.isinf(vb)).any():
            bad.append("%s (%s vs %s): infinite values at different points%s" % (
                label, a, b, " [front with exactly tied pairwise distances, >= 3 neighbours: mnn.pyx:224]" if f9 else ""))
            continue
        fin = ~np.isinf(va)
        if not np.allclose(va[fin], vb[fin], rtol=1e-9, atol=1e-300):
            k = int(np.flatnonzero(fin)[np.argmax(np.abs(va[fin] - vb[fin]))])
            bad.append("%s point %d: compiled %r, pure-Python %r (n_remove=%d)%s" % (
                label, k, va[k], vb[k], rec.cfg["n_remove"],
                " [front with exactly tied pairwise distances, >= 3 neighbours: mnn.pyx:224 inserts a neighbour that is already listed]" if f9 else ""))
    return bad


ORACLES = {"C13": oracle_C13, "C14": oracle_C14}


def shrink_candidates(rec):
    c = case_from_record(rec)
    F = np.asarray(c["F"], dtype=float)
    n = len(F)
    for i in range(n):
        if n > 3:
            keep = [j for j in range(n) if j != i]
            yield dict(c, F=F[keep], n_remove=min(c["n_remove"], n - 1))
    if c["n_remove"] > 0:
        yield dict(c, n_remove=c["n_remove"] - 1)
