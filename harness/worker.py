"""Isolated worker process: runs crowding kernels / survivals in a fresh interpreter, optionally with the
compiled extensions made unimportable (pure-Python engine). A crash of the interpreter is an exit status
for the parent, not a dead harness.

stdin: pickle {"fallback": bool, "jobs": [job, ...]} ; stdout: pickle [result, ...] (flushed per job to a file)
"""
import os
import pickle
import sys
import warnings

warnings.filterwarnings("ignore")


def main():
    req = pickle.load(sys.stdin.buffer)
    out_path = req["out"]
    if req.get("fallback"):
        sys.modules["pymoode.cython.info"] = None      # import fails -> IS_COMPILED False
    import numpy as np
    np.seterr(all="ignore")
    import io
    import contextlib
    with contextlib.redirect_stdout(io.StringIO()):
        try:
            from pymoo.config import Config
            Config.warnings["not_compiled"] = False
        except Exception:
            pass
        from pymoode.survival.rank_and_crowding import metrics
    if req.get("fallback") and metrics.IS_COMPILED:
        raise SystemExit(3)
    results = []
    with open(out_path, "wb") as fh:
        for job in req["jobs"]:
            kind = job["kind"]
            try:
                F = np.array(job["F"], dtype=float, copy=True)
                if kind == "raw":
                    fn = job["fn"]
                    if fn == "c_pcd":
                        from pymoode.cython.pruning_cd import calc_pcd
                        r = np.array(calc_pcd(F, job["n_remove"]), dtype=float)
                    elif fn == "c_mnn":
                        from pymoode.cython.mnn import calc_mnn
                        r = np.array(calc_mnn(F, job["n_remove"]), dtype=float)
                    elif fn == "c_2nn":
                        from pymoode.cython.mnn import calc_2nn
                        r = np.array(calc_2nn(F, job["n_remove"]), dtype=float)
                    else:
                        raise ValueError(fn)
                    res = ("ok", r)
                elif kind == "wrapped":
                    Fc = F.copy()
                    with contextlib.redirect_stdout(io.StringIO()):
                        import comp_crowd
                        op_ = metrics.get_crowding_function(comp_crowd.label_object(job["label"]))
                        if job.get("reuse") and hasattr(op_, "do"):
                            op_.do(comp_crowd.warm_front(job["label"], F.shape[1]), n_remove=0)
                        r = np.array(op_.do(Fc, n_remove=job["n_remove"]), dtype=float)
                    same = bool(np.array_equal(Fc.view(np.uint64), F.view(np.uint64)))
                    res = ("ok", r, same)
                elif kind == "trace":
                    import comp_runs
                    res = ("ok", comp_runs.trace_asktell(job["case"]))
                elif kind == "surv":
                    import comp_surv
                    rec = comp_surv.run(job["case"])
                    res = ("ok", rec.out.get("surv"), rec.err)
                else:
                    res = ("err", "unknown job")
            except Exception as e:
                res = ("err", "%s: %s" % (type(e).__name__, e))
            pickle.dump(res, fh)
            fh.flush()


if __name__ == "__main__":
    sys.path.insert(0, os.path.dirname(os.path.abspath(__file__)))
    main()
