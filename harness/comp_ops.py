"""Components dem / dex / mask / des / variant: the DE operators of pymoode/operators."""
import numpy as np
import proto
from core import Record, bits_equal, first_bit_diff, gen_bounds, gen_inbounds
from rng import Recorder

REPAIR_KINDS = ["bounce-back", "midway", "rand-init", "to-bounds"]
SELECTIONS = ["rand", "best", "current-to-best", "current-to-rand", "rand-to-best", "ranked"]


def _f_tokens(F):
    if F is None:
        return ["none"]
    if isinstance(F, (tuple, list)):
        return ["range", proto.fbits(F[0]), proto.fbits(F[1])]
    return ["scalar", proto.fbits(F)]


def _opt_f(g):
    return ["none"] if g is None else ["some", proto.fbits(g)]


def _rep_tokens(kind, xl, xu):
    if kind is None:
        return ["nobounds"]
    return [kind] + proto.flist(xl) + proto.flist(xu)


def gen_F(rng):
    k = rng.randint(10)
    if k == 0:
        return None
    if k == 1:
        return 0.0
    if k == 2:
        return float(rng.choice([0.5, 1.0, 2.0, 2.5]))
    if k == 3:
        return (0.0, 1.0)
    if k == 4:
        return (0.5, 2.0)
    if k == 5:
        a = float(rng.uniform(0, 2))
        return (a, a)
    if k == 6:
        return float(rng.uniform(0, 2))
    a = float(rng.uniform(0, 1.5))
    return (a, a + float(rng.uniform(0, 1.5)))


def gen_gamma(rng):
    return [None, 1e-4, 1.0, 1.9, float(rng.uniform(0, 2))][rng.randint(5)]


def _finish(rec, R, replay):
    rec.draws = R.log if replay is None else list(replay)
    rec.foreign = list(R.foreign)
    if replay is not None and (R.diverged or not R.exhausted()):
        rec.frames.append("replay-diverged: %s" % (R.diverged or "log not exhausted"))


def _mkprob(xl, xu, n_var, vtype=None):
    from problems import GenProblem, Unbounded
    if xl is None:
        return Unbounded(n_var)
    return GenProblem(n_var, 1, xl=xl, xu=xu, vtype=vtype)


def _warm_operator(call, xl, xu, PX, idx):
    """Use an operator once on a *different* bounded problem of the same dimension (shifted, wider
    bounds; parents inside them) before the recorded call: state kept across calls shows up."""
    from pymoo.core.population import Population
    w = np.maximum(xu - xl, 1.0)
    xl2, xu2 = xl - 3 * w - 1.0, xu + 5 * w + 2.0
    PX2 = xl2 + (PX - xl) / np.where(xu > xl, xu - xl, 1.0) * (xu2 - xl2)
    PX2 = np.minimum(np.maximum(PX2, xl2), xu2)
    prob2 = _mkprob(xl2, xu2, len(xl))
    st = np.random.get_state()
    call(prob2, Population.new("X", PX2), idx)
    np.random.set_state(st)


# =============================================================================================
# dem
# =============================================================================================
class Dem:
    NAME = "dem"

    @staticmethod
    def gen(rng, n_cases):
        for t in range(n_cases):
            n_par = int(rng.choice([3, 5, 7]))
            n_pop = n_par + int(rng.randint(1, 6))
            n_mat = int(rng.randint(1, 7))
            d = int(rng.randint(1, 6))
            bounded = rng.randint(5) > 0
            xl, xu = gen_bounds(rng, d)
            PX = gen_inbounds(rng, n_pop, xl, xu)
            if rng.randint(4) == 0:      # converged population: duplicates, zero differences
                PX[1:] = np.where(rng.random_sample(PX[1:].shape) < 0.3, PX[1:], PX[0])
            idx = rng.randint(0, n_pop, size=(n_mat, n_par))
            special = rng.randint(8)
            dtype = "float"
            if special == 0:
                # integer-coded decision vectors handed over as an integer array
                dtype = "int"
                xl = rng.randint(-5, 5, size=d).astype(float)
                xu = xl + rng.randint(0, 6, size=d)
                PX = np.floor(xl + rng.random_sample((n_pop, d)) * (xu - xl + 1))
                PX = np.minimum(np.maximum(PX, xl), xu)
            elif special == 1 and bounded:
                # difference parents sampled under wider bounds (warm start): only the base vectors are
                # inside the box -- repair (C11) makes no assumption about the other parents
                w = np.maximum(xu - xl, 1.0)
                half = max(1, n_pop // 2)
                PX[half:] = xl - 2 * w + rng.random_sample(PX[half:].shape) * (xu - xl + 4 * w)
                idx[:, 0] = rng.randint(0, half, size=n_mat)
            # how the operator object came to hold its parameters: built with them / built with other values and
            # then assigned / deep-copied from a template and then assigned; and whether a second operator with other
            # parameters was built (and used) after it
            yield {"F": gen_F(rng), "gamma": gen_gamma(rng), "dtype": dtype, "outside": bool(special == 1 and bounded),
                   "setup": ["ctor", "ctor", "ctor", "assign", "copy-assign"][rng.randint(5)], "rival": bool(rng.randint(4) == 0),
                   # the problem declares its variables as integers (`vtype=int`); the box is the box all the same
                   "vtype_int": bool(rng.randint(5) == 0),
                   "repair": REPAIR_KINDS[t % 4] if bounded else None,
                   "mode": ["do-idx", "do-pop", "mutation"][rng.randint(3)], "warm": bool(rng.randint(3) == 0),
                   "repair_as": ["name", "name", "name", "callable", "bad-name"][rng.randint(5)] if rng.randint(3) == 0 else "name",
                   "xl": xl, "xu": xu, "PX": PX, "idx": idx, "seed": int(rng.randint(2**31 - 1))}

    @staticmethod
    def case_from_record(rec):
        c = dict(rec.cfg)
        c.update(rec.inp)
        return c

    @staticmethod
    def run(case, replay=None):
        from pymoo.core.population import Population
        from pymoode.operators.dem import DEM
        cfg = {k: case.get(k) for k in ("F", "gamma", "repair", "mode", "warm", "repair_as", "seed", "dtype", "outside", "setup", "rival", "vtype_int")}
        rec = Record("dem", cfg, {k: case[k] for k in ("xl", "xu", "PX", "idx")})
        PX = np.array(case["PX"], dtype=float, copy=True)
        as_int = case.get("dtype") == "int"
        if as_int:
            rec.tags.add("int-dtype")
        if case.get("outside"):
            rec.tags.add("outside-parents")
        idx = np.array(case["idx"], dtype=int, copy=True)
        n_mat, n_par = idx.shape
        d = PX.shape[1]
        bounded = case["repair"] is not None
        prob = _mkprob(case["xl"] if bounded else None, case["xu"] if bounded else None, d, vtype=int if case.get("vtype_int") else None)
        if case.get("vtype_int") and bounded:
            rec.tags.add("vtype=int")
        pop = Population.new("X", PX.astype(np.int64) if as_int else PX.copy())
        X = np.swapaxes(PX[idx], 0, 1).copy()
        rec.inp["X"] = X
        F = case["F"]
        if isinstance(F, list):
            F = tuple(F)
        rep_arg = case["repair"] or "bounce-back"
        if case.get("repair_as") == "callable":
            from pymoode.operators import dem as _dm
            rep_arg = _dm.REPAIRS[rep_arg]          # a callable is used as given
        elif case.get("repair_as") == "bad-name":
            rep_arg = "bounce_back"                 # not a registry key: must be refused with KeyError
        def other_F(F):
            if F is None:
                return None
            if isinstance(F, tuple):
                return (F[0] * 0.5 + 0.05, F[1] * 0.5 + 0.35)
            return F * 0.5 + 0.3
        setup = case.get("setup", "ctor") if F is not None else "ctor"
        try:
            if case.get("rival") and case.get("repair_as") != "bad-name":
                # an operator built earlier in the process with a *user* repair that happens to be named like a built-in one
                def _named(nm):
                    def f(X, Xb, xl, xu, **kw):
                        return np.where((X < xl) | (X > xu), (xl + xu) / 2 + 0 * X, X)
                    f.__name__ = f.__qualname__ = nm
                    return f
                for nm_ in ("bounce_back", "midway", "rand_init", "to_bounds", (case["repair"] or "bounce-back")):
                    DEM(F=0.7, gamma=None, de_repair=_named(nm_), n_diffs=1)
            if setup == "ctor":
                op = DEM(F=F, gamma=case["gamma"], de_repair=rep_arg, n_diffs=(n_par - 1) // 2)
            else:
                # same kind of scale factor (scalar / range) with other values, the intended ones assigned afterwards
                import copy as _copy
                from pymoode.operators import dem as _dm2
                other_rep = "to-bounds" if (case["repair"] or "bounce-back") != "to-bounds" else "midway"
                reassign_rep = case.get("repair_as") == "name" and bounded
                op = DEM(F=other_F(F), gamma=case["gamma"], de_repair=other_rep if reassign_rep else rep_arg, n_diffs=(n_par - 1) // 2)
                if setup == "copy-assign":
                    op = _copy.deepcopy(op)
                op.F = F
                if reassign_rep:
                    op.de_repair = _dm2.REPAIRS[rep_arg]         # the operator is re-configured: another repair function
                rec.tags.add("setup:" + setup)
            if case.get("rival") and case.get("repair_as") != "bad-name":
                rg = case["gamma"]
                rival = DEM(F=other_F(F) if F is not None else 0.9, gamma=None if rg is not None else 0.5,
                            de_repair="to-bounds", n_diffs=(n_par - 1) // 2)
                st0 = np.random.get_state()
                rival.de_mutation(X.copy())
                np.random.set_state(st0)
                rec.tags.add("rival-operator")
            if case.get("repair_as") == "bad-name":
                rec.err = "ctor accepted an unknown repair name"
                return rec
        except Exception as e:
            rec.err = "ctor %s: %s" % (type(e).__name__, e)
            if case.get("repair_as") == "bad-name" and isinstance(e, KeyError):
                rec.cfg["refused"] = True
            return rec
        np.random.seed(case["seed"])
        Xarg = X.astype(np.int64) if as_int else X.copy()
        if case.get("warm") and bounded:
            # history: the same operator object was used before on another problem (other bounds)
            try:
                _warm_operator(lambda pr, pp, ii: op.do(pr, pp, ii), case["xl"], case["xu"], PX, idx)
                rec.tags.add("warm")
            except Exception as e:
                rec.err = "warm-up %s: %s" % (type(e).__name__, e)
                return rec
        with Recorder("replay" if replay is not None else "record", replay) as R:
            try:
                if case["mode"] == "mutation":
                    V, diffs = op.de_mutation(Xarg, return_differentials=True)
                    rec.out["V"] = np.array(V, dtype=float)
                    rec.out["diffs"] = np.array(diffs, dtype=float)
                elif case["mode"] == "do-idx":
                    rec.out["V"] = np.array(op.do(prob, pop, idx).get("X"), dtype=float)
                else:
                    rec.out["V"] = np.array(op.do(prob, pop[idx]).get("X"), dtype=float)
            except Exception as e:
                rec.err = "%s: %s" % (type(e).__name__, e)
        _finish(rec, R, replay)
        # the unrepaired mutants under the same draws (C11: what did repair change?)
        if rec.err is None and case["mode"] != "mutation":
            with Recorder("replay", rec.draws) as R2:
                try:
                    rec.out["V0"] = np.array(op.de_mutation(X.astype(np.int64) if as_int else X.copy(), return_differentials=False), dtype=float)
                except Exception as e:
                    rec.out["V0"] = None
        if not bits_equal(pop.get("X"), PX):
            rec.frames.append("parent population X modified")
        if case["mode"] == "mutation" and not bits_equal(Xarg, X):
            rec.frames.append("parent tensor modified by de_mutation")
        rec.tags.add("F:" + ("none" if F is None else "range" if isinstance(F, tuple) else "scalar"))
        rec.tags.add("gamma:" + ("none" if case["gamma"] is None else "on"))
        rec.tags.add("npar:%d" % n_par)
        rec.tags.add("mode:" + case["mode"])
        rec.tags.add("repair:" + str(case["repair"]))
        if bounded and rec.out.get("V0") is not None:
            V0 = rec.out["V0"]
            if ((V0 < case["xl"]) | (V0 > case["xu"])).any():
                rec.tags.add("violating-mutant")
        return rec

    @staticmethod
    def encode(rec):
        c = rec.cfg
        if c.get("refused"):
            raise ValueError("skipped")
        X = rec.inp["X"]
        t = ["dem"] + _f_tokens(c["F"]) + _opt_f(c["gamma"])
        t += _rep_tokens(c["repair"] if c["mode"] != "mutation" else None, rec.inp["xl"], rec.inp["xu"])
        t += [str(s) for s in X.shape] + [proto.fbits(x) for x in X.ravel()]
        t += ["mutation" if c["mode"] == "mutation" else "do"] + proto.events(rec.draws)
        return " ".join(t)

    @staticmethod
    def compare(rec, ans):
        status = ans.tok()
        if status == "err":
            return [] if rec.err is not None else ["model rejects the record: " + ans.rest()]
        if rec.err is not None:
            return ["implementation raised %s" % rec.err]
        out = []
        V = ans.fmat()
        d = first_bit_diff(rec.out["V"], V)
        if d:
            out.append("mutant matrix differs " + d)
        if rec.cfg["mode"] == "mutation":
            D = ans.fmat()
            d = first_bit_diff(rec.out["diffs"], D)
            if d:
                out.append("differentials differ " + d)
        return out

    @staticmethod
    def nontrivial(rec):
        return rec.err is None

    # ---- oracles ----
    @staticmethod
    def oracle_C01(rec):
        if rec.cfg.get("refused"):
            return []
        if rec.err is not None:
            return ["DEM raised: " + rec.err]
        if rec.cfg["repair"] is None or rec.cfg["mode"] == "mutation":
            return list(rec.frames)
        if rec.cfg.get("outside"):
            return list(rec.frames)     # C01 presupposes a parent population inside the box
        V, xl, xu = rec.out["V"], rec.inp["xl"], rec.inp["xu"]
        m = (V < xl) | (V > xu) | np.isnan(V)
        if m.any():
            i, j = np.argwhere(m)[0]
            return ["mutant [%d,%d] = %r outside [%r, %r] after %s" % (i, j, V[i, j], xl[j], xu[j], rec.cfg["repair"])]
        return []

    @staticmethod
    def oracle_C11(rec):
        import comp_repair
        if rec.cfg.get("refused"):
            return []
        if rec.err is not None:
            return ["DEM raised: " + rec.err]
        if rec.cfg["repair"] is None or rec.cfg["mode"] == "mutation":
            return []
        if rec.out.get("V0") is None:
            return ["de_mutation could not be re-run under the recorded draws"]
        r2 = Record("repair", {"kind": rec.cfg["repair"]},
                    {"xl": rec.inp["xl"], "xu": rec.inp["xu"], "Xb": rec.inp["X"][0], "V": rec.out["V0"]})
        r2.out["X"] = rec.out["V"]
        return ["DEM.do: " + v for v in comp_repair.oracle_C11(r2)]

    @staticmethod
    def oracle_C10(rec):
        if rec.cfg.get("refused"):
            return []
        if rec.err is not None:
            return ["DEM raised: " + rec.err]
        bad = list(rec.frames)
        X = rec.inp["X"]
        n_par, n_mat, d = X.shape
        V = rec.out["V0"] if rec.cfg["mode"] != "mutation" else rec.out["V"]
        if V is None:
            return bad + ["no unrepaired mutant available"]
        F, g = rec.cfg["F"], rec.cfg["gamma"]
        lo, hi = (0.0, 1.0) if F is None else ((F[0], F[1]) if isinstance(F, (tuple, list)) else (F, F))
        jl, jh = (1.0, 1.0) if g is None else (1 - g / 2, 1 + g / 2)
        # interval check: V - X0 must lie in sum_k [lo,hi]*[jl,jh]*(X_{2k-1}-X_{2k})
        tot_lo = np.zeros((n_mat, d))
        tot_hi = np.zeros((n_mat, d))
        for k in range((n_par - 1) // 2):
            D = X[2 * k + 1] - X[2 * k + 2]
            cands = np.stack([lo * jl * D, lo * jh * D, hi * jl * D, hi * jh * D])
            tot_lo += cands.min(axis=0)
            tot_hi += cands.max(axis=0)
        diff = V - X[0]
        tol = 1e-9 * (np.abs(X).max() + 1.0) * max(1.0, abs(lo), abs(hi))
        m = (diff < tot_lo - tol) | (diff > tot_hi + tol)
        if m.any():
            i, j = np.argwhere(m)[0]
            bad.append("mutant [%d,%d] - base = %r not in [%r, %r] allowed by F=%r gamma=%r and the parent differences" % (
                i, j, diff[i, j], tot_lo[i, j], tot_hi[i, j], F, g))
        if g is None and not isinstance(F, (tuple, list)) and F is not None:
            exact = X[0] + sum(F * (X[2 * k + 1] - X[2 * k + 2]) for k in range((n_par - 1) // 2))
            if not np.allclose(V, exact, rtol=1e-12, atol=1e-12 * (np.abs(X).max() + 1)):
                bad.append("scalar F, no jitter: mutant differs from base + F * sum of differences")
        if g is None and isinstance(F, (tuple, list)) and n_par == 3 and d >= 2:
            # one scale factor per mating and pair: ratios must be constant along a row
            D = X[1] - X[2]
            with np.errstate(all="ignore"):
                ratio = np.where(np.abs(D) > 1e-6 * (np.abs(X).max() + 1), diff / D, np.nan)
            for i in range(n_mat):
                r = ratio[i][~np.isnan(ratio[i])]
                if len(r) >= 2 and (r.max() - r.min()) > 1e-6 * max(1.0, abs(hi)):
                    bad.append("dithered F differs between coordinates of mating %d (%r .. %r)" % (i, r.min(), r.max()))
                    break
        if rec.cfg["mode"] == "mutation":
            if not np.allclose(rec.out["V"], X[0] + rec.out["diffs"], rtol=0, atol=0):
                bad.append("returned V is not X[0] + returned differentials")
        return bad

    ORACLES = {}


Dem.ORACLES = {"C01": Dem.oracle_C01, "C10": Dem.oracle_C10, "C11": Dem.oracle_C11, "C19": Dem.oracle_C10}


# =============================================================================================
# dex (DEX.do on a matings population) and mask (cross_binomial / cross_exp directly)
# =============================================================================================
def gen_CR(rng):
    k = rng.randint(6)
    if k == 0:
        return 0.0
    if k == 1:
        return 1.0
    if k == 2:
        return float(rng.choice([0.1, 0.5, 0.9]))
    return float(rng.uniform(0, 1))


def circular_block(row):
    """True iff the True entries of `row` form one circularly contiguous block (or all / none)."""
    n = len(row)
    k = int(np.sum(row))
    if k == 0 or k == n:
        return True
    trans = sum(1 for i in range(n) if row[i] != row[(i + 1) % n])
    return trans == 2


class Dex:
    NAME = "dex"

    @staticmethod
    def gen(rng, n_cases):
        for t in range(n_cases):
            n_mat = int(rng.randint(1, 7))
            d = int(rng.randint(1, 9))
            xl, xu = gen_bounds(rng, d)
            Xt = gen_inbounds(rng, n_mat, xl, xu)
            V = gen_inbounds(rng, n_mat, xl, xu)
            if rng.randint(3) > 0:
                # make every coordinate of the mutant differ from the target so the mask is observable
                same = V == Xt
                V = np.where(same, np.where(Xt == xl, xu, xl), V)
            if rng.randint(5) == 0:
                # mutants outside the box (a user repair that leaves violations in place, DEX used on hand-made pairs):
                # crossover copies coordinates whatever their values
                w = np.maximum(xu - xl, 1.0)
                out = rng.random_sample(V.shape) < 0.5
                V = np.where(out, np.where(rng.random_sample(V.shape) < 0.5, xl - (0.1 + rng.random_sample(V.shape)) * w,
                                           xu + (0.1 + rng.random_sample(V.shape)) * w), V)
            int_targets = bool(rng.randint(7) == 0)
            if int_targets:
                # integer-coded target population (integer dtype) crossed with real-valued mutants
                xl = rng.randint(-3, 3, size=d).astype(float)
                xu = xl + rng.randint(1, 5, size=d)
                Xt = np.floor(xl + rng.random_sample((n_mat, d)) * (xu - xl + 1))
                Xt = np.minimum(np.maximum(Xt, xl), xu)
                V = xl + (0.05 + 0.9 * rng.random_sample((n_mat, d))) * (xu - xl)
            yield {"variant": ["bin", "exp"][t % 2], "CR": gen_CR(rng), "alo": bool(rng.randint(8) > 0),
                   "as_callable": bool(rng.randint(6) == 0), "bad_variant": bool(rng.randint(40) == 0),
                   "int_targets": int_targets,
                   "setup": ["ctor", "ctor", "assign", "copy-assign"][rng.randint(4)],
                   # how the pairs reach the operator: the (n_matings, 2) matings population / the same as a transposed
                   # (non-C-ordered) view / a merged population plus an index array `parents=` (the GA-style route), in which a
                   # row may name one individual twice
                   "route": ["matings", "matings", "matings-view", "parents", "parents-self"][rng.randint(5)],
                   "xl": xl, "xu": xu, "Xt": Xt, "V": V, "seed": int(rng.randint(2**31 - 1))}

    @staticmethod
    def case_from_record(rec):
        c = dict(rec.cfg)
        c.update(rec.inp)
        return c

    @staticmethod
    def run(case, replay=None):
        from pymoo.core.population import Population
        from pymoode.operators.dex import DEX
        from pymoode.operators.variant import DifferentialVariant
        rec = Record("dex", {k: case.get(k) for k in ("variant", "CR", "alo", "as_callable", "bad_variant", "seed", "int_targets", "setup", "route")},
                     {k: case[k] for k in ("xl", "xu", "Xt", "V")})
        Xt = np.array(case["Xt"], dtype=float, copy=True)
        V = np.array(case["V"], dtype=float, copy=True)
        route = case.get("route") or "matings"
        if route == "parents-self" and len(Xt):
            # self-matings: some rows pair an individual with itself (the trial then equals it, whatever the mask)
            k_ = max(1, len(Xt) // 2)
            V[:k_] = Xt[:k_]
            rec.inp["V"] = V.copy()
        if route != "matings":
            rec.tags.add("route:" + route)
        pop = Population.new("X", Xt.astype(np.int64) if case.get("int_targets") else Xt.copy())
        if case.get("int_targets"):
            rec.tags.add("int-dtype-targets")
        mut = Population.new("X", V.copy())
        prob = _mkprob(case["xl"], case["xu"], Xt.shape[1])
        np.random.seed(case["seed"])
        with Recorder("replay" if replay is not None else "record", replay) as R:
            try:
                from pymoode.operators import dex as _dexmod
                v = case["variant"]
                if case.get("bad_variant"):
                    v = "binomial"                         # not a known name: the constructor must refuse it
                elif case.get("as_callable"):
                    v = {"bin": _dexmod.cross_binomial, "exp": _dexmod.cross_exp}[v]      # user-supplied callable
                setup = case.get("setup", "ctor")
                if setup == "ctor":
                    op = DEX(variant=v, CR=case["CR"], at_least_once=case["alo"])
                else:
                    # built (or deep-copied from a template built) with another rate and flag, the intended ones assigned
                    import copy as _copy
                    op = DEX(variant=v, CR=0.5 if case["CR"] != 0.5 else 0.25, at_least_once=not case["alo"])
                    if setup == "copy-assign":
                        op = _copy.deepcopy(op)
                    op.CR = case["CR"]
                    op.at_least_once = case["alo"]
                    rec.tags.add("setup:" + setup)
                if route == "matings-view" and not case.get("int_targets"):
                    matings = np.vstack([pop, mut]).T.view(Population)        # (n_matings, 2), Fortran-ordered
                    rec.out["U"] = np.array(op.do(prob, matings).get("X"), dtype=float)
                elif route in ("parents", "parents-self") and not case.get("int_targets"):
                    n_ = len(pop)
                    if route == "parents-self":
                        k_ = max(1, n_ // 2)
                        merged = Population.merge(pop, mut[k_:]) if k_ < n_ else pop
                        idx_ = np.column_stack([np.arange(n_), np.concatenate([np.arange(k_), n_ + np.arange(n_ - k_)])])
                    else:
                        merged = Population.merge(pop, mut)
                        idx_ = np.column_stack([np.arange(n_), n_ + np.arange(n_)])
                    rec.out["U"] = np.array(op.do(prob, merged, parents=idx_).get("X"), dtype=float)
                else:
                    matings = DifferentialVariant.merge_columnwise(pop, mut)
                    rec.out["U"] = np.array(op.do(prob, matings).get("X"), dtype=float)
            except Exception as e:
                rec.err = "%s: %s" % (type(e).__name__, e)
        _finish(rec, R, replay)
        if not bits_equal(pop.get("X"), Xt):
            rec.frames.append("target vectors modified by crossover")
        if not bits_equal(mut.get("X"), V) and route != "parents-self":
            rec.frames.append("mutant vectors modified by crossover")
        rec.tags.add("variant:" + case["variant"])
        rec.tags.add("CR:" + ("0" if case["CR"] == 0 else "1" if case["CR"] == 1 else "mid"))
        if (V != Xt).all():
            rec.tags.add("observable-mask")
        if ((V < np.array(case["xl"], dtype=float)) | (V > np.array(case["xu"], dtype=float))).any():
            rec.tags.add("mutants-outside-the-box")
        return rec

    @staticmethod
    def encode(rec):
        c = rec.cfg
        t = ["dex", "unknown" if c.get("bad_variant") else c["variant"], proto.fbits(c["CR"]), "1" if c["alo"] else "0"] \
            + proto.fmat(rec.inp["Xt"]) + proto.fmat(rec.inp["V"]) + proto.events(rec.draws)
        return " ".join(t)

    @staticmethod
    def compare(rec, ans):
        status = ans.tok()
        if status == "err":
            return [] if rec.err is not None else ["model rejects the record: " + ans.rest()]
        if rec.err is not None:
            return ["implementation raised %s" % rec.err]
        ans.imat()
        U = ans.fmat()
        d = first_bit_diff(rec.out["U"], U)
        return ["trial matrix differs " + d] if d else []

    @staticmethod
    def nontrivial(rec):
        return rec.err is None and "observable-mask" in rec.tags

    @staticmethod
    def oracle_C12(rec):
        if rec.cfg.get("bad_variant"):
            return [] if (rec.err or "").startswith("ValueError") else ["an unknown crossover variant was not refused"]
        if rec.err is not None:
            return ["DEX raised: " + rec.err]
        bad = list(rec.frames)
        Xt, V, U = rec.inp["Xt"], rec.inp["V"], rec.out["U"]
        if U.shape != Xt.shape:
            return bad + ["trial shape %s != target shape %s" % (U.shape, Xt.shape)]
        ub, xb, vb = U.view(np.uint64), np.ascontiguousarray(Xt).view(np.uint64), np.ascontiguousarray(V).view(np.uint64)
        fromx, fromv = ub == xb, ub == vb
        m = ~(fromx | fromv)
        if m.any():
            i, j = np.argwhere(m)[0]
            bad.append("trial [%d,%d] = %r is neither the target's %r nor the mutant's %r" % (i, j, U[i, j], Xt[i, j], V[i, j]))
        if (xb != vb).all():
            mask = fromv
            cnt = mask.sum(axis=1)
            if rec.cfg["alo"] and (cnt == 0).any():
                bad.append("trial %d takes no coordinate from its mutant" % int(np.argmin(cnt)))
            if rec.cfg["CR"] == 1.0 and not mask.all():
                bad.append("CR = 1 but trial %d differs from its mutant" % int(np.argmin(cnt)))
            if rec.cfg["CR"] == 0.0 and rec.cfg["alo"] and (cnt != 1).any():
                bad.append("CR = 0 but a trial takes %d coordinates from its mutant" % int(cnt[cnt != 1][0]))
            if rec.cfg["variant"] == "exp":
                for i in range(len(mask)):
                    if not circular_block(mask[i]):
                        bad.append("exponential crossover: coordinates taken from mutant %d are not one circular block: %s" % (
                            i, "".join("1" if b else "0" for b in mask[i])))
                        break
        return bad

    @staticmethod
    def oracle_C01(rec):
        if rec.cfg.get("bad_variant"):
            return []
        if rec.err is not None:
            return ["DEX raised: " + rec.err]
        U, xl, xu = rec.out["U"], rec.inp["xl"], rec.inp["xu"]
        Vin = rec.inp["V"]
        if ((Vin < xl) | (Vin > xu)).any():
            return []       # C01 presupposes mutants that went through the repair (inside the box)
        m = (U < xl) | (U > xu) | np.isnan(U)
        if m.any():
            i, j = np.argwhere(m)[0]
            return ["trial [%d,%d] = %r outside [%r, %r]" % (i, j, U[i, j], xl[j], xu[j])]
        return []


Dex.ORACLES = {"C12": Dex.oracle_C12, "C01": Dex.oracle_C01, "C19": Dex.oracle_C12}


class Mask:
    NAME = "mask"

    @staticmethod
    def gen(rng, n_cases):
        for t in range(n_cases):
            yield {"variant": ["bin", "exp"][t % 2], "CR": gen_CR(rng), "alo": bool(rng.randint(6) > 0),
                   "n_mat": int(rng.randint(1, 8)), "n_var": int(rng.randint(1, 10)),
                   "seed": int(rng.randint(2**31 - 1))}

    @staticmethod
    def case_from_record(rec):
        return dict(rec.cfg)

    @staticmethod
    def corpus(pid):
        # F6 (fixed by 6497982): cross_exp at CR = 0 with draws of exactly 0.0 must take exactly one coordinate
        return [{"variant": "exp", "CR": 0.0, "alo": True, "n_mat": 3, "n_var": 5, "seed": 7, "stub": "zero-scalar"},
                {"variant": "exp", "CR": 0.0, "alo": False, "n_mat": 2, "n_var": 4, "seed": 8, "stub": "zero-scalar"}]

    @staticmethod
    def run(case, replay=None):
        from pymoode.operators import dex
        rec = Record("mask", dict(case), {})
        np.random.seed(case["seed"])
        f = dex.cross_binomial if case["variant"] == "bin" else dex.cross_exp
        with Recorder("replay" if replay is not None else "record", replay) as R:
            if case.get("stub") == "zero-scalar" and replay is None:
                # regression witness of F6: every scalar random() returns exactly 0.0
                from rng import Event
                inner = np.random.random

                def zero(size=None):
                    if size is None:
                        R.log.append(Event("random", [-1], [0.0], "stub"))
                        return 0.0
                    return inner(size)
                np.random.random = zero
            try:
                rec.out["M"] = np.array(f(case["n_mat"], case["n_var"], case["CR"], case["alo"]), dtype=bool)
            except Exception as e:
                rec.err = "%s: %s" % (type(e).__name__, e)
        _finish(rec, R, replay)
        rec.tags.add("variant:" + case["variant"])
        rec.tags.add("CR:" + ("0" if case["CR"] == 0 else "1" if case["CR"] == 1 else "mid"))
        return rec

    @staticmethod
    def encode(rec):
        c = rec.cfg
        return " ".join(["mask", c["variant"], str(c["n_mat"]), str(c["n_var"]), proto.fbits(c["CR"]),
                         "1" if c["alo"] else "0"] + proto.events(rec.draws))

    @staticmethod
    def compare(rec, ans):
        status = ans.tok()
        if status == "err":
            return [] if rec.err is not None else ["model rejects the record: " + ans.rest()]
        if rec.err is not None:
            return ["implementation raised %s" % rec.err]
        M = ans.imat().astype(bool)
        if M.shape != rec.out["M"].shape or (M != rec.out["M"]).any():
            return ["crossover mask differs: impl %s model %s" % (rec.out["M"].astype(int).tolist(), M.astype(int).tolist())]
        return []

    @staticmethod
    def nontrivial(rec):
        return rec.err is None

    @staticmethod
    def oracle_C12(rec):
        if rec.err is not None:
            return ["mask function raised: " + rec.err]
        M = rec.out["M"]
        c = rec.cfg
        bad = []
        if M.shape != (c["n_mat"], c["n_var"]):
            return ["mask shape %s" % (M.shape,)]
        cnt = M.sum(axis=1)
        if c["alo"] and (cnt == 0).any():
            bad.append("mask row %d has no True" % int(np.argmin(cnt)))
        if c["CR"] == 1.0 and not M.all():
            bad.append("CR = 1 but mask row %d is not all True" % int(np.argmin(cnt)))
        if c["CR"] == 0.0 and c["alo"] and (cnt != 1).any():
            bad.append("CR = 0 but a mask row has %d True" % int(cnt[cnt != 1][0]))
        if c["CR"] == 0.0 and not c["alo"] and cnt.any():
            bad.append("CR = 0, at_least_once off, but a mask row has a True")
        if c["variant"] == "exp":
            for i in range(len(M)):
                if not circular_block(M[i]):
                    bad.append("exponential mask row %d is not one circular block: %s" % (i, M[i].astype(int).tolist()))
                    break
        return bad


Mask.ORACLES = {"C12": Mask.oracle_C12, "C19": Mask.oracle_C12}


# =============================================================================================
# des
# =============================================================================================
def gen_ranks(rng, n):
    k = rng.randint(9)
    if k == 6:
        return [float(x) / 2.0 for x in rng.randint(0, 6, size=n)]                  # half-integer ranks
    if k == 7:
        return [float(np.ceil(x * 10) / 10) for x in rng.random_sample(n)]         # percentile ranks in (0, 1]
    if k == 8:
        r = [float(x) for x in rng.randint(0, 4, size=n)]
        for i in range(n):
            if rng.randint(4) == 0:
                r[i] = float("inf")                                                # "not ranked" marker
        return r
    if k == 0:
        return None                                    # attribute absent
    if k == 1:
        return [int(x) for x in rng.permutation(n)]
    if k == 2:
        return [int(x) for x in rng.randint(0, 3, size=n)]   # ties
    if k == 3:
        r = [int(x) for x in rng.randint(0, 4, size=n)]
        for i in range(n):
            if rng.randint(3) == 0:
                r[i] = None                             # partly missing
        return r
    if k == 4:
        return list(range(n))                           # DE: rank = position
    return [int(x) for x in np.sort(rng.randint(0, 4, size=n))]   # sorted fronts


def ranks_for_model(ranks, n):
    """integer ranks for the Lean model (-1 = missing). Real-valued ranks are replaced by their dense order:
    the model only sorts, so the same order and the same ties give the same answer."""
    if ranks is None:
        return [-1] * n
    if any(r is not None and (not np.isfinite(r) or float(r) != int(r)) for r in ranks):
        vals = sorted(set(float(r) for r in ranks if r is not None))
        return [-1 if r is None else vals.index(float(r)) for r in ranks]
    return [-1 if r is None else int(r) for r in ranks]


def ranks_eff(ranks, n):
    if ranks is None:
        return list(range(n))
    return [i if r is None else r for i, r in enumerate(ranks)]


def check_selection(kind, P, n_pop, n_par, ranks, n_sel=None):
    """C09 predicate on a parent matrix (one row per target; the targets are the first n_sel individuals)."""
    bad = []
    P = np.asarray(P)
    n_sel = n_pop if n_sel is None else n_sel
    if P.shape != (n_sel, n_par):
        return ["parent matrix shape %s, expected %s" % (P.shape, (n_sel, n_par))]
    if P.min() < 0 or P.max() >= n_pop:
        return ["parent index out of range: min %d max %d, population %d" % (P.min(), P.max(), n_pop)]
    reff = ranks_eff(ranks, n_pop)
    for i in range(n_sel):
        row = [int(x) for x in P[i]]
        if kind in ("rand", "ranked"):
            rnd = list(range(n_par))
        elif kind == "best":
            rnd = list(range(1, n_par))
            if row[0] != 0:
                bad.append("best: base of target %d is %d, not the top-ranked individual 0" % (i, row[0]))
        elif kind == "rand-to-best":
            rnd = [0] + list(range(2, n_par))
            if row[1] != 0:
                bad.append("rand-to-best: column 1 of target %d is %d, not the top-ranked individual 0" % (i, row[1]))
        elif kind == "current-to-best":
            rnd = list(range(3, n_par))
            if row[0] != i or row[2] != i or row[1] != 0:
                bad.append("current-to-best: row %d is %s, expected [i, 0, i, ...]" % (i, row))
        elif kind == "current-to-rand":
            rnd = [1] + list(range(3, n_par))
            if row[0] != i or row[2] != i:
                bad.append("current-to-rand: row %d is %s, expected [i, r, i, ...]" % (i, row))
        vals = [row[c] for c in rnd]
        if len(set(vals)) != len(vals):
            bad.append("%s: randomly drawn parents of target %d repeat: %s" % (kind, i, row))
        if i in vals:
            bad.append("%s: a drawn parent of target %d is the target itself: %s" % (kind, i, row))
        if kind in ("best", "rand-to-best", "current-to-best") and 0 in vals:
            bad.append("%s: a drawn parent of target %d is the best individual 0: %s" % (kind, i, row))
        if kind == "ranked":
            rr = [reff[x] for x in row]
            if rr[0] != min(rr):
                bad.append("ranked: base of target %d has rank %s, best drawn rank is %s (%s)" % (i, rr[0], min(rr), row))
            for k in range(1, (n_par - 1) // 2 + 1):
                if rr[2 * k - 1] > rr[2 * k]:
                    bad.append("ranked: difference %d of target %d points from better to worse (%s ranks %s)" % (k, i, row, rr))
                if row[2 * k - 1] == row[2 * k]:
                    bad.append("ranked: difference %d of target %d built from one individual twice (%s)" % (k, i, row))
        if len(bad) >= 4:
            break
    return bad


class Des:
    NAME = "des"

    @staticmethod
    def gen(rng, n_cases):
        for t in range(n_cases):
            kind = SELECTIONS[t % 6]
            n_par = int(rng.choice([3, 5, 7]))
            n_pop = n_par + int(rng.randint(1, 9))
            # fewer matings than individuals (accepted with a warning): parents are still drawn from the whole population
            # (the 'current-to-*' layouts refuse this call with a ValueError; the others accept it)
            n_sel = n_pop if (rng.randint(4) or kind.startswith("current")) else int(rng.randint(1, n_pop + 1))
            yield {"kind": kind, "n_pop": n_pop, "n_sel": n_sel, "n_par": n_par, "ranks": gen_ranks(rng, n_pop),
                   # individuals that also carry a crowding attribute (populations that came out of a survival)
                   "crowd_attr": [float(x) for x in np.where(rng.random_sample(n_pop) < 0.25, np.inf, rng.random_sample(n_pop))]
                   if rng.randint(3) == 0 else None,
                   # how the operator came to its variant: built with it / built with another one and re-configured
                   # (`algorithm.mating.selection.variant = ...`) / deep-copied from such a template and re-configured
                   "setup": ["ctor", "ctor", "assign", "copy-assign"][rng.randint(4)],
                   # history of the operator object: none / used just before on another population of the same size with
                   # other ranks, in the same generation of the same algorithm / used before and the matrix it returned was
                   # then edited in place by the caller
                   "hist": ["none", "none", "other-ranks", "scribbled"][rng.randint(4)],
                   "via": ["_do", "do"][rng.randint(2)], "seed": int(rng.randint(2**31 - 1))}

    @staticmethod
    def case_from_record(rec):
        return dict(rec.cfg)

    @staticmethod
    def corpus(pid):
        # F1 (fixed by 4164f17): 'ranked' with complete ranks, 3 / 5 / 7 parents
        return [{"kind": "ranked", "n_pop": 10, "n_par": k, "ranks": list(range(10)), "via": "_do", "seed": 1 + k} for k in (3, 5, 7)] + \
               [{"kind": "ranked", "n_pop": 9, "n_par": 5, "ranks": [2, 0, 1, 1, 0, 2, 1, 0, 2], "via": "do", "seed": 3}]

    @staticmethod
    def make_pop(n_pop, ranks, crowd=None):
        from pymoo.core.population import Population
        pop = Population.new("X", np.zeros((n_pop, 1)))
        if ranks is not None:
            for i, r in enumerate(ranks):
                if r is not None:
                    pop[i].set("rank", r)
        if crowd is not None:
            for i, c in enumerate(crowd):
                pop[i].set("crowding", c)
        return pop

    @staticmethod
    def run(case, replay=None):
        from pymoode.operators.des import DES
        rec = Record("des", dict(case), {})
        pop = Des.make_pop(case["n_pop"], case["ranks"], case.get("crowd_attr"))
        np.random.seed(case["seed"])
        import warnings
        with Recorder("replay" if replay is not None else "record", replay) as R:
            try:
                with warnings.catch_warnings(record=True) as w:
                    warnings.simplefilter("always")
                    if case.get("setup", "ctor") == "ctor":
                        sel = DES(case["kind"])
                    else:
                        import copy as _copy
                        sel = DES(SELECTIONS[(SELECTIONS.index(case["kind"]) + 1 + case["seed"] % 5) % 6])
                        if case["setup"] == "copy-assign":
                            sel = _copy.deepcopy(sel)
                        sel.variant = case["kind"]
                        rec.tags.add("setup:" + case["setup"])
                    n_sel = case.get("n_sel", case["n_pop"])

                    class _Algo:        # what the operators see of the algorithm that calls them
                        n_iter = 3
                        n_gen = 3
                    algo_ = _Algo()
                    hist = case.get("hist", "none")
                    if hist != "none":
                        st_ = np.random.get_state()
                        R.paused = True
                        try:
                            rk2 = None if case["ranks"] is None else list(reversed(case["ranks"]))
                            pop2 = Des.make_pop(case["n_pop"], rk2, case.get("crowd_attr"))
                            if case["via"] == "_do":
                                P0 = sel._do(None, pop2 if hist == "other-ranks" else pop, n_sel, case["n_par"], algorithm=algo_)
                            else:
                                P0 = sel.do(None, pop2 if hist == "other-ranks" else pop, n_sel, case["n_par"], to_pop=False, algorithm=algo_)
                            if hist == "scribbled" and isinstance(P0, np.ndarray) and P0.size:
                                P0[...] = P0[::-1, ::-1].copy()         # the caller re-arranges what it was given, in place
                        finally:
                            R.paused = False
                            np.random.set_state(st_)
                        rec.tags.add("history:" + hist)
                    if case["via"] == "_do":
                        P = sel._do(None, pop, n_sel, case["n_par"], algorithm=algo_)
                    else:
                        P = sel.do(None, pop, n_sel, case["n_par"], to_pop=False, algorithm=algo_)
                    if any("Unknown selection" in str(x.message) for x in w):
                        rec.frames.append("selection variant not recognised")
                rec.out["P"] = np.array(P, dtype=int)
            except Exception as e:
                rec.err = "%s: %s" % (type(e).__name__, e)
        _finish(rec, R, replay)
        after = pop.get("rank")
        before = np.array([None] * case["n_pop"], dtype=object) if case["ranks"] is None else np.array(case["ranks"], dtype=object)
        if not all((a is None and b is None) or a == b for a, b in zip(after, before)):
            rec.frames.append("rank attributes modified by selection")
        rec.tags.add("kind:" + case["kind"])
        rec.tags.add("npar:%d" % case["n_par"])
        rec.tags.add("ranks:" + ("absent" if case["ranks"] is None else "partial" if None in case["ranks"] else "full"))
        if len(rec.draws) > case["n_par"]:
            rec.tags.add("reselected")
        return rec

    @staticmethod
    def encode(rec):
        c = rec.cfg
        rk = ranks_for_model(c["ranks"], c["n_pop"])
        return " ".join(["des", c["kind"], str(c["n_pop"]), str(c.get("n_sel", c["n_pop"])), str(c["n_par"])] + proto.ilist(rk)
                        + proto.events(rec.draws))

    @staticmethod
    def compare(rec, ans):
        status = ans.tok()
        if status == "err":
            return [] if rec.err is not None else ["model rejects the record: " + ans.rest()]
        if rec.err is not None:
            return ["implementation raised %s" % rec.err]
        P = ans.imat()
        if P.shape != rec.out["P"].shape or (P != rec.out["P"]).any():
            return ["parent matrix differs: impl %s model %s" % (rec.out["P"].tolist(), P.tolist())]
        return []

    @staticmethod
    def nontrivial(rec):
        return rec.err is None and "reselected" in rec.tags

    @staticmethod
    def oracle_C09(rec):
        if rec.err is not None:
            return ["DES raised: " + rec.err]
        c = rec.cfg
        bad = list(rec.frames) + check_selection(c["kind"], rec.out["P"], c["n_pop"], c["n_par"], c["ranks"], c.get("n_sel"))
        # every draw of a parent index is taken over the whole population (C19: uniform over the individuals)
        for ev in rec.draws:
            if getattr(ev, "name", None) == "choice" and len(ev.args) and int(ev.args[0]) != c["n_pop"]:
                bad.append("a parent index was drawn from %d individuals, the population has %d" % (int(ev.args[0]), c["n_pop"]))
                break
        return bad


Des.ORACLES = {"C09": Des.oracle_C09, "C19": Des.oracle_C09}


# =============================================================================================
# variant: the whole DifferentialVariant.do pipeline (selection -> mutation+repair -> crossover
# -> optional genetic mutation), observed through recording proxies on the operator attributes
# =============================================================================================
class _Tap:
    """Callable proxy: forwards to the real operator and keeps what it returned."""

    def __init__(self, inner, sink, key):
        self.inner, self.sink, self.key = inner, sink, key

    def __call__(self, *a, **k):
        r = self.inner(*a, **k)
        # snapshot now: later pipeline stages may modify the returned population in place
        try:
            self.sink[self.key] = np.array(r.get("X"), copy=True)
        except Exception:
            self.sink[self.key] = np.array(r, copy=True)
        return r

    def __getattr__(self, name):
        return getattr(self.inner, name)


def gen_variant_string(rng, t):
    sel = SELECTIONS[t % 6]
    y = int(rng.choice([1, 1, 2, 3]))
    cross = ["bin", "exp"][rng.randint(2)]
    return sel, y, cross


class Variant:
    NAME = "variant"

    @staticmethod
    def gen(rng, n_cases):
        for t in range(n_cases):
            sel, y, cross = gen_variant_string(rng, t)
            n_par = 1 + 2 * (y + (1 if "-to-" in sel else 0))
            n_pop = n_par + int(rng.randint(1, 7))
            d = int(rng.randint(1, 6))
            xl, xu = gen_bounds(rng, d)
            PX = gen_inbounds(rng, n_pop, xl, xu)
            if rng.randint(5) == 0:
                PX[1:] = np.where(rng.random_sample(PX[1:].shape) < 0.4, PX[1:], PX[0])
            yield {"sel": sel, "y": y, "cross": cross, "CR": gen_CR(rng), "F": gen_F(rng), "gamma": gen_gamma(rng),
                   "repair": REPAIR_KINDS[rng.randint(4)] if rng.randint(6) > 0 else None,
                   "pm": bool(rng.randint(4) == 0), "ranks": gen_ranks(rng, n_pop),
                   "entry": ["variant", "algorithm"][rng.randint(2)], "warm": bool(rng.randint(3) == 0),
                   # which algorithm class builds the mating when the entry point is Algorithm._infill
                   "algo_cls": ["GDE3", "NSDE", "DE", "NSDER", "GDE3MNN"][rng.randint(5)],
                   # the object that is used is a copy of the one that was built (minimize() deep-copies the algorithm)
                   "copied": ["", "", "deepcopy", "pickle"][rng.randint(4)],
                   "vtype_int": bool(rng.randint(5) == 0),
                   # a pymoo Repair operator handed over through `repair=` (one that does not touch the values)
                   "repair_kw": bool(rng.randint(4) == 0),
                   "xl": xl, "xu": xu, "PX": PX, "seed": int(rng.randint(2**31 - 1))}

    @staticmethod
    def case_from_record(rec):
        c = dict(rec.cfg)
        c.update(rec.inp)
        return c

    @staticmethod
    def run(case, replay=None):
        from pymoo.core.population import Population
        from pymoo.operators.mutation.pm import PM
        from pymoode.operators.variant import DifferentialVariant
        cfgk = ("sel", "y", "cross", "CR", "F", "gamma", "repair", "pm", "ranks", "entry", "warm", "seed", "algo_cls", "copied", "vtype_int", "repair_kw")
        rec = Record("variant", {k: case.get(k) for k in cfgk}, {k: case[k] for k in ("xl", "xu", "PX")})
        PX = np.array(case["PX"], dtype=float, copy=True)
        n, d = PX.shape
        bounded = case["repair"] is not None
        if case["pm"] and not bounded:
            case = dict(case, pm=False)
            rec.cfg["pm"] = False
        prob = _mkprob(case["xl"] if bounded else None, case["xu"] if bounded else None, d, vtype=int if case.get("vtype_int") else None)
        pop = Des.make_pop(n, case["ranks"])
        pop.set("X", PX.copy())
        vs = "DE/%s/%d/%s" % (case["sel"], case["y"], case["cross"])
        F = tuple(case["F"]) if isinstance(case["F"], list) else case["F"]
        sink = {}
        kw = dict(variant=vs, CR=case["CR"], F=F, gamma=case["gamma"], de_repair=case["repair"] or "bounce-back")
        if case.get("repair_kw"):
            import userops
            kw["repair"] = userops.NoOpRepair()
            rec.tags.add("repair-keyword")
        if case["pm"]:
            # also through the deprecated keyword names (`pm=`, `mutation=`), which must behave identically
            key = ["genetic_mutation", "pm", "mutation"][case["seed"] % 3]
            kw[key] = PM(prob=0.5, eta=10)
            rec.tags.add("pm-keyword:" + key)
        np.random.seed(case["seed"])
        with Recorder("replay" if replay is not None else "record", replay) as R:
            try:
                def _copy(o):
                    if case.get("copied") == "deepcopy":
                        import copy as _c
                        rec.tags.add("copied:deepcopy")
                        return _c.deepcopy(o)
                    if case.get("copied") == "pickle":
                        import pickle as _p
                        rec.tags.add("copied:pickle")
                        return _p.loads(_p.dumps(o))
                    return o
                if case["entry"] == "variant":
                    mating = _copy(DifferentialVariant(**kw))
                    algo = None
                else:
                    # the path Algorithm.ask() takes: algorithm._infill -> mating.do
                    import pymoode.algorithms as _alg
                    cls_ = case.get("algo_cls") or "GDE3"
                    rec.tags.add("algorithm:" + cls_)
                    if cls_ == "NSDER":
                        algo = _alg.NSDER(np.array([[1.0]]), pop_size=n, **kw)
                    elif cls_ == "GDE3MNN":
                        kw2 = {k_: v_ for k_, v_ in kw.items() if k_ not in ("variant", "CR", "F", "gamma")}
                        algo = _alg.GDE3MNN(n, kw["variant"], kw["CR"], kw["F"], kw["gamma"], **kw2)
                    elif cls_ == "DE":
                        kwd = dict(kw)
                        if kwd.get("F") is None:
                            kwd["F"] = (0.5, 1.0)       # DE has no `None` default
                            rec.cfg["F"] = [0.5, 1.0]
                        algo = _alg.DE(pop_size=n, **kwd)
                    else:
                        algo = getattr(_alg, cls_)(pop_size=n, **kw)
                    algo = _copy(algo)
                    algo.setup(prob, seed=case["seed"], verbose=False)
                    algo.pop = pop
                    algo.is_initialized = True
                    algo.n_iter = 2
                    mating = algo.mating
                if case.get("warm") and bounded:
                    popw = Des.make_pop(n, case["ranks"])

                    def _w(pr, pp, ii):
                        popw.set("X", pp.get("X"))
                        return mating.do(pr, popw, n)
                    R.paused = True
                    try:
                        _warm_operator(_w, case["xl"], case["xu"], PX, None)
                    finally:
                        R.paused = False
                    rec.tags.add("warm")
                fn_ = getattr(mating.de_mutation, "de_repair", None)
                rec.out["repair_fn"] = getattr(fn_, "__name__", type(fn_).__name__)
                mating.selection = _Tap(mating.selection, sink, "P")
                mating.de_mutation = _Tap(mating.de_mutation, sink, "V")
                mating.crossover = _Tap(mating.crossover, sink, "U")
                if algo is None:
                    off = mating.do(prob, pop, n)
                else:
                    off = algo._infill()
                rec.out["off"] = np.array(off.get("X"), dtype=float)
                rec.out["P"] = np.array(sink["P"], dtype=int)
                rec.out["V"] = np.array(sink["V"], dtype=float)
                rec.out["U"] = np.array(sink["U"], dtype=float)
                rec.out["n_parents"] = int(mating.n_parents)
            except Exception as e:
                import traceback
                rec.err = "%s: %s" % (type(e).__name__, e)
        _finish(rec, R, replay)
        if not bits_equal(pop.get("X"), PX):
            rec.frames.append("parent population X modified by the mating")
        rec.tags.add("sel:" + case["sel"])
        rec.tags.add("y:%d" % case["y"])
        rec.tags.add("cross:" + case["cross"])
        rec.tags.add("repair:" + str(case["repair"]))
        rec.tags.add("entry:" + case["entry"])
        if case["pm"]:
            rec.tags.add("pm")
        return rec

    @staticmethod
    def encode(rec):
        c = rec.cfg
        n = len(rec.inp["PX"])
        rk = ranks_for_model(c["ranks"], n)
        # with a genetic mutation the log continues after the crossover: only the DE part is sent
        draws = rec.draws
        if c["pm"]:
            draws = [e for e in draws if "pymoode/" in e.caller]
        t = ["variant", c["sel"], str(c["y"]), c["cross"], proto.fbits(c["CR"])] + _f_tokens(c["F"]) + _opt_f(c["gamma"]) \
            + _rep_tokens(c["repair"], rec.inp["xl"], rec.inp["xu"]) + proto.ilist(rk) + proto.fmat(rec.inp["PX"]) \
            + proto.events(draws)
        return " ".join(t)

    @staticmethod
    def compare(rec, ans):
        status = ans.tok()
        if status == "err":
            return [] if rec.err is not None else ["model rejects the record: " + ans.rest()]
        if rec.err is not None:
            return ["implementation raised %s" % rec.err]
        out = []
        P = ans.imat()
        V = ans.fmat()
        U = ans.fmat()
        if P.shape != rec.out["P"].shape or (P != rec.out["P"]).any():
            out.append("parent matrix differs (impl shape %s, model shape %s)" % (rec.out["P"].shape, P.shape))
        d = first_bit_diff(rec.out["V"], V)
        if d:
            out.append("repaired mutants differ " + d)
        d = first_bit_diff(rec.out["U"], U)
        if d:
            out.append("trial vectors differ " + d)
        if not rec.cfg["pm"]:
            d = first_bit_diff(rec.out["off"], U)
            if d:
                out.append("offspring differ from the model's trial vectors " + d)
        return out

    @staticmethod
    def nontrivial(rec):
        return rec.err is None

    @staticmethod
    def oracle_C01(rec):
        if rec.err is not None:
            return ["mating raised: " + rec.err]
        if rec.cfg["repair"] is None:
            return list(rec.frames)
        xl, xu = rec.inp["xl"], rec.inp["xu"]
        for name in ("off", "U", "V"):
            A = rec.out[name]
            m = (A < xl) | (A > xu) | np.isnan(A)
            if m.any():
                i, j = np.argwhere(m)[0]
                return ["%s [%d,%d] = %r outside [%r, %r] (DE/%s/%d/%s, %s%s)" % (
                    {"off": "offspring", "U": "trial", "V": "repaired mutant"}[name], i, j, A[i, j], xl[j], xu[j],
                    rec.cfg["sel"], rec.cfg["y"], rec.cfg["cross"], rec.cfg["repair"], ", PM" if rec.cfg["pm"] else "")]
        return list(rec.frames)

    @staticmethod
    def oracle_C11(rec):
        """the mating an algorithm (or DifferentialVariant) builds repairs with the strategy it was asked for; repaired
        mutants are inside the box"""
        if rec.err is not None:
            return ["mating raised: " + rec.err]
        bad = []
        want = {"bounce-back": "bounce_back", "midway": "midway", "to-bounds": "to_bounds", "rand-init": "rand_init"}.get(rec.cfg["repair"] or "bounce-back")
        got = rec.out.get("repair_fn")
        if got is not None and got != want:
            bad.append("de_repair=%r was asked for, the mutation operator of the %s repairs with %r" % (
                rec.cfg["repair"] or "bounce-back", rec.cfg.get("algo_cls") if rec.cfg["entry"] == "algorithm" else "DifferentialVariant", got))
        if rec.cfg["repair"] is not None:
            xl, xu = rec.inp["xl"], rec.inp["xu"]
            V = rec.out["V"]
            if ((V < xl) | (V > xu) | np.isnan(V)).any():
                bad.append("a repaired mutant lies outside the box")
        return bad + list(rec.frames)

    @staticmethod
    def oracle_C09(rec):
        if rec.err is not None:
            return ["mating raised: " + rec.err]
        c = rec.cfg
        n = len(rec.inp["PX"])
        exp = 1 + 2 * (c["y"] + (1 if "-to-" in c["sel"] else 0))
        if rec.out["P"].shape[1] != exp:
            return ["DE/%s/%d selects %d parents, expected %d" % (c["sel"], c["y"], rec.out["P"].shape[1], exp)]
        return check_selection(c["sel"], rec.out["P"], n, exp, c["ranks"])

    @staticmethod
    def oracle_C10(rec):
        if rec.err is not None:
            return ["mating raised: " + rec.err]
        c = rec.cfg
        exp = 1 + 2 * (c["y"] + (1 if "-to-" in c["sel"] else 0))
        bad = []
        if rec.out["n_parents"] != exp or rec.out["P"].shape[1] != exp:
            bad.append("DE/%s/%d/%s uses %d parents, expected %d" % (c["sel"], c["y"], c["cross"], rec.out["P"].shape[1], exp))
            return bad
        # unbounded problem: V is the unrepaired mutant -> check the formula interval
        if c["repair"] is None:
            PX = rec.inp["PX"]
            X = np.swapaxes(PX[rec.out["P"]], 0, 1)
            r2 = Record("dem", {"F": c["F"], "gamma": c["gamma"], "repair": None, "mode": "mutation"},
                        {"X": X})
            r2.out["V"] = rec.out["V"]
            r2.out["diffs"] = rec.out["V"] - X[0]
            bad += [b for b in Dem.oracle_C10(r2) if "returned V is not" not in b]
        return bad + list(rec.frames)

    @staticmethod
    def oracle_C12(rec):
        if rec.err is not None:
            return ["mating raised: " + rec.err]
        r2 = Record("dex", {"variant": rec.cfg["cross"], "CR": rec.cfg["CR"], "alo": True},
                    {"Xt": rec.inp["PX"], "V": rec.out["V"]})
        r2.out["U"] = rec.out["U"]
        return Dex.oracle_C12(r2) + list(rec.frames)


Variant.ORACLES = {"C11": Variant.oracle_C11, "C01": Variant.oracle_C01, "C09": Variant.oracle_C09, "C10": Variant.oracle_C10,
                   "C12": Variant.oracle_C12, "C19": Variant.oracle_C09}
