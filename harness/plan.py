"""Which components decide which property, budgets (quick, thorough), evidence texts."""

COMPONENTS = {
    "repair": "comp_repair",
}

TRUSTED_BASE = [
    "Lean 4.33 kernel; axioms of every listed theorem audited to be a subset of {propext, Classical.choice, Quot.sound}",
    "Mathlib v4.33 modules imported by the proof files",
    "hand-written Lean model tied to /repo only by this correspondence run (harness/*.py, lean/Driver.lean, lean/PymoodeModel/Drv/*)",
    "theorems are over an arbitrary linearly ordered field; IEEE rounding is not modelled",
    "numpy.random primitives are recorded by wrapping module attributes; their distribution is not modelled",
]

PROPERTIES = {
    "C11": {
        "components": [("repair", 400, 12000)],
        "rule": "structured random matrices (n,d in 1..6; zero-width, tiny, wide, integer and asymmetric ranges; none/lower/upper/mixed/all/far violations; 20-30% of entries exactly on a bound), four strategies, direct function and REPAIRS registry; non-trivial = at least one violating entry; distinct = hash of (config, inputs, outputs)",
        "explanation": "theorems: repair is the identity on non-violating coordinates and each strategy's placement; correspondence: bitwise equality of the repaired matrix with the Lean model executed at Float on the same recorded draws",
        "assumptions": ["draws lie in [0,1) (checked on every recorded draw by the model run)"],
    },
}
