"""Which components decide which property, budgets (quick, thorough), evidence texts."""

COMPONENTS = {
    "repair": "comp_repair",
    "dem": "comp_ops:Dem",
    "dex": "comp_ops:Dex",
    "mask": "comp_ops:Mask",
    "des": "comp_ops:Des",
    "variant": "comp_ops:Variant",
    "surv": "comp_surv",
    "repl": "comp_repl",
    "gen": "comp_gen",
    "spacing": "comp_spacing",
    "spnn": "comp_spacing:Spnn",
}

TRUSTED_BASE = [
    "Lean 4.33 kernel; axioms of every listed theorem audited to be a subset of {propext, Classical.choice, Quot.sound}",
    "Mathlib v4.33 modules imported by the proof files",
    "hand-written Lean model tied to /repo only by this correspondence run (harness/*.py, lean/Driver.lean, lean/PymoodeModel/Drv/*)",
    "theorems are over an arbitrary linearly ordered field; IEEE rounding is not modelled",
    "numpy.random primitives are recorded by wrapping module attributes; their distribution is not modelled",
]

OPS_RULE = ("structured random cases from one PRNG seeded by VERIF_SEED: zero-width / tiny / wide / integer / asymmetric "
            "ranges, 20-30% of coordinates exactly on a bound, converged populations, F in {None, 0, scalar, (lo,hi), (a,a)}, "
            "gamma in {None, 1e-4, 1, 1.9, random}, CR in {0, 1, grid, random}, six selections x 1..3 differences x {bin, exp} "
            "x four repairs (+ unbounded), with/without PM, both calling conventions; distinct = hash of (config, inputs, "
            "outputs); non-trivial = ")

SURV_RULE = ("populations of 1..16 individuals, 1..5 objectives (grid-valued tie-rich, continuous, simplex-like, one constant "
             "objective, injected duplicates), 0..2 inequality and 0..1 equality constraints (all-feasible / mixed / "
             "all-infeasible / integer-valued violations), n_survive in 1..n, None or > n, five crowding metrics (compiled "
             "pcd only with 2 objectives in-process), RankAndCrowding and ConstrRankAndCrowding; library calls (NDS, "
             "crowding, randomized_argsort, split_by_feasibility) recorded and their contracts evaluated by the Lean "
             "driver; distinct = hash of (config, inputs, outputs); non-trivial = a front was split or feasibility is mixed")

PROPERTIES = {
    "C01": {
        "components": [("variant", 400, 12000), ("dem", 250, 8000), ("dex", 150, 4000), ("repair", 150, 4000)],
        "rule": OPS_RULE + "the call returned offspring (variant/dem), the mask is observable (dex), a bound is violated (repair)",
        "explanation": "theorem offspring_in_bounds: every offspring coordinate is in [xl,xu] for all F, gamma, differences, masks and draws in [0,1); correspondence: selection matrix, repaired mutants and trials equal the Lean model bit for bit; the oracle checks the real floats against the bounds",
        "assumptions": ["parents in bounds", "draws in [0,1)", "pymoo PM keeps in-bounds vectors in bounds (checked on every record)",
                        "IEEE rounding of bounce-back/rand-init cannot cross a bound (argued in DESIGN.md, checked on every record)"],
    },
    "C09": {
        "components": [("des", 600, 20000), ("variant", 200, 6000)],
        "rule": OPS_RULE + "at least one re-selection round happened (des)",
        "explanation": "theorems fillCols_spec / *_spec / ranked_spec: drawn parents valid, distinct, differ from target (and best), documented columns, ranked = permutation with best base and directed pairs; correspondence: parent matrix equal to the model's on the recorded choice() vectors, call signatures included",
        "assumptions": ["partial correctness: the re-selection loops terminate with probability one, not certainly",
                        "population index 0 is the top-ranked individual (established by the survival operators, C02/C04)"],
    },
    "C10": {
        "components": [("dem", 500, 16000), ("variant", 250, 8000)],
        "rule": OPS_RULE + "the call returned mutants",
        "explanation": "theorems mutant_formula, dither_range, jitter_range, nParents_eq, pairs_get; correspondence: mutants and differentials bit-equal to the model (every F / gamma / n_parents / calling convention)",
        "assumptions": ["draws in [0,1)"],
    },
    "C11": {
        "components": [("repair", 400, 12000), ("dem", 300, 10000)],
        "rule": OPS_RULE + "at least one coordinate violates a bound",
        "explanation": "theorems: repair is the identity on non-violating coordinates and each strategy's placement; correspondence: bitwise equality of the repaired matrix with the Lean model executed at Float on the same recorded draws; DEM.do compared with de_mutation under the same draws",
        "assumptions": ["draws in [0,1)"],
    },
    "C12": {
        "components": [("dex", 400, 12000), ("mask", 300, 10000), ("variant", 200, 6000)],
        "rule": OPS_RULE + "every mutant coordinate differs from the target's so the mask is observable (dex)",
        "explanation": "theorems trial_coord_cases, forceOne_any, bin_cr_one, bin_cr_zero_exactly_one, exp_cr_one, exp_cr_zero, expRow_block; correspondence: masks and trials bit-equal to the model on the recorded draws",
        "assumptions": ["draws in [0,1)"],
    },
    "C03": {
        "components": [("surv", 1200, 40000)],
        "rule": SURV_RULE,
        "explanation": "theorems frontLoop_length / _nodup / _subset, survivalDo_unconstrained, survivalDo_constrained (C16.constr_length for the constrained class): exactly min(n_survive, n) distinct positions of the input; correspondence: survivor identity list and rank attributes equal the model's; object identity and X/F/G/H snapshots checked on the real objects",
        "assumptions": ["oracle contracts (IsFronts, argsort permutation, feasibility partition) hold - evaluated on every record"],
    },
    "C04": {
        "components": [("surv", 1200, 40000)],
        "gen_args": {"surv": {"classes": ("rnc",)}},
        "rule": SURV_RULE,
        "explanation": "theorems frontLoop_rank_respect, first_front_kept, dom_rank_lt, no_discarded_dominates_survivor, isFronts_unique, feasible_first, infeasible_by_cv, rankOf_eq; correspondence as C03; the NDS result is checked against the exact peeling characterisation of fronts on every record",
        "assumptions": ["oracle contracts hold - evaluated on every record"],
    },
    "C16": {
        "components": [("surv", 1200, 40000)],
        "gen_args": {"surv": {"classes": ("constr",)}},
        "rule": SURV_RULE,
        "explanation": "theorems fillLoop_eq_frontLoop, unconstrained_eq_rnc, feasible_part_eq_rnc, feasible_before_infeasible, fill_rank_respect, last_front_cut_by_cv, constr_length; correspondence: survivors equal the model's given the recorded oracles, the violation-space NDS is checked against IsFronts on [max(G,0), |H|] recomputed by the model; the oracle re-runs RankAndCrowding under the same seed",
        "assumptions": ["oracle contracts hold - evaluated on every record"],
    },
    "C02": {
        "components": [("repl", 900, 30000), ("gen", 60, 2000)],
        "gen_args": {"gen": {"algos": ["de"]}},
        "rule": "parent/offspring pairs of 1..10 slots on grid-valued decision vectors (exact duplicates between offspring and against members), objectives rounded to a grid (exact ties), 0..2 inequality and 0..1 equality constraints with shifted feasibility, the operator object fresh / the shared default of DE() / used before on a problem of the other kind; distinct = hash; non-trivial = some slots replaced and some kept",
        "explanation": "theorems improves_iff, isDuplicate_iff, slotChoice_get, replaceMaskAux_get, replaceStep_perm/_length/_sorted, replaceStep_no_worse, best_monotone (induction over any sequence of generations with universally quantified offspring); correspondence: replacement mask and next population (object identities, order) equal the model's",
        "assumptions": ["pymoo's feasibility convention CV >= 0, feasible <=> CV <= 0 (checked on every record)",
                        "X-equality stands for DefaultDuplicateElimination(epsilon=0) (squared differences that underflow are not generated)"],
    },
    "C05": {
        "components": [("gen", 160, 4000)],
        "gen_args": {"gen": {"algos": ["gde3", "gde3mnn", "gde32nn", "gde3p"]}},
        "rule": "ask / external evaluation / tell loops of DE, NSDE, GDE3, GDE3MNN, GDE32NN, GDE3P, NSDE-R and the generic GeneticAlgorithm base (SBX or DEX crossover, PM, n_offsprings = or != pop_size) on random bounded problems (1..4 variables, 1..4 objectives, 0..2 constraints with shifted feasibility, grid-rounded objectives for exact ties), population sizes n_parents+1.., every selection / crossover / repair, five crowding metrics, RankAndCrowding / ConstrRankAndCrowding / the shared default survival object, optional PM, optionally after an unrelated run in the same process; one record per generation (2..5 per run): candidates handed to the survival, next population (object identities), optimum, sizes, evaluation counter, F(X) provenance; distinct = hash; non-trivial = an offspring entered the population",
        "explanation": "theorems getRelation_one_iff / _neg_one_iff, gde3Slot_spec, gde3Candidates_length_ge, dominated_offspring_not_candidate, dominated_parent_not_candidate; correspondence: the candidate list handed to survival.do and the next population equal the model's (identities, order)",
        "assumptions": ["individual identities are distinct (checked)", "survivors are candidates (C03)"],
    },
    "C06": {
        "components": [("gen", 200, 5000)],
        "gen_args": {"gen": {"algos": ["nsde", "gde3", "gde3mnn", "gde32nn", "gde3p", "nsder", "ga", "ea-dex"]}},
        "rule": "ask / external evaluation / tell loops of DE, NSDE, GDE3, GDE3MNN, GDE32NN, GDE3P, NSDE-R and the generic GeneticAlgorithm base (SBX or DEX crossover, PM, n_offsprings = or != pop_size) on random bounded problems (1..4 variables, 1..4 objectives, 0..2 constraints with shifted feasibility, grid-rounded objectives for exact ties), population sizes n_parents+1.., every selection / crossover / repair, five crowding metrics, RankAndCrowding / ConstrRankAndCrowding / the shared default survival object, optional PM, optionally after an unrelated run in the same process; one record per generation (2..5 per run): candidates handed to the survival, next population (object identities), optimum, sizes, evaluation counter, F(X) provenance; distinct = hash; non-trivial = an offspring entered the population",
        "explanation": "theorems pick_subset, nsde_new_pop_subset, gde3_new_pop_subset, no_survivor_dominated_by_discarded, nondominated_survive_if_fit, no_infeasible_over_feasible; NSDE-R: the reference-direction survival of pymoo is a checked oracle (contract evaluated on every record), the elitism clauses are checked on the real populations",
        "assumptions": ["oracle contracts hold - evaluated on every record", "NSDE-R survival is pymoo's; only its contract is used"],
    },
    "C07": {
        "components": [("gen", 220, 5000)],
        "rule": "ask / external evaluation / tell loops of DE, NSDE, GDE3, GDE3MNN, GDE32NN, GDE3P, NSDE-R and the generic GeneticAlgorithm base (SBX or DEX crossover, PM, n_offsprings = or != pop_size) on random bounded problems (1..4 variables, 1..4 objectives, 0..2 constraints with shifted feasibility, grid-rounded objectives for exact ties), population sizes n_parents+1.., every selection / crossover / repair, five crowding metrics, RankAndCrowding / ConstrRankAndCrowding / the shared default survival object, optional PM, optionally after an unrelated run in the same process; one record per generation (2..5 per run): candidates handed to the survival, next population (object identities), optimum, sizes, evaluation counter, F(X) provenance; distinct = hash; non-trivial = an offspring entered the population",
        "explanation": "theorems pick_ids_nodup, gde3Candidates_ids_nodup, advance_inv_unconstrained, advance_inv_constrained, merge_ok, gde3_ok, budget, reachable_inv, nsde_reachable_inv, gde3_reachable_inv (invariant by induction over histories); correspondence: next population equals the model's; sizes, evaluator counter and F(X)=stored F checked on the real objects every generation",
        "assumptions": ["offspring objects are fresh (checked)", "problem.evaluate is a pure function of X (checked by re-evaluation)",
                        "for the generic GeneticAlgorithm the infill is pymoo's Mating: only its output count is checked"],
    },
    "C08": {
        "components": [("gen", 220, 5000)],
        "rule": "ask / external evaluation / tell loops of DE, NSDE, GDE3, GDE3MNN, GDE32NN, GDE3P, NSDE-R and the generic GeneticAlgorithm base (SBX or DEX crossover, PM, n_offsprings = or != pop_size) on random bounded problems (1..4 variables, 1..4 objectives, 0..2 constraints with shifted feasibility, grid-rounded objectives for exact ties), population sizes n_parents+1.., every selection / crossover / repair, five crowding metrics, RankAndCrowding / ConstrRankAndCrowding / the shared default survival object, optional PM, optionally after an unrelated run in the same process; one record per generation (2..5 per run): candidates handed to the survival, next population (object identities), optimum, sizes, evaluation counter, F(X) provenance; distinct = hash; non-trivial = an offspring entered the population",
        "explanation": "theorems later_front_has_dominator, rank0_iff_nondominated, argminCv_spec, opt_infeasible, opt_feasible_only, de_opt_single; correspondence: algorithm.opt after every tell() equals the model's setOptimum on the model's next population and fresh ranks",
        "assumptions": ["oracle contracts hold", "NSDE-R: survival.opt is an oracle with contract 'feasible first-front candidates'"],
    },
    "C20": {
        "components": [("spacing", 900, 30000)],
        "rule": "point sets of 2..30 points, 1..5 objectives (tie-rich grids, continuous at three scales, equally spaced lines, a constant objective, large offsets, injected duplicates), metrics cityblock / euclidean / chebyshev, all ideal / nadir / pf settings (none, both bounds, pf only, pf = F, pf + one bound, all three), each case also evaluated on a permuted, a translated and a scaled copy; distinct = hash; non-trivial = spacing > 0",
        "explanation": "theorems spacing_nonneg, spacing_zero_of_equal, spacingSq_perm, cityblock/chebyshev/sqEuclid_translate, cityblock_scale, spacingSq_scale, spacing_scale, secondSmallest_mem, normCoord_eq; correspondence: the value equals the Lean model at Float within 1e-9 relative (pdist / mean summation order is not replicated bit for bit); the oracle is a direct implementation of the definition",
        "assumptions": ["sqrt is an abstract function with sqrt 0 = 0, non-negativity and sqrt(c*c*x) = c*sqrt x", "scipy pdist computes the named metrics"],
    },
}
