"""Which components decide which property, budgets (quick, thorough), evidence texts."""

COMPONENTS = {
    "repair": "comp_repair",
    "dem": "comp_ops:Dem",
    "dex": "comp_ops:Dex",
    "mask": "comp_ops:Mask",
    "des": "comp_ops:Des",
    "variant": "comp_ops:Variant",
    "surv": "comp_surv",
    "repl": "comp_repl",
    "gen": "comp_gen",
    "spacing": "comp_spacing",
    "spnn": "comp_spacing:Spnn",
    "crowd3": "comp_crowd",
    "trunc": "comp_trunc",
    "repro": "comp_runs:Repro",
    "resume": "comp_runs:Resume",
    "stats": "comp_stats",
}

TRUSTED_BASE = [
    "Lean 4.33 kernel; axioms of every listed theorem audited to be a subset of {propext, Classical.choice, Quot.sound}",
    "Mathlib v4.33 modules imported by the proof files",
    "hand-written Lean model tied to /repo by this correspondence run (harness/*.py, lean/Driver.lean, lean/PymoodeModel/Drv/*) and, for the arithmetic / decision formulas of dem.py, dex.py and replacement.py, by obligations generated from the current source on every run (harness/translate.py: Python AST -> Lean term, proved equal to the model's definition by rfl / simp); the translator itself (expression printer, positional statement selection) is trusted",
    "theorems are over an arbitrary linearly ordered field; IEEE rounding is not modelled (except in C01b, under an abstract monotone rounding)",
    "numpy.random primitives are recorded by wrapping module attributes; their distribution is not modelled",
]

OPS_RULE = ("structured random cases from one PRNG seeded by VERIF_SEED: zero-width / tiny / wide / integer / asymmetric "
            "ranges, 20-30% of coordinates exactly on a bound, converged populations, F in {None, 0, scalar, (lo,hi), (a,a)}, "
            "gamma in {None, 1e-4, 1, 1.9, random}, CR in {0, 1, grid, random}, six selections x 1..3 differences x {bin, exp} "
            "x four repairs (+ unbounded), with/without PM, both calling conventions; distinct = hash of (config, inputs, "
            "outputs); non-trivial = ")

SURV_RULE = ("populations of 1..16 individuals, 1..5 objectives (grid-valued tie-rich, continuous, simplex-like, one constant "
             "objective, injected duplicates), 0..2 inequality and 0..1 equality constraints (all-feasible / mixed / "
             "all-infeasible / integer-valued violations), n_survive in 1..n, None or > n, five crowding metrics (compiled "
             "pcd only with 2 objectives in-process), RankAndCrowding and ConstrRankAndCrowding; library calls (NDS, "
             "crowding, randomized_argsort, split_by_feasibility) recorded and their contracts evaluated by the Lean "
             "driver; distinct = hash of (config, inputs, outputs); non-trivial = a front was split or feasibility is mixed")

PROPERTIES = {
    "C01": {
        "components": [("variant", 400, 60000), ("dem", 250, 40000), ("dex", 150, 20000), ("repair", 150, 20000)],
        "rule": OPS_RULE + "the call returned offspring (variant/dem), the mask is observable (dex), a bound is violated (repair)",
        "explanation": "theorem offspring_in_bounds: every offspring coordinate is in [xl,xu] for all F, gamma, differences, masks and draws in [0,1); C01b (rounding after every operation, assumed only monotone, exact on the bounds and 0, relative error <= u): the violated bound is never crossed for any draw (bounceLow_near / bounceUp_near / randLow_near / randUp_near), midway stays inside on both sides (midLow_in_bounds / midUp_in_bounds), and bounce-back / rand-init do not cross the far bound for every draw with r(1+u)^2 <= 1, i.e. every value of NumPy's 53-bit grid but the largest (…_far); correspondence: selection matrix, repaired mutants and trials equal the Lean model bit for bit; the oracle checks the real floats against the bounds",
        "assumptions": ["parents in bounds", "draws in [0,1)", "pymoo PM keeps in-bounds vectors in bounds (checked on every record)",
                        "IEEE rounding of bounce-back/rand-init cannot cross a bound: proved in C01b under an abstract monotone rounding for every draw except the largest grid value 1 - 2^-53, which is argued in DESIGN.md and checked on every record"],
    },
    "C09": {
        "components": [("des", 600, 100000), ("variant", 200, 30000)],
        "rule": OPS_RULE + "at least one re-selection round happened (des)",
        "explanation": "theorems fillCols_spec / *_spec / ranked_spec: drawn parents valid, distinct, differ from target (and best), documented columns, ranked = permutation with best base and directed pairs; correspondence: parent matrix equal to the model's on the recorded choice() vectors, call signatures included",
        "assumptions": ["partial correctness: the re-selection loops terminate with probability one, not certainly",
                        "population index 0 is the top-ranked individual (established by the survival operators, C02/C04)"],
    },
    "C10": {
        "components": [("dem", 500, 80000), ("variant", 250, 40000)],
        "rule": OPS_RULE + "the call returned mutants",
        "explanation": "theorems mutant_formula, dither_range, jitter_range, nParents_eq, pairs_get; correspondence: mutants and differentials bit-equal to the model (every F / gamma / n_parents / calling convention)",
        "assumptions": ["draws in [0,1)"],
    },
    "C11": {
        "components": [("repair", 400, 60000), ("dem", 300, 50000), ("variant", 200, 20000)],
        "rule": OPS_RULE + "at least one coordinate violates a bound",
        "explanation": "theorems: repair is the identity on non-violating coordinates and each strategy's placement; correspondence: bitwise equality of the repaired matrix with the Lean model executed at Float on the same recorded draws; DEM.do compared with de_mutation under the same draws",
        "assumptions": ["draws in [0,1)"],
    },
    "C12": {
        "components": [("dex", 400, 60000), ("mask", 300, 50000), ("variant", 200, 30000)],
        "rule": OPS_RULE + "every mutant coordinate differs from the target's so the mask is observable (dex)",
        "explanation": "theorems trial_coord_cases, forceOne_any, bin_cr_one, bin_cr_zero_exactly_one, exp_cr_one, exp_cr_zero, expRow_block; correspondence: masks and trials bit-equal to the model on the recorded draws",
        "assumptions": ["draws in [0,1)"],
    },
    "C03": {
        "components": [("surv", 1200, 60000)],
        "rule": SURV_RULE,
        "explanation": "theorems frontLoop_length / _nodup / _subset, survivalDo_unconstrained, survivalDo_constrained (C16.constr_length for the constrained class): exactly min(n_survive, n) distinct positions of the input; correspondence: survivor identity list and rank attributes equal the model's; object identity and X/F/G/H snapshots checked on the real objects",
        "assumptions": ["oracle contracts (IsFronts, argsort permutation, feasibility partition) hold - evaluated on every record"],
    },
    "C04": {
        "components": [("surv", 1200, 60000)],
        "gen_args": {"surv": {"classes": ("rnc",)}},
        "rule": SURV_RULE,
        "explanation": "theorems frontLoop_rank_respect, first_front_kept, dom_rank_lt, no_discarded_dominates_survivor, isFronts_unique, feasible_first, infeasible_by_cv, rankOf_eq; correspondence as C03; the NDS result is checked against the exact peeling characterisation of fronts on every record",
        "assumptions": ["oracle contracts hold - evaluated on every record"],
    },
    "C16": {
        "components": [("surv", 1200, 200000)],
        "gen_args": {"surv": {"classes": ("constr",)}},
        "rule": SURV_RULE,
        "explanation": "theorems fillLoop_eq_frontLoop, unconstrained_eq_rnc, feasible_part_eq_rnc, feasible_before_infeasible, fill_rank_respect, last_front_cut_by_cv, constr_length; correspondence: survivors equal the model's given the recorded oracles, the violation-space NDS is checked against IsFronts on [max(G,0), |H|] recomputed by the model; the oracle re-runs RankAndCrowding under the same seed",
        "assumptions": ["oracle contracts hold - evaluated on every record"],
    },
    "C02": {
        "components": [("repl", 900, 150000), ("gen", 60, 8000)],
        "gen_args": {"gen": {"algos": ["de"]}},
        "rule": "parent/offspring pairs of 1..10 slots on grid-valued decision vectors (exact duplicates between offspring and against members), objectives rounded to a grid (exact ties), 0..2 inequality and 0..1 equality constraints with shifted feasibility, the operator object fresh / the shared default of DE() / used before on a problem of the other kind; distinct = hash; non-trivial = some slots replaced and some kept",
        "explanation": "theorems improves_iff, isDuplicate_iff, slotChoice_get, replaceMaskAux_get, replaceStep_perm/_length/_sorted, replaceStep_no_worse, best_monotone (induction over any sequence of generations with universally quantified offspring); correspondence: replacement mask and next population (object identities, order) equal the model's",
        "assumptions": ["pymoo's feasibility convention CV >= 0, feasible <=> CV <= 0 (checked on every record)",
                        "X-equality stands for DefaultDuplicateElimination(epsilon=0) (squared differences that underflow are not generated)"],
    },
    "C05": {
        "components": [("gen", 160, 16000)],
        "gen_args": {"gen": {"algos": ["gde3", "gde3mnn", "gde32nn", "gde3p"]}},
        "rule": "ask / external evaluation / tell loops of DE, NSDE, GDE3, GDE3MNN, GDE32NN, GDE3P, NSDE-R and the generic GeneticAlgorithm base (SBX or DEX crossover, PM, n_offsprings = or != pop_size) on random bounded problems (1..4 variables, 1..4 objectives, 0..2 constraints with shifted feasibility, grid-rounded objectives for exact ties), population sizes n_parents+1.., every selection / crossover / repair, five crowding metrics, RankAndCrowding / ConstrRankAndCrowding / the shared default survival object, optional PM, optionally after an unrelated run in the same process; one record per generation (2..5 per run): candidates handed to the survival, next population (object identities), optimum, sizes, evaluation counter, F(X) provenance; distinct = hash; non-trivial = an offspring entered the population",
        "explanation": "theorems getRelation_one_iff / _neg_one_iff, gde3Slot_spec, gde3Candidates_length_ge, dominated_offspring_not_candidate, dominated_parent_not_candidate; correspondence: the candidate list handed to survival.do and the next population equal the model's (identities, order)",
        "assumptions": ["individual identities are distinct (checked)", "survivors are candidates (C03)"],
    },
    "C06": {
        "components": [("gen", 200, 20000)],
        "gen_args": {"gen": {"algos": ["nsde", "gde3", "gde3mnn", "gde32nn", "gde3p", "nsder", "ga", "ea-dex"]}},
        "rule": "ask / external evaluation / tell loops of DE, NSDE, GDE3, GDE3MNN, GDE32NN, GDE3P, NSDE-R and the generic GeneticAlgorithm base (SBX or DEX crossover, PM, n_offsprings = or != pop_size) on random bounded problems (1..4 variables, 1..4 objectives, 0..2 constraints with shifted feasibility, grid-rounded objectives for exact ties), population sizes n_parents+1.., every selection / crossover / repair, five crowding metrics, RankAndCrowding / ConstrRankAndCrowding / the shared default survival object, optional PM, optionally after an unrelated run in the same process; one record per generation (2..5 per run): candidates handed to the survival, next population (object identities), optimum, sizes, evaluation counter, F(X) provenance; distinct = hash; non-trivial = an offspring entered the population",
        "explanation": "theorems pick_subset, nsde_new_pop_subset, gde3_new_pop_subset, no_survivor_dominated_by_discarded, nondominated_survive_if_fit, no_infeasible_over_feasible; NSDE-R: the reference-direction survival of pymoo is a checked oracle (contract evaluated on every record), the elitism clauses are checked on the real populations",
        "assumptions": ["oracle contracts hold - evaluated on every record", "NSDE-R survival is pymoo's; only its contract is used"],
    },
    "C07": {
        "components": [("gen", 220, 20000)],
        "rule": "ask / external evaluation / tell loops of DE, NSDE, GDE3, GDE3MNN, GDE32NN, GDE3P, NSDE-R and the generic GeneticAlgorithm base (SBX or DEX crossover, PM, n_offsprings = or != pop_size) on random bounded problems (1..4 variables, 1..4 objectives, 0..2 constraints with shifted feasibility, grid-rounded objectives for exact ties), population sizes n_parents+1.., every selection / crossover / repair, five crowding metrics, RankAndCrowding / ConstrRankAndCrowding / the shared default survival object, optional PM, optionally after an unrelated run in the same process; one record per generation (2..5 per run): candidates handed to the survival, next population (object identities), optimum, sizes, evaluation counter, F(X) provenance; distinct = hash; non-trivial = an offspring entered the population",
        "explanation": "theorems pick_ids_nodup, gde3Candidates_ids_nodup, advance_inv_unconstrained, advance_inv_constrained, merge_ok, gde3_ok, budget, reachable_inv, nsde_reachable_inv, gde3_reachable_inv (invariant by induction over histories); correspondence: next population equals the model's; sizes, evaluator counter and F(X)=stored F checked on the real objects every generation",
        "assumptions": ["offspring objects are fresh (checked)", "problem.evaluate is a pure function of X (checked by re-evaluation)",
                        "for the generic GeneticAlgorithm the infill is pymoo's Mating: only its output count is checked"],
    },
    "C08": {
        "components": [("gen", 220, 20000)],
        "rule": "ask / external evaluation / tell loops of DE, NSDE, GDE3, GDE3MNN, GDE32NN, GDE3P, NSDE-R and the generic GeneticAlgorithm base (SBX or DEX crossover, PM, n_offsprings = or != pop_size) on random bounded problems (1..4 variables, 1..4 objectives, 0..2 constraints with shifted feasibility, grid-rounded objectives for exact ties), population sizes n_parents+1.., every selection / crossover / repair, five crowding metrics, RankAndCrowding / ConstrRankAndCrowding / the shared default survival object, optional PM, optionally after an unrelated run in the same process; one record per generation (2..5 per run): candidates handed to the survival, next population (object identities), optimum, sizes, evaluation counter, F(X) provenance; distinct = hash; non-trivial = an offspring entered the population",
        "explanation": "theorems later_front_has_dominator, rank0_iff_nondominated, argminCv_spec, opt_infeasible, opt_feasible_only, de_opt_single; correspondence: algorithm.opt after every tell() equals the model's setOptimum on the model's next population and fresh ranks",
        "assumptions": ["oracle contracts hold", "NSDE-R: survival.opt is an oracle with contract 'feasible first-front candidates'"],
    },
    "C20": {
        "components": [("spacing", 900, 150000)],
        "rule": "point sets of 2..30 points, 1..5 objectives (tie-rich grids, continuous at three scales, equally spaced lines, a constant objective, large offsets, injected duplicates), metrics cityblock / euclidean / chebyshev, all ideal / nadir / pf settings (none, both bounds, pf only, pf = F, pf + one bound, all three), each case also evaluated on a permuted, a translated and a scaled copy; distinct = hash; non-trivial = spacing > 0",
        "explanation": "theorems spacing_nonneg, spacing_zero_of_equal, spacingSq_perm, cityblock/chebyshev/sqEuclid_translate, cityblock_scale, spacingSq_scale, spacing_scale, secondSmallest_mem, normCoord_eq; correspondence: the value equals the Lean model at Float within 1e-9 relative (pdist / mean summation order is not replicated bit for bit); the oracle is a direct implementation of the definition",
        "assumptions": ["sqrt is an abstract function with sqrt 0 = 0, non-negativity and sqrt(c*c*x) = c*sqrt x", "scipy pdist computes the named metrics"],
    },
    "C13": {
        "components": [("crowd3", 500, 6000)],
        "gen_args_thorough": {"crowd3": {"max_n": 200}},
        "parallel": True,
        "rule": "non-dominated fronts of 1..40 points (thorough: ..200), 2..5 objectives: simplex-like and spherical continuous fronts, grid-valued fronts (coordinate and distance ties), a constant objective, tied extremes, badly scaled objectives, fronts with duplicates; n_remove = 0, 1 or uniform in 0..N; each case is evaluated by the compiled raw kernel, the pure-Python raw function, and through get_crowding_function(label).do in a process with and without the compiled extensions; compiled pcd with >= 3 objectives runs in isolated worker processes and only where the Lean kernel model predicts no out-of-bounds index; distinct = hash; non-trivial = more than 2 points and n_remove > 1",
        "explanation": "theorems cdSorted_wellformed, cdSorted_ends_top, sumExt_wellformed, nnProduct_nonneg, mnnScratch_extremes_top (well-formedness of cd and of the pruning definitions); pcdKernelF_refines / pcdKernelF_safe / pcd_two_objectives: the compiled pcd kernel (functional transcription Metrics/KernelF.lean) returns exactly the published definition and keeps every index in range, for any n_remove, whenever every objective's maximum is attained once and n_remove-1 does not exceed the number of non-extreme points (negations = known findings F2, F3), unconditionally on duplicate-free non-dominated bi-objective fronts; mnnKernelF_safe / mnn_indices_valid: the compiled mnn / 2nn kernel (Metrics/KernelM.lean) never uses an unassigned neighbour slot as an index, for every front and every n_remove (the read at mnn.pyx:207, known finding F4, is the one access outside the statement); mnnKernelF_refines (C13i): on every front whose distance rows have no ties (NoTies; its negation is what known finding F9 needs) the compiled mnn / 2nn kernel returns exactly the published definition for any n_remove (simulation: every live non-extreme row of the neighbour table lists the M nearest live points in ascending order; removal + re-insertion of all live candidates re-establishes it; the product over such a row is the product of the order statistics 1..M of the definition's distance row); mnnKernelF_wellformed / mnnKernelF_extremes_top: for every front, ties and duplicates included, the kernel's values are non-negative or +inf and the extremes stay +inf; pcdKernelF_wellformed where the pcd kernel is defined. Correspondence: the driver evaluates NoTies and the conclusion of mnnKernelF_refines on every record; the functional kernels are compared with the statement-by-statement array interpreters (Metrics/Kernel.lean) on every record (bit-equal values, ok <=> no access logged), the interpreters and the definitions with the binary and the pure-Python engine bit for bit (ce: 1e-9), caller's array compared before/after in C / Fortran / strided / integer layouts; definitions checked against an independent greedy reference on tie-free fronts",
        "assumptions": ["Cython semantics: boundscheck=False, wraparound=False make A[i,j] raw pointer arithmetic",
                        "the kernel theorems are about exact ordered-field arithmetic; IEEE rounding is outside them",
                        "known findings F2-F4 are genuine out-of-bounds accesses of the compiled kernels (hypotheses / exclusions of the theorems)"],
    },
    "C14": {
        "components": [("crowd3", 500, 6000), ("spnn", 200, 30000), ("trunc", 150, 6000)],
        "parallel": True,
        "rule": "non-dominated fronts of 1..40 points (thorough: ..200), 2..5 objectives: simplex-like and spherical continuous fronts, grid-valued fronts (coordinate and distance ties), a constant objective, tied extremes, badly scaled objectives, fronts with duplicates; n_remove = 0, 1 or uniform in 0..N; each case is evaluated by the compiled raw kernel, the pure-Python raw function, and through get_crowding_function(label).do in a process with and without the compiled extensions; compiled pcd with >= 3 objectives runs in isolated worker processes and only where the Lean kernel model predicts no out-of-bounds index; distinct = hash; non-trivial = more than 2 points and n_remove > 1",
        "explanation": "theorems: the pure-Python engine is the definition itself (Prune.lean is both); cd/ce are engine-independent; pcd_engine_independent / pcdKernelF_refines / pcd_two_objectives: the compiled pcd kernel and the pure-Python pcd return the same values for any n_remove wherever the compiled one is defined (exact arithmetic); mnn_engine_independent / mnnKernelF_refines: the compiled mnn / 2nn kernel and the pure-Python engine return the same values for any n_remove on every front without distance ties (with ties they differ: known finding F9); C20.secondSmallest_mem for the spacing helper. The two engines are compared input by input on the real code (values within 1e-9, infinities at the same points; fronts with exactly tied pairwise distances included since session 3, which exposed known finding F9) and each against its own bit-exact Lean model; the compiled spacing helper is compared with the NumPy expression of SpacingIndicator",
        "assumptions": ["where the compiled pcd kernel is undefined (F2/F3) there is nothing to compare",
                        "compiled mnn (>= 3 neighbours) on fronts with exactly tied distances and n_remove > 1 is known finding F9"],
    },
    "C15": {
        "components": [("trunc", 500, 10000), ("surv", 400, 40000)],
        "gen_args": {"surv": {"classes": ("rnc",)}},
        "gen_args_thorough": {"trunc": {"max_n": 120}},
        "parallel": True,
        "rule": "single non-dominated fronts of 2M+2..36 points (thorough ..120), 2..4 objectives (continuous simplex / sphere fronts, grid-valued, constant objective, tied extremes, duplicates, badly scaled), truncated by RankAndCrowding to n_survive in [2M, N) (two thirds) or [1, N), five metrics, compiled engine in-process (pcd with >= 3 objectives only where the kernel model predicts no out-of-bounds index), a third also in the pure-Python engine in a worker process with the same seed; plus the mixed-front survival records of C03; distinct = hash; non-trivial = a front was cut",
        "explanation": "theorems take_keeps_top, boundary_retained, cdSorted_top_count, dropped_smallest (+ C13 extremes / well-formedness); greedy pruning: sort_mono, nnProduct_mono, cMnn_mono, mnnFallback_stale_le_live (mnn / 2nn definition), gapF_mono, sumF_mono, pcdFallback_stale_le_live and - through C13.pcdKernelF_refines - pcdKernel_stale_le_live (pcd definition and compiled kernel): every pruned point keeps a value <= every live point's, so truncation_drops_removed applies; for the compiled mnn / 2nn kernel the same follows through C13.mnnKernelF_refines (mnnKernel_stale_le_live) on every front without distance ties; C15d composes them: mnn_truncation_is_greedy - for 1 <= n_remove <= N - M the members kept by the cut I[:-n_remove] are exactly the live set after n_remove greedy removals (pruneLive), when the compared values do not tie (mnnKernel_truncation_is_greedy for the compiled kernel); C15e: the same for pcd (pcd_truncation_is_greedy, pcdKernel_truncation_is_greedy) wherever the compiled pcd kernel is defined. The n_remove forwarded to the crowding function and the crowding values it returned are checked against the Lean metric models inside every survival record; the dropped set is compared with an independent one-at-a-time pruning reference on tie-free fronts in both engines, down to N - M kept members",
        "assumptions": ["descending argsort contract (checked on every record)", "for the compiled mnn / 2nn kernel greedy-pruning equivalence rests on the reference comparison, not on a theorem"],
    },
    "C17": {
        "components": [("repro", 160, 8000), ("gen", 120, 12000)],
        "parallel": True,
        "level_text": "PARTIAL. Lean theorems over the run model (a run is a fold of a pure step: composition over splits of the draw stream, independence from the order / batching of external evaluation); that the real algorithm object has no more state than the model's is checked, not proved: ",
        "rule": "runs of DE, NSDE, GDE3(+MNN/2NN/P), NSDE-R and the generic base classes (3..6 generations, configurations as for C05-C08, optionally with a stateful user mutation, a user repair callable or a user CrowdingDiversity)" + ", each executed twice along different histories and compared generation by generation bit for bit: same seed repeated; after an unrelated run built from the same shared default objects with the same population size and other parameters; minimize() vs ask-and-tell; external one-by-one evaluation in a random order by a separate evaluator; next() vs ask/tell; with save_history; interleaved with another instance on its own generator state; in a fresh interpreter vs in-process after other work; plus the generation records of C05-C08 (next population = model step on the recorded draws and oracles). distinct = hash of the configuration; non-trivial = the run completed",
        "explanation": "theorems run_split, run_deterministic, next_eq_ask_eval_tell, evalInOrder_get, eval_order_irrelevant, eval_orders_agree",
        "assumptions": ["NumPy's Mersenne Twister, its seeding by Algorithm.setup and process-level state of third-party modules are not modelled",
                        "random sources other than numpy's global generator are detected by tripwires on random.* and default_rng only when called during a recorded step"],
    },
    "C18": {
        "components": [("resume", 90, 5000), ("gen", 60, 6000)],
        "parallel": True,
        "level_text": "PARTIAL. Lean theorems over the run model (resume = uninterrupted run for every split point given restore . snapshot = id; history recording is neutral); restore . snapshot = id for pickle / dill / deepcopy of the real object graph is checked at every generation index, not proved: ",
        "rule": "runs of DE, NSDE, GDE3(+MNN/2NN/P), NSDE-R and the generic base classes (3..6 generations, configurations as for C05-C08, optionally with a stateful user mutation, a user repair callable or a user CrowdingDiversity)" + ", checkpointed with pickle / dill / copy.deepcopy together with numpy.random.get_state() after EVERY generation while the original keeps running; every copy is compared with the original at that time, resumed with the saved generator state, and all later populations and the reported optimum are compared bit for bit with the uninterrupted run; a third of the runs also with save_history=True vs False. non-trivial = at least two interruption points",
        "explanation": "theorems resume_eq, resume_any_point, resume_twice, history_neutral, history_length",
        "assumptions": ["the pickle protocol and object graphs are not modelled", "the generator state saved is numpy's global one"],
    },
    "C19": {
        "components": [("stats", 52, 260), ("mask", 300, 40000), ("dex", 200, 30000), ("dem", 300, 40000), ("des", 300, 40000), ("repair", 200, 30000)],
        "gen_args_thorough": {"stats": {"n_samples": 200000}},
        "parallel": True,
        "level_text": "PARTIAL. Lean theorems give each outcome as an exact event of NumPy's primitives (coordinate taken iff its draw < CR, block length >= k iff the first k draws < CR, dither / jitter / bounce-back / rand-init are affine bijections of [0,1) onto the stated segment, re-selection keeps the first admissible candidate and admissible values are exchangeable) and - C19b, by counting over the grid {i/N} of numpy.random.random(), N = 2^53 - the laws themselves: exactly ceil(CR N) of the N draws are < CR (grid_count_lt, grid_prob_close), the number of draw vectors producing a given binomial mask is the product of the per-coordinate counts (bin_mask_count: independence), the block length of exponential crossover is >= k on exactly ceil(CR N)^k N^(n-k) of the N^n draw vectors (exp_len_count: geometric law), a sub-interval of the dither range receives a number of draws proportional to its length up to one grid point (dither_count, grid_count_Ico), as many candidate streams of the re-selection loop end with one admissible parent as with another (uniform_parent_count); that NumPy's generator is uniform on that grid and independent across calls is trusted; ",
        "rule": OPS_RULE + "any record; plus exact finite-sample tests on the real operators (13 kinds: binomial marginals / pairs / forced coordinate, exponential block length and start, dither, one scale factor per mating and difference, default F, jitter, parent columns and triples, bounce-back, rand-init) with 2e4 (thorough 2e5) samples each, every comparison at level 1e-13 (exact binomial tails, DKW bound), < 1e4 comparisons per run => false-alarm probability <= 1e-9",
        "explanation": "theorems bin_event, forced_only_when_empty, exp_len_event, dither_strict_mono / _onto / _into, jitter_strict_mono / _onto, bounce_low_affine / _onto, bounce_up_affine, randinit_low_onto / _up_onto, redraw_keeps_admissible, first_admissible_exchange; correspondence: masks, scale factors, repaired coordinates and parent matrices equal the model on the recorded draws, call signatures included",
        "assumptions": ["numpy.random primitives are i.i.d. uniform (trusted)", "statistical tests have total false-alarm probability <= 1e-9 by construction"],
    },
}
