"""Components `spacing` (SpacingIndicator) and `spnn` (compiled nearest-neighbour helper)."""
import numpy as np
import proto
from core import Record, bits_equal

NAME = "spacing"
METRICS = ["cityblock", "euclidean", "chebyshev"]
# further documented pdist metrics: judged by the direct implementation only (no Lean counterpart)
EXTRA_METRICS = ["sqeuclidean", "seuclidean", "mahalanobis", "canberra"]


def close(a, b, tol=1e-9):
    a, b = np.asarray(a, dtype=float), np.asarray(b, dtype=float)
    if a.shape != b.shape:
        return False
    return bool(np.all(np.abs(a - b) <= tol * np.maximum(1.0, np.maximum(np.abs(a), np.abs(b)))))


def gen_points(rng, n, m):
    k = rng.randint(6)
    if k == 0:
        F = rng.randint(0, 4, size=(n, m)).astype(float)
    elif k == 1:
        F = rng.random_sample((n, m)) * rng.choice([1.0, 100.0, 1e-3])
    elif k == 2:      # equally spaced on a line
        t = np.arange(n, dtype=float)[:, None]
        F = t * rng.choice([0.5, 1.0, 2.0]) * np.ones((1, m))
        F[:, -1] = -F[:, -1]
    elif k == 3:
        F = np.round(rng.standard_normal((n, m)) * 3) / 2
    elif k == 4:
        F = rng.random_sample((n, m))
        F[:, rng.randint(m)] = 0.7    # constant objective
    else:
        F = rng.random_sample((n, m)) + rng.choice([-50.0, 0.0, 1e4])
    if n > 2 and rng.randint(3) == 0:
        F[rng.randint(n)] = F[rng.randint(n)]
    return F


def gen(rng, n_cases):
    for t in range(n_cases):
        n = int(rng.randint(2, 31))
        m = int(rng.randint(1, 6))
        if t % 300 == 7 and t < 300 * (3 + n_cases // 20000):
            # a few large archives: sizes just above the powers of two at which blocked / chunked
            # nearest-neighbour code paths usually switch
            k = (t // 300) % (3 if n_cases <= 20000 else 4)
            n = int([1025, 2049, 1100, 4097][k] + rng.randint(0, 40))
            m = int(rng.randint(2, 4))
        F = gen_points(rng, n, m)
        mode = int(rng.choice([0, 0, 0, 1, 2, 3, 4, 5, 6]))
        ideal = nadir = pf = None
        z = mode > 0
        lo, hi = F.min(axis=0), F.max(axis=0)
        if mode == 1:
            ideal, nadir = lo - rng.random_sample(m), hi + rng.random_sample(m) + 0.1
        elif mode == 2:
            pf = gen_points(rng, int(rng.randint(2, 12)), m) + rng.random_sample((1, m))
            pf[0] = pf[0] + 1.0
        elif mode == 3:
            pf = F.copy()
        elif mode == 4:      # pf plus only the ideal point
            pf = gen_points(rng, 6, m) + 1.0
            ideal = pf.min(axis=0) - 1.0 - rng.random_sample(m)
        elif mode == 5:      # pf plus only the nadir point
            pf = gen_points(rng, 6, m)
            nadir = pf.max(axis=0) + 1.0 + rng.random_sample(m)
        elif mode == 6:      # all three; ideal/nadir take precedence
            pf = gen_points(rng, 5, m)
            ideal, nadir = lo - 2.0, hi + 3.0
        if z and pf is not None and ideal is None and nadir is None and (pf.max(axis=0) < pf.min(axis=0)).any():
            z = False
        metric = METRICS[t % 3]
        if t % 11 == 5 and n <= 40:
            metric = EXTRA_METRICS[(t // 11) % len(EXTRA_METRICS)]
        if metric in EXTRA_METRICS:
            # data-dependent metrics need a point set whose covariance SciPy can invert (also after scaling / shifting)
            C_ = np.atleast_2d(np.cov(F.T)) if len(F) > 1 else np.zeros((m, m))
            if len(F) <= m + 1 or not np.all(np.isfinite(C_)) or np.linalg.matrix_rank(C_) < m or F.std(axis=0).min() < 1e-6:
                metric = METRICS[t % 3]
        # how the indicator object came to be: built as asked / built with another metric and re-configured
        # (`ind.metric = ...`) / a deep copy or an unpickled copy of the one that was built
        how = ["ctor", "ctor", "assign", "deepcopy", "pickle"][rng.randint(5)]
        scale = float(rng.choice([0.5, 2.0, 3.0, 0.25, 2.0 ** -30, 2.0 ** -40, 2.0 ** 24]))
        if metric in EXTRA_METRICS and not (0.2 < scale < 4):
            scale = 0.5         # (data-dependent metrics invert a covariance: extreme units make SciPy's inverse singular)
        yield {"how": how, "metric": metric, "z": bool(z), "ideal": ideal, "nadir": nadir, "pf": pf, "F": F,
               # another indicator with another metric is alive and has just scored the same points
               "other_metric": METRICS[(t + 1 + rng.randint(2)) % 3] if rng.randint(3) == 0 else None,
               "perm": rng.permutation(n), "shift": np.round(rng.standard_normal(m) * 4) / 4,
               # uniform scaling, down to objectives measured in very small units (powers of two scale exactly)
               "scale": scale}


def case_from_record(rec):
    c = dict(rec.cfg)
    c.update(rec.inp)
    return c


def _mk(case):
    from pymoode.performance._spacing import SpacingIndicator
    return SpacingIndicator(metric=case["metric"], pf=None if case["pf"] is None else np.array(case["pf"], dtype=float),
                            zero_to_one=case["z"],
                            ideal=None if case["ideal"] is None else np.array(case["ideal"], dtype=float),
                            nadir=None if case["nadir"] is None else np.array(case["nadir"], dtype=float))


def _mk_how(case):
    how = case.get("how") or "ctor"
    if how == "assign" and case["metric"] in METRICS:
        ind = _mk(dict(case, metric=METRICS[(METRICS.index(case["metric"]) + 1) % 3]))
        ind.metric = case["metric"]
        return ind
    ind = _mk(case)
    if how == "deepcopy":
        import copy
        return copy.deepcopy(ind)
    if how == "pickle":
        import pickle
        return pickle.loads(pickle.dumps(ind))
    return ind


def run(case, replay=None):
    rec = Record(NAME, {"metric": case["metric"], "z": case["z"], "other_metric": case.get("other_metric"), "how": case.get("how") or "ctor"},
                 {k: (None if case[k] is None else np.array(case[k], dtype=float)) for k in ("ideal", "nadir", "pf", "F")})
    rec.inp["perm"] = np.array(case["perm"], dtype=int)
    rec.inp["shift"] = np.array(case["shift"], dtype=float)
    rec.cfg["scale"] = case["scale"]
    F = rec.inp["F"]
    Fc = F.copy()
    try:
        if case.get("other_metric"):
            other = _mk(dict(case, metric=case["other_metric"]))
            other.do(F.copy())
            other.do(F[rec.inp["perm"]].copy())
            rec.tags.add("second-indicator-alive")
        ind = _mk_how(case)
        if (case.get("how") or "ctor") != "ctor":
            rec.tags.add("indicator:" + case["how"])
        rec.out["S"] = float(ind.do(Fc))
        rec.out["S_perm"] = float(_mk(case).do(F[rec.inp["perm"]].copy()))
        if not case["z"]:
            rec.out["S_shift"] = float(_mk(case).do(F + rec.inp["shift"]))
            rec.out["S_scale"] = float(_mk(case).do(F * case["scale"]))
    except Exception as e:
        rec.err = "%s: %s" % (type(e).__name__, e)
    if not bits_equal(Fc, F):
        rec.frames.append("input F modified by the indicator")
    rec.tags.add("metric:" + case["metric"])
    rec.tags.add("z:%d" % int(case["z"]))
    rec.tags.add("norm:" + "".join(k[0] for k in ("ideal", "nadir", "pf") if case[k] is not None))
    if len(np.unique(F, axis=0)) < len(F):
        rec.tags.add("duplicates")
    return rec


def _opt(v):
    return ["none"] if v is None else ["some"] + proto.flist(v)


def encode(rec):
    i = rec.inp
    if rec.cfg["metric"] not in METRICS:
        raise ValueError("skipped")
    t = [NAME, rec.cfg["metric"], "1" if rec.cfg["z"] else "0"] + _opt(i["ideal"]) + _opt(i["nadir"])
    t += ["none"] if i["pf"] is None else ["some"] + proto.fmat(i["pf"])
    t += proto.fmat(i["F"])
    return " ".join(t)


def compare(rec, ans):
    status = ans.tok()
    if status == "err":
        return [] if rec.err is not None else ["model rejects the record: " + ans.rest()]
    if rec.err is not None:
        return ["implementation raised %s" % rec.err]
    S = ans.flt()
    if not close(S, rec.out["S"]) and not (np.isnan(S) and np.isnan(rec.out["S"])):
        return ["spacing value differs: impl %r model %r" % (rec.out["S"], S)]
    return []


def nontrivial(rec):
    return rec.err is None and rec.out.get("S", 0) > 0


def reference(F, metric, z, ideal, nadir, pf):
    """direct implementation of the definition"""
    F = np.array(F, dtype=float)
    if z:
        if pf is not None:
            if ideal is None:
                ideal = pf.min(axis=0)
            if nadir is None:
                nadir = pf.max(axis=0)
        den = nadir - ideal
        F = np.where(den == 0, F - ideal, (F - ideal) / np.where(den == 0, 1.0, den))
    n = len(F)
    d = np.empty(n)
    V = VI = None
    if metric == "seuclidean":
        V = F.var(axis=0, ddof=1)
    if metric == "mahalanobis":
        VI = np.linalg.inv(np.atleast_2d(np.cov(F.T, ddof=1)))
    for i in range(n):
        best = np.inf
        for j in range(n):
            if j == i:
                continue
            df = F[i] - F[j]
            diff = np.abs(df)
            if metric == "cityblock":
                v = diff.sum()
            elif metric == "chebyshev":
                v = diff.max()
            elif metric == "sqeuclidean":
                v = (diff ** 2).sum()
            elif metric == "seuclidean":
                v = np.sqrt((diff ** 2 / V).sum())
            elif metric == "mahalanobis":
                v = np.sqrt(max(float(df @ VI @ df), 0.0))
            elif metric == "canberra":
                den = np.abs(F[i]) + np.abs(F[j])
                v = np.where(den == 0, 0.0, diff / np.where(den == 0, 1.0, den)).sum()
            else:
                v = np.sqrt((diff ** 2).sum())
            best = min(best, v)
        d[i] = best
    return float(np.sqrt(((d - d.mean()) ** 2).sum() / n)), d


def _extra_metric_defined(metric, F):
    F = np.array(F, dtype=float)
    if metric == "seuclidean":
        return len(F) >= 2 and not (F.var(axis=0, ddof=1) <= 1e-12 * max(1.0, np.abs(F).max() ** 2)).any()
    if metric == "mahalanobis":
        if len(F) <= F.shape[1] + 1:
            return False
        try:
            return bool(np.linalg.cond(np.atleast_2d(np.cov(F.T, ddof=1))) < 1e8)
        except Exception:
            return False
    return True


def oracle_C20(rec):
    if rec.cfg["metric"] not in METRICS and (rec.cfg["z"] or not _extra_metric_defined(rec.cfg["metric"], rec.inp["F"])):
        return list(rec.frames)       # data-dependent metric not defined / badly conditioned on these points
    if rec.err is not None:
        return ["indicator raised: " + rec.err]
    i = rec.inp
    bad = list(rec.frames)
    S = rec.out["S"]
    metric = rec.cfg["metric"]
    if metric not in METRICS:
        # metrics with data-dependent weights: only the value clause, and only where the weights are well conditioned
        try:
            ref, d = reference(i["F"], metric, False, None, None, None)
        except Exception:
            return bad
        if not close(S, ref, 1e-7):
            bad.append("spacing %r differs from the RMS deviation of nearest-neighbour distances %r (%s)" % (S, ref, metric))
        return bad
    ref, d = reference(i["F"], rec.cfg["metric"], rec.cfg["z"], i["ideal"], i["nadir"], i["pf"])
    if not (S >= 0):
        bad.append("spacing %r is negative or NaN" % S)
    if not close(S, ref):
        bad.append("spacing %r differs from the RMS deviation of nearest-neighbour distances %r (%s%s)" % (
            S, ref, rec.cfg["metric"], ", zero_to_one" if rec.cfg["z"] else ""))
    if np.ptp(d) <= 1e-12 * max(1.0, abs(d).max()) and abs(S) > 1e-9 * max(1.0, abs(d).max()):
        bad.append("equally spaced points but spacing is %r" % S)
    if not close(S, rec.out["S_perm"]):
        bad.append("spacing changes under reordering of the points: %r vs %r" % (S, rec.out["S_perm"]))
    if not rec.cfg["z"]:
        if not close(S, rec.out["S_shift"], 1e-7):
            bad.append("spacing changes under translation: %r vs %r" % (S, rec.out["S_shift"]))
        if not close(S, rec.out["S_scale"] / rec.cfg["scale"], 1e-7):
            bad.append("spacing not proportional under scaling by %r: %r vs %r" % (rec.cfg["scale"], S, rec.out["S_scale"]))
    return bad


ORACLES = {"C20": oracle_C20}


class Spnn:
    """compiled helper calc_spacing_distances vs the NumPy computation the indicator uses (C14)"""
    NAME = "spnn"

    @staticmethod
    def gen(rng, n_cases):
        for t in range(n_cases):
            n = int(rng.randint(2, 31))
            m = int(rng.randint(1, 6))
            if t % 100 == 3 and t < 100 * (2 + n_cases // 5000):
                n = int([1025, 2049, 1100, 4097][(t // 100) % (2 if n_cases <= 5000 else 4)] + rng.randint(0, 40))
                m = int(rng.randint(2, 4))
            yield {"F": gen_points(rng, n, m)}

    @staticmethod
    def case_from_record(rec):
        return {"F": rec.inp["F"]}

    @staticmethod
    def run(case, replay=None):
        from scipy.spatial.distance import pdist, squareform
        rec = Record("spnn", {}, {"F": np.array(case["F"], dtype=float)})
        F = rec.inp["F"]
        try:
            from pymoode.cython.spacing_neighbors import calc_spacing_distances
            Fc = F.copy()
            rec.out["d"] = np.array(calc_spacing_distances(Fc), dtype=float)
            if not bits_equal(Fc, F):
                rec.frames.append("input modified by calc_spacing_distances")
        except ImportError:
            rec.out["d"] = None
            rec.tags.add("not-compiled")
        except Exception as e:
            rec.err = "%s: %s" % (type(e).__name__, e)
        D = squareform(pdist(F, metric="cityblock"))
        rec.out["d_numpy"] = np.partition(D, 1, axis=1)[:, 1]
        try:
            from pymoode.performance._spacing import SpacingIndicator
            rec.out["S"] = float(SpacingIndicator().do(F.copy()))
            # the indicator asked for another metric, in this process (with whatever engine is available), against the NumPy
            # computation with that metric
            for m_ in ("euclidean", "chebyshev"):
                rec.out["S_" + m_] = float(SpacingIndicator(metric=m_).do(F.copy()))
                Dm = squareform(pdist(F, metric=m_))
                dm_ = np.partition(Dm, 1, axis=1)[:, 1]
                rec.out["Sref_" + m_] = float(np.sqrt(((dm_ - dm_.mean()) ** 2).sum() / len(dm_)))
        except Exception as e:
            rec.err = "%s: %s" % (type(e).__name__, e)
        return rec

    @staticmethod
    def encode(rec):
        return " ".join(["spnn"] + proto.fmat(rec.inp["F"]))

    @staticmethod
    def compare(rec, ans):
        status = ans.tok()
        if status == "err":
            return [] if rec.err is not None else ["model rejects the record: " + ans.rest()]
        if rec.err is not None:
            return ["implementation raised %s" % rec.err]
        d = ans.flist()
        if rec.out["d"] is not None and not close(d, rec.out["d"]):
            return ["compiled neighbour distances differ from the model"]
        return []

    @staticmethod
    def nontrivial(rec):
        return rec.err is None and rec.out.get("d") is not None

    @staticmethod
    def oracle_C14(rec):
        if rec.err is not None:
            return ["raised: " + rec.err]
        bad = list(rec.frames)
        if rec.out["d"] is None:
            return bad
        d, dn = rec.out["d"], rec.out["d_numpy"]
        if not close(d, dn):
            k = int(np.argmax(np.abs(d - dn)))
            bad.append("compiled calc_spacing_distances[%d] = %r, NumPy second-smallest row entry = %r" % (k, d[k], dn[k]))
        n = len(d)
        S = float(np.sqrt(((d - d.mean()) ** 2).sum() / n))
        if not close(S, rec.out["S"]):
            bad.append("SpacingIndicator %r differs from the value computed from the compiled helper %r" % (rec.out["S"], S))
        for m_ in ("euclidean", "chebyshev"):
            if "S_" + m_ in rec.out and not close(rec.out["S_" + m_], rec.out["Sref_" + m_], 1e-7):
                bad.append("SpacingIndicator(metric=%r) = %r with the extensions available, NumPy computation %r" % (
                    m_, rec.out["S_" + m_], rec.out["Sref_" + m_]))
        return bad


Spnn.ORACLES = {"C14": Spnn.oracle_C14}
