"""Run jobs in isolated worker processes; a crashing job is identified by bisection."""
import os
import pickle
import subprocess
import sys
import tempfile

HERE = os.path.dirname(os.path.abspath(__file__))
SCRATCH = "/root/scratch/verif_workers"


def _run(jobs, fallback, timeout):
    os.makedirs(SCRATCH, exist_ok=True)
    fd, out = tempfile.mkstemp(dir=SCRATCH, suffix=".out")
    os.close(fd)
    try:
        p = subprocess.run([sys.executable, os.path.join(HERE, "worker.py")],
                           input=pickle.dumps({"fallback": fallback, "jobs": jobs, "out": out}),
                           stdout=subprocess.PIPE, stderr=subprocess.PIPE, timeout=timeout, cwd=HERE)
        res = []
        with open(out, "rb") as fh:
            while True:
                try:
                    res.append(pickle.load(fh))
                except EOFError:
                    break
        return p.returncode, res, p.stderr.decode()[-500:]
    finally:
        try:
            os.remove(out)
        except OSError:
            pass


def isolated_map(jobs, fallback=False, timeout=600):
    """Returns one result per job; a job that kills the interpreter yields ("crash", returncode)."""
    results = [None] * len(jobs)
    start = 0
    while start < len(jobs):
        rc, res, err = _run(jobs[start:], fallback, timeout)
        for k, r in enumerate(res):
            results[start + k] = r
        done = len(res)
        if start + done >= len(jobs):
            break
        # the job after the last completed one killed the worker
        results[start + done] = ("crash", rc, err)
        start = start + done + 1
    return results
