"""Source-to-Lean translation of the arithmetic / decision formulas of pymoode that the Lean model transcribes by hand.

On every run the formulas are extracted from the *current* source of /repo (Python AST), printed as Lean terms over an
arbitrary ordered field, and Lean is asked to prove - by `rfl` for arithmetic, by `simp` / case split for conditions -
that each one is the corresponding definition of `PymoodeModel`. This is the second, input-independent tie between
model and code (the first is the differential execution): a formula of the code that is no longer the model's breaks a
generated obligation, whatever the generated inputs reach. A broken obligation is not a violation by itself (a harmless
algebraic rewrite breaks it too): the check then searches for a failing input as for any broken correspondence.

Only what is listed in SPECS is translated; statement selection is positional inside the named function, so a
restructured function makes the extraction itself fail - reported as a broken obligation of the same properties.
"""
import ast
import fractions
import hashlib
import json
import os
import subprocess

HERE = os.path.dirname(os.path.abspath(__file__))
VERIF = os.path.dirname(HERE)
LEAN = os.path.join(VERIF, "lean")


def repo_root():
    import anchors
    return anchors.REPO


class Untranslatable(Exception):
    pass


def find_function(tree, qualname):
    parts = qualname.split(".")
    body = tree.body
    node = None
    for p in parts:
        node = None
        for n in body:
            if isinstance(n, (ast.FunctionDef, ast.ClassDef)) and n.name == p:
                node = n
                break
        if node is None:
            raise Untranslatable("no definition %s" % qualname)
        body = node.body
    return node


def statements(fn):
    """all statements of a function in source order (nested bodies included)"""
    out = []

    def walk(body):
        for st in body:
            out.append(st)
            for fld in ("body", "orelse", "finalbody"):
                sub = getattr(st, fld, None)
                if isinstance(sub, list) and sub and isinstance(sub[0], ast.stmt):
                    walk(sub)
    walk(fn.body)
    return out


def select(fn, sel):
    kind = sel[0]
    sts = statements(fn)
    if kind == "assign":                # k-th assignment whose (first) target prints as `target`
        _, target, k = sel
        hits = [st.value for st in sts if isinstance(st, ast.Assign) and ast.unparse(st.targets[0]) == target]
    elif kind == "call_kw":             # k-th assignment to `target` whose value is a call: the keyword argument `kw`
        _, target, k, kwname = sel
        hits = []
        for st in sts:
            if isinstance(st, ast.Assign) and ast.unparse(st.targets[0]) == target and isinstance(st.value, ast.Call):
                vals = [kw_.value for kw_ in st.value.keywords if kw_.arg == kwname]
                hits.append(vals[0] if vals else None)
        if k < len(hits) and hits[k] is None:
            raise Untranslatable("selector %r: the call has no keyword %s" % (sel, kwname))
    elif kind == "slice_upper":         # k-th assignment to `target` of the form `x[:<upper>]`: the upper bound
        _, target, k = sel
        hits = [st.value.slice.upper for st in sts if isinstance(st, ast.Assign) and ast.unparse(st.targets[0]) == target
                and isinstance(st.value, ast.Subscript) and isinstance(st.value.slice, ast.Slice) and st.value.slice.upper is not None
                and st.value.slice.lower is None]
    elif kind == "mask":                # k-th assignment `name[<mask>] = ...`: the mask expression
        _, name, k = sel
        hits = [st.targets[0].slice for st in sts if isinstance(st, ast.Assign) and isinstance(st.targets[0], ast.Subscript)
                and ast.unparse(st.targets[0].value) == name]
    elif kind == "where":               # k-th call np.where(<cond>): the condition
        _, k = sel
        hits = []
        for st in sts:
            if isinstance(st, (ast.Assign, ast.Expr)):
                for n in ast.walk(st):
                    if isinstance(n, ast.Call) and ast.unparse(n.func) == "np.where" and n.args:
                        hits.append(n.args[0])
    elif kind == "return":
        _, k = sel
        hits = [st.value for st in sts if isinstance(st, ast.Return) and st.value is not None]
    elif kind == "ifassign":            # k-th `if`/`else` whose arms assign to `target`: ("ite", test, value, value)
        _, target, k = sel
        hits = []
        for st in sts:
            if isinstance(st, ast.If) and len(st.body) == 1 and len(st.orelse) == 1 and \
                    all(isinstance(b, ast.Assign) and ast.unparse(b.targets[0]) == target for b in (st.body[0], st.orelse[0])):
                hits.append(("ite", st.test, st.body[0].value, st.orelse[0].value))
    elif kind == "ifnest":              # k-th `if` whose (nested) arms assign to `target` or `pass`: ("ite", test, a, b) tree
        _, target, k = sel

        def arm(body):
            if len(body) == 1 and isinstance(body[0], ast.Pass):
                return ast.Name(id=target, ctx=ast.Load())
            if len(body) == 1 and isinstance(body[0], ast.Assign) and ast.unparse(body[0].targets[0]) == target:
                return body[0].value
            if len(body) == 1 and isinstance(body[0], ast.If):
                return tree(body[0])
            raise Untranslatable("arm %r is neither `pass`, an assignment to %s nor a nested if" % (
                "; ".join(ast.unparse(b) for b in body)[:80], target))

        def tree(node):
            return ("ite", node.test, arm(node.body), arm(node.orelse) if node.orelse else ast.Name(id=target, ctx=ast.Load()))
        hits = []
        for st in fn.body:              # top-level statements of the function only
            if isinstance(st, ast.If):
                try:
                    hits.append(tree(st))
                except Untranslatable:
                    hits.append(None)
        if k < len(hits) and hits[k] is None:
            raise Untranslatable("selector %r: the statement is not a nest of if / else assigning to %s" % (sel, target))
    elif kind == "ifchain":             # k-th `if` statement with its elif / else arms: [(test | None, [appended items])]
        _, k = sel
        ifs = [st for st in sts if isinstance(st, ast.If)]
        # (an `elif` is itself an If inside orelse: take only chain heads)
        heads = [st for st in ifs if not any(st in getattr(o, "orelse", []) for o in ifs)]
        if k >= len(heads):
            raise Untranslatable("selector %r: only %d candidate(s)" % (sel, len(heads)))

        def items(body):
            out = []
            for b in body:
                if isinstance(b, ast.Expr) and isinstance(b.value, ast.Call) and isinstance(b.value.func, ast.Attribute) \
                        and b.value.func.attr in ("append", "extend") and len(b.value.args) == 1:
                    a = b.value.args[0]
                    out += list(a.elts) if (b.value.func.attr == "extend" and isinstance(a, (ast.List, ast.Tuple))) else [a]
                else:
                    raise Untranslatable("arm statement %r is not an append / extend" % ast.unparse(b))
            return out
        chain, node = [], heads[k]
        while True:
            chain.append((node.test, items(node.body)))
            if len(node.orelse) == 1 and isinstance(node.orelse[0], ast.If):
                node = node.orelse[0]
                continue
            chain.append((None, items(node.orelse)))
            break
        return chain
    elif kind == "if":                  # k-th `if` statement: its test
        _, k = sel
        hits = [st.test for st in sts if isinstance(st, ast.If)]
    else:
        raise Untranslatable("unknown selector %r" % (sel,))
    if k >= len(hits):
        raise Untranslatable("selector %r: only %d candidate(s)" % (sel, len(hits)))
    return hits[k]


BIN = {ast.Add: "+", ast.Sub: "-", ast.Mult: "*", ast.Div: "/"}
CMP = {ast.Lt: "<", ast.Gt: ">", ast.LtE: "≤", ast.GtE: "≥"}


def lean_chain(chain, vm):
    """if / elif / else arms that append to a list -> nested Lean `if … then [..] else …`"""
    def prop(t):
        if isinstance(t, ast.Compare) and len(t.ops) == 1:
            op = {ast.Eq: "=", ast.Lt: "<", ast.Gt: ">", ast.LtE: "≤", ast.GtE: "≥", ast.NotEq: "≠"}.get(type(t.ops[0]))
            if op:
                return "(%s %s %s)" % (lean_expr(t.left, vm), op, lean_expr(t.comparators[0], vm))
        raise Untranslatable("cannot translate the test %r" % ast.unparse(t))
    out = ""
    for test, its in chain:
        lst = "[" + ", ".join(lean_expr(i, vm) for i in its) + "]"
        if test is None:
            return out + lst
        out += "if %s then %s else " % (prop(test), lst)
    return out + "[]"


CALLS = {"get_relation": lambda a, b: "(getRelation %s.cv %s.cv %s.f %s.f)" % (a, b, a, b),
         "has_feasible": lambda a: "(%s.any (·.feas))" % a,
         "Population.merge": lambda a, b: "(%s ++ %s)" % (a, b)}


def lean_expr(e, vm):
    if isinstance(e, list):
        return lean_chain(e, vm)
    if isinstance(e, tuple) and e and e[0] == "ite":
        return "(if %s = true then %s else %s)" % (lean_expr(e[1], vm), lean_expr(e[2], vm), lean_expr(e[3], vm))
    s = ast.unparse(e)
    if s in vm:
        return vm[s]
    if isinstance(e, ast.Call) and isinstance(e.func, ast.Name) and e.func.id in CALLS and not e.keywords:
        return CALLS[e.func.id](*[lean_expr(a, vm) for a in e.args])
    if isinstance(e, ast.Call) and isinstance(e.func, ast.Attribute) and ast.unparse(e.func) in CALLS and not e.keywords:
        return CALLS[ast.unparse(e.func)](*[lean_expr(a, vm) for a in e.args])
    if isinstance(e, ast.BinOp):
        if type(e.op) in BIN:
            return "(%s %s %s)" % (lean_expr(e.left, vm), BIN[type(e.op)], lean_expr(e.right, vm))
        if isinstance(e.op, ast.BitAnd):
            return "(%s && %s)" % (lean_expr(e.left, vm), lean_expr(e.right, vm))
        if isinstance(e.op, ast.BitOr):
            return "(%s || %s)" % (lean_expr(e.left, vm), lean_expr(e.right, vm))
    if isinstance(e, ast.UnaryOp):
        if isinstance(e.op, ast.Invert) or isinstance(e.op, ast.Not):
            return "(!%s)" % lean_expr(e.operand, vm)
        if isinstance(e.op, ast.USub):
            return "(-%s)" % lean_expr(e.operand, vm)
    if isinstance(e, ast.BoolOp):
        op = " && " if isinstance(e.op, ast.And) else " || "
        return "(" + op.join(lean_expr(v, vm) for v in e.values) + ")"
    if isinstance(e, ast.Compare) and len(e.ops) == 1 and type(e.ops[0]) in CMP:
        return "decide (%s %s %s)" % (lean_expr(e.left, vm), CMP[type(e.ops[0])], lean_expr(e.comparators[0], vm))
    if isinstance(e, ast.Constant) and isinstance(e.value, bool):
        return "true" if e.value else "false"
    if isinstance(e, ast.Constant) and isinstance(e.value, int):
        return str(e.value)
    if isinstance(e, ast.Constant) and isinstance(e.value, float):
        fr = fractions.Fraction(e.value)
        return str(fr.numerator) if fr.denominator == 1 else "(%d / %d)" % (fr.numerator, fr.denominator)
    raise Untranslatable("cannot translate %r" % s)


REP_VM = {"XL[i, j]": "xl", "XU[i, j]": "xu", "Xb[i, j]": "xb", "np.random.random(len(i))": "r", "X": "v", "XL": "xl", "XU": "xu"}
DEM = "pymoode/operators/dem.py"
DEX = "pymoode/operators/dex.py"
REPL = "pymoode/survival/replacement.py"

# name, properties, file, function, selector, variable map, Lean statement with {e} for the translated term, proof
SPECS = []
for fn_, kind_ in (("bounce_back", "bounceBack"), ("midway", "midway"), ("rand_init", "randInit"), ("to_bounds", "toBounds")):
    SPECS += [
        ("%s_low" % fn_, ["C01", "C11", "C19"], DEM, fn_, ("assign", "X[i, j]", 0), REP_VM,
         "(xl xu xb r : α) : {e} = repairLow .%s xl xu xb r" % kind_, "rfl"),
        ("%s_up" % fn_, ["C01", "C11", "C19"], DEM, fn_, ("assign", "X[i, j]", 1), REP_VM,
         "(xl xu xb r : α) : {e} = repairUp .%s xl xu xb r" % kind_, "rfl"),
        ("%s_low_cond" % fn_, ["C01", "C11"], DEM, fn_, ("where", 0), REP_VM,
         "(xl xu xb v rl ru : α) : lowPass .%s ⟨xl, xu, xb, v, rl, ru⟩ = if {e} = true then repairLow .%s xl xu xb rl else v" % (kind_, kind_),
         "by simp [lowPass]"),
        ("%s_up_cond" % fn_, ["C01", "C11"], DEM, fn_, ("where", 1), REP_VM,
         "(xl xu xb v rl ru : α) : upPass .%s ⟨xl, xu, xb, 0, rl, ru⟩ v = if {e} = true then repairUp .%s xl xu xb ru else v" % (kind_, kind_),
         "by simp [upPass]"),
    ]
SPECS += [
    ("dither", ["C10", "C19"], DEM, "DEM._randomize_scale_factor", ("return", 0),
     {"self.F[0]": "lo", "self.F[1]": "hi", "np.random.random(n_matings)": "r"},
     "(lo hi r : α) : {e} = scaleDither lo hi r", "rfl"),
    ("jitter", ["C10", "C19"], DEM, "DEM._diff_jitter", ("assign", "F", 0),
     {"F[:, None]": "f", "self.gamma": "γ", "np.random.random((n_matings, n_var))": "r"},
     "(f γ r : α) : {e} = f * jitterFactor γ r", "rfl"),
    ("diff_jitter", ["C10"], DEM, "DEM._diff_jitter", ("return", 0), {"F": "fj", "Xi": "xi", "Xj": "xj"},
     "(f γ r xi xj : α) : (fun fj => {e}) (f * jitterFactor γ r) = diffTerm ⟨f, some (γ, r), xi, xj⟩", "rfl"),
    ("diff_simple", ["C10"], DEM, "DEM._diff_simple", ("return", 0), {"F[:, None]": "f", "Xi": "xi", "Xj": "xj"},
     "(f xi xj : α) : {e} = diffTerm ⟨f, none, xi, xj⟩", "rfl"),
    ("cross_binomial", ["C12", "C19"], DEX, "cross_binomial", ("assign", "M", 0),
     {"np.random.random((n_matings, n_var))": "r", "prob": "cr"},
     "(cr : α) (rs : List α) : binRow cr rs = rs.map fun r => {e}", "rfl"),
    ("cross_exp_continue", ["C12", "C19"], DEX, "cross_exp", ("if", 0), {"np.random.random()": "r", "prob": "cr"},
     "(cr r : α) (n start k j : Nat) (rs : List α) (m : List Bool) : expFill cr n start (k + 1) j (r :: rs) m = "
     "if {e} = true then expFill cr n start k (j + 1) rs (m.set ((start + j) % n) true) else m", "by simp [expFill]"),
    ("improves_constrained", ["C02"], REPL, "ImprovementReplacement._do", ("mask", "ret", 0),
     {"pop_feas": "p.feas", "off_feas": "o.feas", "off_CV": "o.cv", "pop_CV": "p.cv"},
     "(p o : Ind1 α) : improves true p o = ({e} || {e1} || {e2})", "by cases hp : p.feas <;> cases ho : o.feas <;> simp [improves, hp, ho]"),
    ("improves_unconstrained", ["C02"], REPL, "ImprovementReplacement._do", ("mask", "ret", 3),
     {"off_F": "o.f", "pop_F": "p.f"},
     "(p o : Ind1 α) : improves false p o = {e}", "by simp [improves]"),
]
GDE3 = "pymoode/algorithms/gde3.py"
VAR = "pymoode/operators/variant.py"
SPECS += [
    ("gde3_relation", ["C05", "C06", "C07"], GDE3, "GDE3._advance", ("assign", "rel", 0), {"parent": "p", "off": "o"},
     "(p o : IndM α) : {e} = getRelation p.cv o.cv p.f o.f", "rfl"),
    ("gde3_slot", ["C05", "C06", "C07"], GDE3, "GDE3._advance", ("ifchain", 0), {"parent": "p", "off": "o", "rel": "rel"},
     "(p o : IndM α) : gde3Slot p o = (fun rel : Int => {e}) (getRelation p.cv o.cv p.f o.f)", "rfl"),
    ("n_parents", ["C09", "C10"], DEM, "DifferentialMutation.__init__", ("assign", "n_parents", 0), {"n_diffs": "nd"},
     "(k : SelKind) (y : Nat) : (fun nd : Nat => {e}) (nDiffs k y) = nParents k y", "rfl"),
    ("n_diffs_to", ["C09", "C10"], VAR, "DifferentialVariant.__init__", ("assign", "n_diffs", 1), {"n_diffs": "nd"},
     "(y : Nat) : (fun nd : Nat => {e}) y = nDiffs .currentToBest y ∧ (fun nd : Nat => {e}) y = nDiffs .currentToRand y ∧ "
     "(fun nd : Nat => {e}) y = nDiffs .randToBest y ∧ y = nDiffs .rand y ∧ y = nDiffs .best y ∧ y = nDiffs .ranked y",
     "⟨rfl, rfl, rfl, rfl, rfl, rfl⟩"),
]
RNC = "pymoode/survival/rank_and_crowding/rnc.py"
RNC_VM = {"len(survivors)": "acc.length", "len(I)": "f.length", "len(front)": "f.length", "n_survive": "nS"}
SPECS += [
    ("rnc_front_loop", ["C03", "C04", "C15"], RNC, "RankAndCrowding._do", ("if", 0), RNC_VM,
     "(nS : Nat) (f s : List Nat) (fs : List (List Nat × List Nat)) (acc : List Nat) : frontLoop nS ((f, s) :: fs) acc = "
     "if {e} = true then frontLoop nS fs (acc ++ s.take (f.length - {e1})) else frontLoop nS fs (acc ++ f)", "by simp [frontLoop]"),
    ("rnc_n_remove", ["C15"], RNC, "RankAndCrowding._do", ("assign", "n_remove", 0), RNC_VM,
     "(nS : Nat) (f : List Nat) (fs : List (List Nat)) (have_ : Nat) (h : have_ + f.length > nS) : "
     "nRemoveSeq nS (f :: fs) have_ = (fun acc : List Nat => {e}) (List.replicate have_ 0) :: nRemoveSeq nS fs nS",
     "by simp [nRemoveSeq, h]"),
]
DIFF = "pymoode/algorithms/base/differential.py"
SPECS += [
    ("set_optimum", ["C08"], DIFF, "DifferentialEvolution._set_optimum", ("ifassign", "self.opt", 0),
     {"self.pop": "pop", "self.pop[[np.argmin(self.pop.get('CV'))]]": "(argminCv pop).toList",
      "self.pop[self.pop.get('rank') == 0]": "(pop.filter (fun i => rank i.id == some 0))"},
     "(pop : List (IndM α)) (rank : Nat → Option Nat) : setOptimum pop rank = {e}",
     "by cases h : pop.any (·.feas) <;> simp [setOptimum, h]"),
]
CVM = {"len(survivors)": "(inner + acc)", "len(front)": "f", "n_survive": "nS", "n_remaining": "room"}
SPECS += [
    ("constr_room", ["C16", "C03"], RNC, "ConstrRankAndCrowding._do", ("assign", "n_remaining", 0),
     {"len(survivors)": "inner", "n_survive": "nS"},
     "(nS inner : Nat) : {e} = nS - inner", "rfl"),
    ("constr_room_test", ["C16", "C03"], RNC, "ConstrRankAndCrowding._do", ("if", 3), CVM,
     "(room : Nat) : {e} = decide (room > 0)", "rfl"),
    ("constr_fill_cond", ["C16", "C03"], RNC, "ConstrRankAndCrowding._do", ("if", 4), CVM,
     "(nS inner acc f : Nat) (h : inner ≤ nS) : {e} = decide (acc + f > nS - inner)", "decide_eq_decide.mpr (by omega)"),
    ("constr_fill_cut", ["C16", "C03"], RNC, "ConstrRankAndCrowding._do", ("slice_upper", "I", 0), CVM,
     "(nS inner acc : Nat) (h : inner ≤ nS) : {e} = (nS - inner) - acc", "by omega"),
    ("rnc_cut", ["C03", "C15"], RNC, "RankAndCrowding._do", ("slice_upper", "I", 0), {"n_remove": "k"},
     "(k : Int) : {e} = -k", "rfl"),
]
CLAMP_VM = {"N": "(n : Int)", "M": "(m : Int)", "n_remove": "nr"}
for path_, fn_ in (("pymoode/misc/mnn.py", "calc_mnn"), ("pymoode/misc/pruning_cd.py", "calc_pcd")):
    tag_ = fn_.split("_")[1]
    SPECS += [
        ("clamp_%s" % tag_, ["C13", "C14"], path_, fn_, ("ifnest", "n_remove", 0), CLAMP_VM,
         "(nr : Int) (n m : Nat) : clampRemove nr n m = {e}", "by simp [clampRemove]"),
        ("clamp_%s_N" % tag_, ["C13", "C14"], path_, fn_, ("assign", "N", 0), {"X.shape[0]": "n"},
         "(n : Nat) : {e} = n", "rfl"),
        ("clamp_%s_M" % tag_, ["C13", "C14"], path_, fn_, ("assign", "M", 0), {"X.shape[1]": "nObj"},
         "(nObj : Nat) : {e} = nObj", "rfl"),
    ]
SPECS += [
    ("mnn_neighbours", ["C13", "C14"], "pymoode/misc/mnn.py", "calc_mnn", ("assign", "M", 1), {},
     "(nObj : Nat) (twonn : Bool) : (if twonn then {e} else nObj) = (if twonn then 2 else nObj)", "rfl"),
    ("mnn_short_front", ["C13", "C14"], "pymoode/misc/mnn.py", "calc_mnn", ("if", 3), {"N": "n", "M": "mNb"},
     "(n mNb : Nat) : {e} = decide (n ≤ mNb)", "rfl"),
]
NSDE_ = "pymoode/algorithms/nsde.py"
EVO = "pymoode/algorithms/base/evolutionary.py"
MERGE_VM = {"self.pop": "pop", "infills": "off", "self.pop_size": "popSize", "self.n_offsprings": "popSize"}
SPECS += [
    ("nsde_merge", ["C06", "C07"], NSDE_, "NSDE._advance", ("assign", "pop", 0), MERGE_VM,
     "(pop off : List (IndM α)) : mergeCandidates pop off = {e}", "rfl"),
    ("nsde_quota", ["C06", "C07"], NSDE_, "NSDE._advance", ("call_kw", "self.pop", 0, "n_survive"), MERGE_VM,
     "(popSize : Nat) : {e} = popSize", "rfl"),
    ("gde3_quota", ["C05", "C06", "C07"], GDE3, "GDE3._advance", ("call_kw", "self.pop", 0, "n_survive"), MERGE_VM,
     "(popSize : Nat) : {e} = popSize", "rfl"),
    ("ea_merge", ["C06", "C07"], EVO, "EvolutionaryAlgorithm._advance", ("assign", "pop", 1), MERGE_VM,
     "(pop off : List (IndM α)) : mergeCandidates pop off = {e}", "rfl"),
    ("ea_quota", ["C06", "C07"], EVO, "EvolutionaryAlgorithm._advance", ("call_kw", "self.pop", 0, "n_survive"),
     {"self.pop_size": "popSize"},     # (the generic base class may create any number of offspring: only pop_size is the quota)
     "(popSize : Nat) : {e} = popSize", "rfl"),
]
# extra selections needed by multi-term statements: name -> [(placeholder, selector, vm)]
EXTRA = {
    "rnc_front_loop": [("e1", ("assign", "n_remove", 0), RNC_VM)],
    "improves_constrained": [("e1", ("mask", "ret", 1), {"pop_feas": "p.feas", "off_feas": "o.feas"}),
                             ("e2", ("mask", "ret", 2), {"pop_feas": "p.feas", "off_feas": "o.feas", "off_F": "o.f", "pop_F": "p.f"})],
}

HEADER = """import PymoodeModel.Repair
import PymoodeModel.Mutation
import PymoodeModel.Crossover
import PymoodeModel.Replacement
import PymoodeModel.Selection
import PymoodeModel.Algo
import PymoodeModel.RankCrowd
import PymoodeModel.Metrics.Prune
import Mathlib.Algebra.Order.Field.Basic
set_option linter.unusedVariables false
set_option linter.unusedSimpArgs false
namespace Pymoode
namespace Generated
variable {α : Type} [Field α] [LinearOrder α] [IsStrictOrderedRing α]
"""


def generate():
    """Returns (lean_source, [(name, props, first_line, last_line)], {name: extraction error})."""
    root = repo_root()
    trees = {}
    lines = HEADER.splitlines()
    spans, errors = [], {}
    for name, props, path, fn, sel, vm, stmt, proof in SPECS:
        try:
            if path not in trees:
                trees[path] = ast.parse(open(os.path.join(root, path)).read())
            f = find_function(trees[path], fn)
            terms = {"e": lean_expr(select(f, sel), vm)}
            for ph, sel2, vm2 in EXTRA.get(name, []):
                terms[ph] = lean_expr(select(f, sel2), vm2)
            text = "/-- %s:%s, %r -/\ntheorem gen_%s %s := %s" % (path, fn, sel, name, stmt.format(**terms), proof)
        except (Untranslatable, SyntaxError, OSError) as ex:
            errors[name] = "%s: %s" % (type(ex).__name__, ex)
            continue
        a = len(lines) + 1
        lines += text.splitlines()
        spans.append((name, props, a, len(lines)))
    lines += ["end Generated", "end Pymoode"]
    lines += ["#print axioms Pymoode.Generated.gen_%s" % n for n, _, _, _ in spans]
    return "\n".join(lines) + "\n", spans, errors


def check(cache=True):
    """Translates and lets Lean check. Returns {"ok": [names], "broken": {name: reason}, "props": {name: [pids]}, "source": text}"""
    src, spans, errors = generate()
    props = {n: p for n, p, _, _, _, _, _, _ in SPECS}
    h = hashlib.sha256(src.encode()).hexdigest()
    cpath = os.path.join(LEAN, ".lake", "generated_cache.json")
    if cache and os.path.exists(cpath):
        try:
            c = json.load(open(cpath))
            if c.get("hash") == h:
                c["result"]["cached"] = True
                return c["result"]
        except Exception:
            pass
    gdir = os.path.join(os.path.expanduser("~"), "scratch", "verif_generated")
    os.makedirs(gdir, exist_ok=True)
    path = os.path.join(gdir, "Generated_%d.lean" % os.getpid())
    open(path, "w").write(src)
    try:
        p = subprocess.run(["lake", "env", "lean", path], cwd=LEAN, stdout=subprocess.PIPE, stderr=subprocess.STDOUT, timeout=900)
        out = p.stdout.decode()
    finally:
        try:
            os.remove(path)
        except OSError:
            pass
    broken = dict(errors)
    import re
    bad_lines = [int(m.group(1)) for m in re.finditer(r"Generated_\d+\.lean:(\d+):\d+: error", out)]
    for name, _, a, b in spans:
        if any(a <= ln <= b for ln in bad_lines):
            broken[name] = "Lean rejects the generated obligation (the formula in the source is not the model's): " + \
                " | ".join(l for l in src.splitlines()[a - 1:b] if l.startswith("theorem"))[:400]
    if p.returncode != 0 and not bad_lines and not errors:
        broken["<generated file>"] = out[-600:]
    # axioms of the generated theorems: the same allow-list as for the hand-written ones
    out1 = re.sub(r"\s+", " ", out)
    axioms = {}
    for name, _, _, _ in spans:
        if name in broken:
            continue
        m = re.search(r"'Pymoode\.Generated\.gen_%s' depends on axioms: \[([^\]]*)\]" % re.escape(name), out1)
        if m:
            ax = [a.strip() for a in m.group(1).split(",") if a.strip()]
        elif re.search(r"'Pymoode\.Generated\.gen_%s' does not depend on any axioms" % re.escape(name), out1):
            ax = []
        else:
            broken[name] = "axioms of the generated theorem could not be determined"
            continue
        axioms[name] = ax
        if not set(ax) <= {"propext", "Classical.choice", "Quot.sound"}:
            broken[name] = "generated theorem depends on axioms %s" % ax
    res = {"ok": [n for n, _, _, _ in spans if n not in broken], "broken": broken, "props": props, "source": src, "cached": False,
           "axioms": axioms}
    if cache:
        try:
            os.makedirs(os.path.dirname(cpath), exist_ok=True)
            tmp = cpath + ".%d.tmp" % os.getpid()
            json.dump({"hash": h, "result": res}, open(tmp, "w"))
            os.replace(tmp, cpath)
        except Exception:
            pass
    return res


def for_property(res, pid):
    names = [n for n, p in res["props"].items() if pid in p]
    ok = [n for n in names if n in res["ok"]]
    bad = {n: res["broken"][n] for n in names if n in res["broken"]}
    return names, ok, bad


if __name__ == "__main__":
    import sys
    sys.path.insert(0, HERE)
    r = check(cache="--force" not in sys.argv)
    if "--print" in sys.argv:
        print(r["source"])
    print("generated obligations: %d ok, %d broken%s" % (len(r["ok"]), len(r["broken"]), " (cached)" if r.get("cached") else ""))
    for n, why in r["broken"].items():
        print("BROKEN", n, "-", why)
    sys.exit(0 if not r["broken"] else 1)
