"""Component `gen`: whole generations (ask / external evaluation / tell) of DE, NSDE, GDE3(+variants),
NSDE-R and the generic (mu+lambda) base classes, one record per transition."""
import numpy as np
import proto
import comp_surv
from core import Record, bits_equal
from rng import Recorder

NAME = "gen"
ALGOS = ["de", "nsde", "gde3", "gde3mnn", "gde32nn", "gde3p", "nsder", "ga", "ea-dex"]
SELS = ["rand", "best", "current-to-best", "current-to-rand", "rand-to-best", "ranked"]


def gen(rng, n_cases, algos=None, gens=(2, 5)):
    algos = algos or ALGOS
    for t in range(n_cases):
        algo = algos[t % len(algos)]
        sel = SELS[rng.randint(6)]
        y = int(rng.choice([1, 1, 2]))
        n_par = 1 + 2 * (y + (1 if "-to-" in sel else 0))
        pop_size = n_par + 1 + int(rng.randint(0, 8))
        n_var = int(rng.randint(1, 5))
        n_obj = 1 if algo == "de" else int(rng.choice([2, 2, 3, 4]))
        metric = comp_surv.METRICS[rng.randint(5)]
        if algo == "gde3p" or metric == "pcd":
            n_obj = 1 if algo == "de" else 2    # compiled pcd with >= 3 objectives only in isolated workers
        n_ieq = int(rng.choice([0, 1, 1, 2]))
        # equality constraints too, incl. problems constrained *only* by equalities (n_ieq_constr == 0)
        n_eq = int(rng.choice([0, 0, 0, 1, 2]))
        from core import gen_bounds
        xl, xu = gen_bounds(rng, n_var)
        xu = np.where(xu - xl < 1e-6, xl + 1.0, xu)     # runs need room to move; degenerate ranges are C01's business
        cfg = {"algo": algo, "sel": sel, "y": y, "cross": ["bin", "exp"][rng.randint(2)],
               "CR": float(rng.choice([0.0, 0.2, 0.5, 0.9, 1.0])), "Fcfg": [None, 0.5, (0.3, 1.0), 1.5][rng.randint(4)],
               "gamma": [None, 1e-4, 1.0, 0.0][rng.randint(4)], "repair": comp_surv_repairs()[rng.randint(4)],
               "pop_size": pop_size, "n_off": None if rng.randint(3) else int(rng.randint(2, pop_size + 4)),
               "metric": metric, "surv_cls": ["rnc", "constr", "default"][rng.randint(3)],
               "n_var": n_var, "n_obj": n_obj, "n_ieq": n_ieq, "n_eq": n_eq, "xl": xl, "xu": xu,
               # history: one generation advanced by tell(infills) with user-made infills and no ask() before it
               "tell_only": int(rng.randint(2, 5)) if rng.randint(4) == 0 else 0,
               # documented constructor flag of the DE family (non-default value)
               "adv_init": bool(rng.randint(4) != 0),
               # termination by an evaluation budget that is not a multiple of the population size
               "n_evals_extra": int(rng.randint(1, pop_size)) if rng.randint(4) == 0 else 0,
               # badly scaled objectives (with the grid rounding: pairs that tie in the huge one and differ in the small one)
               "fscale": [1e16, 1.0, 1e-3, 1.0] if rng.randint(6) == 0 else None,
               # who evaluates: the algorithm's evaluator / one built with skip_already_evaluated=False /
               # the user, attaching F, G, H to the individuals by hand (problem-independent ask-and-tell)
               "evalmode": ["own", "own", "own", "skipfalse", "manual"][rng.randint(5)],
               "pseed": int(rng.randint(1000)), "grid": [None, None, 0.25, 0.1][rng.randint(4)],
               "shift": float(rng.choice([-1.0, -0.3, 0.0, 0.0, 0.5, 3.0])),
               "pm": bool(rng.randint(5) == 0), "n_gen": int(rng.randint(gens[0], gens[1] + 1)),
               "prior": bool(rng.randint(3) == 0), "seed": int(rng.randint(1, 2**31 - 1))}
        # round 5: one objective is +inf / -inf / NaN on part of the box (NSDE / GDE3 with the NumPy crowding distance; the
        # model is not consulted on such records - oracles only)
        cfg["special"] = None
        if algo in ("nsde", "gde3") and rng.randint(5) == 0:
            cfg["special"] = ["posinf", "neginf", "nan", "mixinf"][rng.randint(4)]
            cfg["metric"] = "cd"
            cfg["fscale"] = None
        # individuals with a feasibility tolerance (pymoo's epsilon-constraint handling): config["cv_eps"] > 0
        # (not for DE: its replacement uses the tolerant `feasible` flag while FitnessSurvival orders by the raw CV, so "best" is
        # ambiguous there - noted in DESIGN.md, outside the properties as stated)
        cfg["cv_eps"] = float(rng.choice([1e-3, 0.05, 0.5])) if (n_ieq + n_eq) and algo != "de" and rng.randint(6) == 0 else 0.0
        # warm start from a population evaluated beforehand (`sampling=<Population>`): on the same box, or on a wider one than
        # the problem now declares; optionally a second algorithm started from the very same individuals and advanced in turn
        cfg["warm"] = None
        cfg["twin"] = False
        if algo in ("de", "nsde", "gde3", "nsder") and rng.randint(2 if algo == "de" else 5) == 0:
            cfg["warm"] = ["same", "wide"][rng.randint(2)]
            cfg["twin"] = bool(algo == "de" and rng.randint(3) != 0)
        # a degenerate generation: every user-made infill is a clone of its target (nothing can be replaced, every pair ties)
        # pymoo's AdaptiveEpsilonConstraintHandling in miniature: one configuration shared by all individuals whose feasibility
        # tolerance is relaxed only while the algorithm infills / advances (oracles judge the state with the tolerance back at 0;
        # the step model is not consulted on such runs)
        cfg["eps_advance"] = float(rng.choice([0.05, 0.5])) if (algo == "de" and n_ieq and not cfg["warm"] and rng.randint(3) == 0) else 0.0
        cfg["clones"] = bool(cfg["tell_only"] and rng.randint(3) == 0)
        if cfg["twin"]:
            cfg["tell_only"] = int(min(cfg["n_gen"], 2 + rng.randint(0, 2)))
            cfg["clones"] = True
        yield cfg


def comp_surv_repairs():
    return ["bounce-back", "midway", "rand-init", "to-bounds"]


def case_from_record(rec):
    c = dict(rec.cfg)
    c.pop("g", None)
    c["only_g"] = rec.cfg["g"]
    return c


def make_problem(c, narrow=False):
    from problems import GenProblem
    xl, xu = np.array(c["xl"], dtype=float), np.array(c["xu"], dtype=float)
    declared = (xl + 0.25 * (xu - xl), xu - 0.25 * (xu - xl)) if narrow else None
    return GenProblem(c["n_var"], c["n_obj"], c["n_ieq"], c.get("n_eq", 0), xl=xl, xu=xu,
                      seed=c["pseed"], grid=c["grid"], shift=c["shift"], fscale=c.get("fscale"), special=c.get("special"),
                      declared=declared)


def make_algorithm(c, prob, sampling=None):
    from pymoo.operators.mutation.pm import PM
    from pymoode.survival import RankAndCrowding, ConstrRankAndCrowding
    from pymoode.algorithms import DE, NSDE, GDE3, GDE3MNN, GDE32NN, GDE3P, NSDER
    vs = "DE/%s/%d/%s" % (c["sel"], c["y"], c["cross"])
    F = tuple(c["Fcfg"]) if isinstance(c["Fcfg"], (list, tuple)) else c["Fcfg"]
    kw = dict(pop_size=c["pop_size"], variant=vs, CR=c["CR"], F=F, gamma=c["gamma"])
    if c["pm"]:
        kw["genetic_mutation"] = PM(prob=0.3, eta=15)
    if sampling is not None:
        kw["sampling"] = sampling
    a = c["algo"]
    if c.get("ctor_seed") is not None and a in ("de", "nsde", "gde3", "nsder"):
        kw["seed"] = int(c["ctor_seed"])         # the seed handed to the constructor (pymoo's Algorithm keyword)
    if not c.get("adv_init", True) and a in ("de", "nsde", "gde3", "nsder"):
        kw["advance_after_initial_infill"] = False
    if c.get("evalmode") == "skipfalse" and a in ("de", "nsde", "gde3", "nsder"):
        from pymoo.core.evaluator import Evaluator
        kw["evaluator"] = Evaluator(skip_already_evaluated=False)

    def surv():
        if c["surv_cls"] == "constr":
            return ConstrRankAndCrowding(crowding_func=c["metric"])
        return RankAndCrowding(crowding_func=c["metric"])
    if a == "de":
        if F is None:
            kw["F"] = (0.5, 1.0)
        return DE(de_repair=c["repair"], **kw)
    if a == "nsde":
        if c["surv_cls"] == "default":
            return NSDE(de_repair=c["repair"], **kw)      # the shared default RankAndCrowding() object
        return NSDE(de_repair=c["repair"], survival=surv(), **kw)
    if a == "gde3":
        if c["surv_cls"] == "default":
            return GDE3(de_repair=c["repair"], **kw)
        return GDE3(de_repair=c["repair"], survival=surv(), **kw)
    if a in ("gde3mnn", "gde32nn", "gde3p"):
        cls = {"gde3mnn": GDE3MNN, "gde32nn": GDE32NN, "gde3p": GDE3P}[a]
        return cls(c["pop_size"], vs, c["CR"], F, c["gamma"], de_repair=c["repair"])
    if a == "nsder":
        from pymoo.util.ref_dirs import get_reference_directions
        rd = get_reference_directions("das-dennis", c["n_obj"], n_partitions=3 if c["n_obj"] <= 3 else 2)
        return NSDER(rd, **kw)
    from pymoo.operators.sampling.rnd import FloatRandomSampling
    from pymoo.operators.crossover.sbx import SBX
    from pymoo.operators.selection.rnd import RandomSelection
    from pymoode.algorithms.base.genetic import GeneticAlgorithm
    from pymoode.operators.dex import DEX
    if a == "ga":
        return GeneticAlgorithm(pop_size=c["pop_size"], sampling=FloatRandomSampling(), selection=RandomSelection(),
                                crossover=SBX(), mutation=PM(), survival=surv(), n_offsprings=c["n_off"],
                                eliminate_duplicates=True)
    if a == "ea-dex":
        return GeneticAlgorithm(pop_size=c["pop_size"], sampling=FloatRandomSampling(), selection=RandomSelection(),
                                crossover=DEX(CR=max(c["CR"], 0.1)), mutation=PM(), survival=surv(),
                                n_offsprings=c["n_off"], eliminate_duplicates=True)
    raise ValueError(a)


class IdBook:
    def __init__(self):
        self.ids, self.keep = {}, []

    def of(self, ind):
        k = id(ind)
        if k not in self.ids:
            self.ids[k] = len(self.keep)
            self.keep.append(ind)
        return self.ids[k]

    def many(self, pop):
        return [self.of(i) for i in pop]


def snapshot(pop, book):
    n = len(pop)
    F = np.array(pop.get("F"), dtype=float).reshape(n, -1)
    G = pop.get("G")
    G = np.zeros((n, 0)) if G is None or len(np.shape(G)) < 2 else np.array(G, dtype=float).reshape(n, -1)
    H = pop.get("H")
    H = np.zeros((n, 0)) if H is None or len(np.shape(H)) < 2 else np.array(H, dtype=float).reshape(n, -1)
    return {"ids": np.array(book.many(pop), dtype=int), "X": np.array(pop.get("X"), dtype=float).reshape(n, -1), "F": F, "G": G, "H": H,
            "CV": np.array(pop.get("CV"), dtype=float).reshape(n), "feas": np.array(pop.get("feasible"), dtype=bool).reshape(n),
            "rank": np.array([-1 if r is None else int(r) for r in pop.get("rank")], dtype=int)}


def run(case, replay=None):
    """Returns the list of transition records of one run (or only generation `only_g`)."""
    import pymoo.core.survival as pcs
    from pymoode.survival.rank_and_crowding import rnc
    from pymoode.survival.replacement import ImprovementReplacement
    c = {k: v for k, v in case.items() if k != "only_g"}
    only_g = case.get("only_g")
    recs = []
    prob = make_problem(c, narrow=(c.get("warm") == "wide"))
    book = IdBook()
    saved = (pcs.split_by_feasibility, rnc.split_by_feasibility, rnc.randomized_argsort)
    patched_objs = []
    err = None
    import pymoo.core.individual as pci
    saved_cfg = pci.Individual.__dict__.get("default_config")
    algo2 = None
    try:
        shared_cfg = None
        if c.get("eps_advance"):
            shared_cfg = pci.default_config()
            shared_cfg["cache"] = False
            pci.Individual.default_config = staticmethod(lambda: shared_cfg)
        if c.get("cv_eps"):
            base_cfg, eps_ = pci.default_config, float(c["cv_eps"])

            def _cfg():
                d = base_cfg()
                d["cv_eps"] = eps_
                return d
            pci.Individual.default_config = staticmethod(_cfg)
        if c["prior"]:
            # preceding workload in the same process: another algorithm built from the same shared
            # defaults, on another problem, advanced a little (no deepcopy in between)
            c2 = dict(c, n_ieq=0 if c["n_ieq"] else 1, n_eq=0 if c.get("n_eq") else 1, tell_only=0, pseed=c["pseed"] + 7, seed=c["seed"] + 1, prior=False,
                      special=None, warm=None, twin=False)
            p2 = make_problem(c2)
            import contextlib, io
            with contextlib.redirect_stdout(io.StringIO()):
                a2 = make_algorithm(c2, p2)
            a2.setup(p2, termination=("n_gen", 2), seed=c2["seed"], verbose=False)
            while a2.has_next():
                a2.next()
        import contextlib, io
        wpop = None
        if c.get("warm"):
            from pymoo.core.evaluator import Evaluator
            from pymoo.core.population import Population
            rs_ = np.random.RandomState(c["seed"] % 99991)
            xlw, xuw = np.array(c["xl"], dtype=float), np.array(c["xu"], dtype=float)
            if c["warm"] == "same" and prob.xl is not None:
                xlw, xuw = np.array(prob.xl, dtype=float), np.array(prob.xu, dtype=float)
            wpop = Population.new("X", xlw + rs_.random_sample((c["pop_size"], c["n_var"])) * (xuw - xlw))
            Evaluator().eval(make_problem(c), wpop)          # the same functions (on the wide box they were built from)
        with contextlib.redirect_stdout(io.StringIO()):
            algo = make_algorithm(c, prob, sampling=wpop)
            if c.get("twin") and wpop is not None:
                algo2 = make_algorithm(c, prob, sampling=wpop)
        if c.get("n_evals_extra") and c["algo"] not in ("ga", "ea-dex") and c.get("evalmode") != "manual":
            term = ("n_evals", c["pop_size"] * (c["n_gen"] - 1) + c["n_evals_extra"])
        else:
            term = ("n_gen", c["n_gen"])
        if algo2 is not None:
            algo2.setup(prob, termination=("n_gen", c["n_gen"] + 4), seed=c["seed"] % 100003 + 17, verbose=False)
        algo.setup(prob, termination=term, seed=c["seed"], verbose=False)
        surv = algo.survival
        orc = comp_surv.Oracles()
        handed = {}
        is_rnc = isinstance(surv, (rnc.RankAndCrowding, rnc.ConstrRankAndCrowding))
        # --- instrumentation from outside the repository (instance attributes, restored afterwards)
        if isinstance(surv, rnc.RankAndCrowding):
            patched_objs.append((surv, "nds", surv.nds))
            patched_objs.append((surv, "crowding_func", surv.crowding_func))
            surv.nds = orc.wrap_nds(surv.nds)
            surv.crowding_func = orc.wrap_crowd(surv.crowding_func)
        elif isinstance(surv, rnc.ConstrRankAndCrowding):
            patched_objs.append((surv, "nds", surv.nds))
            patched_objs.append((surv.ranking, "nds", surv.ranking.nds))
            patched_objs.append((surv.ranking, "crowding_func", surv.ranking.crowding_func))
            surv.nds = orc.wrap_nds(surv.nds)
            surv.ranking.nds = orc.wrap_nds(surv.ranking.nds)
            surv.ranking.crowding_func = orc.wrap_crowd(surv.ranking.crowding_func)
        pcs.split_by_feasibility = orc.wrap_split(saved[0])
        rnc.split_by_feasibility = orc.wrap_split(saved[1])
        rnc.randomized_argsort = orc.wrap_sort(saved[2])
        real_do = surv.do

        def do_proxy(problem, pop, *a, **k):
            handed["pop"] = book.many(pop)
            handed["snap"] = snapshot(pop, book) if len(pop) else None
            handed["n_survive"] = k.get("n_survive")
            handed["args"] = len(a)
            handed["calls"] = handed.get("calls", 0) + 1
            return real_do(problem, pop, *a, **k)
        surv.do = do_proxy
        patched_objs.append((surv, "do", None))

        g = 0
        while algo.has_next() and g <= c["n_gen"] + 2:      # (cap: a run that does not stop is the termination's business)
            if algo2 is not None and algo2.has_next():
                algo2.next()        # the twin started from the same individuals takes its turn (it re-ranks the shared members)
            pop_before = algo.pop
            before = snapshot(pop_before, book) if pop_before is not None and len(pop_before) else None
            n_eval0 = algo.evaluator.n_eval
            for lst in (orc.splits, orc.nds, orc.crowd, orc.sorts):
                del lst[:]
            handed.clear()
            tell_only = bool(c.get("tell_only")) and g + 1 == c["tell_only"] and pop_before is not None and len(pop_before) \
                and c["algo"] not in ("ga", "ea-dex")
            if tell_only:
                # user-made infills (the documented ask-and-tell freedom): fresh individuals, one per slot
                from pymoo.core.population import Population
                rs = np.random.RandomState(c["seed"] % 100000 + g)
                Xp = np.array(pop_before.get("X"), dtype=float)
                xl_, xu_ = np.array(c["xl"], dtype=float), np.array(c["xu"], dtype=float)
                Xn = np.clip(Xp[rs.permutation(len(Xp))] + rs.uniform(-0.2, 0.2, size=Xp.shape) * (xu_ - xl_), xl_, xu_)
                Xn[::3] = Xp[::3]          # some trials equal to their targets (exact ties)
                if len(Xn) >= 4 and not c.get("clones"):
                    Xn[-1] = Xn[1]         # two user-made infills coincide exactly (each may beat its own target)
                if c.get("clones"):
                    Xn = Xp.copy()
                infills = Population.new("X", Xn)
            else:
                if shared_cfg is not None:
                    shared_cfg["cv_eps"] = float(c["eps_advance"])
                try:
                    infills = algo.ask()
                finally:
                    if shared_cfg is not None:
                        shared_cfg["cv_eps"] = 0.0
            n_asked = len(infills)
            x_asked = np.array(infills.get("X"), dtype=float, copy=True)
            manual = c.get("evalmode") == "manual" and c["algo"] != "ga"
            if manual:
                ev_ = prob.evaluate(np.array(infills.get("X"), dtype=float), return_as_dictionary=True)
                for key_ in ("F", "G", "H"):
                    if ev_.get(key_) is not None:
                        infills.set(key_, ev_[key_])
            else:
                algo.evaluator.eval(prob, infills)
            n_eval1 = algo.evaluator.n_eval
            off = snapshot(infills, book)
            if shared_cfg is not None:
                shared_cfg["cv_eps"] = float(c["eps_advance"])
            try:
                with Recorder("record") as R:
                    algo.tell(infills=infills)
            finally:
                if shared_cfg is not None:
                    shared_cfg["cv_eps"] = 0.0
            g += 1
            is_init = before is None
            if is_init:
                if c["algo"] in ("ga", "ea-dex"):
                    continue        # the generic base class does not rank its first population (pymoo's business)
                before = {"ids": np.zeros(0, dtype=int), "X": np.zeros((0, off["X"].shape[1])), "F": np.zeros((0, off["F"].shape[1])),
                          "G": np.zeros((0, off["G"].shape[1])), "H": np.zeros((0, off["H"].shape[1])), "CV": np.zeros(0), "feas": np.zeros(0, dtype=bool),
                          "rank": np.zeros(0, dtype=int)}
            if only_g is not None and g != only_g:
                continue
            after = snapshot(algo.pop, book)
            rec = Record(NAME, dict(c, g=g), {"pop": before, "off": off})
            rec.cfg["init"] = bool(is_init)
            rec.cfg["told_only"] = bool(tell_only)
            rec.cfg["manual_eval"] = bool(manual)
            if manual:
                rec.tags.add("manual-evaluation")
            if c.get("fscale"):
                rec.tags.add("badly-scaled-objectives")
            rec.cfg["warm_init"] = bool(is_init and wpop is not None)
            for key_, tag_ in (("special", "non-finite-objective:"), ("warm", "warm-start:")):
                if c.get(key_):
                    rec.tags.add(tag_ + str(c[key_]))
            if c.get("cv_eps"):
                rec.tags.add("cv_eps>0")
            if c.get("eps_advance"):
                rec.tags.add("tolerance-relaxed-during-advance")
            if algo2 is not None:
                rec.tags.add("twin-on-shared-individuals")
            if tell_only:
                rec.tags.add("tell-without-ask")
                if c.get("clones"):
                    rec.tags.add("all-infills-clone-their-targets")
            if prob.n_eq_constr and not prob.n_ieq_constr:
                rec.tags.add("equality-only")
            rec.cfg["constr"] = bool(prob.has_constraints())
            rec.cfg["is_rnc"] = bool(is_rnc)
            rec.out["after"] = after
            rec.out["opt"] = np.array(book.many(algo.opt), dtype=int) if algo.opt is not None else np.array([], dtype=int)
            rec.out["handed"] = dict(handed)
            rec.out["oracles"] = {"splits": list(orc.splits), "nds": list(orc.nds), "crowd": list(orc.crowd), "sorts": list(orc.sorts)}
            rec.out["n_asked"] = n_asked
            rec.out["n_eval_delta"] = int(n_eval1 - n_eval0)
            rec.out["n_eval_tell"] = int(algo.evaluator.n_eval - n_eval1)
            rec.foreign = list(R.foreign)
            # provenance: stored F/G are those of the problem at the stored X
            ev = prob.evaluate(after["X"], return_values_of=["F", "G"] if prob.n_ieq_constr else ["F"])
            Fe = ev[0] if isinstance(ev, (tuple, list)) else ev
            if prob.n_eq_constr:
                He = prob.evaluate(after["X"], return_values_of=["H"])
                if not bits_equal(np.asarray(He, dtype=float).reshape(after["H"].shape), after["H"]):
                    rec.frames.append("stored H of a population member differs from the problem evaluated at its stored X")
            if not bits_equal(np.asarray(Fe, dtype=float).reshape(after["F"].shape), after["F"]):
                rec.frames.append("stored F of a population member differs from the problem evaluated at its stored X")
            if prob.n_ieq_constr:
                if not bits_equal(np.asarray(ev[1], dtype=float).reshape(after["G"].shape), after["G"]):
                    rec.frames.append("stored G of a population member differs from the problem evaluated at its stored X")
            if not bits_equal(x_asked, off["X"]):
                rec.frames.append("offspring X changed between ask() and tell()")
            nowb = snapshot(pop_before, book) if not is_init else before
            for k in ("X", "F", "CV"):
                if not bits_equal(nowb[k], before[k]):
                    rec.frames.append("a member of the previous population had its %s altered by the generation" % k)
            rec.tags.add("algo:" + c["algo"])
            if is_init:
                rec.tags.add("first-generation")
            rec.tags.add("feas:" + ("all" if after["feas"].all() else "none" if not after["feas"].any() else "mixed"))
            if orc.sorts:
                rec.tags.add("split-front")
            if set(after["ids"]) & set(off["ids"]):
                rec.tags.add("offspring-entered")
            recs.append(rec)
    except Exception as e:
        import traceback
        err = "%s: %s | %s" % (type(e).__name__, e, traceback.format_exc()[-600:])
    finally:
        if saved_cfg is not None:
            pci.Individual.default_config = saved_cfg
        pcs.split_by_feasibility, rnc.split_by_feasibility, rnc.randomized_argsort = saved
        for obj, name, val in patched_objs:
            if val is None:
                try:
                    delattr(obj, name)
                except Exception:
                    pass
            else:
                setattr(obj, name, val)
    if err is not None:
        r = Record(NAME, dict(c, g=-1), {})
        r.err = err
        recs.append(r)
    return recs


def _indm(s):
    return proto.ilist(s["ids"]) + proto.fmat(s["F"]) + proto.flist(s["CV"]) + proto.ilist(s["feas"].astype(int))


def encode(rec):
    c = rec.cfg
    if c.get("eps_advance"):
        raise ValueError("skipped")     # decisions taken under a tolerance that is gone when the state is observed: oracles only
    if c.get("special"):
        raise ValueError("skipped")     # non-finite objective values: NumPy's crowding of such fronts is NaN-ridden and not modelled
    pop, off = rec.inp["pop"], rec.inp["off"]
    algo = "gde3" if c["algo"].startswith("gde3") else c["algo"]
    if c.get("init"):
        algo = "init-" + algo
    t = [NAME, algo, str(c["pop_size"]), "POP"] + _indm(pop) + ["OFF"] + _indm(off)
    if c["algo"] == "de":
        t += ["DE", "1" if c["constr"] else "0"] + proto.fmat(pop["X"]) + proto.fmat(off["X"])
    elif c["algo"] == "nsder":
        t += ["ORACLE"] + proto.ilist(rec.out["after"]["ids"]) + proto.ilist(rec.out["opt"])
    else:
        h = rec.out["handed"]
        snap = h.get("snap")
        if snap is None:
            raise ValueError("the survival operator was not called through .do()")
        r2 = Record("surv", {"cls": "constr" if c["surv_cls"] == "constr" and c["algo"] in ("nsde", "gde3", "ga", "ea-dex") else "rnc",
                             "n_survive": h.get("n_survive"), "constr": c["constr"],
                             "metric": {"gde3mnn": "mnn", "gde32nn": "2nn", "gde3p": "pcd"}.get(c["algo"], "cd" if (c["surv_cls"] == "default" and c["algo"] in ("nsde", "gde3")) else c["metric"]),
                             "compiled": True},
                    {"F": snap["F"], "G": snap["G"], "H": snap["H"], "CV": snap["CV"], "feas": snap["feas"]})
        r2.out["oracles"] = rec.out["oracles"]
        t += ["SURV"] + comp_surv.encode(r2).split()[1:]
    return " ".join(t)


def compare(rec, ans):
    status = ans.tok()
    if status == "err":
        return [] if rec.err is not None else ["model rejects the record: " + ans.rest()]
    if rec.err is not None:
        return ["implementation raised %s" % rec.err]
    cand = ans.ilist()
    newpop = ans.ilist()
    opt = ans.ilist()
    out = []
    h = rec.out["handed"]
    if rec.cfg["algo"] not in ("de",) and h.get("pop") is not None and list(h["pop"]) != cand:
        out.append("candidates handed to the survival differ: impl %s model %s" % (list(h["pop"]), cand))
    if list(rec.out["after"]["ids"]) != newpop:
        out.append("next population differs: impl %s model %s" % (list(rec.out["after"]["ids"]), newpop))
    if sorted(rec.out["opt"]) != sorted(opt):
        out.append("reported optimum differs: impl %s model %s" % (sorted(rec.out["opt"]), sorted(opt)))
    return out


def nontrivial(rec):
    return rec.err is None and ("offspring-entered" in rec.tags)


# ---- oracles ------------------------------------------------------------------------------------

def _dom(a, b):
    return bool((a < b).any() and not (b < a).any())


def _cdom(cva, fa, cvb, fb):
    """constraint-domination (pymoo get_relation semantics): a beats b"""
    if cva < cvb:
        return True
    if cvb < cva:
        return False
    return _dom(fa, fb)


def oracle_C05(rec):
    if rec.err is not None:
        return ["run raised: " + rec.err]
    if not rec.cfg["algo"].startswith("gde3") or rec.cfg.get("init"):
        return []
    pop, off, after = rec.inp["pop"], rec.inp["off"], rec.out["after"]
    n = len(pop["ids"])
    bad = []
    if len(off["ids"]) != n:
        return ["%d offspring for %d slots" % (len(off["ids"]), n)]
    A = set(after["ids"])
    exp = []
    for k in range(n):
        pb = _cdom(pop["CV"][k], pop["F"][k], off["CV"][k], off["F"][k])
        ob = _cdom(off["CV"][k], off["F"][k], pop["CV"][k], pop["F"][k])
        if pb:
            exp.append(pop["ids"][k])
            if off["ids"][k] in A:
                bad.append("slot %d: offspring constraint-dominated by its parent entered the population" % k)
        elif ob:
            exp.append(off["ids"][k])
            if pop["ids"][k] in A and list(pop["ids"]).count(pop["ids"][k]) == 1:
                bad.append("slot %d: parent constraint-dominated by its own offspring stayed" % k)
        else:
            exp += [pop["ids"][k], off["ids"][k]]
    h = rec.out["handed"].get("pop")
    if h is None:
        bad.append("survival operator was not called")
    elif list(h) != [int(x) for x in exp]:
        bad.append("%d candidates handed to the survival, expected the %d winners and indifferent pairs" % (len(h), len(exp)))
    if len(after["ids"]) != rec.cfg["pop_size"]:
        bad.append("population has %d members, expected pop_size=%d" % (len(after["ids"]), rec.cfg["pop_size"]))
    return bad


def oracle_C06(rec):
    if rec.err is not None:
        return ["run raised: " + rec.err]
    if rec.cfg["algo"] == "de":
        return []
    pop, off, after = rec.inp["pop"], rec.inp["off"], rec.out["after"]
    ids = list(pop["ids"]) + list(off["ids"])
    F = np.vstack([pop["F"], off["F"]])
    CV = np.concatenate([pop["CV"], off["CV"]])
    feas = np.concatenate([pop["feas"], off["feas"]])
    pos = {}
    for i, d in enumerate(ids):
        pos.setdefault(int(d), i)
    A = [int(x) for x in after["ids"]]
    bad = []
    # candidates: for GDE3 those that passed the one-to-one comparison (independent recomputation)
    if rec.cfg["algo"].startswith("gde3") and not rec.cfg.get("init"):
        n = len(pop["ids"])
        cand = []
        for k in range(min(n, len(off["ids"]))):
            pb = _cdom(pop["CV"][k], pop["F"][k], off["CV"][k], off["F"][k])
            ob = _cdom(off["CV"][k], off["F"][k], pop["CV"][k], pop["F"][k])
            cand += [int(pop["ids"][k])] if pb else [int(off["ids"][k])] if ob else [int(pop["ids"][k]), int(off["ids"][k])]
    else:
        cand = [int(x) for x in ids]
    C = set(cand)
    for a in A:
        if a not in C:
            bad.append("new population member %d is neither a current member nor an offspring%s" % (
                a, " that passed the one-to-one comparison" if rec.cfg["algo"].startswith("gde3") else ""))
            return bad
    S = set(A)
    disc = [c for c in C if c not in S]
    fdisc = [c for c in disc if feas[pos[c]]]
    for a in A:
        if feas[pos[a]]:
            for d in fdisc:
                if _dom(F[pos[d]], F[pos[a]]):
                    bad.append("feasible survivor %d is dominated by discarded feasible candidate %d" % (a, d))
                    return bad
    if any(not feas[pos[a]] for a in A) and fdisc:
        bad.append("infeasible candidate survives while feasible candidate %d is discarded" % fdisc[0])
    fc = [c for c in C if feas[pos[c]]]
    nd = [c for c in fc if not any(_dom(F[pos[o]], F[pos[c]]) for o in fc if o != c)]
    quota = rec.cfg["pop_size"]
    if len(nd) <= quota and any(c not in S for c in nd):
        bad.append("%d feasible non-dominated candidates fit in pop_size=%d but %d of them were discarded" % (
            len(nd), quota, sum(1 for c in nd if c not in S)))
    return bad


def oracle_C07(rec):
    if rec.err is not None:
        return ["run raised: " + rec.err]
    c = rec.cfg
    after = rec.out["after"]
    bad = list(rec.frames)
    is_de_family = c["algo"] in ("de", "nsde", "nsder") or c["algo"].startswith("gde3")
    n_off_exp = c["pop_size"] if is_de_family or c["n_off"] is None else c["n_off"]
    if rec.out["n_asked"] != n_off_exp:
        bad.append("%d offspring proposed, expected %d" % (rec.out["n_asked"], n_off_exp))
    if rec.cfg.get("warm_init"):
        pass        # the first population was evaluated before the run: nothing to evaluate, nothing proposed by the operators
    elif rec.cfg.get("manual_eval"):
        if rec.out["n_eval_delta"] != 0 or rec.out["n_eval_tell"] != 0:
            bad.append("the offspring were evaluated by the user, yet the algorithm's evaluator counted %d (+%d inside tell) evaluations" % (
                rec.out["n_eval_delta"], rec.out["n_eval_tell"]))
    elif rec.out["n_eval_delta"] != rec.out["n_asked"] or rec.out["n_eval_tell"] != 0:
        bad.append("%d evaluations consumed for %d offspring (+%d inside tell)" % (
            rec.out["n_eval_delta"], rec.out["n_asked"], rec.out["n_eval_tell"]))
    if len(after["ids"]) != c["pop_size"]:
        bad.append("population has %d members, expected pop_size=%d" % (len(after["ids"]), c["pop_size"]))
    if len(set(after["ids"])) != len(after["ids"]):
        bad.append("%d individual(s) appear twice in the population" % (len(after["ids"]) - len(set(after["ids"]))))
    if len(set(rec.inp["off"]["ids"])) != len(rec.inp["off"]["ids"]) or set(rec.inp["off"]["ids"]) & set(rec.inp["pop"]["ids"]):
        bad.append("an offspring object is not fresh (appears twice or is a current member)")
    return bad


def oracle_C08(rec):
    if rec.err is not None:
        return ["run raised: " + rec.err]
    after = rec.out["after"]
    opt = [int(x) for x in rec.out["opt"]]
    ids = [int(x) for x in after["ids"]]
    pos = {d: i for i, d in enumerate(ids)}
    bad = []
    if not opt:
        return ["no optimum reported"]
    feas, F, CV = after["feas"], after["F"], after["CV"]
    if rec.cfg["algo"] == "nsder" and feas.any():
        # the reference-direction survival reports first-front niche representatives of the candidates,
        # which need not all have survived the niching: judge them as evaluated solutions
        allids = [int(x) for x in rec.inp["pop"]["ids"]] + [int(x) for x in rec.inp["off"]["ids"]]
        allF = np.vstack([rec.inp["pop"]["F"], rec.inp["off"]["F"]])
        allfe = np.concatenate([rec.inp["pop"]["feas"], rec.inp["off"]["feas"]])
        ap = {}
        for i, d in enumerate(allids):
            ap.setdefault(d, i)
        if any(o not in ap for o in opt):
            return ["reported optimum contains a solution that was never evaluated in this run step"]
        for o in opt:
            if not allfe[ap[o]]:
                bad.append("an infeasible solution is reported although a population member is feasible")
                break
            if any(feas[j] and _dom(F[j], allF[ap[o]]) for j in range(len(ids))):
                bad.append("reported solution %d is dominated by a population member" % o)
                break
            if any(_dom(allF[ap[q]], allF[ap[o]]) for q in opt if q != o):
                bad.append("reported solution %d is dominated by another reported solution" % o)
                break
        return bad
    if any(o not in pos for o in opt):
        return ["reported optimum contains a solution that is not a population member"]
    if feas.any():
        if any(not feas[pos[o]] for o in opt):
            bad.append("an infeasible solution is reported although a population member is feasible")
        fset = [i for i in range(len(ids)) if feas[i]]
        nd = sorted(ids[i] for i in fset if not any(_dom(F[j], F[i]) for j in fset if j != i))
        for o in opt:
            if feas[pos[o]] and any(_dom(F[j], F[pos[o]]) for j in fset):
                bad.append("reported solution %d is dominated by a population member" % o)
                break
        if rec.cfg["algo"] != "nsder":
            if rec.cfg["algo"] == "de":
                best = min(fset, key=lambda i: (F[i][0], i))
                if len(opt) != 1 or F[pos[opt[0]]][0] != F[best][0]:
                    bad.append("DE reports %s, expected the single best member" % opt)
            elif sorted(opt) != nd:
                bad.append("reported optimum %s is not exactly the feasible non-dominated members %s" % (sorted(opt), nd))
    else:
        if len(opt) != 1 or CV[pos[opt[0]]] != CV.min():
            bad.append("no member is feasible but the optimum is not the single member of least violation")
    return bad


def oracle_C02(rec):
    if rec.err is not None:
        return ["run raised: " + rec.err]
    if rec.cfg["algo"] != "de" or rec.cfg.get("eps_advance"):
        return []
    if rec.cfg.get("init"):
        after = rec.out["after"]
        keys = [(after["CV"][i], after["F"][i][0]) for i in range(len(after["ids"]))]
        bad = []
        if any(keys[k] > keys[k + 1] for k in range(len(keys) - 1)):
            bad.append("first population is not ordered best-first by (CV, F)")
        if list(after["rank"]) != list(range(len(keys))):
            bad.append("rank attributes of the first population are not the positions")
        if sorted(after["ids"]) != sorted(rec.inp["off"]["ids"]):
            bad.append("first population is not the sampled population")
        return bad
    import comp_repl
    pop, off, after = rec.inp["pop"], rec.inp["off"], rec.out["after"]
    n = len(pop["ids"])
    if len(off["ids"]) != n:
        return ["%d offspring for %d slots" % (len(off["ids"]), n)]
    r2 = Record("repl", {"constr": rec.cfg["constr"]}, {"X": pop["X"], "Xo": off["X"],
                "pop_F": pop["F"][:, 0], "pop_CV": pop["CV"], "pop_feas": pop["feas"],
                "off_F": off["F"][:, 0], "off_CV": off["CV"], "off_feas": off["feas"]})
    m = {int(d): k for k, d in enumerate(pop["ids"])}
    m.update({int(d): n + k for k, d in enumerate(off["ids"])})
    r2.out["ids"] = np.array([m.get(int(d), -1) for d in after["ids"]], dtype=int)
    r2.out["rank"] = after["rank"]
    return comp_repl.oracle_C02(r2)


def oracle_state(rec):
    """C17 / C18 on generation records: the step model must reproduce the transition (checked by the
    correspondence), no random source outside numpy's global generator, nothing altered after evaluation"""
    if rec.err is not None:
        return ["run raised: " + rec.err]
    return list(rec.frames) + ["random source outside numpy's global generator: %s" % (f,) for f in rec.foreign[:2]]


ORACLES = {"C17": oracle_state, "C18": oracle_state, "C02": oracle_C02, "C05": oracle_C05, "C06": oracle_C06, "C07": oracle_C07, "C08": oracle_C08}
