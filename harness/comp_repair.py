"""Component `repair`: the four repair functions of pymoode/operators/dem.py on raw matrices."""
import numpy as np
import proto
from core import Record, bits_equal, first_bit_diff, gen_bounds, gen_inbounds
from rng import Recorder

NAME = "repair"
KINDS = ["bounce-back", "midway", "rand-init", "to-bounds"]


def gen(rng, n_cases):
    for t in range(n_cases):
        kind = KINDS[t % 4]
        n = int(rng.randint(1, 7))
        d = int(rng.randint(1, 7))
        xl, xu = gen_bounds(rng, d)
        Xb = gen_inbounds(rng, n, xl, xu)
        V = gen_inbounds(rng, n, xl, xu, p_on_bound=0.3)
        mix = rng.randint(6)   # 0 none, 1 lower, 2 upper, 3 mixed, 4 all, 5 far outside
        w = np.maximum(xu - xl, 1e-3)
        if mix in (1, 3):
            m = rng.random_sample((n, d)) < 0.4
            V = np.where(m, xl - rng.random_sample((n, d)) * w * rng.choice([1e-9, 0.5, 3.0]), V)
        if mix in (2, 3):
            m = rng.random_sample((n, d)) < 0.4
            V = np.where(m, xu + rng.random_sample((n, d)) * w * rng.choice([1e-9, 0.5, 3.0]), V)
        if mix == 4:
            m = rng.random_sample((n, d)) < 0.5
            V = np.where(m, xl - (0.1 + rng.random_sample((n, d))) * w, xu + (0.1 + rng.random_sample((n, d))) * w)
        if mix == 5:
            V = V + rng.standard_normal((n, d)) * w * 10
        via = ["function", "registry"][rng.randint(2)]
        # memory layout of the mutant matrix handed over (the functions work in place on what they are given)
        layout = ["C", "C", "F", "strided", "colslice", "T"][rng.randint(6)]
        yield {"kind": kind, "via": via, "layout": layout, "xl": xl, "xu": xu, "Xb": Xb, "V": V,
               "seed": int(rng.randint(2**31 - 1))}


def run(case, replay=None):
    from pymoode.operators import dem
    rec = Record(NAME, {"kind": case["kind"], "via": case["via"], "layout": case.get("layout", "C"), "seed": case["seed"]},
                 {"xl": case["xl"], "xu": case["xu"], "Xb": case["Xb"], "V": case["V"]})
    fn = {"bounce-back": "bounce_back", "midway": "midway", "rand-init": "rand_init", "to-bounds": "to_bounds"}
    try:
        f = dem.REPAIRS[case["kind"]] if case["via"] == "registry" else getattr(dem, fn[case["kind"]])
    except Exception as e:   # registry glue broken
        rec.err = "lookup: %r" % (e,)
        return rec
    X = np.array(case["V"], dtype=float, copy=True)
    lay = case.get("layout", "C")
    if lay == "F":
        X = np.asfortranarray(X)
    elif lay == "strided":
        big = np.full((2 * X.shape[0], X.shape[1]), np.nan)
        big[::2] = X
        X = big[::2]
    elif lay == "colslice":
        big = np.full((X.shape[0], X.shape[1] + 2), np.nan)
        big[:, 1:-1] = X
        X = big[:, 1:-1]
    elif lay == "T":
        X = np.ascontiguousarray(X.T).T
    rec.tags.add("layout:" + lay)
    Xb = np.array(case["Xb"], dtype=float, copy=True)
    xl = np.array(case["xl"], dtype=float, copy=True)
    xu = np.array(case["xu"], dtype=float, copy=True)
    np.random.seed(case["seed"])
    with Recorder("replay" if replay is not None else "record", replay) as R:
        try:
            out = f(X, Xb, xl, xu)
        except Exception as e:
            rec.err = "%s: %s" % (type(e).__name__, e)
            out = None
    rec.draws = R.log if replay is None else list(replay)
    rec.foreign = R.foreign
    if replay is not None and (R.diverged or not R.exhausted()):
        rec.frames.append("replay-diverged: %s" % (R.diverged or "log not exhausted"))
    if out is not None:
        rec.out["X"] = np.array(out, dtype=float)
    for name, a, b in (("Xb", Xb, case["Xb"]), ("xl", xl, case["xl"]), ("xu", xu, case["xu"])):
        if not bits_equal(a, b):
            rec.frames.append("input %s modified" % name)
    V = case["V"]
    if (V < xl).any():
        rec.tags.add("lower")
    if (V > xu).any():
        rec.tags.add("upper")
    if ((V >= xl) & (V <= xu)).all():
        rec.tags.add("none")
    if ((V == xl) | (V == xu)).any():
        rec.tags.add("on-bound")
    if (xl == xu).any():
        rec.tags.add("zero-width")
    return rec


def case_from_record(rec):
    c = dict(rec.cfg)
    c.update(rec.inp)
    return c


def encode(rec):
    t = [NAME, rec.cfg["kind"]] + proto.flist(rec.inp["xl"]) + proto.flist(rec.inp["xu"]) \
        + proto.fmat(rec.inp["Xb"]) + proto.fmat(rec.inp["V"]) + proto.events(rec.draws)
    return " ".join(t)


def compare(rec, ans):
    """ans: proto.Tokens positioned after '<seq> <comp>'. Returns list of mismatch strings."""
    status = ans.tok()
    if status == "err":
        msg = ans.rest()
        if rec.err is not None:
            return []   # both reject
        return ["model rejects the record (%s) but the implementation returned a result" % msg]
    if rec.err is not None:
        return ["implementation raised %s, model returns a result" % rec.err]
    m = ans.fmat()
    d = first_bit_diff(rec.out["X"], m)
    return [] if d is None else ["repaired matrix differs " + d]


def nontrivial(rec):
    return bool(rec.tags & {"lower", "upper"})


# ---- property oracles (used on the implementation's output; search for failing inputs) ------

def oracle_C11(rec):
    bad = []
    if rec.err is not None:
        return ["repair raised: " + rec.err]
    xl, xu, Xb, V, X = rec.inp["xl"], rec.inp["xu"], rec.inp["Xb"], rec.inp["V"], rec.out["X"]
    if X.shape != V.shape:
        return ["shape changed %s -> %s" % (V.shape, X.shape)]
    kind = rec.cfg["kind"]
    n, d = V.shape
    Vb, Xbits = V.view(np.uint64), np.ascontiguousarray(X).view(np.uint64)
    for i in range(n):
        for j in range(d):
            v, x, lo, hi, b = V[i, j], X[i, j], xl[j], xu[j], Xb[i, j]
            if lo <= v <= hi:
                if Vb[i, j] != Xbits[i, j]:
                    bad.append("non-violating coordinate [%d,%d] changed %r -> %r" % (i, j, v, x))
                continue
            bound = lo if v < lo else hi
            tol = 1e-12 * max(1.0, abs(lo), abs(hi))
            if kind == "bounce-back":
                a, c = min(bound, b), max(bound, b)
                if not (a - tol <= x <= c + tol):
                    bad.append("bounce-back [%d,%d]: %r not between bound %r and base %r" % (i, j, x, bound, b))
            elif kind == "midway":
                if abs(x - (bound + b) / 2) > tol + 1e-12 * abs(bound - b):
                    bad.append("midway [%d,%d]: %r is not halfway between %r and %r" % (i, j, x, bound, b))
            elif kind == "to-bounds":
                if x != bound:
                    bad.append("to-bounds [%d,%d]: %r is not the violated bound %r" % (i, j, x, bound))
            elif kind == "rand-init":
                if not (lo <= x <= hi):
                    bad.append("rand-init [%d,%d]: %r outside [%r,%r]" % (i, j, x, lo, hi))
            if len(bad) >= 5:
                return bad
    for fr in rec.frames:
        bad.append(fr)
    return bad


def oracle_C01(rec):
    if rec.err is not None:
        return ["repair raised: " + rec.err]
    xl, xu, X = rec.inp["xl"], rec.inp["xu"], rec.out["X"]
    m = (X < xl) | (X > xu) | np.isnan(X)
    if m.any():
        i, j = np.argwhere(m)[0]
        return ["repaired coordinate [%d,%d] = %r outside [%r, %r] (%s)" % (i, j, X[i, j], xl[j], xu[j], rec.cfg["kind"])]
    return []


ORACLES = {"C11": oracle_C11, "C01": oracle_C01, "C19": oracle_C11}


def shrink_candidates(rec):
    c = case_from_record(rec)
    V = c["V"]
    n, d = V.shape
    for i in range(n):
        if n > 1:
            keep = [j for j in range(n) if j != i]
            yield dict(c, V=V[keep], Xb=c["Xb"][keep])
    for j in range(d):
        if d > 1:
            keep = [k for k in range(d) if k != j]
            yield dict(c, V=V[:, keep], Xb=c["Xb"][:, keep], xl=c["xl"][keep], xu=c["xu"][keep])
