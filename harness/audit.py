"""Proof-obligation audit: forbidden constructs and axioms of every property theorem."""
import hashlib
import json
import os
import re
import subprocess
import sys
import time

HERE = os.path.dirname(os.path.abspath(__file__))
VERIF = os.path.dirname(HERE)
LEAN = os.path.join(VERIF, "lean")
ALLOWED = {"propext", "Classical.choice", "Quot.sound"}
FORBIDDEN = r"\bsorry\b|\badmit\b|^\s*axiom\s|native_decide|bv_decide|implemented_by|\bunsafe\s|maxHeartbeats\s+0\b|@\[extern"


def lean_sources():
    out = []
    for root, dirs, files in os.walk(LEAN):
        dirs[:] = [d for d in dirs if d != ".lake"]
        for f in files:
            if f.endswith(".lean") or f in ("lakefile.toml",):
                out.append(os.path.join(root, f))
    return sorted(out)


def sources_hash():
    h = hashlib.sha256()
    for p in lean_sources():
        if os.path.basename(p).startswith("_audit_"):
            continue
        h.update(p[len(LEAN):].encode())
        h.update(open(p, "rb").read())
    h.update(open(os.path.join(HERE, "theorems.json"), "rb").read())
    return h.hexdigest()


def strip_comments(s):
    s = re.sub(r"/-.*?-/", "", s, flags=re.S)
    s = re.sub(r"--.*", "", s)
    return s


def forbidden_hits():
    hits = []
    for p in lean_sources():
        if os.path.basename(p).startswith("_audit_") or not p.endswith(".lean"):
            continue
        src = strip_comments(open(p).read())
        for i, line in enumerate(src.splitlines()):
            if re.search(FORBIDDEN, line):
                hits.append("%s: %s" % (p[len(LEAN) + 1:], line.strip()[:100]))
    return hits


def theorems():
    return json.load(open(os.path.join(HERE, "theorems.json")))


def run_audit(verbose=False):
    """Builds the Lean project and audits every listed theorem. Returns the audit dict."""
    t0 = time.time()
    res = {"hash": sources_hash(), "build_ok": False, "forbidden": [], "theorems": {}, "log": ""}
    p = subprocess.run(["lake", "build"], cwd=LEAN, stdout=subprocess.PIPE, stderr=subprocess.STDOUT)
    res["build_ok"] = p.returncode == 0
    if not res["build_ok"]:
        res["log"] = p.stdout.decode()[-4000:]
        return res
    res["forbidden"] = forbidden_hits()
    th = theorems()
    names = sorted({n for v in th.values() for n in v["theorems"]})
    src = "import PymoodeProofs\n" + "".join("#print axioms %s\n" % n for n in names)
    tmpname = "_audit_tmp_%d.lean" % os.getpid()
    path = os.path.join(LEAN, tmpname)
    open(path, "w").write(src)
    try:
        p = subprocess.run(["lake", "env", "lean", tmpname], cwd=LEAN, stdout=subprocess.PIPE,
                           stderr=subprocess.STDOUT)
        out = p.stdout.decode()
    finally:
        try:
            os.remove(path)
        except OSError:
            pass
    # parse: "'Name' depends on axioms: [a, b]" or "'Name' does not depend on any axioms"
    out1 = re.sub(r"\s+", " ", out)
    for n in names:
        m = re.search(r"'%s' depends on axioms: \[([^\]]*)\]" % re.escape(n), out1)
        if m:
            ax = [a.strip() for a in m.group(1).split(",") if a.strip()]
            res["theorems"][n] = {"axioms": ax, "ok": set(ax) <= ALLOWED}
        elif re.search(r"'%s' does not depend on any axioms" % re.escape(n), out1):
            res["theorems"][n] = {"axioms": [], "ok": True}
        else:
            res["theorems"][n] = {"axioms": None, "ok": False}
    if p.returncode != 0:
        res["log"] = out[-3000:]
    res["wall_s"] = time.time() - t0
    return res


def cached_audit(force=False):
    cache = os.path.join(LEAN, ".lake", "audit.json")
    h = sources_hash()
    exe = os.path.join(LEAN, ".lake", "build", "bin", "driver")
    if not force and os.path.exists(cache) and os.path.exists(exe):
        try:
            a = json.load(open(cache))
            if a.get("hash") == h and a.get("build_ok"):
                a["cached"] = True
                return a
        except Exception:
            pass
    # checks may run side by side: one of them builds and audits, the others wait for it and read its result
    import fcntl
    os.makedirs(os.path.dirname(cache), exist_ok=True)
    with open(os.path.join(LEAN, ".lake", "audit.lock"), "w") as lk:
        fcntl.flock(lk, fcntl.LOCK_EX)
        try:
            if not force and os.path.exists(cache) and os.path.exists(exe):
                try:
                    a = json.load(open(cache))
                    if a.get("hash") == h and a.get("build_ok"):
                        a["cached"] = True
                        return a
                except Exception:
                    pass
            a = run_audit()
            tmp = cache + ".%d.tmp" % os.getpid()
            json.dump(a, open(tmp, "w"), indent=1)
            os.replace(tmp, cache)
        finally:
            fcntl.flock(lk, fcntl.LOCK_UN)
    a["cached"] = False
    return a


def property_obligations(audit, pid):
    th = theorems().get(pid, {"theorems": []})
    names = th["theorems"]
    ok = [n for n in names if audit["theorems"].get(n, {}).get("ok")]
    bad = [n for n in names if n not in ok]
    return names, ok, bad


if __name__ == "__main__":
    a = cached_audit(force="--force" in sys.argv)
    bad = [n for n, v in a["theorems"].items() if not v["ok"]]
    print("build_ok", a["build_ok"], "theorems", len(a["theorems"]), "bad", bad, "forbidden", a["forbidden"])
    if a.get("log"):
        print(a["log"])
    sys.exit(0 if a["build_ok"] and not bad and not a["forbidden"] else 2)
