#!/venv/bin/python
"""./check Cxx [--tier quick|thorough] [--replay path]

1. proof obligations: build + axiom audit of the property theorems of Cxx (cached by source hash);
2. correspondence: run the real code from /repo's working tree with recorded randomness,
   run the Lean model on the same inputs and draws, compare;
3. property oracles on the implementation's outputs; failing-input search when the
   correspondence (or an obligation) breaks;
4. evidence + exit code (0 ok, 1 violation, 2 infrastructure).
"""
import argparse
import hashlib
import importlib
import multiprocessing as mp
import json
import os
import sys
import time
import traceback
import warnings

HERE = os.path.dirname(os.path.abspath(__file__))
VERIF = os.path.dirname(HERE)
sys.path.insert(0, HERE)
os.environ.setdefault("PYTHONHASHSEED", "0")
warnings.filterwarnings("ignore")
os.environ.setdefault("PYTHONWARNINGS", "ignore")

import numpy as np  # noqa: E402
np.seterr(all="ignore")
try:
    from pymoo.config import Config
    Config.warnings["not_compiled"] = False
except Exception:
    pass

import audit  # noqa: E402
import anchors  # noqa: E402
import proto  # noqa: E402
import plan as PLAN  # noqa: E402
from core import record_fromjson  # noqa: E402


def load_known():
    p = os.path.join(VERIF, "known_findings.json")
    if not os.path.exists(p):
        return []
    return json.load(open(p)).get("findings", [])


def comp_module(name):
    spec = PLAN.COMPONENTS[name]
    if ":" in spec:
        m, c = spec.split(":")
        return getattr(importlib.import_module(m), c)
    return importlib.import_module(spec)


def _with_oracle(mod, pid, recs):
    """evaluate the property oracle where the record was produced (in the worker), not in the parent"""
    if pid is None:
        return recs
    oracle = mod.ORACLES.get(pid)
    for r in recs:
        try:
            r.oracle_result = oracle(r) if oracle is not None else []
        except Exception as e:
            r.oracle_result = ["oracle raised %s: %s" % (type(e).__name__, e)]
    return recs


class CaseTimeout(Exception):
    pass


def _alarm(signum, frame):
    raise CaseTimeout()


CASE_TIMEOUT_S = int(os.environ.get("VERIF_CASE_TIMEOUT", "180"))


def _run_chunk(args):
    comp, cases = args[0], args[1]
    pid = args[2] if len(args) > 2 else None
    mod = comp_module(comp)
    out = []
    if hasattr(mod, "run_batch"):
        return _with_oracle(mod, pid, mod.run_batch(cases))
    import signal
    try:
        signal.signal(signal.SIGALRM, _alarm)
        can_alarm = True
    except Exception:
        can_alarm = False
    for c in cases:
        try:
            if can_alarm:
                signal.alarm(CASE_TIMEOUT_S)
            try:
                r = mod.run(c)
            finally:
                if can_alarm:
                    signal.alarm(0)
            if isinstance(r, list):
                out.extend(r)
            else:
                out.append(r)
        except CaseTimeout:
            # the real code did not return: reported as a failure of the call, with the case as the replay
            from core import Record
            r = Record(comp, dict(c) if isinstance(c, dict) else {"case": repr(c)[:500]}, {})
            r.err = "the call did not return within %d s (non-terminating loop?)" % CASE_TIMEOUT_S
            r.cfg["timed_out"] = True
            out.append(r)
        except Exception as e:   # harness bug or a crash of the real code outside run()'s own guard
            from core import Record
            r = Record(comp, {"harness_exception": "%s: %s" % (type(e).__name__, e)}, {})
            r.err = "harness: " + traceback.format_exc()[-1500:]
            out.append(r)
    return _with_oracle(mod, pid, out)


def _child(conn, args):
    try:
        conn.send(("ok", _run_chunk(args)))
    except BaseException:
        try:
            conn.send(("exc", traceback.format_exc()[-1500:]))
        except Exception:
            pass
    finally:
        conn.close()


def _cov_child(conn, args, files):
    """coverage sample in a forked child (a memory-unsafe kernel must never be able to take the check itself down):
    sends back {path: (statements, missing)} for the anchored files"""
    try:
        import coverage
        cov = coverage.Coverage(data_file=None, include=[os.path.join(anchors.REPO, "pymoode", "*")], branch=False)
        cov.start()
        try:
            _run_chunk(args)
        finally:
            cov.stop()
        res = {}
        for path in files:
            try:
                _, stmts, _, missing, _ = cov.analysis2(os.path.join(anchors.REPO, path))
                res[path] = (list(stmts), list(missing))
            except Exception:
                pass
        conn.send(("ok", res))
    except BaseException:
        try:
            conn.send(("exc", traceback.format_exc()[-800:]))
        except Exception:
            pass
    finally:
        conn.close()


def _coverage_sample(args, files, timeout=600):
    ctx = mp.get_context("fork")
    rd, wr = ctx.Pipe(duplex=False)
    pr = ctx.Process(target=_cov_child, args=(wr, args, files))
    pr.start()
    wr.close()
    res = None
    try:
        if rd.poll(timeout):
            msg = rd.recv()
            if msg[0] == "ok":
                res = msg[1]
    except (EOFError, OSError):
        res = None
    pr.join(10)
    if pr.is_alive():
        pr.kill()
        pr.join()
    rd.close()
    return res


def _run_isolated(chunks, workers, deadline_per_case):
    """every chunk in a forked child: a crash (or a hang in native code) of the real code is an outcome of
    the case that caused it, not the end of the check. Returns one ('ok', recs) / ('crash', status) /
    ('hang', None) / ('exc', text) per chunk, in order."""
    import multiprocessing.connection as mpc
    ctx = mp.get_context("fork")
    results = [None] * len(chunks)
    pending = list(range(len(chunks)))
    running = {}
    while pending or running:
        while pending and len(running) < workers:
            i = pending.pop(0)
            rd, wr = ctx.Pipe(duplex=False)
            pr = ctx.Process(target=_child, args=(wr, chunks[i]))
            pr.start()
            wr.close()
            running[i] = (pr, rd, time.time() + 120 + deadline_per_case * max(1, len(chunks[i][1])))
        mpc.wait([c for (_, c, _) in running.values()] + [p.sentinel for (p, _, _) in running.values()], timeout=5.0)
        for i, (pr, rd, dl) in list(running.items()):
            msg = None
            if rd.poll():
                try:
                    msg = rd.recv()
                except (EOFError, OSError):
                    msg = None
                pr.join(30)
                if pr.is_alive():
                    pr.kill()
                    pr.join()
                results[i] = msg if msg is not None else ("crash", pr.exitcode)
            elif not pr.is_alive():
                pr.join()
                results[i] = ("crash", pr.exitcode)
            elif time.time() > dl:
                pr.kill()
                pr.join()
                results[i] = ("hang", None)
            else:
                continue
            rd.close()
            del running[i]
    return results


def run_cases(comp, cases, pool, pid=None):
    """`pool` only says how wide to go (None: quick tier)."""
    if not cases:
        return []
    workers = min(16, os.cpu_count() or 1) if pool is not None else min(8, os.cpu_count() or 1)
    k = max(1, -(-len(cases) // (workers * (4 if pool is not None else 1))))
    chunks = [(comp, cases[i:i + k], pid) for i in range(0, len(cases), k)]
    res = _run_isolated(chunks, workers, CASE_TIMEOUT_S)
    out = []
    mod = comp_module(comp)
    for ch, r in zip(chunks, res):
        if r[0] == "ok":
            out.extend(r[1])
            continue
        if r[0] == "exc":
            from core import Record
            rr = Record(comp, {"harness_exception": "chunk failed"}, {})
            rr.err = "harness: " + str(r[1])
            out.extend(_with_oracle(mod, pid, [rr]))
            continue
        # the child died or hung: find the case(s) responsible by running the chunk's cases one at a time
        singles = [(comp, [c], pid) for c in ch[1]]
        sres = _run_isolated(singles, workers, CASE_TIMEOUT_S) if len(ch[1]) > 1 else [r]
        for c, sr in zip(ch[1], sres):
            if sr[0] == "ok":
                out.extend(sr[1])
                continue
            from core import Record
            rr = Record(comp, dict(c) if isinstance(c, dict) else {"case": repr(c)[:500]}, {})
            if sr[0] == "crash":
                rr.err = "the interpreter crashed during this call (exit status %s%s)" % (
                    sr[1], ", SIGSEGV" if sr[1] == -11 else "")
            elif sr[0] == "hang":
                rr.err = "the call did not return (killed after the time limit; a loop in native code?)"
            else:
                rr.err = "harness: " + str(sr[1])
                rr.cfg["harness_exception"] = "single-case rerun failed"
            rr.cfg["crashed"] = True
            out.extend(_with_oracle(mod, pid, [rr]))
    return out


def correspond(comp, recs):
    """Return list (per record) of mismatch strings between model and implementation."""
    mod = comp_module(comp)
    idx, lines = [], []
    res = [[] for _ in recs]
    for i, r in enumerate(recs):
        if "harness_exception" in r.cfg:
            res[i] = ["harness exception: " + str(r.err)]
            continue
        try:
            lines.append("%d %s" % (i, mod.encode(r)))
            idx.append(i)
        except ValueError as e:
            if str(e) == "skipped":
                res[i] = None      # no per-record model counterpart
                continue
            res[i] = ["record cannot be encoded for the model: %s: %s" % (type(e).__name__, e)]
        except Exception as e:
            res[i] = ["record cannot be encoded for the model: %s: %s" % (type(e).__name__, e)]
    answers = proto.run_driver(lines)
    for i, a in zip(idx, answers):
        tk = proto.Tokens(a.split())
        try:
            seq = tk.tok()
            if seq == "?":
                res[i] = ["model driver could not parse the record: " + tk.rest()]
                continue
            tk.tok()
            res[i] = mod.compare(recs[i], tk)
        except Exception as e:
            res[i] = ["model answer malformed: %s: %s | %s" % (type(e).__name__, e, a[:200])]
        recs[i].model_answer = a[:4000]
    return res


def write_replay(pid, comp, rec, violated, mismatch, note):
    os.makedirs(os.path.join(VERIF, "replays"), exist_ok=True)
    body = {"property": pid, "component": comp, "violated": violated, "correspondence": mismatch,
            "note": note, "record": rec.tojson() if rec is not None else None,
            "model_answer": getattr(rec, "model_answer", None) if rec is not None else None,
            "how_to_replay": "./check %s --replay <this file>" % pid}
    h = hashlib.sha1(json.dumps(body, sort_keys=True, default=str).encode()).hexdigest()[:12]
    path = os.path.join(VERIF, "replays", "%s-%s.json" % (pid, h))
    json.dump(body, open(path, "w"), indent=1, default=str)
    return path


def known_match(known, pid, comp, rec, violated):
    """A violation is a known finding only if *every* violated clause contains a classifier string
    of some entry with status 'known' for this property and component. Returns the matched entries."""
    entries = [k for k in known if k.get("status") == "known" and k.get("property") == pid
               and k.get("component") in (None, comp)]
    if not entries or not violated:
        return None
    hit = []
    for v in violated:
        m = [k for k in entries if any(c in v for c in k.get("classifier", []))]
        if not m:
            return None
        hit.extend(m)
    return hit


def shrink(mod, pid, rec):
    """Greedy shrinking through the component's own `shrink_candidates`, if it has any."""
    if not hasattr(mod, "shrink_candidates"):
        return rec
    oracle = mod.ORACLES[pid]
    cur = rec
    for _ in range(200):
        improved = False
        for cand in mod.shrink_candidates(cur):
            try:
                r2 = mod.run(cand)
                if oracle(r2):
                    cur, improved = r2, True
                    break
            except Exception:
                continue
        if not improved:
            break
    return cur


def do_replay(pid, path):
    body = json.load(open(path))
    if body.get("record") is None:
        print("replay %s names a broken obligation/correspondence without a failing input: %s" % (path, body.get("note")))
        # re-run the quick check instead: it decides whether the break persists
        return main_check(pid, "quick", seed=0, write_evidence=False)
    rec0 = record_fromjson(body["record"])
    mod = comp_module(body["component"])
    case = mod.case_from_record(rec0)
    rec = mod.run(case, replay=rec0.draws)
    if isinstance(rec, list):
        if not rec:
            print("replay produced no record on the current tree")
            return 0
        rec = rec[0]
    violated = mod.ORACLES[pid](rec)
    if violated:
        print("replay reproduces: " + "; ".join(violated[:3]))
        print("VIOLATION property=%s replay=%s" % (pid, path))
        return 1
    print("replay does not reproduce on the current tree (property holds on this input)")
    return 0


def main_check(pid, tier, seed, write_evidence=True):
    t0 = time.time()
    if os.environ.get("VERIF_NO_EVIDENCE"):
        write_evidence = False
    spec = PLAN.PROPERTIES[pid]
    known = load_known()
    out_lines = []
    violations = []     # (comp, rec, violated, mismatch)
    known_hits = {}
    stats = {"components": {}, "tags": {}}
    evaluations = 0
    validated = 0
    sigs = set()
    samples = []

    # 1. proof obligations
    a = audit.cached_audit()
    if not a["build_ok"]:
        print("INFRA: lean build failed\n" + a.get("log", ""))
        return 2
    names, ok, bad = audit.property_obligations(a, pid)
    obligations_broken = list(bad) + (["forbidden construct: " + h for h in a["forbidden"]])
    # 1b. obligations generated from the current source: the formulas of the code are the model's (harness/translate.py)
    gen_names, gen_ok, gen_bad, gen_axioms = [], [], {}, {}
    try:
        import translate
        g = translate.check()
        gen_names, gen_ok, gen_bad = translate.for_property(g, pid)
        gen_axioms = {n: g.get("axioms", {}).get(n) for n in gen_ok}
    except Exception as e:
        gen_bad = {"<translator>": "%s: %s" % (type(e).__name__, e)}
    obligations_broken += ["generated obligation gen_%s: %s" % (n, why) for n, why in sorted(gen_bad.items())]
    leanchecker = None
    if tier == "thorough":
        # independent re-check of the compiled proof modules of this property
        import subprocess
        mods = sorted({"PymoodeProofs." + n.split(".")[1] for n in names if n.startswith("Pymoode.C")})
        t1 = time.time()
        pr = subprocess.run(["lake", "env", "leanchecker"] + mods, cwd=os.path.join(VERIF, "lean"),
                            stdout=subprocess.PIPE, stderr=subprocess.STDOUT)
        leanchecker = {"modules": mods, "returncode": pr.returncode, "wall_s": round(time.time() - t1, 1),
                       "tail": pr.stdout.decode()[-300:]}
        if pr.returncode != 0:
            obligations_broken.append("leanchecker rejects " + " ".join(mods))

    # 2./3. correspondence + oracles
    import multiprocessing as mp
    pool = True if tier == "thorough" or spec.get("parallel") else None      # width flag for run_cases
    broken_corr = []    # (comp, rec, mismatch)
    cov = {}        # path -> (statements, lines not executed by any sample)
    cov_files = sorted({path for comp, _, _ in spec["components"] for path, _ in anchors.ANCHORS.get(comp, []) if path.endswith(".py")})
    try:
        for ci, (comp, nq, nt) in enumerate(spec["components"]):
            mod = comp_module(comp)
            n = nq if tier == "quick" else nt
            dr = anchors.drift(comp)
            if dr:
                # the anchored source differs from what the model was aligned with: search harder there
                stats.setdefault("drift", {})[comp] = dr
                n = n * (5 if tier == "quick" else 2)
            rng = np.random.RandomState((seed * 1000003 + ci * 7919 + 17) % (2**31 - 1))
            cases = []
            if hasattr(mod, "corpus"):
                cases.extend(mod.corpus(pid))
            gargs = dict(spec.get("gen_args", {}).get(comp, {}))
            gargs.update(spec.get("gen_args_" + tier, {}).get(comp, {}))
            cases.extend(mod.gen(rng, n, **gargs))
            # a sequential sample runs in this process under line coverage of the anchored files
            k_cov = min(len(cases), 80)
            recs = run_cases(comp, cases, pool, pid)
            if k_cov and cov_files and not any(r.cfg.get("crashed") or r.cfg.get("timed_out") for r in recs[:k_cov + 5]):
                # (in a child of its own as well: nothing of the real code ever runs in the check's own process)
                got = _coverage_sample((comp, cases[:k_cov], pid), cov_files)
                for path, (stmts, missing) in (got or {}).items():
                    if path in cov:
                        cov[path] = (cov[path][0], sorted(set(cov[path][1]) & set(missing)))
                    else:
                        cov[path] = (stmts, sorted(missing))
            mism = correspond(comp, recs)
            oracle = mod.ORACLES[pid]
            cstat = {"records": len(recs), "mismatches": 0, "oracle_failures": 0, "nontrivial": 0, "impl_errors": 0}
            for r, m in zip(recs, mism):
                evaluations += 1
                for tg in r.tags:
                    stats["tags"][comp + ":" + tg] = stats["tags"].get(comp + ":" + tg, 0) + 1
                if r.err is not None:
                    cstat["impl_errors"] += 1
                if hasattr(r, "oracle_result"):
                    v = r.oracle_result
                else:
                    try:
                        v = oracle(r)
                    except Exception as e:
                        v = ["oracle raised %s: %s" % (type(e).__name__, e)]
                if r.foreign:
                    m = list(m or []) + ["random source outside the recorded primitives: %s" % (r.foreign[:2],)]
                if getattr(r, "corr_breaks", None):
                    # a component without a per-record model counterpart reports that the real objects left the run model
                    m = list(m or []) + list(r.corr_breaks)
                if m is None:
                    m = []
                elif not m:
                    validated += 1
                if m:
                    cstat["mismatches"] += 1
                    broken_corr.append((comp, r, m))
                if v:
                    cstat["oracle_failures"] += 1
                    violations.append((comp, r, v, m))
                nt_ = mod.nontrivial(r)
                if nt_:
                    s = r.sig()
                    if s not in sigs:
                        sigs.add(s)
                        cstat["nontrivial"] += 1
                if len(samples) < 3 and nt_ and not v and not m:
                    js = r.tojson()
                    js["draws"] = js["draws"][:3]
                    samples.append(js)
            stats["components"][comp] = cstat

        # 4. search when a correspondence or an obligation is broken and nothing failed yet
        searched = 0
        if (broken_corr or obligations_broken) and not violations:
            for ci, (comp, nq, nt) in enumerate(spec["components"]):
                if broken_corr and comp not in {c for c, _, _ in broken_corr}:
                    continue
                mod = comp_module(comp)
                oracle = mod.ORACLES[pid]
                rng = np.random.RandomState((seed * 1000003 + ci * 7919 + 99991) % (2**31 - 1))
                budget = max(nq * 10, 2000) if tier == "quick" else nt * 5
                gargs = dict(spec.get("gen_args", {}).get(comp, {}))
                gargs.update(spec.get("gen_args_" + tier, {}).get(comp, {}))
                cases = list(mod.gen(rng, budget, **gargs))
                recs = run_cases(comp, cases, True, pid)
                searched += len(recs)
                for r in recs:
                    v = getattr(r, "oracle_result", None)
                    if v is None:
                        try:
                            v = oracle(r)
                        except Exception as e:
                            v = ["oracle raised %s: %s" % (type(e).__name__, e)]
                    if v:
                        violations.append((comp, r, v, ["found by the failing-input search"]))
                        break
                if violations:
                    break
        stats["searched"] = searched
        if tier == "thorough":
            for comp, _, _ in spec["components"]:
                mod = comp_module(comp)
                if hasattr(mod, "thorough_extras"):
                    try:
                        stats.setdefault("extras", {}).update(mod.thorough_extras(pid))
                    except Exception as e:
                        stats.setdefault("extras", {})[comp] = "extras failed: %s" % e
        if cov:
            stats["line_coverage"] = {path: {"statements": len(stmts), "executed": len(stmts) - len(missing), "missing_lines": list(missing)[:40]}
                                      for path, (stmts, missing) in sorted(cov.items())}
    finally:
        pass

    # 5. outcome
    n_viol = 0
    reported = set()
    for comp, r, v, m in violations:
        ks = known_match(known, pid, comp, r, v)
        if ks is not None:
            for k in {e["id"]: e for e in ks}.values():
                known_hits.setdefault(k["id"], [k, 0])[1] += 1
            continue
        import re as _re
        key = (comp, _re.sub(r"[-+]?[0-9][0-9.e+-]*", "#", v[0])[:50])
        if key in reported or len(reported) >= 3:
            n_viol += 1
            continue
        reported.add(key)
        mod = comp_module(comp)
        try:
            r = shrink(mod, pid, r)
            v = mod.ORACLES[pid](r) or v
        except Exception:
            pass
        path = write_replay(pid, comp, r, v, m, "property predicate false on the implementation's output")
        out_lines.append("property %s fails on component %s: %s" % (pid, comp, "; ".join(v[:2])))
        out_lines.append("VIOLATION property=%s replay=%s" % (pid, path))
        n_viol += 1
    if n_viol == 0 and (broken_corr or obligations_broken):
        # nothing concrete found (or only known findings): the property is no longer shown to hold
        real_broken = [(c, r, m) for c, r, m in broken_corr
                       if not any(c == vc and r is vr for vc, vr, _, _ in violations)]
        if obligations_broken or real_broken:
            if real_broken:
                comp, r, m = real_broken[0]
                note = "correspondence model~implementation broken for component '%s' (%d records): %s" % (
                    comp, len(real_broken), "; ".join(m[:2]))
                path = write_replay(pid, comp, r, [], m, note)
            else:
                note = "proof obligation no longer checks: " + "; ".join(obligations_broken[:5])
                path = write_replay(pid, None, None, [], [], note)
            out_lines.append(note)
            out_lines.append("VIOLATION property=%s replay=%s no-failing-input-found" % (pid, path))
            n_viol += 1
    for kid, (k, cnt) in sorted(known_hits.items()):
        out_lines.append("KNOWN-FINDING: property=%s %s [%s, %d record(s) this run]" % (pid, k["description"], kid, cnt))
    # known findings that are demonstrated by a dedicated witness are printed by the component itself
    wall = time.time() - t0
    for l in out_lines:
        print(l)

    if write_evidence:
        ev = {
            "property_id": pid, "tier": tier, "seed": seed, "level": "proof",
            "coverage": {
                "obligations": len(names) + len(gen_names), "discharged": len(ok) + len(gen_ok),
                "checker_cmd": "cd lean && lake build && lake env lean <#print axioms of every listed theorem> (harness/audit.py; cached by source hash: %s)" % ("cache hit" if a.get("cached") else "re-run"),
                "trusted_base": PLAN.TRUSTED_BASE + spec.get("trusted", []),
                "theorems": dict({n: a["theorems"].get(n, {}).get("axioms") for n in names},
                                 **{"Pymoode.Generated.gen_" + n: gen_axioms.get(n) for n in gen_names}),
                "generated_from_source": {"translator": "harness/translate.py (Python AST of /repo -> Lean terms, proved equal to the model's definitions by rfl / simp on every run)",
                                          "obligations": gen_names, "discharged": gen_ok, "broken": gen_bad},
                "leanchecker": leanchecker,
                "evaluations": evaluations,
                "distinct_nontrivial": len(sigs),
                "rule": spec.get("rule", ""),
                "traces_validated_against_impl": validated,
                "samples": samples[:3] if samples else [{"note": "no clean non-trivial record this run"}],
                "components": stats["components"],
                "branch_tags": stats["tags"],
                "source_drift": stats.get("drift", {}),
                "thorough_extras": stats.get("extras", {}),
                "anchored_line_coverage": stats.get("line_coverage", {}),
                "failing_input_search_records": stats.get("searched", 0),
                "known_findings_seen": {k: c for k, (_, c) in known_hits.items()},
                "explanation": spec.get("explanation", ""),
            },
            "assumptions": spec.get("assumptions", []),
            "wall_s": round(wall, 2),
            "violations": n_viol,
        }
        os.makedirs(os.path.join(VERIF, "evidence"), exist_ok=True)
        json.dump(ev, open(os.path.join(VERIF, "evidence", pid + ".json"), "w"), indent=1, default=str)
    print("%s tier=%s seed=%d records=%d validated=%d nontrivial=%d obligations=%d/%d violations=%d wall=%.1fs" % (
        pid, tier, seed, evaluations, validated, len(sigs), len(ok) + len(gen_ok), len(names) + len(gen_names), n_viol, wall))
    return 1 if n_viol else 0


def main():
    ap = argparse.ArgumentParser()
    ap.add_argument("pid")
    ap.add_argument("--tier", default=os.environ.get("VERIF_TIER", "quick"))
    ap.add_argument("--replay")
    args = ap.parse_args()
    seed = int(os.environ.get("VERIF_SEED", "0"))
    if args.pid not in PLAN.PROPERTIES:
        print("unknown property " + args.pid)
        return 2
    try:
        if args.replay:
            return do_replay(args.pid, args.replay)
        return main_check(args.pid, args.tier, seed)
    except Exception:
        print("INFRA: " + traceback.format_exc())
        return 2


if __name__ == "__main__":
    sys.exit(main())
