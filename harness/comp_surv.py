"""Component `surv`: RankAndCrowding / ConstrRankAndCrowding .do on generated populations, with the
library calls (NDS, crowding function, randomized_argsort, split_by_feasibility) recorded as oracles."""
import numpy as np
import proto
from core import Record, bits_equal
from rng import Recorder

NAME = "surv"
METRICS = ["cd", "pcd", "ce", "mnn", "2nn"]


def fgh_problem(n_obj, n_ieq, n_eq):
    from pymoo.core.problem import Problem

    class FGH(Problem):
        def __init__(self):
            super().__init__(n_var=n_obj + n_ieq + n_eq, n_obj=n_obj, n_ieq_constr=n_ieq, n_eq_constr=n_eq,
                             xl=-1e9, xu=1e9)

        def _evaluate(self, x, out, *a, **k):
            out["F"] = x[:, :n_obj].copy()
            if n_ieq:
                out["G"] = x[:, n_obj:n_obj + n_ieq].copy()
            if n_eq:
                out["H"] = x[:, n_obj + n_ieq:].copy()
    return FGH()


def make_pop(F, G, H):
    from pymoo.core.population import Population
    from pymoo.core.evaluator import Evaluator
    n_obj, n_ieq, n_eq = F.shape[1], G.shape[1], H.shape[1]
    prob = fgh_problem(n_obj, n_ieq, n_eq)
    pop = Population.new("X", np.column_stack([F, G, H]))
    Evaluator().eval(prob, pop)
    return prob, pop


def gen_F(rng, n, m):
    k = rng.randint(6)
    if k == 0:
        F = rng.randint(0, 4, size=(n, m)).astype(float)              # tie-rich grid
    elif k == 1:
        F = rng.random_sample((n, m))
    elif k == 2:                                                        # near a simplex front
        F = rng.random_sample((n, m))
        F = F / F.sum(axis=1, keepdims=True) + (rng.random_sample((n, 1)) < 0.3) * rng.random_sample((n, 1))
    elif k == 3:                                                        # one constant objective
        F = np.round(rng.random_sample((n, m)) * 6) / 2
        F[:, rng.randint(m)] = 1.5
    elif k == 4:
        F = np.round(rng.random_sample((n, m)) * 10) / 10
    else:
        # ulp-level near-ties next to exact ties, with a far-away ideal point
        base = rng.choice([1.0, 2.0, 0.5], size=(n, m))
        F = base + rng.randint(0, 3, size=(n, m)) * (2.0 ** -52) * base
        if n > 1:
            F[rng.randint(n)] = -rng.choice([1e6, 1e9, 3.0]) * (1 + rng.random_sample(m))
    if n > 2 and rng.randint(3) == 0:                                   # duplicates
        for _ in range(rng.randint(1, 3)):
            F[rng.randint(n)] = F[rng.randint(n)]
    return F


def gen_constraints(rng, n):
    n_ieq = int(rng.choice([0, 0, 1, 2]))
    n_eq = int(rng.choice([0, 0, 0, 1]))
    mode = rng.randint(4)       # 0 all feasible, 1 mixed, 2 all infeasible, 3 mixed tie-rich
    G = np.zeros((n, n_ieq))
    H = np.zeros((n, n_eq))
    if n_ieq + n_eq == 0:
        return G, H
    if mode == 0:
        G = -rng.random_sample((n, n_ieq))
    elif mode == 1:
        G = rng.standard_normal((n, n_ieq))
        H = np.where(rng.random_sample((n, n_eq)) < 0.5, 0.0, rng.standard_normal((n, n_eq)))
    elif mode == 2:
        G = rng.random_sample((n, n_ieq)) + 0.1
        H = rng.choice([-1.0, 0.5, 2.0], size=(n, n_eq))
        if n_ieq == 0:
            H = np.where(H == 0, 1.0, H)
    else:
        G = rng.randint(-1, 3, size=(n, n_ieq)).astype(float)
        H = rng.randint(-2, 3, size=(n, n_eq)).astype(float) * (rng.random_sample((n, n_eq)) < 0.7)
    return G, H


def gen(rng, n_cases, classes=("rnc", "constr")):
    for t in range(n_cases):
        cls = classes[t % len(classes)]
        n = int(rng.randint(1, 17))
        m = int(rng.randint(1, 6))
        metric = METRICS[rng.randint(5)]
        if metric == "pcd":
            m = 2       # compiled pcd with >= 3 objectives is run only in isolated workers (C13)
        F = gen_F(rng, n, m)
        G, H = gen_constraints(rng, n)
        k = rng.randint(10)
        n_survive = None if k == 0 else (n + int(rng.randint(1, 4)) if k == 1 else int(rng.randint(1, n + 1)))
        # history of the operator object before the recorded call: none / used on a population of another
        # problem (other constraint layout, other size) / used on the same population with a smaller quota
        warm = ["none", "none", "other-problem", "same-pop", "rival-metric", "lent", "other-nobj"][rng.randint(7)]
        # documented keyword of pymoo's Survival.do: positions instead of the sub-population
        ret_idx = bool(rng.randint(6) == 0)
        # individuals carrying a feasibility tolerance (pymoo's AdaptiveEpsilonConstraintHandling sets one)
        cv_eps = float(rng.choice([0.05, 0.5, 1.0])) if rng.randint(6) == 0 else 0.0
        inf_F = False
        if cls == "rnc" and rng.randint(15) == 0 and n >= 3 and metric != "pcd":
            # (not with pcd: two infinite values are a tied maximum, on which the compiled pcd kernel reads outside its
            # arrays - known finding F2 of C13 - and may take the interpreter down)
            # +inf objective values (penalised / failed evaluations): dominance and ranks are still well defined.
            # The crowding values of such fronts are NaN-ridden in NumPy, so these records are judged by the
            # rank / feasibility oracles only and are not sent to the Lean model.
            if rng.randint(3) == 0 and metric in ("cd", "ce"):
                # failed evaluations: some individuals with all objectives NaN (only the count / identity clauses of C03
                # are judged on these; partly-NaN rows can make pymoo's sorting loop for ever and are not generated)
                F = np.where(rng.random_sample((n, 1)) < 0.3, np.nan, F)
                if np.isnan(F).all():
                    F[0] = 0.5
            else:
                F = np.where(rng.random_sample(F.shape) < 0.2, np.inf, F)
            inf_F = True
        # individuals that went through a survival before (another population, another generation): they still carry the
        # `rank` / `crowding` (and `cv_rank`) attributes written then
        stale = bool(rng.randint(4) == 0)
        # the quota as it comes out of NumPy arithmetic (np.int64 / np.int32 scalar) instead of a Python int
        ns_np = ["", "", "", "int64", "int32"][rng.randint(5)]
        yield {"ns_np": ns_np, "cls": cls, "metric": metric, "n_survive": n_survive, "F": F, "G": G, "H": H, "warm": warm, "inf_F": inf_F, "ret_idx": ret_idx, "cv_eps": cv_eps,
               "stale": stale, "seed": int(rng.randint(2**31 - 1))}


def case_from_record(rec):
    c = dict(rec.cfg)
    c.update(rec.inp)
    return c


class Oracles:
    """Recording proxies; all share one log per kind, in call order."""

    def __init__(self):
        self.splits, self.nds, self.crowd, self.sorts = [], [], [], []

    def wrap_nds(self, inner):
        o = self

        class N:
            def do(self_, F, *a, **k):
                r = inner.do(F, *a, **k)
                o.nds.append((int(np.asarray(F).shape[0]), k.get("n_stop_if_ranked"), [np.array(f, dtype=int).tolist() for f in r],
                              np.array(F, dtype=float).copy()))
                return r

            def __getattr__(self_, name):
                return getattr(inner, name)
        return N()

    def wrap_crowd(self, inner):
        o = self

        class C:
            def do(self_, F, n_remove=0, **k):
                r = inner.do(F, n_remove=n_remove, **k)
                o.crowd.append((int(n_remove), np.array(r, dtype=float).copy()))
                return r

            def __getattr__(self_, name):
                return getattr(inner, name)
        return C()

    def wrap_sort(self, inner):
        def w(A, method="numpy", order="ascending"):
            r = inner(A, method=method, order=order)
            self.sorts.append((order == "descending", np.array(A, dtype=float).copy(), np.array(r, dtype=int).copy()))
            return r
        return w

    def wrap_split(self, inner):
        def w(pop, *a, **k):
            r = inner(pop, *a, **k)
            self.splits.append((np.array(r[0], dtype=int).tolist(), np.array(r[1], dtype=int).tolist()))
            return r
        return w


def run(case, replay=None):
    import pymoo.core.survival as pcs
    from pymoode.survival.rank_and_crowding import rnc
    rec = Record(NAME, dict({k: case[k] for k in ("cls", "metric", "n_survive", "seed")}, warm=case.get("warm", "none"), inf_F=bool(case.get("inf_F")), ret_idx=bool(case.get("ret_idx")), ns_np=case.get("ns_np") or "",
                            cv_eps=float(case.get("cv_eps") or 0.0)),
                 {k: np.array(case[k], dtype=float) for k in ("F", "G", "H")})
    F, G, H = rec.inp["F"], rec.inp["G"], rec.inp["H"]
    n = len(F)
    if case.get("ns_np") and case["n_survive"] is not None:
        case = dict(case, n_survive=getattr(np, case["ns_np"])(case["n_survive"]))
        rec.tags.add("numpy-integer-quota")
    prob, pop = make_pop(F, G, H)
    if case.get("cv_eps"):
        for ind in pop:
            ind.config = dict(ind.config)
            ind.config["cv_eps"] = float(case["cv_eps"])
        rec.tags.add("cv_eps>0")
    if case.get("stale"):
        rs_ = np.random.RandomState(case["seed"] % 7919)
        pop.set("rank", rs_.randint(0, 4, size=n))
        pop.set("crowding", rs_.random_sample(n))
        pop.set("cv_rank", rs_.randint(0, 3, size=n))
        rec.tags.add("stale-attributes")
    rec.cfg["stale"] = bool(case.get("stale"))
    snap = {k: np.array(pop.get(k), copy=True) for k in ("X", "F", "G", "H")}
    rec.inp["CV"] = np.array(pop.get("CV"), dtype=float).reshape(n)
    rec.inp["feas"] = np.array(pop.get("feasible"), dtype=bool).reshape(n)
    orc = Oracles()
    saved = (pcs.split_by_feasibility, rnc.split_by_feasibility, rnc.randomized_argsort)
    np.random.seed(case["seed"])
    with Recorder("replay" if replay is not None else "record", replay) as R:
        try:
            if case["cls"] == "rnc":
                s = rnc.RankAndCrowding(crowding_func=case["metric"])
                s.nds = orc.wrap_nds(s.nds)
                s.crowding_func = orc.wrap_crowd(s.crowding_func)
            else:
                s = rnc.ConstrRankAndCrowding(crowding_func=case["metric"])
                s.nds = orc.wrap_nds(s.nds)
                s.ranking.nds = orc.wrap_nds(s.ranking.nds)
                s.ranking.crowding_func = orc.wrap_crowd(s.ranking.crowding_func)
            warm = case.get("warm", "none")
            if warm != "none":
                st = np.random.get_state()
                real = (s.nds, getattr(s, "crowding_func", None))
                if warm == "rival-metric":
                    # another survival object with another crowding metric has just truncated the same candidates
                    other_metric = METRICS[(METRICS.index(case["metric"]) + 1 + (case["seed"] % 3)) % 5]
                    if other_metric == "pcd" and (F.shape[1] > 2 or case.get("inf_F")):
                        # (compiled pcd: >= 3 objectives only in isolated workers; non-finite objectives are tied maxima /
                        # unordered values on which it reads outside its arrays - known finding F2)
                        other_metric = "cd"
                    prob2, pop2 = make_pop(F, G, H)
                    s2 = rnc.RankAndCrowding(crowding_func=other_metric) if case["cls"] == "rnc" \
                        else rnc.ConstrRankAndCrowding(crowding_func=other_metric)
                    if case["n_survive"] is None:
                        s2.do(prob2, pop2)
                    else:
                        s2.do(prob2, pop2, n_survive=case["n_survive"])
                elif warm == "lent":
                    # the operator object was handed to the constructor of another survival (the deprecated `ranking=`
                    # keyword of ConstrRankAndCrowding, still accepted), which was then used on its own population
                    import warnings as _w
                    with _w.catch_warnings():
                        _w.simplefilter("ignore")
                        if case["cls"] == "rnc":
                            s3 = rnc.ConstrRankAndCrowding(crowding_func=case["metric"], ranking=s)
                        else:
                            s3 = rnc.ConstrRankAndCrowding(crowding_func=case["metric"], ranking=s.ranking)
                    prob2, pop2 = make_pop(F, G, H)
                    s3.do(prob2, pop2, n_survive=max(1, n // 2))
                elif warm == "other-nobj":
                    # the same survival object served a problem with another number of objectives before (two objectives
                    # first, then many - or the other way round)
                    r2 = np.random.RandomState(case["seed"] % 9967)
                    m2 = 2 if F.shape[1] != 2 else (2 if case["metric"] == "pcd" else 3)
                    F2 = r2.random_sample((n + 4, m2))
                    F2 = F2 / F2.sum(axis=1, keepdims=True)
                    prob2, pop2 = make_pop(F2, np.zeros((n + 4, G.shape[1])), np.zeros((n + 4, H.shape[1])))
                    s.do(prob2, pop2, n_survive=max(1, (n + 4) // 2))
                elif warm == "other-problem":
                    r2 = np.random.RandomState(case["seed"] % 9973)
                    n2 = n + 3
                    F2 = r2.random_sample((n2, F.shape[1]))
                    # the other kind of constraints: swap the numbers of inequality / equality columns (+1)
                    G2 = r2.standard_normal((n2, H.shape[1] + 1))
                    H2 = r2.standard_normal((n2, G.shape[1])) * (r2.random_sample((n2, G.shape[1])) < 0.5)
                    prob2, pop2 = make_pop(F2, G2, H2)
                    s.do(prob2, pop2, n_survive=max(1, n2 // 2))
                else:
                    prob2, pop2 = make_pop(F, G, H)
                    s.do(prob2, pop2, n_survive=1)
                    k2 = case["n_survive"]
                    if k2 is not None and k2 > 2:
                        s.do(prob2, pop2, n_survive=k2 // 2)
                    # the recorded call below is made on the same objective values with a larger quota
                np.random.set_state(st)
                del orc.splits[:], orc.nds[:], orc.crowd[:], orc.sorts[:]
                rec.tags.add("warm:" + warm)
            pcs.split_by_feasibility = orc.wrap_split(saved[0])
            rnc.split_by_feasibility = orc.wrap_split(saved[1])
            rnc.randomized_argsort = orc.wrap_sort(saved[2])
            if case.get("ret_idx"):
                rec.tags.add("return_indices")
                if case["n_survive"] is None:
                    out = s.do(prob, pop, return_indices=True)
                else:
                    out = s.do(prob, pop, n_survive=case["n_survive"], return_indices=True)
                rec.out["surv"] = np.array([int(i) for i in out], dtype=int)
            else:
                if case["n_survive"] is None:
                    out = s.do(prob, pop)
                else:
                    out = s.do(prob, pop, n_survive=case["n_survive"])
                pos = {id(ind): i for i, ind in enumerate(pop)}
                rec.out["surv"] = np.array([pos.get(id(ind), -1) for ind in out], dtype=int)
            rk = pop.get("rank")
            rec.out["rank"] = np.array([-1 if r is None else int(r) for r in rk], dtype=int)
        except Exception as e:
            import traceback
            rec.err = "%s: %s" % (type(e).__name__, e)
        finally:
            pcs.split_by_feasibility, rnc.split_by_feasibility, rnc.randomized_argsort = saved
    rec.draws = R.log if replay is None else list(replay)
    rec.foreign = list(R.foreign)
    rec.out["oracles"] = {"splits": orc.splits, "nds": orc.nds,
                          "crowd": [(a, b) for a, b in orc.crowd], "sorts": orc.sorts}
    for k in ("X", "F", "G", "H"):
        a = pop.get(k)
        if a.shape != snap[k].shape or not bits_equal(np.asarray(a, dtype=float), np.asarray(snap[k], dtype=float)):
            rec.frames.append("population %s modified by survival" % k)
    feas = rec.inp["feas"]
    rec.tags.add("cls:" + case["cls"])
    rec.tags.add("metric:" + case["metric"])
    rec.tags.add("feas:" + ("all" if feas.all() else "none" if not feas.any() else "mixed"))
    rec.tags.add("constr:%d" % int(prob.has_constraints()))
    if orc.sorts:
        rec.tags.add("split-front")
    if len(orc.nds) and len(orc.nds[0][2]) > 1:
        rec.tags.add("many-fronts")
    rec.cfg["constr"] = bool(prob.has_constraints())
    from pymoode.survival.rank_and_crowding import metrics as _m
    rec.cfg["compiled"] = bool(_m.IS_COMPILED)
    return rec


def encode(rec):
    if rec.cfg.get("inf_F"):
        raise ValueError("skipped")
    F, G, H = rec.inp["F"], rec.inp["G"], rec.inp["H"]
    n = len(F)
    o = rec.out["oracles"]
    ns = rec.cfg["n_survive"]
    t = [NAME, rec.cfg.get("metric") or "unknown", "1" if rec.cfg.get("compiled", True) else "0",
         rec.cfg["cls"], str(n), str(n if ns is None else ns), "1" if rec.cfg["constr"] else "0"]
    t += proto.fmat(F) + proto.fmat(G.reshape(n, -1)) + proto.fmat(H.reshape(n, -1)) + proto.flist(rec.inp["CV"])
    t += proto.ilist(rec.inp["feas"].astype(int))
    t += ["SPLITS", str(len(o["splits"]))]
    for a, b in o["splits"]:
        t += proto.ilist(a) + proto.ilist(b)
    t += ["NDS", str(len(o["nds"]))]
    for m, nstop, fronts, Fn in o["nds"]:
        t += [str(m), str(10**8 if nstop is None else int(nstop)), str(len(fronts))]
        for f in fronts:
            t += proto.ilist(f)
        t += proto.fmat(Fn.reshape(m, -1))
    t += ["CROWD", str(len(o["crowd"]))]
    for nr, vals in o["crowd"]:
        t += [str(nr)] + proto.flist(vals)
    t += ["SORTS", str(len(o["sorts"]))]
    for desc, A, I in o["sorts"]:
        t += ["1" if desc else "0"] + proto.flist(A) + proto.ilist(I)
    return " ".join(t)


def compare(rec, ans):
    status = ans.tok()
    if status == "err":
        msg = ans.rest()
        return [] if rec.err is not None else ["model rejects the record: " + msg]
    if rec.err is not None:
        return ["implementation raised %s" % rec.err]
    surv = ans.ilist()
    ranks = ans.ilist()
    out = []
    if list(rec.out["surv"]) != surv:
        out.append("survivors differ: impl %s model %s" % (list(rec.out["surv"]), surv))
    # rank attribute: compared on the individuals handed to _do (the model writes -1 elsewhere)
    got = list(rec.out["rank"])
    if rec.cfg.get("stale"):
        # individuals the operator does not rank keep whatever they carried before the call
        got = [g if m >= 0 else -1 for g, m in zip(got, ranks)]
    if got != ranks:
        out.append("rank attributes differ: impl %s model %s" % (got, ranks))
    return out


def nontrivial(rec):
    return rec.err is None and ("split-front" in rec.tags or "feas:mixed" in rec.tags)


# ---- independent oracles on the implementation's output ------------------------------------------

def dominates(a, b):
    return bool((a < b).any() and not (b < a).any())


def true_fronts(F, idx):
    """front index of every member of idx (list of positions), by peeling"""
    rem = list(idx)
    rank = {}
    k = 0
    while rem:
        cur = [i for i in rem if not any(dominates(F[j], F[i]) for j in rem if j != i)]
        for i in cur:
            rank[i] = k
        rem = [i for i in rem if i not in rank]
        k += 1
    return rank


def oracle_C03(rec):
    if rec.err is not None:
        return ["survival raised: " + rec.err]
    n = len(rec.inp["F"])
    ns = rec.cfg["n_survive"]
    exp = n if ns is None else min(ns, n)
    s = list(rec.out["surv"])
    bad = []
    if len(s) != exp:
        bad.append("returned %d individuals, expected min(n_survive, n) = %d" % (len(s), exp))
    if -1 in s:
        bad.append("a survivor is not an object of the input population")
    if len(set(s)) != len(s):
        bad.append("duplicate entries among survivors: %s" % s)
    return bad + list(rec.frames)


def oracle_C04(rec):
    if rec.cfg.get("crashed") or "F" not in rec.inp:
        return ["survival did not return: " + str(rec.err)]
    if rec.cfg.get("inf_F") and np.isnan(rec.inp["F"]).any():
        return []       # dominance among NaN objectives is not defined: C03's clauses only
    if rec.err is not None:
        return ["survival raised: " + rec.err]
    if rec.cfg["cls"] != "rnc":
        return []
    F, CV, feas = rec.inp["F"], rec.inp["CV"], rec.inp["feas"]
    n = len(F)
    s = [i for i in rec.out["surv"] if i >= 0]
    S = set(s)
    bad = []
    constr = rec.cfg["constr"]
    fset = [i for i in range(n) if feas[i]] if constr else list(range(n))
    tr = true_fronts(F, fset)
    kept = [i for i in fset if i in S]
    drop = [i for i in fset if i not in S]
    for i in kept:
        for j in drop:
            if tr[j] < tr[i]:
                bad.append("feasible %d (true rank %d) discarded while feasible %d (true rank %d) kept" % (j, tr[j], i, tr[i]))
                break
            if dominates(F[j], F[i]):
                bad.append("discarded feasible %d dominates survivor %d" % (j, i))
                break
        if bad:
            break
    f0 = [i for i in fset if tr[i] == 0]
    ns = rec.cfg["n_survive"]
    quota = n if ns is None else min(ns, n)
    if len(f0) <= quota and any(i not in S for i in f0):
        bad.append("a non-dominated feasible individual was dropped although the %d non-dominated ones fit in %d" % (len(f0), quota))
    if constr:
        inf_kept = [i for i in S if not feas[i]]
        if inf_kept and drop:
            bad.append("infeasible %d kept while feasible %d discarded" % (inf_kept[0], drop[0]))
        inf_drop = [i for i in range(n) if not feas[i] and i not in S]
        for a in inf_kept:
            for b in inf_drop:
                if CV[a] > CV[b]:
                    bad.append("infeasible %d (CV %r) kept while infeasible %d (CV %r) dropped" % (a, CV[a], b, CV[b]))
                    break
            if bad:
                break
        # order: feasible before infeasible, infeasible ascending CV
        seq = [feas[i] for i in s]
        if any((not seq[k]) and seq[k + 1] for k in range(len(seq) - 1)):
            bad.append("an infeasible survivor precedes a feasible one")
    for i in kept:
        if rec.out["rank"][i] != tr[i]:
            bad.append("rank attribute of feasible survivor %d is %d, true front index %d" % (i, rec.out["rank"][i], tr[i]))
            break
    return bad


def oracle_C16(rec):
    if rec.err is not None:
        return ["survival raised: " + rec.err]
    if rec.cfg["cls"] != "constr":
        return []
    F, G, H, CV, feas = rec.inp["F"], rec.inp["G"], rec.inp["H"], rec.inp["CV"], rec.inp["feas"]
    n = len(F)
    s = [int(i) for i in rec.out["surv"]]
    S = set(s)
    ns = rec.cfg["n_survive"]
    quota = n if ns is None else min(ns, n)
    bad = []
    # same call on RankAndCrowding with the same seed
    ref = run({"cls": "rnc", "metric": rec.cfg["metric"], "n_survive": rec.cfg["n_survive"], "F": F, "G": G, "H": H,
               "seed": rec.cfg["seed"], "cv_eps": rec.cfg.get("cv_eps", 0.0)})
    rs = [int(i) for i in ref.out.get("surv", [])]
    if not rec.cfg["constr"]:
        if s != rs:
            bad.append("unconstrained problem: survivors %s differ from RankAndCrowding's %s (same seed)" % (s, rs))
        return bad
    fs = [i for i in s if feas[i]]
    if [i for i in rs if feas[i]] != fs:
        bad.append("feasible survivors %s differ from RankAndCrowding's %s (same seed)" % (fs, [i for i in rs if feas[i]]))
    seq = [feas[i] for i in s]
    if any((not seq[k]) and seq[k + 1] for k in range(len(seq) - 1)):
        bad.append("an infeasible survivor precedes a feasible one")
    if any(not feas[i] for i in s) and any(feas[i] and i not in S for i in range(n)):
        bad.append("an infeasible individual survives while a feasible one is discarded")
    if len(s) != quota:
        bad.append("returned %d individuals, expected %d" % (len(s), quota))
    inf = [i for i in range(n) if not feas[i]]
    if inf:
        C = np.column_stack([np.maximum(G, 0), np.abs(H)])
        tr = true_fronts(C, inf)
        ik = [i for i in inf if i in S]
        idr = [i for i in inf if i not in S]
        for a in ik:
            for b in idr:
                if tr[b] < tr[a]:
                    bad.append("infeasible %d (violation front %d) dropped while %d (front %d) kept" % (b, tr[b], a, tr[a]))
                    break
                if tr[b] == tr[a] and CV[b] < CV[a]:
                    bad.append("last violation front cut against CV: %d (CV %r) dropped, %d (CV %r) kept" % (b, CV[b], a, CV[a]))
                    break
            if bad:
                break
    return bad + [f for f in rec.frames]


def oracle_C15(rec):
    import comp_trunc
    if rec.cfg.get("inf_F"):
        return []       # crowding of fronts with infinite objective values is outside C15
    return comp_trunc.oracle_C15(rec)


ORACLES = {"C03": oracle_C03, "C04": oracle_C04, "C16": oracle_C16, "C15": oracle_C15}


def shrink_candidates(rec):
    """smaller cases to try when minimising a failing record: one individual less, a smaller quota"""
    c = case_from_record(rec)
    n = len(c["F"])
    ns = c["n_survive"]
    for i in range(n):
        if n <= 1:
            break
        keep = [j for j in range(n) if j != i]
        yield dict(c, F=c["F"][keep], G=c["G"][keep], H=c["H"][keep],
                   n_survive=None if ns is None else max(1, min(ns, n - 1)))
    if ns is not None and ns > 1:
        yield dict(c, n_survive=ns - 1)
