"""Shared machinery: case/record containers, problem factories, generators' helpers."""
import json
import hashlib
import numpy as np

from rng import Recorder, Event


class Record:
    """One execution of the real code: inputs, recorded draws, outputs, frame facts."""

    def __init__(self, comp, cfg, inp):
        self.comp = comp          # component name (protocol vocabulary)
        self.cfg = cfg            # dict of plain python values (strings/ints/floats/lists)
        self.inp = inp            # dict name -> numpy array / plain
        self.draws = []           # list of rng.Event
        self.out = {}             # dict name -> numpy array / plain
        self.err = None           # exception text if the real code raised
        self.frames = []          # violated frame conditions (mutated inputs, ...)
        self.foreign = []         # foreign random sources seen
        self.tags = set()         # branches exercised (for distribution statistics)

    def tojson(self):
        def conv(v):
            if isinstance(v, np.ndarray):
                if v.dtype == object:
                    return {"__obj__": [None if x is None else (float(x) if isinstance(x, float) else int(x)) for x in v.ravel()],
                            "shape": list(v.shape)}
                if v.dtype.kind == "f":
                    return {"__f__": [repr(float(x)) for x in v.ravel()], "shape": list(v.shape)}
                if v.dtype.kind == "b":
                    return {"__b__": [int(x) for x in v.ravel()], "shape": list(v.shape)}
                return {"__i__": [int(x) for x in v.ravel()], "shape": list(v.shape)}
            if isinstance(v, (np.floating,)):
                return {"__f__": [repr(float(v))], "shape": []}
            if isinstance(v, (np.integer,)):
                return int(v)
            if isinstance(v, dict):
                return {k: conv(x) for k, x in v.items()}
            if isinstance(v, (list, tuple)):
                return [conv(x) for x in v]
            if isinstance(v, float):
                return {"__f__": [repr(v)], "shape": []}
            return v
        return {"comp": self.comp, "cfg": conv(self.cfg), "inp": conv(self.inp),
                "draws": [e.tojson() for e in self.draws], "out": conv(self.out),
                "err": self.err, "frames": self.frames, "foreign": [list(f) for f in self.foreign],
                "tags": sorted(self.tags)}

    def sig(self):
        j = self.tojson()
        j.pop("draws", None)
        return hashlib.sha1(json.dumps([j["comp"], j["cfg"], j["inp"], j["out"]], sort_keys=True).encode()).hexdigest()


def unconv(v):
    if isinstance(v, dict):
        if "__f__" in v:
            a = np.array([float(x) for x in v["__f__"]], dtype=float)
            return a.reshape(v["shape"]) if v["shape"] else float(a[0])
        if "__i__" in v:
            return np.array(v["__i__"], dtype=int).reshape(v["shape"])
        if "__b__" in v:
            return np.array(v["__b__"], dtype=bool).reshape(v["shape"])
        if "__obj__" in v:
            a = np.empty(len(v["__obj__"]), dtype=object)
            for i, x in enumerate(v["__obj__"]):
                a[i] = x
            return a.reshape(v["shape"])
        return {k: unconv(x) for k, x in v.items()}
    if isinstance(v, list):
        return [unconv(x) for x in v]
    return v


def record_fromjson(j):
    r = Record(j["comp"], unconv(j["cfg"]), unconv(j["inp"]))
    r.draws = [Event.fromjson(e) for e in j["draws"]]
    r.out = unconv(j["out"])
    r.err = j.get("err")
    r.frames = j.get("frames", [])
    r.tags = set(j.get("tags", []))
    return r


def bits_equal(a, b):
    a = np.asarray(a, dtype=float)
    b = np.asarray(b, dtype=float)
    if a.shape != b.shape:
        return False
    return bool(np.array_equal(a.view(np.uint64), b.view(np.uint64)))


def first_bit_diff(a, b):
    a = np.asarray(a, dtype=float)
    b = np.asarray(b, dtype=float)
    if a.shape != b.shape:
        return "shape %s vs %s" % (a.shape, b.shape)
    d = np.argwhere(a.view(np.uint64) != b.view(np.uint64))
    if len(d) == 0:
        return None
    i = tuple(d[0])
    return "at %s: impl %r model %r (%d entries differ)" % (list(i), float(a[i]), float(b[i]), len(d))


# ---- generators' helpers -----------------------------------------------------------------

def gen_bounds(rng, d):
    """Bound vectors mixing asymmetric, tiny, zero-width and wide ranges."""
    xl = np.empty(d)
    xu = np.empty(d)
    for j in range(d):
        k = rng.randint(9)
        if k == 8:      # denormal-scale width around zero
            w = float(rng.choice([1e-18, 1e-20, 3e-17, 1e-300]))
            xl[j] = -w if rng.randint(2) else 0.0
            xu[j] = w
        elif k == 0:      # zero width
            xl[j] = xu[j] = rng.choice([0.0, 1.0, -3.5, rng.uniform(-10, 10)])
        elif k == 1:    # tiny
            xl[j] = rng.uniform(-5, 5)
            xu[j] = xl[j] + rng.choice([1e-9, 1e-12, 5e-8])
        elif k == 2:    # wide
            xl[j] = -rng.uniform(1e5, 1e6)
            xu[j] = rng.uniform(1e5, 1e6)
        elif k == 3:    # integer-valued
            xl[j] = float(rng.randint(-5, 3))
            xu[j] = xl[j] + float(rng.randint(1, 6))
        elif k == 4:    # unit
            xl[j], xu[j] = 0.0, 1.0
        else:           # asymmetric
            xl[j] = rng.uniform(-100, 50)
            xu[j] = xl[j] + rng.uniform(0.01, 80)
    return xl, xu


def gen_inbounds(rng, n, xl, xu, p_on_bound=0.2):
    d = len(xl)
    X = xl + rng.random_sample((n, d)) * (xu - xl)
    X = np.minimum(np.maximum(X, xl), xu)
    on = rng.random_sample((n, d)) < p_on_bound
    which = rng.random_sample((n, d)) < 0.5
    X = np.where(on & which, xl, X)
    X = np.where(on & ~which, xu, X)
    return X
