"""Test problems: deterministic, tie-rich when asked, with optional constraints and bounds."""
import numpy as np
from pymoo.core.problem import Problem


class GenProblem(Problem):
    """f_k(x) = sum_j a_kj (x_j - c_kj)^2 (+ rounding to `grid` to create exact ties),
    g_k(x) = b_k . x - t_k (inequality <= 0), h_k(x) = e_k . x - s_k (equality)."""

    def __init__(self, n_var, n_obj=1, n_ieq=0, n_eq=0, xl=None, xu=None, seed=0, grid=None, shift=0.0, fscale=None,
                 special=None, declared=None, vtype=None):
        # `declared`: the box the problem announces (a narrower one than the box the functions were built from: the same
        # functions on a smaller search space, for warm starts from an earlier, wider run)
        dxl, dxu = (xl, xu) if declared is None else declared
        kw_ = {} if vtype is None else {"vtype": vtype}       # (variables declared as integers: pymoode itself never rounds)
        super().__init__(n_var=n_var, n_obj=n_obj, n_ieq_constr=n_ieq, n_eq_constr=n_eq,
                         xl=None if dxl is None else np.array(dxl, dtype=float),
                         xu=None if dxu is None else np.array(dxu, dtype=float), **kw_)
        # `special`: 'posinf' / 'neginf' / 'nan' / 'mixinf' - one objective is not a finite number on part of the box
        # (a barrier, an undefined region, a failed simulation)
        self.special = special
        r = np.random.RandomState(seed)
        self.A = r.uniform(0.2, 2.0, size=(n_obj, n_var))
        lo = np.zeros(n_var) if xl is None else np.array(xl, dtype=float)
        hi = np.ones(n_var) if xu is None else np.array(xu, dtype=float)
        self.C = lo + r.uniform(0, 1, size=(n_obj, n_var)) * (hi - lo)
        self.B = r.uniform(-1, 1, size=(max(n_ieq, 1), n_var))
        mid = (lo + hi) / 2
        self.T = self.B @ mid + shift * np.abs(self.B).sum(axis=1) * 0.25 * np.maximum(hi - lo, 1e-9).mean()
        self.E = r.uniform(-1, 1, size=(max(n_eq, 1), n_var))
        self.S = self.E @ mid
        self.grid = grid
        self.lo0 = float(lo[0])
        self.scale = np.maximum(hi - lo, 1e-9)
        # objectives on very different scales (a cost of order 1e16 next to an O(1) term): scale applied after the rounding
        self.fscale = None if fscale is None else np.array(fscale, dtype=float)[:n_obj]
        self.gp = dict(n_var=n_var, n_obj=n_obj, n_ieq=n_ieq, n_eq=n_eq, xl=xl, xu=xu, seed=seed, grid=grid, shift=shift, fscale=fscale,
                       special=special, declared=declared)

    def _evaluate(self, x, out, *args, **kwargs):
        z = (x[:, None, :] - self.C[None, :, :]) / self.scale
        F = (self.A[None, :, :] * z * z).sum(axis=2)
        if self.grid:
            F = np.round(F / self.grid) * self.grid
        if self.fscale is not None:
            F = F * self.fscale
        if self.special:
            F = np.array(F, dtype=float)
            zone = ((x[:, 0] - self.lo0) / self.scale[0]) > 0.55
            k = 0 if self.A[0, 0] < 1.1 else self.n_obj - 1
            if self.special == "posinf":
                F[zone, k] = np.inf
            elif self.special == "neginf":
                F[zone, k] = -np.inf
            elif self.special == "nan":
                F[zone, k] = np.nan
            elif self.special == "mixinf":
                up = ((x[:, 0] - self.lo0) / self.scale[0]) > 0.8
                F[zone, k] = np.inf
                F[up, k] = -np.inf
        out["F"] = F
        if self.n_ieq_constr > 0:
            G = (x @ self.B[:self.n_ieq_constr].T - self.T[:self.n_ieq_constr]) / self.scale.mean()
            if self.grid:
                G = np.round(G / self.grid) * self.grid
            out["G"] = G
        if self.n_eq_constr > 0:
            H = (x @ self.E[:self.n_eq_constr].T - self.S[:self.n_eq_constr]) / self.scale.mean()
            if self.grid:
                H = np.round(H / self.grid) * self.grid
            out["H"] = H


class Unbounded(Problem):
    def __init__(self, n_var):
        super().__init__(n_var=n_var, n_obj=1, xl=None, xu=None)

    def _evaluate(self, x, out, *args, **kwargs):
        out["F"] = (x * x).sum(axis=1, keepdims=True)


def make_problem(gp):
    if gp.get("unbounded"):
        return Unbounded(gp["n_var"])
    return GenProblem(**{k: v for k, v in gp.items() if k != "unbounded"})
