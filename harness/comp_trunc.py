"""Component `trunc`: RankAndCrowding truncating one large non-dominated front (C15), compiled engine
in-process (pcd with >= 3 objectives only where the kernel model predicts no out-of-bounds index) and
pure-Python engine in an isolated worker; also the 'same surviving set' clause of C14."""
import numpy as np
import proto
import comp_surv
import comp_crowd
import isolate
from core import Record

NAME = "surv"       # records are survival records: the Lean driver component is `surv`
METRICS = comp_surv.METRICS


def gen(rng, n_cases, max_n=36):
    for t in range(n_cases):
        metric = METRICS[t % 5]
        M = int(rng.choice([2, 2, 3, 3, 4]))
        N = int(rng.randint(2 * M + 2, max_n + 1))
        big = t % 125 == 60 and t < 125 * (4 + n_cases // 2000)
        if big:
            # a few fronts with more than 1000 members (bi-objective: the compiled pcd kernel is defined there)
            M = 2
            N = int(1001 + rng.randint(0, 300))
            # (the nearest-neighbour metrics on such fronts cost the Lean model minutes: thorough tier only)
            metric = METRICS[(t // 125) % 5] if n_cases > 2000 else ["pcd", "ce", "cd"][(t // 125) % 3]
        F = comp_crowd.gen_front(rng, N, M) if not big else comp_crowd.gen_front_kind(rng, N, M, int(rng.choice([0, 1])))
        n = len(F)
        if n < 3:
            continue
        k = rng.randint(3)
        lo = min(2 * M, n - 1)
        n_survive = int(rng.randint(lo, n)) if k else int(rng.randint(1, n))
        if big:
            n_survive = n - int(rng.randint(1, 4))
        yield {"cls": "rnc", "metric": metric, "n_survive": n_survive, "F": F, "G": np.zeros((n, 0)), "H": np.zeros((n, 0)),
               "seed": int(rng.randint(2**31 - 1)), "both_engines": bool(rng.randint(2) == 0) and not big,
               # another survival with another metric has just truncated the same front
               "warm": ["rival-metric", "other-nobj", "none", "none", "none", "none"][rng.randint(6)]}


def case_from_record(rec):
    c = comp_surv.case_from_record(rec)
    c["both_engines"] = False
    return c


def corpus(pid):
    # F7 (fixed by 0b0dc59 + 0962223): 8x3 integer front with tied extremes, truncated to 2*M = 6 members by the
    # pure-Python pcd under many seeds (the old code lost a unique extreme with probability 2/7 per seed)
    n = len(comp_crowd.W_F7)
    return [{"cls": "rnc", "metric": "pcd", "n_survive": 6, "F": comp_crowd.W_F7, "G": np.zeros((n, 0)), "H": np.zeros((n, 0)),
             "seed": 1000 + k, "both_engines": True} for k in range(24)]


def run_batch(cases):
    # phase 1: which compiled pcd calls are defined?
    probe = []
    for c in cases:
        n = len(c["F"])
        probe.append({"label": c["metric"], "n_remove": n - min(c["n_survive"], n), "F": c["F"]})
    preds = comp_crowd.model_predict(probe)
    recs = []
    fb_jobs, fb_idx = [], []
    for c, p in zip(cases, preds):
        unsafe = []
        if "err" not in p:
            unsafe = [s for s in p["c_wrap"][1] if s.startswith("pruning_cd.pyx")]
        if unsafe:
            r = Record(NAME, {k: c[k] for k in ("cls", "metric", "n_survive", "seed")}, {k: np.array(c[k], dtype=float) for k in ("F", "G", "H")})
            r.cfg["skipped"] = "compiled pcd undefined on this front (%s)" % unsafe[0]
            r.cfg["trunc"] = True
            r.tags.add("skipped-unsafe-pcd")
            recs.append(r)
            if c.get("both_engines"):       # the pure-Python engine is still defined there
                fb_jobs.append({"kind": "surv", "F": c["F"], "case": {k: c[k] for k in ("cls", "metric", "n_survive", "F", "G", "H", "seed")}})
                fb_idx.append(len(recs) - 1)
            continue
        r = comp_surv.run(c)
        r.cfg["trunc"] = True
        recs.append(r)
        if c.get("both_engines"):
            fb_jobs.append({"kind": "surv", "F": c["F"], "case": {k: c[k] for k in ("cls", "metric", "n_survive", "F", "G", "H", "seed")}})
            fb_idx.append(len(recs) - 1)
    if fb_jobs:
        res = isolate.isolated_map(fb_jobs, fallback=True)
        for i, rr in zip(fb_idx, res):
            if rr is None or rr[0] != "ok":
                recs[i].out["fallback_surv"] = "worker: %r" % (rr,)
            else:
                recs[i].out["fallback_surv"] = None if rr[1] is None else [int(x) for x in rr[1]]
                if rr[2]:
                    recs[i].out["fallback_surv"] = "raised " + str(rr[2])
            recs[i].tags.add("both-engines")
    return recs


def run(case, replay=None):
    return run_batch([case])[0]


def encode(rec):
    if "skipped" in rec.cfg:
        raise ValueError("skipped")
    return comp_surv.encode(rec)


def compare(rec, ans):
    return comp_surv.compare(rec, ans)


def nontrivial(rec):
    return rec.err is None and "split-front" in rec.tags


def _split_fronts(rec):
    """(front positions, kept positions, crowding values, n_remove) of every front that was cut"""
    o = rec.out["oracles"]
    out = []
    if not o["nds"]:
        return out
    fronts = o["nds"][0][2]
    if rec.cfg.get("constr") and o["splits"]:
        feas = o["splits"][0][0]
        fronts = [[feas[i] for i in fr] for fr in fronts]     # positions within pop[feas] -> population
    S = [int(i) for i in rec.out["surv"]]
    for k, fr in enumerate(fronts):
        if k < len(o["crowd"]):
            nr, vals = o["crowd"][k]
            if nr > 0:
                kept = [i for i in fr if i in S]
                out.append((list(fr), kept, np.asarray(vals, dtype=float), int(nr)))
    return out


def oracle_C15(rec):
    if rec.err is not None:
        return ["survival raised: " + rec.err]
    F = rec.inp["F"]
    M = F.shape[1]
    label = rec.cfg["metric"]
    bad = []
    for fr, kept, vals, nr in ([] if "skipped" in rec.cfg else _split_fronts(rec)):
        FF = F[fr]
        k = len(kept)
        if k != len(fr) - nr:
            bad.append("split front of %d members: %d kept, expected %d" % (len(fr), k, len(fr) - nr))
            continue
        if k >= 2 * M and k >= 1:
            KF = F[kept]
            for m in range(M):
                if KF[:, m].min() != FF[:, m].min():
                    bad.append("%s: truncation to %d >= 2*%d members lost the front's minimum of objective %d" % (label, k, M, m))
                if KF[:, m].max() != FF[:, m].max():
                    bad.append("%s: truncation to %d >= 2*%d members lost the front's maximum of objective %d" % (label, k, M, m))
        dropped = sorted(set(fr) - set(kept))
        uniq = len(np.unique(FF, axis=0)) == len(FF)
        if label in ("pcd", "mnn", "2nn") and uniq and not comp_crowd.coordinate_ties(FF) and len(fr) > M \
                and nr <= len(fr) - M and not (label != "pcd" and len(fr) <= M):
            _, tie_free, removed = comp_crowd.ref_greedy(FF, label, nr + 1)
            if tie_free and len(removed) == nr:
                exp = sorted(fr[i] for i in removed)
                if exp != dropped:
                    bad.append("%s: dropped members %s differ from one-at-a-time pruning %s (front of %d, %d dropped)" % (
                        label, dropped, exp, len(fr), nr))
        if label in ("cd", "ce") and dropped and kept:
            pos = {p: i for i, p in enumerate(fr)}
            dv = max(vals[pos[i]] for i in dropped)
            kv = min(vals[pos[i]] for i in kept)
            if dv > kv:
                bad.append("%s: a dropped member has larger crowding (%r) than a kept one (%r)" % (label, dv, kv))
            if label == "cd" and uniq and len(fr) >= 3 and not comp_crowd.coordinate_ties(FF):
                X = comp_crowd.ref_normalize(FF)
                ref = comp_crowd.ref_pcd_values(X, list(range(len(fr))), M)
                rv = np.array([ref[i] for i in range(len(fr))])
                fin = ~np.isinf(rv)
                if (np.isinf(vals) != np.isinf(rv)).any() or not np.allclose(vals[fin], rv[fin], rtol=1e-7, atol=1e-12):
                    bad.append("cd: crowding values of the split front differ from the crowding-distance definition")
    # the same clauses for the pure-Python engine (the whole population is one front here)
    fb = rec.out.get("fallback_surv")
    if isinstance(fb, list) and rec.cfg.get("trunc") and len(F) > 0:
        k = len(fb)
        if k >= 2 * M:
            KF = F[fb]
            for m in range(M):
                if KF[:, m].min() != F[:, m].min() or KF[:, m].max() != F[:, m].max():
                    bad.append("%s (pure-Python engine): truncation to %d >= 2*%d members lost an extreme of objective %d" % (label, k, M, m))
                    break
        nr = len(F) - k
        uniq = len(np.unique(F, axis=0)) == len(F)
        if label in ("pcd", "mnn", "2nn") and uniq and not comp_crowd.coordinate_ties(F) and len(F) > M and 0 < nr <= len(F) - M:
            _, tie_free, removed = comp_crowd.ref_greedy(F, label, nr + 1)
            if tie_free and len(removed) == nr and sorted(removed) != sorted(set(range(len(F))) - set(fb)):
                bad.append("%s (pure-Python engine): dropped members differ from one-at-a-time pruning" % label)
    return bad[:5]


def oracle_C14(rec):
    if "skipped" in rec.cfg or rec.err is not None:
        return []
    fb = rec.out.get("fallback_surv")
    if fb is None:
        return []
    if isinstance(fb, str):
        return ["pure-Python engine: " + fb]
    mine = [int(i) for i in rec.out["surv"]]
    if sorted(fb) == sorted(mine):
        return []
    # ties up to rounding at some removal step may legitimately be resolved differently by the two engines
    F = rec.inp["F"]
    label = rec.cfg["metric"]
    if label in ("pcd", "mnn", "2nn") and rec.cfg.get("trunc") and len(F) > F.shape[1]:
        nr = len(F) - len(mine)
        if len(np.unique(F, axis=0)) < len(F) or comp_crowd.coordinate_ties(F):
            return []
        _, tie_free, _ = comp_crowd.ref_greedy(F, label, nr + 1)
        if not tie_free:
            return []
    # different sets are legitimate only when the cut goes through (near-)equal crowding values
    for fr, kept, vals, nr in _split_fronts(rec):
        pos = {p: i for i, p in enumerate(fr)}
        sv = np.sort(vals)[::-1]
        k = len(fr) - nr
        if 0 < k < len(fr):
            a, b = sv[k - 1], sv[k]
            if a == b or (np.isfinite(a) and np.isfinite(b) and abs(a - b) <= 1e-9 * max(1.0, abs(a))):
                return []
    return ["surviving set differs between the engines (same seed): compiled %s, pure-Python %s (%s)" % (
        sorted(mine), sorted(fb), rec.cfg["metric"])]


ORACLES = {"C15": oracle_C15, "C14": oracle_C14, "C03": comp_surv.oracle_C03, "C04": comp_surv.oracle_C04}
